# exec'ed by tools/extract_consts.py — C08/C14/C07: inventory of the PSET map structs and of what `merge` does with
# each field, re-read from the Rust source on every run, so that a field added to (or dropped from) a struct,
# or a field that `merge` stops handling, breaks a proof obligation (EV.Props.C14.source_*).
def _pset_fields_block():
    def struct_fields(rel, name):
        t = src(rel)
        body = one(r"pub\s+struct\s+%s\s*\{(.*?)\n\}" % name, t, "struct %s in %s" % (name, rel))
        body = re.sub(r"#\[[^\]]*\]", "", body)          # attributes
        fields = []
        for m in re.finditer(r"(?:pub(?:\([a-z]+\))?\s+)?([a-z_0-9]+)\s*:\s*([^\n]+?),\s*(?:\n|$)", body):
            fname, ty = m.group(1), m.group(2).strip()
            if ty.startswith("Option<"):
                kind = "opt"
            elif ty.startswith("BTreeMap<"):
                kind = "map"
            elif ty.startswith("Vec<"):
                kind = "vec"
            else:
                kind = "plain"
            fields.append((fname, kind))
        if not fields:
            die("no fields found in struct %s" % name)
        return fields

    def merge_ops(rel, impl_pat, what):
        t = src(rel)
        body = one(impl_pat, t, what)
        ops = []
        for m in re.finditer(r"merge!\(\s*([a-z_0-9]+)\s*,\s*self\s*,\s*other\s*\)", body):
            ops.append((m.group(1), "first"))
        for m in re.finditer(r"self\.([a-z_0-9]+)\.extend\(other\.([a-z_0-9]+)\)", body):
            if m.group(1) != m.group(2):
                die("%s: extend of different fields %s / %s" % (what, m.group(1), m.group(2)))
            ops.append((m.group(1), "extend"))
        for m in re.finditer(r"self\.([a-z_0-9.]+)\s*=\s*cmp::max\(\s*self\.([a-z_0-9.]+)\s*,\s*other\.([a-z_0-9.]+)\s*,?\s*\)", body):
            if not (m.group(1) == m.group(2) == m.group(3)):
                die("%s: cmp::max over different fields" % what)
            ops.append((m.group(1), "max"))
        return ops

    def lst(name, items):
        emit("def %s : List (String × String) := [%s]" % (name, ", ".join('("%s", "%s")' % x for x in items)))

    emit("/-- fields of `pset::Input` / `Output` / `Global` / `TxData` with their container kind, from the struct definitions -/")
    lst("psetInputFields", struct_fields("src/pset/map/input.rs", "Input"))
    lst("psetOutputFields", struct_fields("src/pset/map/output.rs", "Output"))
    lst("psetGlobalFields", struct_fields("src/pset/map/global.rs", "Global"))
    lst("psetTxDataFields", struct_fields("src/pset/map/global.rs", "TxData"))
    emit("/-- what `merge` does with which field (`first` = merge!, `extend` = BTreeMap::extend, `max` = cmp::max), from the function bodies -/")
    lst("psetInputMergeOps", merge_ops("src/pset/map/input.rs", r"impl\s+Map\s+for\s+Input\s*\{.*?fn\s+merge\s*\(&mut\s+self,\s*other:\s*Self\)[^{]*\{(.*?)\n    \}", "Input::merge"))
    lst("psetOutputMergeOps", merge_ops("src/pset/map/output.rs", r"impl\s+Map\s+for\s+Output\s*\{.*?fn\s+merge\s*\(&mut\s+self,\s*other:\s*Self\)[^{]*\{(.*?)\n    \}", "Output::merge"))
    lst("psetGlobalMergeOps", merge_ops("src/pset/map/global.rs", r"impl\s+Map\s+for\s+Global\s*\{.*?fn\s+merge\s*\(&mut\s+self,\s*other:\s*Self\)[^{]*\{(.*?)\n    \}", "Global::merge"))
    emit()
_pset_fields_block()
