# ---------------------------------------------------------------- C10: taproot slice limits (src/taproot.rs)
# (names carry a c10 prefix so that they cannot clash with another property's extraction block)
_c10_t = src("src/taproot.rs")
for _c10_rust, _c10_lean, _c10_ty in (
        ("TAPROOT_CONTROL_MAX_NODE_COUNT", "c10TaprootControlMaxNodeCount", "usize"),
        ("TAPROOT_CONTROL_NODE_SIZE", "c10TaprootControlNodeSize", "usize"),
        ("TAPROOT_LEAF_MASK", "c10TaprootLeafMask", "u8"),
        ("TAPROOT_LEAF_TAPSCRIPT", "c10TaprootLeafTapscript", "u8"),
        ("TAPROOT_CONTROL_BASE_SIZE", "c10TaprootControlBaseSize", "usize")):
    _c10_v = num(one(r"pub\s+const\s+%s\s*:\s*%s\s*=\s*([^;]+);" % (_c10_rust, _c10_ty), _c10_t, "taproot.rs " + _c10_rust))
    emit("def %s : Nat := %d" % (_c10_lean, _c10_v))
# the annex tag excluded by LeafVersion::from_u8 and the sighash bytes accepted by SchnorrSighashType::from_u8
_c10_lv = one(r"pub\s+fn\s+from_u8\s*\(\s*ver\s*:\s*u8\s*\)[^{]*\{(.*?)\n    \}", _c10_t, "LeafVersion::from_u8")
_c10_annex = num(one(r"ver\s*!=\s*(0x[0-9a-fA-F]+)", _c10_lv, "LeafVersion::from_u8 annex tag"))
emit("def c10AnnexTag : Nat := %d" % _c10_annex)
_c10_s = src("src/sighash.rs")
_c10_body = one(r"pub\s+fn\s+from_u8\s*\(\s*hash_ty\s*:\s*u8\s*\)\s*->\s*Option<Self>\s*\{(.*?)\n    \}", _c10_s, "SchnorrSighashType::from_u8")
_c10_vals = [num(x) for x in re.findall(r"(0x[0-9a-fA-F]+)\s*=>\s*Some", _c10_body)]
if not _c10_vals:
    die("SchnorrSighashType::from_u8: no accepted values found")
emit("def c10SchnorrSighashBytes : List Nat := [%s]" % ", ".join("0x%02x" % v for v in _c10_vals))
# MAX_VEC_SIZE is re-exported from rust-bitcoin: check that encode.rs still uses that guard
_c10_e = src("src/encode.rs")
if len(re.findall(r"MAX_VEC_SIZE", _c10_e)) < 4:
    die("encode.rs: MAX_VEC_SIZE guard of the vector decoders not found")
_c10_p = src("src/pset/mod.rs")
_c10_caps = [num(x) for x in re.findall(r"(?:inputs_len|outputs_len)\s*>\s*([0-9_]+)", _c10_p)]
if len(_c10_caps) != 2 or _c10_caps[0] != _c10_caps[1]:
    die("pset/mod.rs: input/output count caps not found")
emit("def c10PsetMaxMaps : Nat := %d" % _c10_caps[0])
emit()
