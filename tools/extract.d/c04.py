# ---------------------------------------------------------------- C04/C05: blinding constants
# (exec'ed by extract_consts.py; helpers: src, num, one, emit, die, re)
_bl = src("src/blind.rs")
emit("def c04RangeproofMinValue : Nat := %d" % num(one(r"pub\s+const\s+RANGEPROOF_MIN_VALUE\s*:\s*u64\s*=\s*([^;]+);", _bl, "TxOut::RANGEPROOF_MIN_VALUE")))
emit("def c04RangeproofExpShift : Nat := %d" % num(one(r"pub\s+const\s+RANGEPROOF_EXP_SHIFT\s*:\s*i32\s*=\s*([^;]+);", _bl, "TxOut::RANGEPROOF_EXP_SHIFT")))
emit("def c04RangeproofMinPrivBits : Nat := %d" % num(one(r"pub\s+const\s+RANGEPROOF_MIN_PRIV_BITS\s*:\s*u8\s*=\s*([^;]+);", _bl, "TxOut::RANGEPROOF_MIN_PRIV_BITS")))
_sc = src("src/script.rs")
emit("def c04MaxScriptSize : Nat := %d" % num(one(r"const\s+MAX_SCRIPT_SIZE\s*:\s*usize\s*=\s*([^;]+);", _sc, "script::MAX_SCRIPT_SIZE")))
_op = src("src/opcodes.rs")
for _n, _l in (("OP_RETURN", "c04OpReturn"), ("OP_DUP", "c04OpDup"), ("OP_HASH160", "c04OpHash160"), ("OP_EQUAL", "c04OpEqual"),
               ("OP_EQUALVERIFY", "c04OpEqualverify"), ("OP_CHECKSIG", "c04OpChecksig"), ("OP_PUSHNUM_1", "c04OpPushnum1"),
               ("OP_PUSHNUM_16", "c04OpPushnum16"), ("OP_PUSHBYTES_0", "c04OpPushbytes0"), ("OP_PUSHBYTES_2", "c04OpPushbytes2"),
               ("OP_PUSHBYTES_20", "c04OpPushbytes20"), ("OP_PUSHBYTES_32", "c04OpPushbytes32"), ("OP_PUSHBYTES_40", "c04OpPushbytes40")):
    emit("def %s : Nat := %d" % (_l, num(one(r"pub\s+const\s+%s\s*:\s*All\s*=\s*All\s*\{\s*code\s*:\s*([^}]+)\}" % _n, _op, "opcodes::all::" + _n))))
emit()
