# exec'ed by tools/extract_consts.py (helpers: src, num, one, emit, die, re, os, REPO).
# ---------------------------------------------------------------- pegged asset id (C11 extension): src/issuance.rs
# `AssetId::{LIQUID_BTC, LIQUIDTESTNET_BTC}`, the `match` of `AssetId::pegged_asset_id_for_network_params`
# (which network-id string gives which constant; which bitcoin network's chain hash the fall-through arm
# uses) and the literals of the private `pegged_asset_id_for_params_and_parent_chain_hash`.
# The parent chain hashes are NOT in /repo: they are the `ChainHash` constants of the `bitcoin` crate in the
# version /repo/Cargo.lock resolves to, read from the cargo registry source of that version
# (src/blockdata/constants.rs; `Network::chain_hash` -> `ChainHash::using_genesis_block_const`).
# Any other shape aborts.
def _pegged_block():
    import glob
    iss = src("src/issuance.rs")

    def bytelist(bs):
        return "[" + ", ".join(str(x) for x in bs) + "]"

    def arr32(text, pattern, what):
        body = one(pattern, text, what)
        v = [num(x) for x in body.split(",") if x.strip()]
        if len(v) != 32 or any(x < 0 or x > 255 for x in v):
            die("%s: expected 32 bytes" % what)
        return v

    emit("/- pegged asset id: src/issuance.rs (AssetId constants, pegged_asset_id_for_network_params) and the")
    emit("   ChainHash constants of the bitcoin crate resolved by /repo/Cargo.lock -/")

    # --- every `pub const X: AssetId` of `impl AssetId` (the model knows exactly these two)
    names = re.findall(r"pub\s+const\s+(\w+)\s*:\s*AssetId\s*=", iss)
    if sorted(names) != ["LIQUIDTESTNET_BTC", "LIQUID_BTC"]:
        die("issuance.rs: the set of AssetId constants changed: %r" % (names,))
    lean_of = {"LIQUID_BTC": "peggedLiquidBtc", "LIQUIDTESTNET_BTC": "peggedLiquidtestnetBtc"}
    for n in ("LIQUID_BTC", "LIQUIDTESTNET_BTC"):
        v = arr32(iss, r"pub\s+const\s+%s\s*:\s*AssetId\s*=\s*AssetId\(\s*\[(.*?)\]\s*\)\s*;" % n, "AssetId::" + n)
        emit("/-- `AssetId::%s` (in-memory byte order) -/" % n)
        emit("def %s : List Nat := %s" % (lean_of[n], bytelist(v)))

    # --- the match of pegged_asset_id_for_network_params
    body = one(r"pub\s+fn\s+pegged_asset_id_for_network_params\s*\(\s*params\s*:\s*&NetworkParams\s*\)\s*->\s*AssetId\s*\{(.*?)\n    \}",
               iss, "AssetId::pegged_asset_id_for_network_params")
    m = one(r"match\s+params\.network_id\.as_str\(\)\s*\{(.*)\}", body, "pegged_asset_id_for_network_params: match on network_id.as_str()")
    arms = re.findall(r'"((?:[^"\\]|\\.)*)"\s*=>\s*([^,]+?)\s*,', m)
    if any("\\" in s for s, _ in arms):
        die("pegged_asset_id_for_network_params: escape in a matched string literal")
    if [(t.strip()) for _, t in arms] != ["Self::LIQUID_BTC", "Self::LIQUIDTESTNET_BTC"]:
        die("pegged_asset_id_for_network_params: expected two string arms -> LIQUID_BTC, LIQUIDTESTNET_BTC (in this order), found %r" % (arms,))
    if len(re.findall(r"=>", m)) != 3:
        die("pegged_asset_id_for_network_params: expected exactly three match arms")
    if arms[0][0] == arms[1][0]:
        die("pegged_asset_id_for_network_params: the two string arms are equal")
    for (s, _), lean, c in zip(arms, ("peggedNetworkIdLiquidBtc", "peggedNetworkIdLiquidtestnetBtc"), ("LIQUID_BTC", "LIQUIDTESTNET_BTC")):
        emit('/-- the `network_id` string whose match arm returns `AssetId::%s`: "%s" (UTF-8 bytes) -/' % (c, s))
        emit("def %s : List Nat := %s" % (lean, bytelist(s.encode("utf-8"))))
    net = one(r"_\s*=>\s*\{\s*Self::pegged_asset_id_for_params_and_parent_chain_hash\(\s*params\s*,\s*bitcoin::Network::(\w+)\.chain_hash\(\)\s*,?\s*\)\s*\}",
              m, "pegged_asset_id_for_network_params: fall-through arm")

    # --- the private derivation
    pb = one(r"\n    fn\s+pegged_asset_id_for_params_and_parent_chain_hash\s*\(\s*params\s*:\s*&NetworkParams\s*,\s*parent_chainhash\s*:\s*bitcoin::blockdata::constants::ChainHash\s*\)\s*->\s*AssetId\s*\{(.*?)\n    \}",
             iss, "AssetId::pegged_asset_id_for_params_and_parent_chain_hash")
    one(r"let\s+commit\s*=\s*commit_to_custom_network_parameters\(\s*params\s*\)\s*;", pb, "pegged: commit = commit_to_custom_network_parameters(params)")
    emit("/-- output index of the outpoint `pegged_asset_id_for_params_and_parent_chain_hash` derives the asset from -/")
    emit("def peggedAssetVout : Nat := %d" % num(one(
        r"let\s+asset_outpoint\s*=\s*OutPoint::new\(\s*Txid::from_byte_array\(\s*commit\.to_byte_array\(\)\s*\)\s*,\s*([^)]+)\)\s*;", pb, "pegged: asset outpoint")))
    one(r"let\s+asset_entropy\s*=\s*AssetId::generate_asset_entropy\(\s*asset_outpoint\s*,\s*ContractHash::from_byte_array\(\s*\*parent_chainhash\.as_ref\(\)\s*\)\s*\)\s*;",
        pb, "pegged: entropy from (asset outpoint, parent chain hash as contract hash)")
    one(r";\s*AssetId::from_entropy\(\s*asset_entropy\s*\)\s*$", pb.rstrip(), "pegged: result = from_entropy(asset_entropy)")

    # --- the display string pinned by the crate's own test `liquid`
    disp = one(r"AssetId::LIQUID_BTC\.to_string\(\)\s*,\s*\"([0-9a-f]{64})\"", iss, "issuance.rs test `liquid`: LIQUID_BTC display string")
    emit("/-- the `Display` string of `AssetId::LIQUID_BTC` asserted by the crate's own test `issuance::test::liquid` -/")
    emit('def peggedLiquidBtcDisplay : String := "%s"' % disp)

    # --- bitcoin crate: version from /repo/Cargo.lock, source from the cargo registry
    try:
        lock = open(os.path.join(REPO, "Cargo.lock")).read()
    except OSError as e:
        die("cannot read Cargo.lock: %s" % e)
    vers = re.findall(r'\[\[package\]\]\s*\nname = "bitcoin"\s*\nversion = "([^"]+)"', lock)
    if len(vers) != 1:
        die("Cargo.lock: expected exactly one `bitcoin` package, found %r" % (vers,))
    ver = vers[0]
    home = os.environ.get("CARGO_HOME", os.path.join(os.path.expanduser("~"), ".cargo"))
    cands = sorted(glob.glob(os.path.join(home, "registry", "src", "*", "bitcoin-" + ver, "src", "blockdata", "constants.rs")))
    if not cands:
        die("bitcoin-%s: src/blockdata/constants.rs not found under %s/registry/src" % (ver, home))
    texts = {open(c).read() for c in cands}
    if len(texts) != 1:
        die("bitcoin-%s: several registry copies of constants.rs that differ" % ver)
    cpath = cands[0]
    bc = src(cpath)
    bn = src(os.path.join(os.path.dirname(os.path.dirname(cpath)), "network.rs"))
    # Network::chain_hash() is ChainHash::using_genesis_block_const(self)
    one(r"pub\s+fn\s+chain_hash\(\s*self\s*\)\s*->\s*ChainHash\s*\{\s*ChainHash::using_genesis_block_const\(\s*self\s*\)\s*\}", bn,
        "bitcoin network.rs: Network::chain_hash")
    ug = one(r"pub\s+const\s+fn\s+using_genesis_block_const\(\s*network\s*:\s*Network\s*\)\s*->\s*Self\s*\{\s*match\s+network\s*\{(.*?)\}\s*\}", bc,
             "bitcoin constants.rs: ChainHash::using_genesis_block_const")
    table = dict(re.findall(r"Network::(\w+)\s*=>\s*Self::(\w+)\s*,", ug))
    def chain_hash(network):
        if network not in table:
            die("bitcoin constants.rs: no chain hash arm for Network::%s" % network)
        c = table[network]
        return c, arr32(bc, r"pub\s+const\s+%s\s*:\s*Self\s*=\s*Self\(\s*\[(.*?)\]\s*\)\s*;" % c, "bitcoin ChainHash::" + c)
    emit("/-- version of the `bitcoin` crate in /repo/Cargo.lock the chain hashes below were read from -/")
    emit('def btcCrateVersion : String := "%s"' % ver)
    for network, lean in (("Bitcoin", "btcChainHashBitcoin"), ("Testnet", "btcChainHashTestnet"), ("Regtest", "btcChainHashRegtest")):
        c, v = chain_hash(network)
        emit("/-- `bitcoin::Network::%s.chain_hash()` = `ChainHash::%s` (bitcoin %s, src/blockdata/constants.rs) -/" % (network, c, ver))
        emit("def %s : List Nat := %s" % (lean, bytelist(v)))
    c, v = chain_hash(net)
    emit("/-- the parent chain hash of the fall-through arm of `pegged_asset_id_for_network_params`:")
    emit("    `bitcoin::Network::%s.chain_hash()` = `ChainHash::%s` -/" % (net, c))
    emit("def peggedParentChainHash : List Nat := %s" % bytelist(v))
    emit('def peggedParentNetwork : String := "%s"' % net)
    emit()
_pegged_block()
