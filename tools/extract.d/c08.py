# Extra constant extraction blocks, exec'ed by tools/extract_consts.py with helpers
# src(rel), num(tok), one(pattern, text, what), emit(line), die(msg), re.
# Each block must die() if an item is missing. Blocks are independent (one per property group).

# ---------------------------------------------------------------- lock time (src/locktime.rs) — C08
_lt = src("src/locktime.rs")
emit("/-- `LOCK_TIME_THRESHOLD`: below = block height, at or above = UNIX time (src/locktime.rs) -/")
emit("def lockTimeThreshold : Nat := %d" % num(one(r"pub\s+const\s+LOCK_TIME_THRESHOLD\s*:\s*u32\s*=\s*([^;]+);", _lt, "LOCK_TIME_THRESHOLD")))
emit()
