# exec'ed by tools/extract_consts.py (helpers: src, num, one, emit, die, re).
# Lock times (src/locktime.rs) and sequence numbers (src/transaction.rs `impl Sequence`) — model growth of C08:
# every literal the functions of `LockTime`, `Height`, `Time` and `Sequence` compare against or combine with.

def _locktime_block():
    lt = src("src/locktime.rs")
    emit("/- lock times (src/locktime.rs) and sequence numbers (src/transaction.rs): EV.Model.LockTime -/")
    emit("/-- `LOCK_TIME_THRESHOLD`: below = block height, at or above = UNIX time (src/locktime.rs) -/")
    emit("def lockTimeThreshold : Nat := %d" % num(one(r"pub\s+const\s+LOCK_TIME_THRESHOLD\s*:\s*u32\s*=\s*([^;]+);", lt, "LOCK_TIME_THRESHOLD")))
    # LockTime::ZERO and Height::ZERO
    var, ty, v = one(r"pub\s+const\s+ZERO\s*:\s*LockTime\s*=\s*LockTime::(\w+)\(\s*(\w+)\(\s*([^)]+?)\s*\)\s*\)\s*;", lt, "LockTime::ZERO")
    if (var, ty) not in (("Blocks", "Height"), ("Seconds", "Time")):
        die("LockTime::ZERO has an unexpected shape: %s(%s(..))" % (var, ty))
    emit("/-- `LockTime::ZERO` = `LockTime::%s(%s(%s))`: (is it the `Blocks` variant, inner value) -/" % (var, ty, v))
    emit("def lockTimeZero : Bool × Nat := (%s, %d)" % ("true" if var == "Blocks" else "false", num(v)))
    emit("def heightZero : Nat := %d" % num(one(r"pub\s+const\s+ZERO\s*:\s*Self\s*=\s*Height\(\s*([^)]+?)\s*\)\s*;", lt, "Height::ZERO")))
    # the two alternate `Display` formats of LockTime
    for var, lname in (("Blocks", "lockTimeAltHeight"), ("Seconds", "lockTimeAltTime")):
        fmt = one(r"Self::%s\(ref\s+\w+\)\s*=>\s*write!\(\s*f\s*,\s*\"([^\"]*)\"\s*,\s*\w+\s*\)" % var, lt, "alternate Display of LockTime::" + var)
        if fmt.count("{}") != 1 or "{" in fmt.replace("{}", "") or "\\" in fmt:
            die("alternate Display of LockTime::%s: unexpected format string %r" % (var, fmt))
        pre, post = fmt.split("{}")
        emit('def %sPrefix : String := "%s"' % (lname, pre))
        emit('def %sSuffix : String := "%s"' % (lname, post))
    emit()

    tx = src("src/transaction.rs")
    body = one(r"\nimpl\s+Sequence\s*\{(.*?)\n\}", tx, "impl Sequence")
    consts = {}
    for name, vis in (("MAX", "pub"), ("ZERO", "pub"), ("ENABLE_LOCKTIME_NO_RBF", "pub"), ("ENABLE_RBF_NO_LOCKTIME", "pub"), ("MIN_NO_RBF", "")):
        consts[name] = one(r"%s\s*const\s+%s\s*:\s*Self\s*=\s*([^;]+);" % (vis, name), body, "Sequence::" + name).strip()
    def lean_name(n):
        return "sequence" + "".join(w.capitalize() for w in n.split("_"))
    done = set()
    def emit_seq(name, depth=0):
        if name in done:
            return
        if depth > 4:
            die("Sequence::%s: alias cycle" % name)
        v = consts[name]
        m = re.fullmatch(r"Sequence\(\s*([^)]+?)\s*\)", v)
        if m:
            emit("def %s : Nat := 0x%x" % (lean_name(name), num(m.group(1))))
        else:
            m = re.fullmatch(r"Sequence::(\w+)", v)
            if not m or m.group(1) not in consts:
                die("Sequence::%s: unexpected initialiser %r" % (name, v))
            emit_seq(m.group(1), depth + 1)
            emit("/-- `Sequence::%s` is defined as `Sequence::%s` -/" % (name, m.group(1)))
            emit("def %s : Nat := %s" % (lean_name(name), lean_name(m.group(1))))
        done.add(name)
    for name in ("MAX", "ZERO", "MIN_NO_RBF", "ENABLE_LOCKTIME_NO_RBF", "ENABLE_RBF_NO_LOCKTIME"):
        emit_seq(name)
    for name in ("LOCK_TIME_DISABLE_FLAG_MASK", "LOCK_TYPE_MASK"):
        emit("def %s : Nat := 0x%x" % (lean_name(name), num(one(r"const\s+%s\s*:\s*u32\s*=\s*([^;]+);" % name, body, "Sequence::" + name))))
    # the granularity literals of from_seconds_floor / from_seconds_ceil (each function has its own literal)
    def fn_body(fn):
        return one(r"pub\s+fn\s+%s\s*\([^)]*\)[^{]*\{(.*?)\n    \}" % fn, body, "Sequence::" + fn)
    emit("/-- the divisor in `Sequence::from_seconds_floor`: `seconds / N` -/")
    emit("def sequenceFloorGranularity : Nat := %d" % num(one(r"u16::try_from\(\s*seconds\s*/\s*(\w+)\s*\)", fn_body("from_seconds_floor"), "divisor of from_seconds_floor")))
    emit("/-- the divisor in `Sequence::from_seconds_ceil`: `seconds.div_ceil(N)` -/")
    emit("def sequenceCeilGranularity : Nat := %d" % num(one(r"u16::try_from\(\s*seconds\s*\.\s*div_ceil\(\s*(\w+)\s*\)\s*\)", fn_body("from_seconds_ceil"), "divisor of from_seconds_ceil")))
    # Default for Sequence
    d = one(r"impl\s+Default\s+for\s+Sequence\s*\{.*?fn\s+default\(\)\s*->\s*Self\s*\{\s*Sequence::(\w+)\s*\}", tx, "Default for Sequence")
    if d not in consts:
        die("Default for Sequence: unexpected value Sequence::%s" % d)
    emit("/-- `Sequence::default()` = `Sequence::%s` -/" % d)
    emit("def sequenceDefault : Nat := %s" % lean_name(d))
    emit()
_locktime_block()
