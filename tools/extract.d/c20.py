# C20 extraction block (tools/extract.d/c20.py), exec'ed by tools/extract_consts.py with the helpers
# src(rel), num(tok), one(pattern, text, what), emit(line), die(msg), re.
# Each block must `die` if an expected item is missing. Blocks are independent (one per property).

# ---------------------------------------------------------------- C20: textual forms (lock time threshold, sighash names)
def _c20():
    lt = src("src/locktime.rs")
    thr = num(one(r"pub\s+const\s+LOCK_TIME_THRESHOLD\s*:\s*u32\s*=\s*([^;]+);", lt, "LOCK_TIME_THRESHOLD"))
    emit("/-- C20: `LOCK_TIME_THRESHOLD` (src/locktime.rs) -/")
    emit("def lockTimeThreshold : Nat := %d" % thr)

    def enum_table(text, ename, what):
        body = one(r"pub\s+enum\s+%s\s*\{(.*?)\n\}" % ename, text, "enum " + what)
        vs = re.findall(r"^\s*([A-Za-z0-9_]+)\s*=\s*(0x[0-9a-fA-F]+|\d+)\s*,", body, re.M)
        if not vs:
            die("enum %s: no discriminants found" % what)
        return [(n, num(v)) for n, v in vs]

    def display_table(text, ename, what):
        body = one(r"impl\s+(?:fmt::|std::fmt::)?Display\s+for\s+%s\s*\{(.*?)\n\}" % ename, text, "Display for " + what)
        arms = re.findall(r"%s::([A-Za-z0-9_]+)\s*=>\s*\"([^\"]*)\"" % ename, body)
        if not arms:
            die("Display for %s: no arms found" % what)
        return arms

    def fromstr_table(text, ename, what):
        body = one(r"impl\s+(?:std::)?(?:str::)?FromStr\s+for\s+%s\s*\{(.*?)\n\}" % ename, text, "FromStr for " + what)
        arms = re.findall(r"\"([^\"]*)\"\s*=>\s*Ok\(\s*%s::([A-Za-z0-9_]+)\s*\)" % ename, body)
        if not arms:
            die("FromStr for %s: no arms found" % what)
        return arms

    def lean_str(s):
        return '"' + s.replace("\\", "\\\\").replace('"', '\\"') + '"'

    for (rel, ename, lname) in (("src/transaction.rs", "EcdsaSighashType", "ecdsaSighash"), ("src/sighash.rs", "SchnorrSighashType", "schnorrSighash")):
        t = src(rel)
        vals = enum_table(t, ename, ename)
        disp = dict(display_table(t, ename, ename))
        frm = fromstr_table(t, ename, ename)
        vmap = dict(vals)
        for n, _ in vals:
            if n not in disp:
                die("Display for %s has no arm for variant %s" % (ename, n))
        for s, n in frm:
            if n not in vmap:
                die("FromStr for %s names an unknown variant %s" % (ename, n))
        emit("/-- C20: discriminants of `%s` and the strings of its `Display` impl (%s) -/" % (ename, rel))
        emit("def %sDisplay : List (Nat × String) := [%s]" % (lname, ", ".join("(0x%x, %s)" % (v, lean_str(disp[n])) for n, v in vals)))
        emit("/-- C20: the arms of `FromStr for %s`: accepted string ↦ discriminant -/" % ename)
        emit("def %sParse : List (String × Nat) := [%s]" % (lname, ", ".join("(%s, 0x%x)" % (lean_str(s), vmap[n]) for s, n in frm)))

    # `SchnorrSighashType::from_u8`: which bytes name a variant (used by `PsbtSighashType`'s Display)
    sh = src("src/sighash.rs")
    vmap = dict(enum_table(sh, "SchnorrSighashType", "SchnorrSighashType"))
    body = one(r"pub\s+fn\s+from_u8\s*\(\s*hash_ty\s*:\s*u8\s*\)\s*->\s*Option<Self>\s*\{(.*?)\n    \}", sh, "SchnorrSighashType::from_u8")
    arms = re.findall(r"(0x[0-9a-fA-F]+|\d+)\s*=>\s*Some\(\s*SchnorrSighashType::([A-Za-z0-9_]+)\s*\)", body)
    if not arms:
        die("SchnorrSighashType::from_u8: no arms found")
    for _, n in arms:
        if n not in vmap:
            die("SchnorrSighashType::from_u8 names an unknown variant " + n)
    emit("/-- C20: `SchnorrSighashType::from_u8`: byte ↦ discriminant of the variant it names (all other bytes: `None`) -/")
    emit("def schnorrSighashFromU8 : List (Nat × Nat) := [%s]" % ", ".join("(0x%x, 0x%x)" % (num(b), vmap[n]) for b, n in arms))
    if "Reserved" not in vmap:
        die("SchnorrSighashType::Reserved not found")
    emit("/-- C20: discriminant of `SchnorrSighashType::Reserved` (special-cased by `PsbtSighashType`) -/")
    emit("def schnorrSighashReserved : Nat := 0x%x" % vmap["Reserved"])

    tx = src("src/transaction.rs")
    pre = one(r"impl\s+fmt::Display\s+for\s+OutPoint\s*\{.*?f\.write_str\(\s*\"([^\"]*)\"\s*\)", tx, "OutPoint Display prefix")
    pre2 = one(r"impl\s+::std::str::FromStr\s+for\s+OutPoint\s*\{.*?s\.starts_with\(\s*\"([^\"]*)\"\s*\)", tx, "OutPoint FromStr prefix")
    cut = num(one(r"impl\s+::std::str::FromStr\s+for\s+OutPoint\s*\{.*?s\s*=\s*&s\[\s*(\d+)\s*\.\.\s*\]", tx, "OutPoint FromStr prefix length"))
    emit("/-- C20: the prefix written by `Display for OutPoint`, the prefix tested by `FromStr`, and the number of bytes it cuts -/")
    emit("def outPointDisplayPrefix : String := %s" % lean_str(pre))
    emit("def outPointParsePrefix : String := %s" % lean_str(pre2))
    emit("def outPointParseCut : Nat := %d" % cut)
    emit()

_c20()
