# exec'ed by tools/extract_consts.py (helpers: src, num, one, emit, die, re).
# ---------------------------------------------------------------- C16 (model growth): opcode tables and asm text
# From src/opcodes.rs: every `pub const OP_*` of `mod all`, the `Debug for All` match (evaluated arm by arm,
# first match wins, for each of the 256 bytes -> name table), the `All::classify` match (evaluated the same way
# for both contexts -> two classification tables; the last arm `Ordinary::try_from_all(self).unwrap()` is a
# panic for bytes outside the `ordinary_opcode!` list), the `ordinary_opcode!` list.
# From src/script.rs: the literal strings `fmt_asm` and `Debug for Script` write.
def _opcodes_block():
    o = src("src/opcodes.rs")

    # ---- the constants
    consts = re.findall(r"pub\s+const\s+(OP_\w+)\s*:\s*All\s*=\s*All\s*\{\s*code\s*:\s*([^}]+?)\s*\}\s*;", o)
    code = {}
    for n, v in consts:
        if n in code:
            die("opcodes::all::%s defined twice" % n)
        code[n] = num(v)
        if not 0 <= code[n] <= 255:
            die("opcode %s out of range" % n)
    by_code = {}
    for n, v in code.items():
        if v in by_code:
            die("opcodes %s and %s share the code %d" % (n, by_code[v], v))
        by_code[v] = n
    if sorted(by_code) != list(range(256)):
        die("mod all does not define exactly one constant per byte value (%d found)" % len(by_code))

    def lname(n):
        return "op" + "".join(p.capitalize() for p in n[3:].lower().split("_"))

    # text is emitted as `List Char` (kernel evaluation of `String.toList` is slow; the theorems evaluate the tables)
    def chars(t):
        for ch in t:
            if not re.fullmatch(r"[A-Za-z0-9_<>() ]", ch):
                die("unexpected character %r in a string literal of the source" % ch)
        return "[" + ", ".join("'%s'" % ch for ch in t) + "]"

    emit("/- C16 (opcodes): all 256 opcode bytes of src/opcodes.rs `pub mod all` -/")
    for v in range(256):
        emit("def %s : UInt8 := 0x%02x" % (lname(by_code[v]), v))
    emit("/-- identifier of the constant of each byte value (index = code), as characters -/")
    emit("def opConstNames : List (List Char) := [%s]" % ", ".join(chars(by_code[v]) for v in range(256)))

    # ---- expression evaluation (the few integer/boolean forms that occur in guards and arguments)
    def subst(e, var_names):
        e = e.strip()
        e = re.sub(r"\b(?:all::)?(OP_\w+)\.code\b", lambda m: str(code[m.group(1)]) if m.group(1) in code else die("unknown opcode %s" % m.group(1)), e)
        e = re.sub(r"\b(?:i32|u32|i64|u64|usize)::from\(", "(", e)
        for vn in var_names:
            e = re.sub(r"\b%s\b" % re.escape(vn), "c", e)
        e = e.replace("&&", " and ").replace("||", " or ")
        if not re.fullmatch(r"(?:[0-9\s<>=+\-()]|==|\bc\b|\band\b|\bor\b)*", e):
            die("unsupported expression in opcodes.rs: %r" % e)
        return e

    def ev(e, c):
        try:
            return eval(e, {"__builtins__": {}}, {"c": c})
        except Exception as ex:
            die("cannot evaluate %r: %s" % (e, ex))

    # ---- Debug for All -> name table
    body = one(r"impl\s+fmt::Debug\s+for\s+All\s*\{(.*?)\n\}", o, "impl Debug for All")
    prefix = one(r'f\.write_str\(\s*"([^"]*)"\s*\)\s*\?\s*;', body, "Debug for All: prefix write_str")
    mbody = one(r"match\s+\*self\s*\{(.*)\n\s*\}\s*\n\s*\}\s*$", body, "Debug for All: match *self")
    arms = []
    for line in mbody.split("\n"):
        line = line.strip()
        if not line:
            continue
        m = re.fullmatch(r'(.+?)\s*=>\s*write!\(\s*f\s*,\s*"([^"{}]*(?:\{\}[^"{}]*)?)"\s*(?:,\s*(.+?))?\s*\)\s*,?', line)
        if not m:
            die("Debug for All: unparsed arm %r" % line)
        pat, fmt, arg = m.group(1), m.group(2), m.group(3)
        if ("{}" in fmt) != (arg is not None):
            die("Debug for All: format/argument mismatch in %r" % line)
        pm = re.fullmatch(r"all::(OP_\w+)", pat)
        if pm:
            if pm.group(1) not in code:
                die("Debug for All: unknown constant %s" % pm.group(1))
            cond = "c == %d" % code[pm.group(1)]
        else:
            pm = re.fullmatch(r"All\s*\{\s*code\s*:\s*(\w+)\s*\}(?:\s+if\s+(.+))?", pat)
            if not pm:
                die("Debug for All: unparsed pattern %r" % pat)
            cond = subst(pm.group(2), [pm.group(1)]) if pm.group(2) else "0 == 0"
        var = re.fullmatch(r"All\s*\{\s*code\s*:\s*(\w+)\s*\}.*", pat)
        names = ["self.code"] + ([var.group(1)] if var else [])
        argx = None
        if arg is not None:
            a = arg.replace("self.code", "c")
            argx = subst(a, names[1:])
        arms.append((cond, fmt, argx))
    table = []
    for c in range(256):
        for cond, fmt, argx in arms:
            if ev(cond, c):
                v = ev(argx, c) if argx is not None else None
                if v is not None and not 0 <= v <= 255:
                    die("Debug for All: u8 arithmetic leaves 0..255 for code %d" % c)
                table.append(prefix + (fmt.replace("{}", str(v)) if v is not None else fmt))
                break
        else:
            die("Debug for All: no arm matches code %d" % c)
    for t in table:
        if not re.fullmatch(r"[A-Za-z0-9_]+", t):
            die("opcode name with unexpected characters: %r" % t)
    dbody = one(r"impl\s+fmt::Display\s+for\s+All\s*\{(.*?)\n\}", o, "impl Display for All")
    if not re.search(r"fmt::Debug::fmt\(\s*self\s*,\s*f\s*\)", dbody):
        die("Display for All no longer forwards to Debug")
    emit("/-- `{:?}` / `{}` of `opcodes::All` for each byte value (index = code), as characters: the `Debug for All` match")
    emit("    evaluated arm by arm (0x00 \"%s\", 0x4c \"%s\", 0x51 \"%s\", 0xb1 \"%s\", 0xbb \"%s\", 0xff \"%s\") -/" % tuple(table[i] for i in (0, 0x4c, 0x51, 0xb1, 0xbb, 0xff)))
    emit("def opNameTable : List (List Char) := [%s]" % ", ".join(chars(t) for t in table))

    # ---- ordinary_opcode! list
    mac = one(r"macro_rules!\s*ordinary_opcode\s*\{(.*?)\n\}", o, "macro_rules! ordinary_opcode")
    if not re.search(r"\$\(\s*\$op\s*=\s*all::\$op\.code\s*\),\*", mac):
        die("ordinary_opcode!: the enum discriminant is no longer all::$op.code")
    if not re.search(r"\$\(\s*all::\$op\s*=>\s*\{\s*Some\(Ordinary::\$op\)\s*\}\s*\),\*\s*_\s*=>\s*None", mac):
        die("ordinary_opcode!: try_from_all has an unexpected shape")
    inv = one(r"\n\s*ordinary_opcode!\s*\{([^}]*)\}", o, "ordinary_opcode! invocation")
    ords = [x.strip() for x in inv.split(",") if x.strip()]
    for n in ords:
        if n not in code:
            die("ordinary_opcode!: unknown opcode %s" % n)
    if len(set(ords)) != len(ords):
        die("ordinary_opcode!: duplicate entry")
    ordset = set(code[n] for n in ords)
    emit("/-- the `ordinary_opcode!` list (`Ordinary::try_from_all` is `Some` exactly on these), in source order -/")
    emit("def ordinaryOpcodes : List UInt8 := [%s]" % ", ".join("0x%02x" % code[n] for n in ords))

    # ---- All::classify -> two tables of (kind, argument)
    #      kind: 0 PushNum(arg) 1 PushBytes(arg) 2 ReturnOp 3 SuccessOp 4 IllegalOp 5 NoOp 6 Ordinary(arg = code)
    #            7 = the `.unwrap()` of the last arm panics (try_from_all is None)
    cbody = one(r"pub\s+fn\s+classify\s*\(\s*self\s*,\s*ctx\s*:\s*ClassifyContext\s*\)\s*->\s*Class\s*\{(.*?)\n    \}", o, "All::classify")
    mb = one(r"match\s*\(\s*self\s*,\s*ctx\s*\)\s*\{(.*)\}\s*$", cbody, "classify: match (self, ctx)")
    starts = [m.start() for m in re.finditer(r"(?m)^\s*\(\s*(?:OP_\w+(?:\s*\|\s*OP_\w+)*|op|_)\s*(?:,|\|)", mb)]
    if not starts or mb[:starts[0]].strip():
        die("classify: unexpected text before the first arm")
    kinds = {"ReturnOp": 2, "SuccessOp": 3, "IllegalOp": 4, "NoOp": 5}
    carms = []
    for i, st in enumerate(starts):
        arm = mb[st:(starts[i + 1] if i + 1 < len(starts) else len(mb))].strip()
        m = re.fullmatch(r"\(\s*(.*?)\s*,\s*(_|ClassifyContext::\w+)\s*\)\s*(?:if\s+(.*?))?\s*=>\s*(.*?)\s*,?", arm, re.S)
        if not m:
            die("classify: unparsed arm %r" % arm)
        pat, cx, guard, res = m.groups()
        pat = " ".join(pat.split())
        if pat in ("op", "_"):
            pcond = "0 == 0"
        else:
            ns = [x.strip() for x in pat.split("|")]
            for n in ns:
                if n not in code:
                    die("classify: unknown opcode %r in pattern" % n)
            pcond = " or ".join("c == %d" % code[n] for n in ns)
        if cx == "_":
            ctxs = ("Legacy", "TapScript")
        else:
            ctxs = (cx.split("::")[1],)
            if ctxs[0] not in ("Legacy", "TapScript"):
                die("classify: unknown context %s" % cx)
        gcond = subst(" ".join(guard.split()), ["op.code"]) if guard else "0 == 0"
        gcond = gcond.replace("c.code", "c")
        res = " ".join(res.split())
        bm = re.fullmatch(r"\{\s*(.*?)\s*\}", res)
        if bm:
            res = bm.group(1)
        rm = re.fullmatch(r"Class::(\w+)(?:\((.*)\))?", res)
        if not rm:
            die("classify: unparsed result %r" % res)
        k, a = rm.groups()
        if k in kinds and a is None:
            result = (kinds[k], None)
        elif k == "PushNum" and a is not None:
            result = (0, subst(a.replace("self.code", "c"), []))
        elif k == "PushBytes" and a is not None:
            result = (1, subst(a.replace("self.code", "c"), []))
        elif k == "Ordinary" and a is not None and re.fullmatch(r"Ordinary::try_from_all\(\s*self\s*\)\.unwrap\(\)", a):
            result = (6, "c")
        else:
            die("classify: unsupported result %r" % res)
        carms.append((pcond, ctxs, gcond, result))
    # `subst` turned `op.code` into `c.code` for the variable `op`: handled above; make sure nothing else is left
    for pcond, ctxs, gcond, result in carms:
        if "code" in gcond:
            die("classify: unresolved guard %r" % gcond)
    for ctx, lean in (("Legacy", "opClassLegacyTable"), ("TapScript", "opClassTapscriptTable")):
        rows = []
        for c in range(256):
            for pcond, ctxs, gcond, (k, a) in carms:
                if ctx in ctxs and ev(pcond, c) and ev(gcond, c):
                    if k == 6:
                        rows.append((6, c) if c in ordset else (7, 0))
                    else:
                        rows.append((k, ev(a, c) if a is not None else 0))
                    break
            else:
                die("classify: no arm matches code %d in %s" % (c, ctx))
        emit("/-- `All::classify(ClassifyContext::%s)` for each byte value (index = code) as (kind, argument): kind 0 PushNum, 1 PushBytes," % ctx)
        emit("    2 ReturnOp, 3 SuccessOp, 4 IllegalOp, 5 NoOp, 6 Ordinary (argument = the `Ordinary` discriminant), 7 = `unwrap()` on `None` panics -/")
        emit("def %s : List (Nat × Int) := [%s]" % (lean, ", ".join("(%d, %d)" % r for r in rows)))

    # ---- src/script.rs: the literal strings of fmt_asm and of Debug for Script
    s = src("src/script.rs")
    fa = one(r"pub\s+fn\s+fmt_asm\s*\(.*?\)\s*->\s*fmt::Result\s*\{(.*?)\n    \}", s, "Script::fmt_asm")
    lits = re.findall(r'f\.write_str\(\s*"([^"]*)"\s*\)', fa)
    want = {"<unexpected end>": 3, "<bad length>": 3, "<push past end>": 1, " ": 2, "OP_0": 1}
    got = {}
    for l in lits:
        got[l] = got.get(l, 0) + 1
    markers = sorted(l for l in got if l.startswith("<"))
    if len(markers) != 3 or got != {**{m: got[m] for m in markers}, " ": 2, **{l: 1 for l in got if l.startswith("OP_")}} or \
       sorted(got[m] for m in markers) != [1, 3, 3] or len([l for l in got if l.startswith("OP_")]) != 1:
        die("fmt_asm: unexpected set of write_str literals %r (expected the shape of %r)" % (got, want))
    ue = one(r'if\s+self\.0\.len\(\)\s*<\s*index\s*\+\s*1\s*\{\s*f\.write_str\(\s*"([^"]*)"\s*\)', fa, "fmt_asm: marker for a missing PUSHDATA1 length")
    for k in (2, 4):
        if one(r'if\s+self\.0\.len\(\)\s*<\s*index\s*\+\s*%d\s*\{\s*f\.write_str\(\s*"([^"]*)"\s*\)' % k, fa, "fmt_asm: marker for a missing PUSHDATA%d length" % k) != ue:
            die("fmt_asm: the PUSHDATA widths no longer share one 'unexpected end' marker")
    bl = set(re.findall(r'\}\s*else\s*\{\s*f\.write_str\(\s*"([^"]*)"\s*\)\s*\?\s*;\s*break\s*;\s*\}\s*\}', fa))
    ppe = one(r'index\s*\+\s*data_len\s*<=\s*self\.0\.len\(\)\s*\{.*?\}\s*else\s*\{\s*f\.write_str\(\s*"([^"]*)"\s*\)', fa, "fmt_asm: marker for a push past the end")
    bl.discard(ppe)
    if len(bl) != 1:
        die("fmt_asm: cannot identify the 'bad length' marker (%r)" % sorted(bl))
    op0 = one(r'if\s+opcode\s*==\s*opcodes::all::OP_PUSHBYTES_0\s*\{\s*f\.write_str\(\s*"([^"]*)"\s*\)', fa, "fmt_asm: text of OP_PUSHBYTES_0")
    if not re.search(r'else\s*\{\s*write!\(\s*f\s*,\s*"\{:\?\}"\s*,\s*opcode\s*\)', fa):
        die("fmt_asm: other opcodes are no longer written with {:?}")
    if not re.search(r'if\s+index\s*>\s*1\s*\{\s*f\.write_str\(\s*" "\s*\)', fa):
        die("fmt_asm: the separator rule `if index > 1` changed")
    if not re.search(r'write!\(\s*f\s*,\s*"\{:02x\}"\s*,\s*ch\s*\)', fa):
        die("fmt_asm: push data is no longer written as {:02x}")
    db = one(r"impl\s+fmt::Debug\s+for\s+Script\s*\{(.*?)\n\}", s, "impl Debug for Script")
    dm = re.search(r'f\.write_str\(\s*"([^"]*)"\s*\)\s*\?\s*;\s*self\.fmt_asm\(\s*f\s*\)\s*\?\s*;\s*f\.write_str\(\s*"([^"]*)"\s*\)', db)
    if not dm:
        die("Debug for Script has an unexpected shape")
    if not re.search(r"fmt::Debug::fmt\(\s*self\s*,\s*f\s*\)", one(r"impl\s+fmt::Display\s+for\s+Script\s*\{(.*?)\n\}", s, "impl Display for Script")):
        die("Display for Script no longer forwards to Debug")
    if not re.search(r'"\{:02x\}"', one(r"impl\s+fmt::LowerHex\s+for\s+Script\s*\{(.*?)\n\}", s, "impl LowerHex for Script")):
        die("LowerHex for Script is no longer {:02x} per byte")
    if not re.search(r'"\{:02X\}"', one(r"impl\s+fmt::UpperHex\s+for\s+Script\s*\{(.*?)\n\}", s, "impl UpperHex for Script")):
        die("UpperHex for Script is no longer {:02X} per byte")
    for l in (ue, ppe, op0, dm.group(1), dm.group(2)) + tuple(bl):
        if '"' in l or "\\" in l:
            die("unexpected character in a fmt_asm literal: %r" % l)
    emit("/- C16 (asm): the literal strings of `Script::fmt_asm` and `Debug for Script` (src/script.rs) -/")
    for nm, lit in (("asmOp0", op0), ("asmUnexpectedEnd", ue), ("asmBadLength", list(bl)[0]), ("asmPushPastEnd", ppe),
                    ("scriptDebugOpen", dm.group(1)), ("scriptDebugClose", dm.group(2))):
        emit('/-- "%s" -/' % lit)
        emit("def %s : List Char := %s" % (nm, chars(lit)))
    emit()
_opcodes_block()
