# exec'ed by tools/extract_consts.py (helpers: src, num, one, emit, die, re).
# Each property appends its own self-contained block; a block must `die` if an item is missing.

# ---------------------------------------------------------------- C16: script opcodes (src/opcodes.rs, src/script.rs)
def _c16_block():
    o = src("src/opcodes.rs")
    names = [
        "OP_PUSHBYTES_0", "OP_PUSHBYTES_2", "OP_PUSHBYTES_20", "OP_PUSHBYTES_32", "OP_PUSHBYTES_33",
        "OP_PUSHBYTES_40", "OP_PUSHBYTES_65", "OP_PUSHBYTES_75",
        "OP_PUSHDATA1", "OP_PUSHDATA2", "OP_PUSHDATA4",
        "OP_PUSHNUM_NEG1", "OP_PUSHNUM_1", "OP_PUSHNUM_16",
        "OP_VERIFY", "OP_RETURN", "OP_DUP", "OP_EQUAL", "OP_EQUALVERIFY",
        "OP_NUMEQUAL", "OP_NUMEQUALVERIFY", "OP_HASH160",
        "OP_CHECKSIG", "OP_CHECKSIGVERIFY", "OP_CHECKMULTISIG", "OP_CHECKMULTISIGVERIFY",
        "OP_CHECKSIGFROMSTACK", "OP_CHECKSIGFROMSTACKVERIFY",
    ]
    emit("/- C16: opcode bytes (src/opcodes.rs `pub mod all`) and the script size limit (src/script.rs) -/")
    for n in names:
        v = num(one(r"pub\s+const\s+%s\s*:\s*All\s*=\s*All\s*\{\s*code\s*:\s*([^}]+?)\s*\}\s*;" % n, o, "opcodes::all::" + n))
        if not 0 <= v <= 255:
            die("opcode %s out of range" % n)
        parts = n[3:].lower().split("_")
        lname = "op" + "".join(p.capitalize() for p in parts)
        emit("def %s : UInt8 := 0x%02x" % (lname, v))
    # OP_FALSE / OP_TRUE aliases used by Builder::push_int
    if one(r"pub\s+static\s+OP_FALSE\s*:\s*All\s*=\s*all::(\w+)\s*;", o, "OP_FALSE") != "OP_PUSHBYTES_0":
        die("OP_FALSE is no longer OP_PUSHBYTES_0")
    if one(r"pub\s+static\s+OP_TRUE\s*:\s*All\s*=\s*all::(\w+)\s*;", o, "OP_TRUE") != "OP_PUSHNUM_1":
        die("OP_TRUE is no longer OP_PUSHNUM_1")
    s = src("src/script.rs")
    emit("def maxScriptSize : Nat := %d" % num(one(r"const\s+MAX_SCRIPT_SIZE\s*:\s*usize\s*=\s*([^;]+);", s, "MAX_SCRIPT_SIZE")))
    emit()
_c16_block()
