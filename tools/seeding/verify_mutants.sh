#!/bin/bash
# usage: verify_mutants.sh <prop>...   verifies /tmp/mut_<prop>_out/m*/ in worktree /tmp/mut_<prop>
export CARGO_TARGET_DIR=/tmp/mut_target CARGO_NET_OFFLINE=true
WAVE=$1; shift
for P in "$@"; do
  W=/tmp/mut${WAVE}_$P
  for M in /tmp/mut${WAVE}_${P}_out/m*; do
    m=$(basename $M)
    git -C $W checkout -q -- . ; rm -f $W/tests/demo_*.rs
    feat=""; grep -q "features serde" $M/meta.json && feat="--features serde"; grep -q "serde base64" $M/meta.json && feat="--features serde,base64"
    cp $M/demo.rs $W/tests/demo_${P}_$m.rs
    # (c) demo passes without the mutant
    (cd $W && cargo test --offline $feat --test demo_${P}_$m > /tmp/mut${WAVE}log_${P}_${m}_clean.txt 2>&1); c=$?
    git -C $W apply $M/patch.diff || { echo "$P $m PATCH-FAILED"; continue; }
    (cd $W && cargo test --offline --lib > /tmp/mut${WAVE}log_${P}_${m}_lib.txt 2>&1); a=$?
    (cd $W && cargo test --offline $feat --test demo_${P}_$m > /tmp/mut${WAVE}log_${P}_${m}_mut.txt 2>&1); b=$?
    libn=$(grep -o "[0-9]* passed" /tmp/mut${WAVE}log_${P}_${m}_lib.txt | head -1)
    echo "$P $m lib_rc=$a ($libn) demo_with_mutant_rc=$b demo_clean_rc=$c"
    git -C $W checkout -q -- . ; rm -f $W/tests/demo_*.rs
  done
done
