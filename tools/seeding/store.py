import json, os, shutil, sys
wave=sys.argv[1]; log=sys.argv[2]
for l in open(log).read().splitlines():
    parts=l.split()
    if len(parts)<3: continue
    P,m=parts[0],parts[1]
    good=('lib_rc=0' in l and 'demo_with_mutant_rc=101' in l and 'demo_clean_rc=0' in l)
    dst='/verif/seeded/%s-w%s%s'%(P,wave,m)
    if os.path.exists(dst): continue
    if not good: print("NOT KEPT",l); continue
    src='/tmp/mut%s_%s_out/%s'%(wave,P,m)
    os.makedirs(dst,exist_ok=True)
    shutil.copy(src+'/patch.diff',dst+'/patch.diff'); shutil.copy(src+'/demo.rs',dst+'/demo.rs')
    meta=json.load(open(src+'/meta.json')); meta['property']=P; meta['wave']=int(wave)
    meta['confirmed_by_owner']={'what_i_ran':'scratch worktree /tmp/mut<wave>_%s: (c) demo passes on clean tree; git apply patch.diff; (a) cargo test --offline --lib: 85 passed; (b) demo test fails (exit 101)'%P,'log_line':l}
    json.dump(meta,open(dst+'/meta.json','w'),indent=1)
    print("kept",dst)
