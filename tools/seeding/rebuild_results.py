#!/usr/bin/env python3
"""rebuild_results.py <out.log>...: rewrite seeded/RESULTS.md from (a) seeded/first_evaluation.json (the verdict each
seeded change got the FIRST time the quick check was run against it) and (b) the output lines of a full re-evaluation
(`tools/seeded.py --tier quick --only <id>` for every id, run on private copies by tools/seeding/mkseedrun.sh)."""
import json, os, re, sys, time
V = os.path.dirname(os.path.dirname(os.path.dirname(os.path.abspath(__file__))))
first = json.load(open(os.path.join(V, "seeded", "first_evaluation.json")))
final = {}
for f in sys.argv[1:]:
    for l in open(f):
        p = [x.strip() for x in l.split("|")]
        if len(p) >= 5 and re.match(r"C\d+-(w\d+)?m\d+$", p[0]):
            how = re.sub(r"/tmp/seedrun\d+/verif/", "", p[4])
            final[p[0]] = (p[1], p[2], p[3], how[:220])
out = []
out.append("# Seeded breaking changes: evaluation record\n")
out.append("Each change under `seeded/<id>/` was produced by a sub-agent that saw only the property text and its own worktree of /repo, and was confirmed by the owner in a scratch worktree (see `meta.json: confirmed_by_owner`). Evaluations apply the patch to a private copy of /repo, run `bin/check <property> quick` there and restore the copy (`tools/seeded.py`).\n")
out.append("## First evaluation (the first time the quick check was run against each change)\n")
out.append("`pre-extended` = the harness had already been extended on reading the change's description before this first run; without that the change would have been missed.\n")
out.append("| seeded change | property | tier | verdict | how |\n|---|---|---|---|---|")
for r in first:
    v = r["verdict"] + (" (pre-extended)" if r.get("harness_extended_before_first_evaluation") else "")
    out.append("| %s | %s | quick | %s | %s |" % (r["id"], r["property"], v, r["how"].replace("|", "/")))
def wave(sid):
    m = re.search(r"-w(\d)", sid)
    return int(m.group(1)) if m else 1
out.append("")
for w in (1, 2, 3, 4, 5):
    rs = [r for r in first if wave(r["id"]) == w]
    c = sum(1 for r in rs if r["verdict"].startswith("CAUGHT") and not r.get("harness_extended_before_first_evaluation"))
    p = sum(1 for r in rs if r.get("harness_extended_before_first_evaluation"))
    out.append("Wave %d: %d changes, caught outright %d, caught after a pre-emptive extension %d, missed %d." % (w, len(rs), c, p, len(rs) - c - p))
out.append("\n## Latest evaluation per change (waves 1-4: full re-evaluation of all 160 on the tree as it stood after wave 4, 2026-09-24 05:10-08:40 UTC; wave 5: its own evaluations, 10:00-10:55 UTC)\n")
out.append("| seeded change | property | tier | verdict | how |\n|---|---|---|---|---|")
for sid in sorted(final):
    out.append("| %s | %s | %s | %s | %s |" % ((sid,) + final[sid]))
n = len(final)
c = sum(1 for v in final.values() if v[2].startswith("CAUGHT"))
out.append("\n%d of %d seeded changes evaluated; %d caught by the quick tier, %d not: %s" % (n, len(first), c, n - c, ", ".join(s for s in sorted(final) if not final[s][2].startswith("CAUGHT")) or "none"))
open(os.path.join(V, "seeded", "RESULTS.md"), "w").write("\n".join(out) + "\n")
print("RESULTS.md rebuilt: %d first-evaluation rows, %d final rows, %d caught" % (len(first), n, c))
