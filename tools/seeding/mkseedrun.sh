#!/bin/bash
# usage: mkseedrun.sh N  -> /tmp/seedrunN/{repo,verif}
N=$1; D=/tmp/seedrun$N
mkdir -p $D
rsync -a --delete --exclude target /repo/ $D/repo/
rsync -a --delete --exclude .git /verif/ $D/verif/
sed -i "s|path = \"/repo\"|path = \"$D/repo\"|" $D/verif/harness/Cargo.toml
git -C $D/repo checkout -q -- . ; git -C $D/repo status --porcelain --untracked-files=no | head
cat > $D/run.sh <<EOS
#!/bin/bash
cd $D/verif
for s in "\$@"; do
  SEED_REPO=$D/repo VERIF_REPO=$D/repo python3 tools/seeded.py --tier quick --only \$s 2>&1 | tail -1
done
EOS
chmod +x $D/run.sh
grep -n "path" $D/verif/harness/Cargo.toml
