#!/usr/bin/env python3
"""Inventory: which `pub fn`s of /repo/src are cited (by `Type::name` or `name`) in the Lean model's
comments/docstrings or exercised by name in the harness.  Prints a per-file table; --missing lists the rest.
A reading aid for deciding what to model next — not a check."""
import os, re, sys
V = os.path.dirname(os.path.dirname(os.path.abspath(__file__)))
REPO = os.environ.get("VERIF_REPO", "/repo")
lean = ""
for r, _, fs in os.walk(os.path.join(V, "lean", "EV")):
    for f in fs:
        if f.endswith(".lean"):
            lean += open(os.path.join(r, f)).read()
harn = ""
for r, _, fs in os.walk(os.path.join(V, "harness", "src")):
    for f in fs:
        if f.endswith(".rs"):
            harn += open(os.path.join(r, f)).read()
rows = []
missing = []
for r, _, fs in os.walk(os.path.join(REPO, "src")):
    for f in sorted(fs):
        if not f.endswith(".rs"):
            continue
        p = os.path.join(r, f)
        src = open(p).read()
        # cut the test module
        i = src.find("#[cfg(test)]\nmod test")
        if i > 0:
            src = src[:i]
        fns = sorted(set(re.findall(r"pub fn ([a-z_0-9]+)", src)))
        inl = [n for n in fns if re.search(r"\b%s\b" % n, lean) or re.search(r"\b%s\b" % re.sub(r"_(.)", lambda m: m.group(1).upper(), n), lean)]
        inh = [n for n in fns if re.search(r"\b%s\b" % n, harn)]
        rel = os.path.relpath(p, REPO)
        rows.append((rel, len(fns), len(inl), len(inh)))
        for n in fns:
            if n not in inl and n not in inh:
                missing.append((rel, n))
print("| file | pub fns | named in the Lean model | called by the harness |\n|---|---|---|---|")
for x in sorted(rows):
    print("| %s | %d | %d | %d |" % x)
print("total pub fns %d, in model %d, in harness %d, in neither %d" % (sum(x[1] for x in rows), sum(x[2] for x in rows), sum(x[3] for x in rows), len(missing)))
if "--missing" in sys.argv:
    cur = None
    for rel, n in sorted(missing):
        if rel != cur:
            print("\n" + rel + ":", end=" ")
            cur = rel
        print(n, end=" ")
    print()
