#!/usr/bin/env python3
"""Regenerate /verif/MANIFEST.json from checks.json + properties.jsonl."""
import json, os
V = os.path.dirname(os.path.dirname(os.path.abspath(__file__)))
cfg = json.load(open(os.path.join(V, "checks.json")))
props = [json.loads(l) for l in open(os.path.join(V, "properties.jsonl")) if l.strip()]
BASE = json.load(open("/root/.vp/BASELINE.json"))["cmd"] if os.path.exists("/root/.vp/BASELINE.json") else ""
checks, na = [], []
for p in props:
    pid = p["id"]
    c = cfg["properties"].get(pid)
    if c is None or c.get("unclaimed"):
        na.append({"property_id": pid, "reason": (c or {}).get("unclaimed", "check not built yet; the Lean model, theorems and correspondence for this property are still in progress (see DESIGN.md section 2)")})
        continue
    checks.append({
        "property_id": pid,
        "quick_cmd": "bin/check %s quick" % pid,
        "thorough_cmd": "bin/check %s thorough" % pid,
        "evidence_file": "/verif/evidence/%s.json" % pid,
        "replay_cmd_template": "bin/check %s --replay {path}" % pid,
        "engine": "lean-proof+correspondence",
        "level_claimed": {"category": "proof", "text": c["level_text"], "design_ref": "DESIGN.md §2 " + pid},
        "level_note": c["level_note"],
        "technique": c.get("technique", "Lean 4 theorems over a hand-written model; model tied to /repo by differential correspondence check and regenerated constants"),
    })
m = {
    "version": 1,
    "setup_cmd": "bin/check --setup",
    "hooks": {
        "guard": "elementsproject_rust_elements_verif",
        "enable": "no source hooks are needed: everything observed is public API; the harness depends on /repo by path with features serde,base64,json-contract",
        "baseline_off_cmd": "cd /repo && cargo test --workspace --no-fail-fast --offline",
        "source_commits": [],
        "add_only": True,
    },
    "engines": [
        {"name": "lean-proof+correspondence", "path": "/verif/lean, /verif/harness, /verif/bin/check",
         "serves_properties": [c["property_id"] for c in checks],
         "kind_free_text": "Lean 4 model + theorems (lake build, #print axioms audit), constants regenerated from the Rust source, Rust harness calling the real code in-process and a compiled Lean driver running the model on the same op lines, direct search of the property on the real code"}
    ],
    "checks": checks,
    "not_applicable": na,
    "notes": "See DESIGN.md. Fixes of genuine defects are `fix:` commits in /repo and are listed in known_findings.jsonl.",
}
json.dump(m, open(os.path.join(V, "MANIFEST.json"), "w"), indent=1)
# keep lean/EV.lean (root of the library) in sync with the property modules that exist
props_dir = os.path.join(V, "lean", "EV", "Props")
mods = sorted(f[:-5] for f in os.listdir(props_dir) if f.endswith(".lean"))
open(os.path.join(V, "lean", "EV.lean"), "w").write("".join("import EV.Props.%s\n" % m for m in mods))
print("MANIFEST: %d claimed, %d not claimed" % (len(checks), len(na)))
