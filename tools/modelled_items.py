#!/usr/bin/env python3
"""Which Rust items does the Lean model of a property follow, and has their source text changed since the
model was last reviewed against it?

The model's docstrings cite the Rust item they transcribe (`Type::method`, e.g. `Input::from_txin`).  This tool
resolves every such citation found in the Lean sources of a property (EV.Props.<id> and its EV.* import closure)
to the `fn` in /repo/src, fingerprints the function text (sha256 of the text from `fn name` to its closing
brace, whitespace-normalised) and compares with the committed baseline `model_fingerprints.json`.

  tools/modelled_items.py Cxx            -> JSON {items: [...], drifted: [...], vanished: [...]}
  tools/modelled_items.py --rebaseline   -> rewrite model_fingerprints.json from the current /repo (after review)

This is NOT the tie between model and code (the correspondence run is); it answers "exactly which parts of the
code are modelled" per property and points a reviewer at modelled functions whose text changed.
"""
import hashlib, json, os, re, sys
V = os.path.dirname(os.path.dirname(os.path.abspath(__file__)))
REPO = os.environ.get("VERIF_REPO", "/repo")
LEAN = os.path.join(V, "lean")
BASE = os.path.join(V, "model_fingerprints.json")

def lean_sources_for(pid):
    seen, todo = set(), ["EV.Props." + pid]
    while todo:
        m = todo.pop()
        if m in seen:
            continue
        path = os.path.join(LEAN, *m.split(".")) + ".lean"
        if not os.path.exists(path):
            continue
        seen.add(m)
        for imp in re.findall(r"^\s*(?:public\s+)?import\s+(EV\.\S+)", open(path).read(), flags=re.M):
            todo.append(imp)
    return [os.path.join(LEAN, *m.split(".")) + ".lean" for m in sorted(seen)]

_index = None
def rust_index():
    """(Type, fn) -> (file, text) for every fn inside an impl/trait block; (None, fn) for free fns"""
    global _index
    if _index is not None:
        return _index
    idx = {}
    for r, _, fs in os.walk(os.path.join(REPO, "src")):
        for f in sorted(fs):
            if not f.endswith(".rs"):
                continue
            p = os.path.join(r, f)
            src = open(p).read()
            cut = src.find("#[cfg(test)]\nmod test")
            if cut > 0:
                src = src[:cut]
            rel = os.path.relpath(p, REPO)
            # impl blocks
            blocks = []
            for m in re.finditer(r"^(?:unsafe\s+)?impl(?:<[^{]*?>)?\s+(?:[\w:<>,' ]+\s+for\s+)?([A-Za-z_][\w:]*)", src, flags=re.M):
                o = src.find("{", m.end())
                if o < 0:
                    continue
                c = match_brace(src, o)
                blocks.append((o, c, m.group(1).split("::")[-1]))
            for m in re.finditer(r"\bfn\s+([a-z_][a-z_0-9]*)\s*(?:<[^>(]*>)?\s*\(", src):
                # skip the parameter list, then the first of `{` (a body) or `;` (a declaration)
                d, i = 1, m.end()
                while i < len(src) and d > 0:
                    d += {"(": 1, ")": -1}.get(src[i], 0)
                    i += 1
                b, o = 0, -1
                while i < len(src):
                    ch = src[i]
                    if ch == "[":
                        b += 1
                    elif ch == "]":
                        b -= 1
                    elif b == 0 and ch == ";":
                        break
                    elif b == 0 and ch == "{":
                        o = i
                        break
                    i += 1
                if o < 0:
                    continue
                c = match_brace(src, o)
                text = re.sub(r"\s+", " ", src[m.start():c + 1])
                owner = None
                for (bo, bc, ty) in blocks:
                    if bo < m.start() < bc:
                        owner = ty
                idx.setdefault((owner, m.group(1)), []).append((rel, text))
    _index = idx
    return idx

def match_brace(s, o):
    d = 0
    i = o
    n = len(s)
    while i < n:
        ch = s[i]
        if ch == "{":
            d += 1
        elif ch == "}":
            d -= 1
            if d == 0:
                return i
        elif ch == '"':
            i += 1
            while i < n and s[i] != '"':
                i += 2 if s[i] == "\\" else 1
        elif ch == "/" and s[i:i + 2] == "//":
            i = s.find("\n", i)
            if i < 0:
                return n - 1
        elif ch == "'" and i + 2 < n and (s[i + 2] == "'" or (s[i + 1] == "\\" and s.find("'", i + 2) - i <= 4)):
            i = s.find("'", i + 2)
        i += 1
    return n - 1

def cited(pid):
    out = set()
    for p in lean_sources_for(pid):
        s = open(p).read()
        for m in re.finditer(r"`([A-Z]\w*)(?:<[^`]*?>)?::\{?([a-z_0-9, ]+)\}?[^`]*`", s):
            for fn in m.group(2).split(","):
                fn = fn.strip()
                if fn:
                    out.add((m.group(1), fn))
        # `impl Encodable for TxIn` / `impl Decodable for X`
        for m in re.finditer(r"`impl (Encodable|Decodable|Display|FromStr|Serialize|Deserialize)(?:<[^`]*>)? for ([A-Z]\w*)", s):
            fn = {"Encodable": "consensus_encode", "Decodable": "consensus_decode", "Display": "fmt", "FromStr": "from_str",
                  "Serialize": "serialize", "Deserialize": "deserialize"}[m.group(1)]
            out.add((m.group(2), fn))
        # bare snake_case function names (at least one underscore) that name at most 3 fns of /repo/src
        for m in re.finditer(r"`([a-z][a-z0-9]*_[a-z0-9_]+)(?:\(\))?`", s):
            out.add(("*", m.group(1)))
    return out

def fingerprints(pairs):
    idx = rust_index()
    res, vanished = {}, []
    for ty, fn in sorted(pairs):
        if ty == "*":
            hits = [h for (o, f), hs in idx.items() if f == fn for h in hs]
            if not hits or len(hits) > 3:
                continue
        else:
            hits = idx.get((ty, fn))
        if not hits:
            continue     # not an item of /repo/src (dependency crate, prose)
        rel = ",".join(sorted(set(h[0] for h in hits)))
        sha = hashlib.sha256("\n".join(h[1] for h in hits).encode()).hexdigest()[:16]
        res["%s::%s" % (ty, fn)] = {"file": rel, "sha": sha}
    return res

def main():
    if "--rebaseline" in sys.argv:
        checks = json.load(open(os.path.join(V, "checks.json")))["properties"]
        allp = set()
        for pid in checks:
            allp |= cited(pid)
        base = fingerprints(allp)
        json.dump(base, open(BASE, "w"), indent=0, sort_keys=True)
        print("baseline: %d modelled items" % len(base))
        return
    pid = sys.argv[1]
    base = json.load(open(BASE)) if os.path.exists(BASE) else {}
    cur = fingerprints(cited(pid))
    drifted = sorted(k for k, v in cur.items() if k in base and base[k]["sha"] != v["sha"])
    new = sorted(k for k in cur if k not in base)
    idx_names = set(cur)
    cp = cited(pid)
    vanished = sorted(k for k in base if k not in idx_names and tuple(k.split("::")) in cp)
    print(json.dumps({"items": sorted("%s (%s)" % (k, v["file"]) for k, v in cur.items()), "drifted": drifted,
                      "vanished": vanished, "unreviewed_new": new}))

if __name__ == "__main__":
    main()
