//! shared generators (type-directed over the repo's own types)
use crate::{Rng, R};

pub fn bytes(rng: &mut R, n: usize) -> Vec<u8> {
    let mut v = vec![0u8; n];
    rng.fill(&mut v[..]);
    v
}
pub fn arr32(rng: &mut R) -> [u8; 32] {
    let mut v = [0u8; 32];
    rng.fill(&mut v[..]);
    v
}
/// a length on either side of interesting boundaries
pub fn small_len(rng: &mut R) -> usize {
    match rng.gen_range(0..10) {
        0 => 0,
        1 => 1,
        2 => rng.gen_range(2..8),
        3 => rng.gen_range(8..40),
        4 => 75,
        5 => 76,
        6 => rng.gen_range(40..120),
        7 => 0xfc,
        8 => 0xfd,
        _ => rng.gen_range(0..300),
    }
}
