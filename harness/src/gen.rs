//! shared generators (type-directed over the repo's own types) and byte mutators
use crate::{Rng, R};
use elements::confidential::{Asset, Nonce, Value};
use elements::secp256k1_zkp::{self as zkp, Generator, PedersenCommitment, PublicKey, RangeProof, SecretKey, SurjectionProof, Tweak};
use elements::{
    AssetId, AssetIssuance, Block, BlockExtData, BlockHeader, LockTime, OutPoint, Script, Sequence, Transaction, TxIn,
    TxInWitness, TxOut, TxOutWitness, Txid,
};
use elements::dynafed::{FullParams, Params};
use elements::hashes::Hash;

pub fn bytes(rng: &mut R, n: usize) -> Vec<u8> {
    let mut v = vec![0u8; n];
    rng.fill(&mut v[..]);
    v
}
pub fn arr32(rng: &mut R) -> [u8; 32] {
    let mut v = [0u8; 32];
    rng.fill(&mut v[..]);
    v
}
/// a length on either side of interesting boundaries
pub fn small_len(rng: &mut R) -> usize {
    match rng.gen_range(0..12) {
        0 => 0,
        1 => 1,
        2 => rng.gen_range(2..8),
        3 => rng.gen_range(8..40),
        4 => 75,
        5 => 76,
        6 => rng.gen_range(40..120),
        7 => 0xfc,
        8 => 0xfd,
        9 => rng.gen_range(0xfe..0x140),
        _ => rng.gen_range(0..300),
    }
}
pub fn u64_edge(rng: &mut R) -> u64 {
    match rng.gen_range(0..8) {
        0 => 0,
        1 => 1,
        2 => u64::MAX,
        3 => rng.gen_range(0..100_000),
        4 => 2_100_000_000_000_000,
        5 => 1u64 << rng.gen_range(0..64),
        _ => rng.gen(),
    }
}
pub fn u32_edge(rng: &mut R) -> u32 {
    match rng.gen_range(0..8) {
        0 => 0,
        1 => 1,
        2 => u32::MAX,
        3 => 499_999_999,
        4 => 500_000_000,
        5 => 1u32 << rng.gen_range(0..32),
        _ => rng.gen(),
    }
}

pub fn seckey(rng: &mut R) -> SecretKey {
    loop {
        if let Ok(k) = SecretKey::from_slice(&arr32(rng)) {
            return k;
        }
    }
}
pub fn tweak(rng: &mut R) -> Tweak {
    loop {
        if let Ok(k) = Tweak::from_slice(&arr32(rng)) {
            return k;
        }
    }
}
pub fn pubkey(rng: &mut R) -> PublicKey {
    PublicKey::from_secret_key(zkp::SECP256K1, &seckey(rng))
}
/// a 33-byte valid point with the given prefix base (2, 8, 10)
pub fn point33(rng: &mut R, base: u8) -> [u8; 33] {
    let mut p = pubkey(rng).serialize();
    p[0] = base | (rng.gen::<u8>() & 1);
    p
}
pub fn commitment(rng: &mut R) -> PedersenCommitment {
    PedersenCommitment::from_slice(&point33(rng, 8)).unwrap()
}
pub fn generator(rng: &mut R) -> Generator {
    Generator::from_slice(&point33(rng, 10)).unwrap()
}
pub fn asset_id(rng: &mut R) -> AssetId {
    AssetId::from_byte_array(arr32(rng))
}

pub fn value(rng: &mut R) -> Value {
    match rng.gen_range(0..5) {
        0 => Value::Null,
        1 | 2 => Value::Explicit(u64_edge(rng)),
        _ => Value::Confidential(commitment(rng)),
    }
}
pub fn asset(rng: &mut R) -> Asset {
    match rng.gen_range(0..5) {
        0 => Asset::Null,
        1 | 2 => Asset::Explicit(asset_id(rng)),
        _ => Asset::Confidential(generator(rng)),
    }
}
pub fn nonce(rng: &mut R) -> Nonce {
    match rng.gen_range(0..5) {
        0 | 1 => Nonce::Null,
        2 => Nonce::Explicit(arr32(rng)),
        _ => Nonce::Confidential(pubkey(rng)),
    }
}

/// synthetic bytes that satisfy the range-proof *parse* rules (header), random body
pub fn rangeproof_bytes(rng: &mut R) -> Vec<u8> {
    loop {
        let len = match rng.gen_range(0..6) {
            0 => 65,
            1 => 66,
            2 => rng.gen_range(65..300),
            3 => 0xfd,
            4 => rng.gen_range(2000..5200),
            _ => rng.gen_range(65..700),
        };
        let mut v = bytes(rng, len);
        let has_nz = rng.gen_bool(0.7);
        let has_min = rng.gen_bool(0.3);
        v[0] = (if has_nz { 64 } else { 0 }) | (if has_min { 32 } else { 0 }) | rng.gen_range(0..19u8);
        if has_nz {
            v[1] = rng.gen_range(0..64);
        }
        if RangeProof::from_slice(&v).is_ok() {
            return v;
        }
    }
}
pub fn rangeproof(rng: &mut R) -> Box<RangeProof> {
    Box::new(RangeProof::from_slice(&rangeproof_bytes(rng)).unwrap())
}
/// synthetic bytes that satisfy the surjection-proof parse rules
pub fn surjproof_bytes(rng: &mut R) -> Vec<u8> {
    let n: usize = match rng.gen_range(0..5) {
        0 => 1,
        1 => rng.gen_range(1..9),
        2 => 8,
        3 => rng.gen_range(1..257),
        _ => 3,
    };
    let bl = (n + 7) / 8;
    let mut bitmap = bytes(rng, bl);
    // at most a few used inputs to keep it small
    for b in bitmap.iter_mut() {
        *b &= rng.gen::<u8>() & rng.gen::<u8>();
    }
    if n % 8 != 0 {
        let mask = !(0xffu8 << (n % 8));
        bitmap[bl - 1] &= mask;
    }
    let used: u32 = bitmap.iter().map(|b| b.count_ones()).sum();
    let mut v = vec![(n % 256) as u8, (n / 256) as u8];
    v.extend_from_slice(&bitmap);
    v.extend_from_slice(&bytes(rng, 32 * (1 + used as usize)));
    assert!(SurjectionProof::from_slice(&v).is_ok());
    v
}
pub fn surjproof(rng: &mut R) -> Box<SurjectionProof> {
    Box::new(SurjectionProof::from_slice(&surjproof_bytes(rng)).unwrap())
}

pub fn script(rng: &mut R) -> Script {
    // rarely: a length on either side of MAX_SCRIPT_SIZE (10 000), with or without a leading OP_RETURN
    if rng.gen_range(0..60) == 0 {
        let n = [9_999usize, 10_000, 10_001][rng.gen_range(0..3)];
        let mut b = bytes(rng, n);
        b[0] = if rng.gen_bool(0.5) { 0x6a } else { 0x51 };
        return Script::from(b);
    }
    let n = small_len(rng);
    Script::from(bytes(rng, n))
}
pub fn stack(rng: &mut R) -> Vec<Vec<u8>> {
    // rarely: an item count on either side of the 0xfd compact-size boundary (items mostly empty)
    if rng.gen_range(0..40) == 0 {
        let n = [252usize, 253, 254][rng.gen_range(0..3)];
        return (0..n).map(|i| if i % 97 == 0 { vec![i as u8] } else { vec![] }).collect();
    }
    let n = match rng.gen_range(0..6) {
        0 | 1 => 0,
        2 => 1,
        3 => 2,
        4 => rng.gen_range(3..6),
        _ => rng.gen_range(0..4),
    };
    (0..n).map(|_| { let l = small_len(rng); bytes(rng, l) }).collect()
}

pub fn txin_witness(rng: &mut R, allow_pegin: bool, allow_issuance: bool) -> TxInWitness {
    TxInWitness {
        amount_rangeproof: if allow_issuance && rng.gen_bool(0.4) { Some(rangeproof(rng)) } else { None },
        inflation_keys_rangeproof: if allow_issuance && rng.gen_bool(0.3) { Some(rangeproof(rng)) } else { None },
        script_witness: if rng.gen_bool(0.5) { stack(rng) } else { vec![] },
        pegin_witness: if allow_pegin && rng.gen_bool(0.7) { stack(rng) } else { vec![] },
    }
}

#[derive(Clone, Copy, Debug, PartialEq)]
pub enum InKind { Plain, Coinbase, Pegin, Issuance, Reissuance, PeginIssuance }

pub fn issuance(rng: &mut R, re: bool) -> AssetIssuance {
    // canonical: not null => at least one of amount / inflation_keys non-null
    let (amount, keys) = loop {
        let a = value(rng);
        let k = if re { Value::Null } else { value(rng) };
        if !(a.is_null() && k.is_null()) {
            break (a, k);
        }
    };
    AssetIssuance {
        asset_blinding_nonce: if re { tweak(rng) } else { Tweak::from_slice(&[0u8; 32]).unwrap() },
        asset_entropy: arr32(rng),
        amount,
        inflation_keys: keys,
    }
}

pub fn txin(rng: &mut R, kind: InKind, with_witness: bool) -> TxIn {
    let prevout = match kind {
        InKind::Coinbase => OutPoint::default(),
        // a plain input may carry the all-ones index with a non-null txid: canonical (no flags), not a coinbase
        InKind::Plain if rng.gen_bool(0.06) => OutPoint::new(Txid::from_byte_array(arr32(rng)), 0xffff_ffff),
        _ => OutPoint::new(Txid::from_byte_array(arr32(rng)), match rng.gen_range(0..5) { 0 => 0, 1 => (1 << 30) - 1, 2 => rng.gen_range(0..4), _ => rng.gen_range(0..(1u32 << 30)) }),
    };
    let is_pegin = matches!(kind, InKind::Pegin | InKind::PeginIssuance);
    let has_iss = matches!(kind, InKind::Issuance | InKind::Reissuance | InKind::PeginIssuance);
    let mut prevout = prevout;
    if is_pegin && has_iss && prevout.vout == (1 << 30) - 1 {
        // index 0x3fffffff with both flags would serialize as 0xffffffff (the coinbase index, which carries
        // no flags): not representable in the format, hence not a canonical value
        prevout.vout -= 1;
    }
    TxIn {
        previous_output: prevout,
        is_pegin,
        script_sig: script(rng),
        sequence: Sequence(u32_edge(rng)),
        asset_issuance: if has_iss { issuance(rng, kind == InKind::Reissuance) } else { AssetIssuance::null() },
        witness: if with_witness { let a = is_pegin || rng.gen_bool(0.1); let b = has_iss || rng.gen_bool(0.1); txin_witness(rng, a, b) } else { TxInWitness::empty() },
    }
}
pub fn in_kind(rng: &mut R) -> InKind {
    match rng.gen_range(0..8) {
        0 | 1 | 2 => InKind::Plain,
        3 => InKind::Pegin,
        4 => InKind::Issuance,
        5 => InKind::Reissuance,
        6 => InKind::PeginIssuance,
        _ => InKind::Plain,
    }
}

pub fn txout_witness(rng: &mut R) -> TxOutWitness {
    TxOutWitness {
        surjection_proof: if rng.gen_bool(0.6) { Some(surjproof(rng)) } else { None },
        rangeproof: if rng.gen_bool(0.6) { Some(rangeproof(rng)) } else { None },
    }
}
pub fn txout(rng: &mut R, with_witness: bool) -> TxOut {
    TxOut {
        asset: asset(rng),
        value: value(rng),
        nonce: nonce(rng),
        script_pubkey: script(rng),
        witness: if with_witness { txout_witness(rng) } else { TxOutWitness::empty() },
    }
}

/// witness mode: 0 none, 1 inputs only, 2 outputs only, 3 both (per element random)
pub fn tx(rng: &mut R) -> Transaction {
    let wm = rng.gen_range(0..4);
    let coinbase = rng.gen_bool(0.08);
    let nin = if coinbase { 1 } else { match rng.gen_range(0..6) { 0 => 0, 1 | 2 => 1, 3 => 2, _ => rng.gen_range(1..5) } };
    let nout = match rng.gen_range(0..6) { 0 => 0, 1 | 2 => 1, 3 => 2, _ => rng.gen_range(1..5) };
    let input = (0..nin).map(|_| { let k = if coinbase { InKind::Coinbase } else { in_kind(rng) }; let w = (wm & 1) != 0 && rng.gen_bool(0.7); txin(rng, k, w) }).collect();
    let output = (0..nout).map(|_| { let w = (wm & 2) != 0 && rng.gen_bool(0.7); txout(rng, w) }).collect();
    Transaction {
        version: match rng.gen_range(0..4) { 0 => 2, 1 => 1, _ => rng.gen() },
        lock_time: LockTime::from_consensus(u32_edge(rng)),
        input,
        output,
    }
}
/// a transaction with many inputs/outputs (varint boundary 0xfc/0xfd on the vectors)
pub fn tx_wide(rng: &mut R, nin: usize, nout: usize) -> Transaction {
    let input = (0..nin).map(|_| TxIn { previous_output: OutPoint::new(Txid::from_byte_array(arr32(rng)), rng.gen_range(0..10)), ..Default::default() }).collect();
    let output = (0..nout).map(|_| TxOut { asset: Asset::Explicit(asset_id(rng)), value: Value::Explicit(rng.gen()), nonce: Nonce::Null, script_pubkey: Script::new(), witness: TxOutWitness::empty() }).collect();
    Transaction { version: 2, lock_time: LockTime::ZERO, input, output }
}

pub fn full_params(rng: &mut R) -> FullParams {
    let next = rng.gen_range(0..4);
    FullParams::new(
        script(rng),
        u32_edge(rng),
        elements::bitcoin::ScriptBuf::from_bytes({ let l = small_len(rng); bytes(rng, l) }),
        { let l = small_len(rng); bytes(rng, l) },
        (0..next).map(|_| { let l = small_len(rng); bytes(rng, l) }).collect(),
    )
}
pub fn params(rng: &mut R) -> Params {
    match rng.gen_range(0..4) {
        0 => Params::Null,
        1 => Params::Compact { signblockscript: script(rng), signblock_witness_limit: u32_edge(rng), elided_root: elements::dynafed::ElidedRoot::from_byte_array(arr32(rng)) },
        2 => Params::Full(full_params(rng)).into_compact().unwrap(),
        _ => Params::Full(full_params(rng)),
    }
}
pub fn header(rng: &mut R) -> BlockHeader {
    let ext = if rng.gen_bool(0.5) {
        BlockExtData::Proof { challenge: script(rng), solution: script(rng) }
    } else {
        BlockExtData::Dynafed { current: params(rng), proposed: params(rng), signblock_witness: stack(rng) }
    };
    BlockHeader {
        version: match rng.gen_range(0..3) { 0 => 0x2000_0000, 1 => rng.gen_range(0..(1u32 << 31)), _ => (1u32 << 31) - 1 },
        prev_blockhash: elements::BlockHash::from_byte_array(arr32(rng)),
        merkle_root: elements::TxMerkleNode::from_byte_array(arr32(rng)),
        time: u32_edge(rng),
        height: u32_edge(rng),
        ext,
    }
}
pub fn block(rng: &mut R) -> Block {
    let n = rng.gen_range(0..4);
    Block { header: header(rng), txdata: (0..n).map(|_| tx(rng)).collect() }
}

// ---------------------------------------------------------------- mutators

/// one structural mutation of a byte string
pub fn mutate(rng: &mut R, b: &[u8]) -> Vec<u8> {
    let mut v = b.to_vec();
    match rng.gen_range(0..10) {
        0 if !v.is_empty() => { let i = rng.gen_range(0..v.len()); v[i] ^= 1 << rng.gen_range(0..8); }
        1 if !v.is_empty() => { let i = rng.gen_range(0..v.len()); v[i] = rng.gen(); }
        2 if !v.is_empty() => { let n = rng.gen_range(0..v.len()); v.truncate(n); }
        3 => { let n = rng.gen_range(1..5); v.extend(bytes(rng, n)); }
        4 if !v.is_empty() => { let i = rng.gen_range(0..v.len()); v.remove(i); }
        5 => { let i = rng.gen_range(0..=v.len()); v.insert(i, rng.gen()); }
        6 if !v.is_empty() => { let i = rng.gen_range(0..v.len()); v[i] = [0u8, 1, 0xfc, 0xfd, 0xfe, 0xff, 0x80, 0x7f][rng.gen_range(0..8)]; }
        7 if v.len() >= 2 => { let i = rng.gen_range(0..v.len() - 1); v.swap(i, i + 1); }
        8 if !v.is_empty() => { // non-minimal varint in place of a small byte
            let i = rng.gen_range(0..v.len());
            let x = v[i];
            let repl: Vec<u8> = match rng.gen_range(0..3) { 0 => vec![0xfd, x, 0], 1 => vec![0xfe, x, 0, 0, 0], _ => vec![0xff, x, 0, 0, 0, 0, 0, 0, 0] };
            v.splice(i..i + 1, repl);
        }
        _ if !v.is_empty() => { let i = rng.gen_range(0..v.len()); v[i] = v[i].wrapping_add(1); }
        _ => { v.push(rng.gen()); }
    }
    v
}


// ------------------------------------------------------------------------------------------ in-memory transport

/// Field-wise transport of an in-memory transaction for the line protocol (`m:<hex>`, read by `EV.Driver.MemTx`): the
/// consensus encoding cannot carry an input whose all-ones index coexists with a pegin flag or an issuance.
///   version(4 LE) lock_time(4 LE) varint #in {outpoint(36) is_pegin(1) script_sig(var) sequence(4 LE) issuance witness}
///   varint #out {txout (without witness) txout-witness}
pub fn memtx_hex(t: &Transaction) -> String {
    use elements::encode::{serialize, VarInt};
    let mut b: Vec<u8> = vec![];
    b.extend_from_slice(&t.version.to_le_bytes());
    b.extend_from_slice(&t.lock_time.to_consensus_u32().to_le_bytes());
    b.extend(serialize(&VarInt(t.input.len() as u64)));
    for i in &t.input {
        b.extend_from_slice(&i.previous_output.txid.to_byte_array());
        b.extend_from_slice(&i.previous_output.vout.to_le_bytes());
        b.push(i.is_pegin as u8);
        b.extend(serialize(&i.script_sig));
        b.extend_from_slice(&i.sequence.to_consensus_u32().to_le_bytes());
        b.extend(serialize(&i.asset_issuance));
        b.extend(serialize(&i.witness));
    }
    b.extend(serialize(&VarInt(t.output.len() as u64)));
    for o in &t.output {
        b.extend(serialize(o));
        b.extend(serialize(&o.witness));
    }
    format!("m:{}", crate::hex(&b))
}
