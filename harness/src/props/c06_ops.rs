//! C06, model growth — `Address::{is_blinded, is_liquid, to_confidential, to_unconfidential, script_pubkey,
//! from_script, p2pkh, p2sh, p2wpkh, p2shwpkh, p2wsh, p2shwsh, p2tr, p2tr_tweaked}` against
//! `EV.Model.AddressOps` (K ops `addr.conf`, `addr.spk`, `addr.fromscript`, `addr.isliquid`, `addr.ctor`,
//! `addr.p2tr`, `addr.p2trtw`) and the statements of the "conversions and constructors" section of
//! `EV/Props/C06.lean` evaluated on the real code (S).
use super::{addr_desc, blinder_hex, bytes_edge, check_valid, mk, net_name, pkh, sh, wit};
use super::super::c17::{nets, shex};
use crate::{gen, hex, Out, Rng, R};
use bech32::{Fe32, Hrp};
use elements::address::Payload;
use elements::bitcoin;
use elements::bitcoin::hashes::Hash as _;
use elements::hashes::{hash160, sha256, HashEngine};
use elements::schnorr::{TapTweak, TweakedPublicKey};
use elements::secp256k1_zkp::{self as zkp, Parity, PublicKey, Scalar, XOnlyPublicKey};
use elements::taproot::TapNodeHash;
use elements::{Address, AddressParams, PubkeyHash, Script, ScriptHash};
use std::collections::HashMap;
use std::str::FromStr;

fn tf(b: bool) -> &'static str {
    if b { "1" } else { "0" }
}

fn full(a: &Address) -> String {
    format!("ok {} {} {}", addr_desc(a), a, hex(a.script_pubkey().as_bytes()))
}

// ---------------------------------------------------------------- K ops

fn k_conf(out: &mut Out, s: &str, key: Option<&PublicKey>) {
    let res = Out::guard(|| match Address::from_str(s) {
        Ok(a) => {
            let conf = match key {
                Some(k) => a.to_confidential(*k).to_string(),
                None => "-".into(),
            };
            format!("ok {} {} {} {} {}", conf, a.to_unconfidential(), tf(a.is_blinded()), tf(a.is_liquid()), hex(a.script_pubkey().as_bytes()))
        }
        Err(_) => "err".into(),
    });
    out.count(if res == "err" { "conf.err" } else { "conf.ok" });
    out.k(format!("addr.conf {} {}", shex(s), key.map(|k| hex(&k.serialize())).unwrap_or_else(|| "-".into())), res);
}

fn k_spk(out: &mut Out, a: &Address) {
    let res = Out::guard(|| {
        let s = a.script_pubkey();
        let back = match Address::from_script(&s, a.blinding_pubkey, a.params) {
            Some(b) => addr_desc(&b),
            None => "none".into(),
        };
        format!("ok {} {} {} {}", hex(s.as_bytes()), tf(a.is_blinded()), tf(a.is_liquid()), back)
    });
    out.k(format!("addr.spk {}", addr_desc(a)), res);
}

fn k_fromscript(out: &mut Out, net: &str, p: &'static AddressParams, s: &Script, bl: Option<PublicKey>) -> Option<Address> {
    let r = Address::from_script(s, bl, p);
    let res = match &r {
        Some(a) => format!("ok {}", addr_desc(a)),
        None => "none".into(),
    };
    out.count(if r.is_some() { "fromscript.some" } else { "fromscript.none" });
    out.k(format!("addr.fromscript {} {} {}", net, hex(s.as_bytes()), blinder_hex(&bl)), res);
    r
}

fn k_isliquid(out: &mut Out, p2pkh: u8, p2sh: u8, blinded: u8, bech: &str, blech: &str) {
    let params: &'static AddressParams = Box::leak(Box::new(AddressParams {
        p2pkh_prefix: p2pkh,
        p2sh_prefix: p2sh,
        blinded_prefix: blinded,
        bech_hrp: Hrp::parse_unchecked(bech),
        blech_hrp: Hrp::parse_unchecked(blech),
    }));
    let a = mk(params, Payload::PubkeyHash(PubkeyHash::from_byte_array([0; 20])), None);
    let r = a.is_liquid();
    out.count(if r { "isliquid.true" } else { "isliquid.false" });
    out.k(format!("addr.isliquid {} {} {} {} {}", p2pkh, p2sh, blinded, shex(bech), shex(blech)), format!("ok {}", tf(r)));
}

// ---------------------------------------------------------------- S: conversions

fn owners(s: &str) -> Vec<&'static str> {
    nets().iter().filter(|(_, p)| Address::parse_with_params(s, p).is_ok()).map(|(n, _)| *n).collect()
}

/// sections (a)–(c) of the Lean statements on one address and one key
fn check_conv(out: &mut Out, seen: &mut HashMap<String, String>, a: &Address, k: &PublicKey) {
    let c = a.to_confidential(*k);
    let u = a.to_unconfidential();
    let det = || format!("{} key={}", addr_desc(a), hex(&k.serialize()));
    out.s("conf_then_unconf_is_unconf", c.to_unconfidential() == u, det);
    out.s("to_confidential_sets_only_key", c.params == a.params && c.payload == a.payload && c.blinding_pubkey == Some(*k), det);
    out.s("to_unconfidential_clears_only_key", u.params == a.params && u.payload == a.payload && u.blinding_pubkey.is_none(), det);
    out.s("is_blinded_iff_key_present", a.is_blinded() == a.blinding_pubkey.is_some() && c.is_blinded() && !u.is_blinded(), det);
    out.s("to_unconfidential_idempotent", u.to_unconfidential() == u && (u == *a) == !a.is_blinded(), det);
    out.s("to_confidential_overwrites", c.to_confidential(*k) == c && u.to_confidential(*k) == c
        && a.blinding_pubkey.map(|own| u.to_confidential(own) == *a).unwrap_or(true), det);
    out.s("script_pubkey_ignores_blinding_key", c.script_pubkey() == a.script_pubkey() && u.script_pubkey() == a.script_pubkey(), det);
    let liquid = net_name(a.params) == "LIQUID";
    out.s("is_liquid_iff_liquid_params", a.is_liquid() == liquid && c.is_liquid() == liquid && u.is_liquid() == liquid, det);
    // text forms
    let cs = c.to_string();
    let us = u.to_string();
    out.s("conversion_text_roundtrip", Address::from_str(&cs).ok().as_ref() == Some(&c) && Address::from_str(&us).ok().as_ref() == Some(&u)
        && Address::parse_with_params(&cs, a.params).ok().as_ref() == Some(&c) && Address::parse_with_params(&us, a.params).ok().as_ref() == Some(&u), det);
    out.s("blinded_unblinded_text_differ", cs != us, || format!("{} / {}", cs, us));
    match &a.payload {
        Payload::WitnessProgram { .. } => {
            let ch = format!("{}1", a.params.blech_hrp.as_str());
            let uh = format!("{}1", a.params.bech_hrp.as_str());
            out.s("blinded_unblinded_hrp_differ", cs.starts_with(&ch) && us.starts_with(&uh) && !cs.starts_with(&uh) && !us.starts_with(&ch), || format!("{} / {}", cs, us));
        }
        _ => {
            let cd = bitcoin::base58::decode_check(&cs).unwrap_or_default();
            let ud = bitcoin::base58::decode_check(&us).unwrap_or_default();
            let ok = cd.len() == 55 && ud.len() == 21 && cd[0] == a.params.blinded_prefix && cd[1] == ud[0] && ud[0] != a.params.blinded_prefix
                && cd[2..35] == k.serialize()[..] && cd[35..] == ud[1..];
            out.s("blinded_unblinded_version_byte_differ", ok, || format!("{} / {}", cs, us));
        }
    }
    let me = net_name(a.params);
    out.s("printed_conversion_names_its_network_only", owners(&cs) == vec![me] && owners(&us) == vec![me], || format!("{} / {}", cs, us));
    for (s, x) in [(cs, &c), (us, &u)] {
        let d = addr_desc(x);
        let prev = seen.entry(s.clone()).or_insert_with(|| d.clone());
        out.s("display_injective", *prev == d, || format!("{} is the text of [{}] and of [{}]", s, prev, d));
    }
}

/// `from_script` / `script_pubkey` on a whole address
fn check_script(out: &mut Out, a: &Address, standard: bool) {
    let s = a.script_pubkey();
    let back = Address::from_script(&s, a.blinding_pubkey, a.params);
    let det = || format!("{} spk={}", addr_desc(a), hex(s.as_bytes()));
    if standard {
        out.s("script_pubkey_then_from_script", back.as_ref() == Some(a), det);
    }
    if let Some(b) = &back {
        out.s("from_script_then_script_pubkey", b.script_pubkey() == s && b.params == a.params && b.blinding_pubkey == a.blinding_pubkey, det);
    }
}

fn is_standard(a: &Address) -> bool {
    super::shape_ok(a)
}

// ---------------------------------------------------------------- taproot

fn tagged(tag: &str, msg: &[u8]) -> [u8; 32] {
    let t = sha256::Hash::hash(tag.as_bytes()).to_byte_array();
    let mut e = sha256::Hash::engine();
    e.input(&t);
    e.input(&t);
    e.input(msg);
    sha256::Hash::from_engine(e).to_byte_array()
}

/// Q = P + t·G with t = tagged("TapTweak/elements", P ‖ root?) — by full-point arithmetic on the even-y lift of
/// `P`, without `tap_tweak` / `TapTweakHash` / `add_tweak` on x-only keys
fn oracle_tweak(key: &XOnlyPublicKey, root: Option<[u8; 32]>) -> Option<(XOnlyPublicKey, Parity)> {
    let mut m = key.serialize().to_vec();
    if let Some(r) = root {
        m.extend_from_slice(&r);
    }
    let t = tagged("TapTweak/elements", &m);
    let sc = Scalar::from_be_bytes(t).ok()?;
    let p = PublicKey::from_x_only_public_key(*key, Parity::Even);
    let q = p.add_exp_tweak(zkp::SECP256K1, &sc).ok()?;
    Some(q.x_only_public_key())
}

fn check_p2tr(out: &mut Out, rng: &mut R, net: &str, p: &'static AddressParams, key: XOnlyPublicKey, root: Option<[u8; 32]>, bl: Option<PublicKey>) {
    let secp = zkp::SECP256K1;
    let root_h = root.map(TapNodeHash::from_byte_array);
    let oracle = oracle_tweak(&key, root);
    let real = Out::guard(|| full(&Address::p2tr(secp, key, root_h, bl, p)));
    let (qs, par) = match &oracle {
        Some((q, par)) => (hex(&q.serialize()), if *par == Parity::Odd { "1" } else { "0" }),
        None => ("none".to_string(), "0"),
    };
    out.count(if root.is_some() { "p2tr.with_root" } else { "p2tr.key_only" });
    out.k(
        format!("addr.p2tr {} {} {} {} {} {}", net, hex(&key.serialize()), root.map(|r| hex(&r)).unwrap_or_else(|| "none".into()), blinder_hex(&bl), qs, par),
        real.clone(),
    );
    if real == "panic" {
        return;
    }
    let a = Address::p2tr(secp, key, root_h, bl, p);
    let det = || format!("key={} root={:?} [{}]", hex(&key.serialize()), root.map(|r| hex(&r)), addr_desc(&a));
    let (tk, tpar) = key.tap_tweak(secp, root_h);
    if let Some((q, qpar)) = oracle {
        let shape = matches!(&a.payload, Payload::WitnessProgram { version, program } if version.to_u8() == 1 && program[..] == q.serialize()[..]);
        out.s("p2tr_program_is_tweaked_key", shape && a.params == p && a.blinding_pubkey == bl, det);
        out.s("tap_tweak_is_bip341_tweak", tk.into_inner() == q && tpar == qpar, det);
        let t = tagged("TapTweak/elements", &{ let mut m = key.serialize().to_vec(); if let Some(r) = root { m.extend_from_slice(&r); } m });
        out.s("p2tr_commits_to_key_and_root", key.tweak_add_check(secp, &q, qpar, Scalar::from_be_bytes(t).unwrap()), det);
    }
    out.s("p2tr_is_p2tr_tweaked_of_tap_tweak", Address::p2tr_tweaked(tk, bl, p) == a, det);
    check_p2tr_address(out, &a, &tk);
    if rng.gen_range(0..4) == 0 {
        check_valid(out, &a);
    }
}

/// what holds for every taproot address, however it was built
fn check_p2tr_address(out: &mut Out, a: &Address, tk: &TweakedPublicKey) {
    let keyb = tk.as_inner().serialize();
    let s = a.script_pubkey();
    let det = || format!("[{}] spk={}", addr_desc(a), hex(s.as_bytes()));
    let mut want = vec![0x51u8, 0x20];
    want.extend_from_slice(&keyb);
    out.s("p2tr_script_is_op1_push32_key", s.as_bytes() == &want[..] && s.is_v1_p2tr() && s.is_witness_program() && s == Script::new_v1_p2tr_tweaked(*tk), det);
    out.s("p2tr_from_script_roundtrip", Address::from_script(&s, a.blinding_pubkey, a.params).as_ref() == Some(a), det);
    let t = a.to_string();
    let hrp = if a.is_blinded() { a.params.blech_hrp } else { a.params.bech_hrp };
    out.s("p2tr_text_is_v1_and_roundtrips", t.starts_with(&format!("{}1p", hrp.as_str())) && Address::from_str(&t).ok().as_ref() == Some(a), || t.clone());
}

// ---------------------------------------------------------------- constructors

fn check_ctors_key(out: &mut Out, rng: &mut R, net: &str, p: &'static AddressParams, pk: &bitcoin::PublicKey, bl: Option<PublicKey>) {
    let ser = pk.to_bytes();
    let c = if pk.compressed { "1" } else { "0" };
    out.count(if pk.compressed { "ctor.key.compressed" } else { "ctor.key.uncompressed" });
    let r_pkh = Out::guard(|| full(&Address::p2pkh(pk, bl, p)));
    out.k(format!("addr.ctor p2pkh {} {} {} {}", net, hex(&ser), c, blinder_hex(&bl)), r_pkh);
    let r_w = Out::guard(|| full(&Address::p2wpkh(pk, bl, p)));
    out.k(format!("addr.ctor p2wpkh {} {} {} {}", net, hex(&ser), c, blinder_hex(&bl)), r_w.clone());
    let r_sw = Out::guard(|| full(&Address::p2shwpkh(pk, bl, p)));
    out.k(format!("addr.ctor p2shwpkh {} {} {} {}", net, hex(&ser), c, blinder_hex(&bl)), r_sw.clone());
    let det = || format!("{} key={} compressed={}", net, hex(&ser), c);
    // `# Panics: Panics if the provided public key is not compressed.`
    // the documented panic is permitted for uncompressed keys only (and not obliged: counted)
    out.s("segwit_ctor_panics_iff_uncompressed", (r_w != "panic" || !pk.compressed) && (r_sw != "panic" || !pk.compressed), det);
    if !pk.compressed && (r_w != "panic" || r_sw != "panic") { out.count("segwit_ctor.documented_panic_did_not_happen"); }
    let a = Address::p2pkh(pk, bl, p);
    let h = hash160::Hash::hash(&ser).to_byte_array();
    out.s("p2pkh_is_hash160_of_key", a.payload == Payload::PubkeyHash(PubkeyHash::from_byte_array(h)) && a.params == p && a.blinding_pubkey == bl
        && a.script_pubkey().is_p2pkh() && a.script_pubkey() == Script::new_p2pkh(&PubkeyHash::from_byte_array(h)), det);
    check_script(out, &a, true);
    if pk.compressed {
        let w = Address::p2wpkh(pk, bl, p);
        let sw = Address::p2shwpkh(pk, bl, p);
        out.s("p2wpkh_is_v0_hash160_of_key", matches!(&w.payload, Payload::WitnessProgram { version, program } if version.to_u8() == 0 && program[..] == h[..])
            && w.script_pubkey().is_v0_p2wpkh(), det);
        out.s("p2shwpkh_wraps_p2wpkh", sw == Address::p2sh(&w.script_pubkey(), bl, p) && sw.script_pubkey().is_p2sh(), det);
        check_script(out, &w, true);
        check_script(out, &sw, true);
        if rng.gen_range(0..4) == 0 {
            check_valid(out, &w);
            check_valid(out, &sw);
            check_valid(out, &a);
        }
    }
}

fn check_ctors_script(out: &mut Out, rng: &mut R, net: &str, p: &'static AddressParams, s: &Script, bl: Option<PublicKey>) {
    out.count("ctor.script");
    for kind in ["p2sh", "p2wsh", "p2shwsh"] {
        let r = Out::guard(|| {
            full(&match kind {
                "p2sh" => Address::p2sh(s, bl, p),
                "p2wsh" => Address::p2wsh(s, bl, p),
                _ => Address::p2shwsh(s, bl, p),
            })
        });
        out.k(format!("addr.ctor {} {} {} - {}", kind, net, hex(s.as_bytes()), blinder_hex(&bl)), r);
    }
    let det = || format!("{} script={}", net, hex(s.as_bytes()));
    let a = Address::p2sh(s, bl, p);
    let w = Address::p2wsh(s, bl, p);
    let sw = Address::p2shwsh(s, bl, p);
    let h160 = hash160::Hash::hash(s.as_bytes()).to_byte_array();
    let h256 = sha256::Hash::hash(s.as_bytes()).to_byte_array();
    out.s("p2sh_is_hash160_of_script", a.payload == Payload::ScriptHash(ScriptHash::from_byte_array(h160)) && a.script_pubkey().is_p2sh() && a.script_pubkey() == s.to_p2sh(), det);
    out.s("p2wsh_is_v0_sha256_of_script", matches!(&w.payload, Payload::WitnessProgram { version, program } if version.to_u8() == 0 && program[..] == h256[..])
        && w.script_pubkey().is_v0_p2wsh() && w.script_pubkey() == s.to_v0_p2wsh(), det);
    out.s("p2shwsh_wraps_p2wsh", sw == Address::p2sh(&w.script_pubkey(), bl, p), det);
    for x in [&a, &w, &sw] {
        out.s("ctor_keeps_network_and_key", x.params == p && x.blinding_pubkey == bl, det);
        check_script(out, x, true);
    }
    if rng.gen_range(0..4) == 0 {
        check_valid(out, &a);
        check_valid(out, &w);
        check_valid(out, &sw);
    }
}

// ---------------------------------------------------------------- streams

pub fn run(rng: &mut R, out: &mut Out) {
    let thorough = out.tier_thorough;
    let scale = if thorough { 10 } else { 1 };
    let mut seen: HashMap<String, String> = HashMap::new();

    // ---- conversions: every payload kind × witness version × length × network × blinded / plain
    let mut all: Vec<Address> = vec![];
    for (_, p) in nets() {
        for blinded in [false, true] {
            let mut kinds: Vec<Payload> = vec![pkh(rng), sh(rng), wit(rng, 0, 20), wit(rng, 0, 32)];
            for ver in 1..=16u8 {
                let lens: Vec<usize> = if thorough { (2..=40).collect() } else { vec![2, 3, 20, 32, 33, 39, 40, rng.gen_range(4..39)] };
                for len in lens {
                    kinds.push(wit(rng, ver, len));
                }
            }
            for _ in 0..(2 * scale) {
                let mut h = [0u8; 20];
                h.copy_from_slice(&bytes_edge(rng, 20));
                kinds.push(Payload::PubkeyHash(PubkeyHash::from_byte_array(h)));
                h.copy_from_slice(&bytes_edge(rng, 20));
                kinds.push(Payload::ScriptHash(ScriptHash::from_byte_array(h)));
            }
            for k in kinds {
                let bl = if blinded { Some(gen::pubkey(rng)) } else { None };
                all.push(mk(p, k, bl));
            }
        }
    }
    for a in &all {
        let kind = match &a.payload { Payload::PubkeyHash(_) => "pkh".to_string(), Payload::ScriptHash(_) => "sh".to_string(), Payload::WitnessProgram { version, .. } => format!("wit.v{}", version.to_u8().min(2)) };
        out.count(&format!("conv.{}.{}", kind, if a.is_blinded() { "blinded" } else { "plain" }));
        let s = a.to_string();
        // a fresh key; for blinded addresses sometimes their own key (the conversion is then the identity)
        let k = match a.blinding_pubkey { Some(own) if rng.gen_range(0..4) == 0 => own, _ => gen::pubkey(rng) };
        k_conf(out, &s, Some(&k));
        if rng.gen_range(0..3) == 0 {
            k_conf(out, &s, None);
        }
        if rng.gen_range(0..6) == 0 && matches!(a.payload, Payload::WitnessProgram { .. }) {
            k_conf(out, &s.to_uppercase(), Some(&k));
        }
        check_conv(out, &mut seen, a, &k);
        check_script(out, a, true);
        k_spk(out, a);
    }
    // the same payload under two keys and under two networks: four different strings
    for _ in 0..(20 * scale) {
        let a = &all[rng.gen_range(0..all.len())];
        let (k1, k2) = (gen::pubkey(rng), gen::pubkey(rng));
        let other = nets()[rng.gen_range(0..3)].1;
        let b = mk(other, a.payload.clone(), a.blinding_pubkey);
        let texts = [a.to_confidential(k1).to_string(), a.to_confidential(k2).to_string(), b.to_confidential(k1).to_string(), a.to_unconfidential().to_string()];
        let mut distinct = true;
        for i in 0..4 {
            for j in 0..i {
                let same_addr = (i, j) == (2, 0) && other == a.params;
                if (texts[i] == texts[j]) != same_addr {
                    distinct = false;
                }
            }
        }
        out.s("blinded_text_determines_network_payload_key", distinct, || texts.join(" "));
    }
    // text that does not parse
    for s in ["", "ex1", "lq1qqqqqq", "2dxmEBXc2qMYcLSKiDBxdEePY3Ytixmnh4F", "bc1qw508d6qejxtdg4y5r3zarvary0c5xw7kv8f3t4"] {
        k_conf(out, s, Some(&gen::pubkey(rng)));
    }

    // ---- script_pubkey / from_script on payloads no text form can carry: versions 0..31, any length
    let lens: Vec<usize> = if thorough { (0..=82).chain([255, 256, 257, 520, 65535, 65536]).collect() } else { vec![0, 1, 2, 19, 20, 21, 31, 32, 33, 40, 41, 42, 74, 75, 76, 77, 255, 256, 65536] };
    for ver in 0..32u8 {
        for len in &lens {
            if !thorough && *len > 42 && ver % 5 != 1 {
                continue;
            }
            let (n, p) = nets()[rng.gen_range(0..3)];
            let bl = if rng.gen_bool(0.5) { Some(gen::pubkey(rng)) } else { None };
            let a = mk(p, Payload::WitnessProgram { version: Fe32::try_from(ver).unwrap(), program: gen::bytes(rng, *len) }, bl);
            let std = is_standard(&a);
            out.count(&format!("spk.{}.{}", if std { "standard" } else { "nonstandard" }, n));
            k_spk(out, &a);
            check_script(out, &a, std);
        }
    }

    // ---- from_script on templates, near-templates and arbitrary scripts
    let mut scripts: Vec<Vec<u8>> = vec![vec![], vec![0x00], vec![0x51], vec![0x00, 0x14], vec![0x51, 0x20], vec![0x4f, 0x02, 1, 2], vec![0x50, 0x02, 1, 2], vec![0x61, 0x02, 1, 2]];
    for a in all.iter().step_by(if thorough { 1 } else { 5 }) {
        let s = a.script_pubkey().to_bytes();
        scripts.push(s.clone());
        for _ in 0..2 {
            scripts.push(gen::mutate(rng, &s));
        }
    }
    for ver_op in [0x00u8, 0x4f, 0x50, 0x51, 0x52, 0x60, 0x61] {
        for len in [0usize, 1, 2, 19, 20, 21, 31, 32, 33, 40, 41, 75, 76] {
            // direct push of `len` bytes, and the same with a wrong length byte / trailing byte
            let mut s = vec![ver_op, len as u8];
            s.extend(gen::bytes(rng, len));
            scripts.push(s.clone());
            let mut t = s.clone();
            t.push(0);
            scripts.push(t);
            if len > 0 {
                s.pop();
                scripts.push(s);
            }
        }
    }
    // p2pkh / p2sh with one opcode off
    for _ in 0..(10 * scale) {
        let h = gen::bytes(rng, 20);
        let mut s = vec![0x76, 0xa9, 0x14];
        s.extend(&h);
        s.extend([0x88, 0xac]);
        let i = rng.gen_range(0..s.len());
        let mut t = s.clone();
        t[i] = t[i].wrapping_add([1u8, 0xff][rng.gen_range(0..2)]);
        scripts.push(s);
        scripts.push(t);
        let mut s = vec![0xa9, 0x14];
        s.extend(&h);
        s.push(0x87);
        let i = rng.gen_range(0..s.len());
        let mut t = s.clone();
        t[i] ^= 1 << rng.gen_range(0..8);
        scripts.push(s);
        scripts.push(t);
    }
    for _ in 0..(40 * scale) {
        scripts.push(gen::script(rng).to_bytes());
    }
    for sb in &scripts {
        let (n, p) = nets()[rng.gen_range(0..3)];
        let bl = if rng.gen_bool(0.5) { Some(gen::pubkey(rng)) } else { None };
        let s = Script::from(sb.clone());
        if let Some(a) = k_fromscript(out, n, p, &s, bl) {
            out.s("from_script_then_script_pubkey", a.script_pubkey() == s && a.params == p && a.blinding_pubkey == bl, || hex(sb));
            out.s("from_script_address_is_standard", is_standard(&a), || hex(sb));
            out.s("from_script_only_on_templates", s.is_p2pkh() || s.is_p2sh() || s.is_witness_program(), || hex(sb));
        }
    }

    // ---- is_liquid on parameter sets that are not the three constants
    let builtin: Vec<(u8, u8, u8, String, String)> = nets().iter().map(|(_, p)| (p.p2pkh_prefix, p.p2sh_prefix, p.blinded_prefix, p.bech_hrp.as_str().to_string(), p.blech_hrp.as_str().to_string())).collect();
    for (a, b, c, h1, h2) in &builtin {
        k_isliquid(out, *a, *b, *c, h1, h2);
        k_isliquid(out, *a, *b, *c, &h1.to_uppercase(), h2);
        k_isliquid(out, *a, *b, *c, h1, &h2.to_uppercase());
        k_isliquid(out, *a, *b, *c, &h1.to_uppercase(), &h2.to_uppercase());
        let mixed: String = h1.chars().enumerate().map(|(i, ch)| if i % 2 == 0 { ch.to_ascii_uppercase() } else { ch }).collect();
        k_isliquid(out, *a, *b, *c, &mixed, h2);
        for d in [1u8, 0xff] {
            k_isliquid(out, a.wrapping_add(d), *b, *c, h1, h2);
            k_isliquid(out, *a, b.wrapping_add(d), *c, h1, h2);
            k_isliquid(out, *a, *b, c.wrapping_add(d), h1, h2);
        }
        for (o1, o2) in [("", h2.as_str()), (h1.as_str(), ""), (h2.as_str(), h1.as_str()), (&h1[..1], h2.as_str()), (h1.as_str(), &h2[..1])] {
            k_isliquid(out, *a, *b, *c, o1, o2);
        }
        k_isliquid(out, *a, *b, *c, &format!("{}x", h1), h2);
        k_isliquid(out, *a, *b, *c, h1, &format!("{}q", h2));
        for (_, _, _, g1, g2) in &builtin {
            k_isliquid(out, *a, *b, *c, g1, g2);
        }
    }
    for _ in 0..(30 * scale) {
        // LIQUID's values with random single-field replacements
        let (a, b, c, h1, h2) = builtin[0].clone();
        let rh = |rng: &mut R| -> String { (0..rng.gen_range(1..5)).map(|_| (b'a' + rng.gen_range(0..26u8)) as char).collect() };
        match rng.gen_range(0..5) {
            0 => k_isliquid(out, rng.gen(), b, c, &h1, &h2),
            1 => k_isliquid(out, a, rng.gen(), c, &h1, &h2),
            2 => k_isliquid(out, a, b, rng.gen(), &h1, &h2),
            3 => { let r = rh(rng); k_isliquid(out, a, b, c, &r, &h2) }
            _ => { let r = rh(rng); k_isliquid(out, a, b, c, &h1, &r) }
        }
    }

    // ---- taproot
    for i in 0..(40 * scale) {
        let (n, p) = nets()[i % 3];
        let key = gen::pubkey(rng).x_only_public_key().0;
        let root = match rng.gen_range(0..4) { 0 => None, 1 => Some([0u8; 32]), 2 => Some([0xff; 32]), _ => Some(gen::arr32(rng)) };
        let bl = if rng.gen_bool(0.5) { Some(gen::pubkey(rng)) } else { None };
        check_p2tr(out, rng, n, p, key, root, bl);
        // a pre-tweaked key (any x-only key)
        let tk = TweakedPublicKey::new(gen::pubkey(rng).x_only_public_key().0);
        let a = Address::p2tr_tweaked(tk, bl, p);
        out.k(format!("addr.p2trtw {} {} {}", n, hex(&tk.as_inner().serialize()), blinder_hex(&bl)), Out::guard(|| full(&a)));
        out.s("p2tr_tweaked_shape", matches!(&a.payload, Payload::WitnessProgram { version, program } if version.to_u8() == 1 && program[..] == tk.as_inner().serialize()[..])
            && a.params == p && a.blinding_pubkey == bl, || addr_desc(&a));
        check_p2tr_address(out, &a, &tk);
        let k = gen::pubkey(rng);
        check_conv(out, &mut seen, &a, &k);
    }

    // ---- the hash-based constructors
    for i in 0..(24 * scale) {
        let (n, p) = nets()[i % 3];
        let bl = if rng.gen_bool(0.5) { Some(gen::pubkey(rng)) } else { None };
        let pk = bitcoin::PublicKey { compressed: i % 4 != 3, inner: gen::pubkey(rng) };
        check_ctors_key(out, rng, n, p, &pk, bl);
        let s = match i % 6 { 0 => Script::new(), 1 => Script::from(vec![0x51]), 2 => Script::from(gen::bytes(rng, 520)), _ => gen::script(rng) };
        check_ctors_script(out, rng, n, p, &s, bl);
    }
}
