//! C20 support: a token tree for the serde data model, a RECORDING `serde::Serializer` that builds it from the
//! real `Serialize` impls (with `is_human_readable()` configurable), the canonical one-line printing shared
//! with the Lean driver, `lossy` (what JSON / CBOR keep of the data model) and a self-describing
//! `serde::Deserializer` over lossy trees (`TokDe`) that drives the real `Deserialize` impls.
//!
//! Printing (no spaces): `z` unit · `t`/`f` · `u8:N` `u16:N` `u32:N` `u64:N` `i8:N`… · `n:N` (width forgotten) ·
//! `F:<f64 bits hex>` · `c:<code>` · `s:<utf8 hex|->` · `b:<hex|->` · `N` none · `S(v)` some · `[a,b]` seq ·
//! `T[a,b]` tuple · `TS<name>[..]` tuple struct · `M{k=v,..}` map · `R<name>{f=v,..}` struct · `W<name>(v)` newtype
//! struct · `US<name>` unit struct · `UV<ty>.<i>.<name>` unit variant · `V<ty>.<i>.<name>(v)` newtype variant ·
//! `TV<ty>.<i>.<name>[..]` tuple variant · `RV<ty>.<i>.<name>{..}` struct variant.
use serde::de::{self, DeserializeSeed, IntoDeserializer, Visitor};
use serde::ser::{self, Serialize};
use std::fmt;

#[derive(Clone, Debug, PartialEq)]
pub enum Tok {
    Unit,
    Bool(bool),
    /// width 8/16/32/64 (0 = forgotten), value
    U(u8, u64),
    I(u8, i64),
    F(u64),
    Char(u32),
    Str(String),
    Bytes(Vec<u8>),
    None,
    Some(Box<Tok>),
    Seq(Vec<Tok>),
    Tuple(Vec<Tok>),
    TupleStruct(String, Vec<Tok>),
    Map(Vec<(Tok, Tok)>),
    Struct(String, Vec<(String, Tok)>),
    Newtype(String, Box<Tok>),
    UnitStruct(String),
    UnitVariant(String, u32, String),
    NewtypeVariant(String, u32, String, Box<Tok>),
    TupleVariant(String, u32, String, Vec<Tok>),
    StructVariant(String, u32, String, Vec<(String, Tok)>),
}

fn hx(b: &[u8]) -> String {
    crate::hex(b)
}

impl Tok {
    pub fn show(&self) -> String {
        let mut s = String::new();
        self.put(&mut s);
        s
    }
    fn list(v: &[Tok], s: &mut String) {
        s.push('[');
        for (i, x) in v.iter().enumerate() {
            if i > 0 {
                s.push(',');
            }
            x.put(s);
        }
        s.push(']');
    }
    fn fields(v: &[(String, Tok)], s: &mut String) {
        s.push('{');
        for (i, (k, x)) in v.iter().enumerate() {
            if i > 0 {
                s.push(',');
            }
            s.push_str(k);
            s.push('=');
            x.put(s);
        }
        s.push('}');
    }
    fn put(&self, s: &mut String) {
        match self {
            Tok::Unit => s.push('z'),
            Tok::Bool(b) => s.push(if *b { 't' } else { 'f' }),
            Tok::U(0, n) => s.push_str(&format!("n:{}", n)),
            Tok::U(w, n) => s.push_str(&format!("u{}:{}", w, n)),
            Tok::I(w, n) => s.push_str(&format!("i{}:{}", w, n)),
            Tok::F(b) => s.push_str(&format!("F:{:016x}", b)),
            Tok::Char(c) => s.push_str(&format!("c:{}", c)),
            Tok::Str(x) => {
                s.push_str("s:");
                s.push_str(&hx(x.as_bytes()))
            }
            Tok::Bytes(x) => {
                s.push_str("b:");
                s.push_str(&hx(x))
            }
            Tok::None => s.push('N'),
            Tok::Some(v) => {
                s.push_str("S(");
                v.put(s);
                s.push(')')
            }
            Tok::Seq(v) => Tok::list(v, s),
            Tok::Tuple(v) => {
                s.push('T');
                Tok::list(v, s)
            }
            Tok::TupleStruct(n, v) => {
                s.push_str("TS");
                s.push_str(n);
                Tok::list(v, s)
            }
            Tok::Map(v) => {
                s.push_str("M{");
                for (i, (k, x)) in v.iter().enumerate() {
                    if i > 0 {
                        s.push(',');
                    }
                    k.put(s);
                    s.push('=');
                    x.put(s);
                }
                s.push('}');
            }
            Tok::Struct(n, v) => {
                s.push('R');
                s.push_str(n);
                Tok::fields(v, s)
            }
            Tok::Newtype(n, v) => {
                s.push('W');
                s.push_str(n);
                s.push('(');
                v.put(s);
                s.push(')')
            }
            Tok::UnitStruct(n) => {
                s.push_str("US");
                s.push_str(n)
            }
            Tok::UnitVariant(t, i, n) => s.push_str(&format!("UV{}.{}.{}", t, i, n)),
            Tok::NewtypeVariant(t, i, n, v) => {
                s.push_str(&format!("V{}.{}.{}(", t, i, n));
                v.put(s);
                s.push(')')
            }
            Tok::TupleVariant(t, i, n, v) => {
                s.push_str(&format!("TV{}.{}.{}", t, i, n));
                Tok::list(v, s)
            }
            Tok::StructVariant(t, i, n, v) => {
                s.push_str(&format!("RV{}.{}.{}", t, i, n));
                Tok::fields(v, s)
            }
        }
    }

    /// what a self-describing format keeps: integer widths are forgotten, tuples and sequences are arrays,
    /// structs are maps keyed by field-name strings, newtype structs are transparent, `Some` is transparent,
    /// `None`/unit are null, a newtype variant is a one-entry map; JSON additionally turns byte strings into
    /// arrays of numbers (CBOR keeps them)
    pub fn lossy(&self, json: bool) -> Tok {
        let l = |v: &Vec<Tok>| v.iter().map(|x| x.lossy(json)).collect::<Vec<_>>();
        let fl = |v: &Vec<(String, Tok)>| v.iter().map(|(k, x)| (Tok::Str(k.clone()), x.lossy(json))).collect::<Vec<_>>();
        match self {
            Tok::Unit | Tok::None | Tok::UnitStruct(_) => Tok::Unit,
            Tok::Bool(b) => Tok::Bool(*b),
            Tok::U(_, n) => Tok::U(0, *n),
            Tok::I(_, n) => {
                if *n >= 0 {
                    Tok::U(0, *n as u64)
                } else {
                    Tok::I(0, *n)
                }
            }
            Tok::F(b) => Tok::F(*b),
            Tok::Char(c) => Tok::Str(char::from_u32(*c).unwrap_or('?').to_string()),
            Tok::Str(s) => Tok::Str(s.clone()),
            Tok::Bytes(b) => {
                if json {
                    Tok::Seq(b.iter().map(|x| Tok::U(0, *x as u64)).collect())
                } else {
                    Tok::Bytes(b.clone())
                }
            }
            Tok::Some(v) => v.lossy(json),
            Tok::Seq(v) | Tok::Tuple(v) | Tok::TupleStruct(_, v) => Tok::Seq(l(v)),
            Tok::Map(v) => Tok::Map(v.iter().map(|(k, x)| (k.lossy(json), x.lossy(json))).collect()),
            Tok::Struct(_, v) => Tok::Map(fl(v)),
            Tok::Newtype(_, v) => v.lossy(json),
            Tok::UnitVariant(_, _, n) => Tok::Str(n.clone()),
            // serde_json: `{"Variant": content}`; serde_cbor 0.8: the array `[variant, content…]`
            Tok::NewtypeVariant(_, _, n, v) => {
                if json {
                    Tok::Map(vec![(Tok::Str(n.clone()), v.lossy(json))])
                } else {
                    Tok::Seq(vec![Tok::Str(n.clone()), v.lossy(json)])
                }
            }
            Tok::TupleVariant(_, _, n, v) => {
                if json {
                    Tok::Map(vec![(Tok::Str(n.clone()), Tok::Seq(l(v)))])
                } else {
                    let mut a = vec![Tok::Str(n.clone())];
                    a.extend(l(v));
                    Tok::Seq(a)
                }
            }
            Tok::StructVariant(_, _, n, v) => {
                if json {
                    Tok::Map(vec![(Tok::Str(n.clone()), Tok::Map(fl(v)))])
                } else {
                    Tok::Seq(vec![Tok::Str(n.clone()), Tok::Map(fl(v))])
                }
            }
        }
    }
}

// ------------------------------------------------------------------ recording serializer

#[derive(Debug)]
pub struct TokErr(pub String);
impl fmt::Display for TokErr {
    fn fmt(&self, f: &mut fmt::Formatter) -> fmt::Result {
        f.write_str(&self.0)
    }
}
impl std::error::Error for TokErr {}
impl ser::Error for TokErr {
    fn custom<T: fmt::Display>(m: T) -> Self {
        TokErr(m.to_string())
    }
}
impl de::Error for TokErr {
    fn custom<T: fmt::Display>(m: T) -> Self {
        TokErr(m.to_string())
    }
}

#[derive(Clone, Copy)]
pub struct Rec {
    pub human: bool,
}

pub fn record<T: Serialize + ?Sized>(v: &T, human: bool) -> Result<Tok, TokErr> {
    v.serialize(Rec { human })
}

pub struct RecList {
    human: bool,
    kind: u8, // 0 seq 1 tuple 2 tuple struct 3 tuple variant
    name: String,
    idx: u32,
    var: String,
    items: Vec<Tok>,
}
pub struct RecMap {
    human: bool,
    items: Vec<(Tok, Tok)>,
    key: Option<Tok>,
}
pub struct RecStruct {
    human: bool,
    variant: bool,
    name: String,
    idx: u32,
    var: String,
    items: Vec<(String, Tok)>,
}

impl ser::Serializer for Rec {
    type Ok = Tok;
    type Error = TokErr;
    type SerializeSeq = RecList;
    type SerializeTuple = RecList;
    type SerializeTupleStruct = RecList;
    type SerializeTupleVariant = RecList;
    type SerializeMap = RecMap;
    type SerializeStruct = RecStruct;
    type SerializeStructVariant = RecStruct;

    fn is_human_readable(&self) -> bool {
        self.human
    }
    fn serialize_bool(self, v: bool) -> Result<Tok, TokErr> {
        Ok(Tok::Bool(v))
    }
    fn serialize_i8(self, v: i8) -> Result<Tok, TokErr> {
        Ok(Tok::I(8, v as i64))
    }
    fn serialize_i16(self, v: i16) -> Result<Tok, TokErr> {
        Ok(Tok::I(16, v as i64))
    }
    fn serialize_i32(self, v: i32) -> Result<Tok, TokErr> {
        Ok(Tok::I(32, v as i64))
    }
    fn serialize_i64(self, v: i64) -> Result<Tok, TokErr> {
        Ok(Tok::I(64, v))
    }
    fn serialize_u8(self, v: u8) -> Result<Tok, TokErr> {
        Ok(Tok::U(8, v as u64))
    }
    fn serialize_u16(self, v: u16) -> Result<Tok, TokErr> {
        Ok(Tok::U(16, v as u64))
    }
    fn serialize_u32(self, v: u32) -> Result<Tok, TokErr> {
        Ok(Tok::U(32, v as u64))
    }
    fn serialize_u64(self, v: u64) -> Result<Tok, TokErr> {
        Ok(Tok::U(64, v))
    }
    fn serialize_f32(self, v: f32) -> Result<Tok, TokErr> {
        Ok(Tok::F((v as f64).to_bits()))
    }
    fn serialize_f64(self, v: f64) -> Result<Tok, TokErr> {
        Ok(Tok::F(v.to_bits()))
    }
    fn serialize_char(self, v: char) -> Result<Tok, TokErr> {
        Ok(Tok::Char(v as u32))
    }
    fn serialize_str(self, v: &str) -> Result<Tok, TokErr> {
        Ok(Tok::Str(v.to_string()))
    }
    fn serialize_bytes(self, v: &[u8]) -> Result<Tok, TokErr> {
        Ok(Tok::Bytes(v.to_vec()))
    }
    fn serialize_none(self) -> Result<Tok, TokErr> {
        Ok(Tok::None)
    }
    fn serialize_some<T: Serialize + ?Sized>(self, v: &T) -> Result<Tok, TokErr> {
        Ok(Tok::Some(Box::new(v.serialize(self)?)))
    }
    fn serialize_unit(self) -> Result<Tok, TokErr> {
        Ok(Tok::Unit)
    }
    fn serialize_unit_struct(self, name: &'static str) -> Result<Tok, TokErr> {
        Ok(Tok::UnitStruct(name.into()))
    }
    fn serialize_unit_variant(self, ty: &'static str, i: u32, var: &'static str) -> Result<Tok, TokErr> {
        Ok(Tok::UnitVariant(ty.into(), i, var.into()))
    }
    fn serialize_newtype_struct<T: Serialize + ?Sized>(self, name: &'static str, v: &T) -> Result<Tok, TokErr> {
        Ok(Tok::Newtype(name.into(), Box::new(v.serialize(self)?)))
    }
    fn serialize_newtype_variant<T: Serialize + ?Sized>(self, ty: &'static str, i: u32, var: &'static str, v: &T) -> Result<Tok, TokErr> {
        Ok(Tok::NewtypeVariant(ty.into(), i, var.into(), Box::new(v.serialize(self)?)))
    }
    fn serialize_seq(self, _len: Option<usize>) -> Result<RecList, TokErr> {
        Ok(RecList { human: self.human, kind: 0, name: String::new(), idx: 0, var: String::new(), items: vec![] })
    }
    fn serialize_tuple(self, _len: usize) -> Result<RecList, TokErr> {
        Ok(RecList { human: self.human, kind: 1, name: String::new(), idx: 0, var: String::new(), items: vec![] })
    }
    fn serialize_tuple_struct(self, name: &'static str, _len: usize) -> Result<RecList, TokErr> {
        Ok(RecList { human: self.human, kind: 2, name: name.into(), idx: 0, var: String::new(), items: vec![] })
    }
    fn serialize_tuple_variant(self, ty: &'static str, i: u32, var: &'static str, _len: usize) -> Result<RecList, TokErr> {
        Ok(RecList { human: self.human, kind: 3, name: ty.into(), idx: i, var: var.into(), items: vec![] })
    }
    fn serialize_map(self, _len: Option<usize>) -> Result<RecMap, TokErr> {
        Ok(RecMap { human: self.human, items: vec![], key: None })
    }
    fn serialize_struct(self, name: &'static str, _len: usize) -> Result<RecStruct, TokErr> {
        Ok(RecStruct { human: self.human, variant: false, name: name.into(), idx: 0, var: String::new(), items: vec![] })
    }
    fn serialize_struct_variant(self, ty: &'static str, i: u32, var: &'static str, _len: usize) -> Result<RecStruct, TokErr> {
        Ok(RecStruct { human: self.human, variant: true, name: ty.into(), idx: i, var: var.into(), items: vec![] })
    }
}

impl RecList {
    fn push<T: Serialize + ?Sized>(&mut self, v: &T) -> Result<(), TokErr> {
        self.items.push(v.serialize(Rec { human: self.human })?);
        Ok(())
    }
    fn finish(self) -> Result<Tok, TokErr> {
        Ok(match self.kind {
            0 => Tok::Seq(self.items),
            1 => Tok::Tuple(self.items),
            2 => Tok::TupleStruct(self.name, self.items),
            _ => Tok::TupleVariant(self.name, self.idx, self.var, self.items),
        })
    }
}
impl ser::SerializeSeq for RecList {
    type Ok = Tok;
    type Error = TokErr;
    fn serialize_element<T: Serialize + ?Sized>(&mut self, v: &T) -> Result<(), TokErr> {
        self.push(v)
    }
    fn end(self) -> Result<Tok, TokErr> {
        self.finish()
    }
}
impl ser::SerializeTuple for RecList {
    type Ok = Tok;
    type Error = TokErr;
    fn serialize_element<T: Serialize + ?Sized>(&mut self, v: &T) -> Result<(), TokErr> {
        self.push(v)
    }
    fn end(self) -> Result<Tok, TokErr> {
        self.finish()
    }
}
impl ser::SerializeTupleStruct for RecList {
    type Ok = Tok;
    type Error = TokErr;
    fn serialize_field<T: Serialize + ?Sized>(&mut self, v: &T) -> Result<(), TokErr> {
        self.push(v)
    }
    fn end(self) -> Result<Tok, TokErr> {
        self.finish()
    }
}
impl ser::SerializeTupleVariant for RecList {
    type Ok = Tok;
    type Error = TokErr;
    fn serialize_field<T: Serialize + ?Sized>(&mut self, v: &T) -> Result<(), TokErr> {
        self.push(v)
    }
    fn end(self) -> Result<Tok, TokErr> {
        self.finish()
    }
}
impl ser::SerializeMap for RecMap {
    type Ok = Tok;
    type Error = TokErr;
    fn serialize_key<T: Serialize + ?Sized>(&mut self, k: &T) -> Result<(), TokErr> {
        self.key = Some(k.serialize(Rec { human: self.human })?);
        Ok(())
    }
    fn serialize_value<T: Serialize + ?Sized>(&mut self, v: &T) -> Result<(), TokErr> {
        let k = self.key.take().ok_or_else(|| TokErr("value without key".into()))?;
        self.items.push((k, v.serialize(Rec { human: self.human })?));
        Ok(())
    }
    fn end(self) -> Result<Tok, TokErr> {
        Ok(Tok::Map(self.items))
    }
}
impl ser::SerializeStruct for RecStruct {
    type Ok = Tok;
    type Error = TokErr;
    fn serialize_field<T: Serialize + ?Sized>(&mut self, k: &'static str, v: &T) -> Result<(), TokErr> {
        self.items.push((k.to_string(), v.serialize(Rec { human: self.human })?));
        Ok(())
    }
    fn end(self) -> Result<Tok, TokErr> {
        Ok(if self.variant { Tok::StructVariant(self.name, self.idx, self.var, self.items) } else { Tok::Struct(self.name, self.items) })
    }
}
impl ser::SerializeStructVariant for RecStruct {
    type Ok = Tok;
    type Error = TokErr;
    fn serialize_field<T: Serialize + ?Sized>(&mut self, k: &'static str, v: &T) -> Result<(), TokErr> {
        self.items.push((k.to_string(), v.serialize(Rec { human: self.human })?));
        Ok(())
    }
    fn end(self) -> Result<Tok, TokErr> {
        Ok(if self.variant { Tok::StructVariant(self.name, self.idx, self.var, self.items) } else { Tok::Struct(self.name, self.items) })
    }
}

// ------------------------------------------------------------------ self-describing deserializer over lossy trees
//
// Dispatch rules (the "format" the model's `ofS` is written against; serde_cbor behaves exactly like this and
// serde_json does for every hint the impls under test use):
//   every `deserialize_*` hint dispatches on the token: unit→visit_unit, bool→visit_bool, n→visit_u64 (i→visit_i64),
//   str→visit_str, bytes→visit_bytes, seq→visit_seq, map→visit_map;
//   `deserialize_option`: unit→visit_none, anything else→visit_some(self);
//   `deserialize_newtype_struct`→visit_newtype_struct(self);
//   `deserialize_enum`: str→unit variant; one-entry map (serde_json's form) or two-element array (serde_cbor 0.8's
//   form)→(variant key, content);
//   after `visit_seq`/`visit_map` returns Ok, unconsumed elements are an error (as in both format crates).

pub struct TokDe<'a> {
    pub tok: &'a Tok,
    pub human: bool,
    /// serde_cbor calls `visit_u8/u16/u32/u64` by encoded width, serde_json always `visit_u64`
    pub narrow: bool,
}

pub fn from_tok<'de, T: de::Deserialize<'de>>(tok: &'de Tok, human: bool) -> Result<T, TokErr> {
    T::deserialize(TokDe { tok, human, narrow: false })
}
pub fn from_tok_narrow<'de, T: de::Deserialize<'de>>(tok: &'de Tok, human: bool, narrow: bool) -> Result<T, TokErr> {
    T::deserialize(TokDe { tok, human, narrow })
}

struct SeqAcc<'a> {
    it: std::slice::Iter<'a, Tok>,
    human: bool,
    narrow: bool,
}
impl<'de> de::SeqAccess<'de> for SeqAcc<'de> {
    type Error = TokErr;
    fn next_element_seed<S: DeserializeSeed<'de>>(&mut self, seed: S) -> Result<Option<S::Value>, TokErr> {
        match self.it.next() {
            Some(t) => seed.deserialize(TokDe { tok: t, human: self.human, narrow: self.narrow }).map(Some),
            None => Ok(None),
        }
    }
    fn size_hint(&self) -> Option<usize> {
        Some(self.it.len())
    }
}
struct MapAcc<'a> {
    it: std::slice::Iter<'a, (Tok, Tok)>,
    val: Option<&'a Tok>,
    human: bool,
    narrow: bool,
}
impl<'de> de::MapAccess<'de> for MapAcc<'de> {
    type Error = TokErr;
    fn next_key_seed<S: DeserializeSeed<'de>>(&mut self, seed: S) -> Result<Option<S::Value>, TokErr> {
        match self.it.next() {
            Some((k, v)) => {
                self.val = Some(v);
                seed.deserialize(TokDe { tok: k, human: self.human, narrow: self.narrow }).map(Some)
            }
            None => Ok(None),
        }
    }
    fn next_value_seed<S: DeserializeSeed<'de>>(&mut self, seed: S) -> Result<S::Value, TokErr> {
        match self.val.take() {
            Some(v) => seed.deserialize(TokDe { tok: v, human: self.human, narrow: self.narrow }),
            None => Err(TokErr("value before key".into())),
        }
    }
}
struct EnumAcc<'a> {
    key: &'a Tok,
    val: Option<&'a Tok>,
    human: bool,
    narrow: bool,
}
impl<'de> de::EnumAccess<'de> for EnumAcc<'de> {
    type Error = TokErr;
    type Variant = VarAcc<'de>;
    fn variant_seed<S: DeserializeSeed<'de>>(self, seed: S) -> Result<(S::Value, VarAcc<'de>), TokErr> {
        let v = seed.deserialize(TokDe { tok: self.key, human: self.human, narrow: self.narrow })?;
        Ok((v, VarAcc { val: self.val, human: self.human, narrow: self.narrow }))
    }
}
struct VarAcc<'a> {
    val: Option<&'a Tok>,
    human: bool,
    narrow: bool,
}
impl<'de> de::VariantAccess<'de> for VarAcc<'de> {
    type Error = TokErr;
    fn unit_variant(self) -> Result<(), TokErr> {
        match self.val {
            None | Some(Tok::Unit) => Ok(()),
            Some(_) => Err(TokErr("expected unit variant".into())),
        }
    }
    fn newtype_variant_seed<S: DeserializeSeed<'de>>(self, seed: S) -> Result<S::Value, TokErr> {
        match self.val {
            Some(v) => seed.deserialize(TokDe { tok: v, human: self.human, narrow: self.narrow }),
            None => Err(TokErr("expected newtype variant".into())),
        }
    }
    fn tuple_variant<V: Visitor<'de>>(self, _len: usize, visitor: V) -> Result<V::Value, TokErr> {
        match self.val {
            Some(v) => de::Deserializer::deserialize_seq(TokDe { tok: v, human: self.human, narrow: self.narrow }, visitor),
            None => Err(TokErr("expected tuple variant".into())),
        }
    }
    fn struct_variant<V: Visitor<'de>>(self, _f: &'static [&'static str], visitor: V) -> Result<V::Value, TokErr> {
        match self.val {
            Some(v) => de::Deserializer::deserialize_map(TokDe { tok: v, human: self.human, narrow: self.narrow }, visitor),
            None => Err(TokErr("expected struct variant".into())),
        }
    }
}

impl<'de> de::Deserializer<'de> for TokDe<'de> {
    type Error = TokErr;
    fn is_human_readable(&self) -> bool {
        self.human
    }
    fn deserialize_any<V: Visitor<'de>>(self, visitor: V) -> Result<V::Value, TokErr> {
        match self.tok {
            Tok::Unit | Tok::None => visitor.visit_unit(),
            Tok::Bool(b) => visitor.visit_bool(*b),
            Tok::U(_, n) => {
                if self.narrow && *n < 256 {
                    visitor.visit_u8(*n as u8)
                } else if self.narrow && *n < 65536 {
                    visitor.visit_u16(*n as u16)
                } else if self.narrow && *n < (1 << 32) {
                    visitor.visit_u32(*n as u32)
                } else {
                    visitor.visit_u64(*n)
                }
            }
            Tok::I(_, n) => visitor.visit_i64(*n),
            Tok::F(b) => visitor.visit_f64(f64::from_bits(*b)),
            Tok::Str(s) => visitor.visit_borrowed_str(s),
            Tok::Bytes(b) => {
                // `PedersenCommitment::from_slice` / `Generator::from_slice` (secp256k1-zkp 0.11) read 33 bytes
                // from the slice pointer WITHOUT checking its length: a shorter byte string is an out-of-bounds
                // read (undefined behaviour) in the dependency. The model records this case as an error; the
                // real call is not made.
                let ty = std::any::type_name::<V::Value>();
                if b.len() < 33 && (ty.ends_with("PedersenCommitment") || ty.ends_with("Generator")) {
                    return Err(TokErr("short slice for a 33-byte point (out-of-bounds read in the dependency)".into()));
                }
                visitor.visit_borrowed_bytes(b)
            }
            Tok::Seq(v) => {
                let mut acc = SeqAcc { it: v.iter(), human: self.human, narrow: self.narrow };
                let r = visitor.visit_seq(&mut acc)?;
                if acc.it.len() != 0 {
                    return Err(TokErr("trailing elements".into()));
                }
                Ok(r)
            }
            Tok::Map(v) => {
                let mut acc = MapAcc { it: v.iter(), val: None, human: self.human, narrow: self.narrow };
                let r = visitor.visit_map(&mut acc)?;
                if acc.it.len() != 0 {
                    return Err(TokErr("trailing entries".into()));
                }
                Ok(r)
            }
            other => Err(TokErr(format!("token {} is not in the lossy subset", other.show()))),
        }
    }
    fn deserialize_option<V: Visitor<'de>>(self, visitor: V) -> Result<V::Value, TokErr> {
        match self.tok {
            Tok::Unit | Tok::None => visitor.visit_none(),
            _ => visitor.visit_some(self),
        }
    }
    fn deserialize_newtype_struct<V: Visitor<'de>>(self, _name: &'static str, visitor: V) -> Result<V::Value, TokErr> {
        visitor.visit_newtype_struct(self)
    }
    fn deserialize_enum<V: Visitor<'de>>(self, _name: &'static str, _variants: &'static [&'static str], visitor: V) -> Result<V::Value, TokErr> {
        match self.tok {
            Tok::Str(_) => visitor.visit_enum(EnumAcc { key: self.tok, val: None, human: self.human, narrow: self.narrow }),
            Tok::Map(v) if v.len() == 1 => visitor.visit_enum(EnumAcc { key: &v[0].0, val: Some(&v[0].1), human: self.human, narrow: self.narrow }),
            Tok::Seq(v) if v.len() == 2 => visitor.visit_enum(EnumAcc { key: &v[0], val: Some(&v[1]), human: self.human, narrow: self.narrow }),
            _ => Err(TokErr("expected an enum (string, one-entry map or two-element array)".into())),
        }
    }
    serde::forward_to_deserialize_any! {
        bool i8 i16 i32 i64 i128 u8 u16 u32 u64 u128 f32 f64 char str string bytes byte_buf unit unit_struct
        seq tuple tuple_struct map struct identifier ignored_any
    }
}

impl<'de> IntoDeserializer<'de, TokErr> for TokDe<'de> {
    type Deserializer = Self;
    fn into_deserializer(self) -> Self {
        self
    }
}

// ------------------------------------------------------------------ parsing the printed lossy subset (for replays)

pub fn parse(s: &str) -> Option<Tok> {
    let b = s.as_bytes();
    let (t, rest) = parse_at(b)?;
    if rest.is_empty() {
        Some(t)
    } else {
        None
    }
}
fn parse_hex(b: &[u8]) -> Option<(Vec<u8>, &[u8])> {
    if b.first() == Some(&b'-') {
        return Some((vec![], &b[1..]));
    }
    let n = b.iter().take_while(|c| c.is_ascii_hexdigit()).count();
    if n % 2 != 0 {
        return None;
    }
    Some((crate::unhex(std::str::from_utf8(&b[..n]).ok()?), &b[n..]))
}
fn parse_at(b: &[u8]) -> Option<(Tok, &[u8])> {
    match *b.first()? {
        b'z' => Some((Tok::Unit, &b[1..])),
        b't' => Some((Tok::Bool(true), &b[1..])),
        b'f' => Some((Tok::Bool(false), &b[1..])),
        b'n' if b.get(1) == Some(&b':') => {
            let n = b[2..].iter().take_while(|c| c.is_ascii_digit()).count();
            let v: u64 = std::str::from_utf8(&b[2..2 + n]).ok()?.parse().ok()?;
            Some((Tok::U(0, v), &b[2 + n..]))
        }
        b's' if b.get(1) == Some(&b':') => {
            let (h, r) = parse_hex(&b[2..])?;
            Some((Tok::Str(String::from_utf8(h).ok()?), r))
        }
        b'b' if b.get(1) == Some(&b':') => {
            let (h, r) = parse_hex(&b[2..])?;
            Some((Tok::Bytes(h), r))
        }
        b'[' => {
            let mut r = &b[1..];
            let mut v = vec![];
            if r.first() == Some(&b']') {
                return Some((Tok::Seq(v), &r[1..]));
            }
            loop {
                let (t, r2) = parse_at(r)?;
                v.push(t);
                match *r2.first()? {
                    b',' => r = &r2[1..],
                    b']' => return Some((Tok::Seq(v), &r2[1..])),
                    _ => return None,
                }
            }
        }
        b'M' if b.get(1) == Some(&b'{') => {
            let mut r = &b[2..];
            let mut v = vec![];
            if r.first() == Some(&b'}') {
                return Some((Tok::Map(v), &r[1..]));
            }
            loop {
                let (k, r2) = parse_at(r)?;
                if r2.first() != Some(&b'=') {
                    return None;
                }
                let (x, r3) = parse_at(&r2[1..])?;
                v.push((k, x));
                match *r3.first()? {
                    b',' => r = &r3[1..],
                    b'}' => return Some((Tok::Map(v), &r3[1..])),
                    _ => return None,
                }
            }
        }
        _ => None,
    }
}
