//! C10 — fallible public APIs are total: errors, never panics or unbounded allocation.
//!
//! Every listed API of the real code is fed valid, mutated, truncated, adversarial and random
//! inputs under `catch_unwind`, with a counting global allocator measuring, per call, the peak
//! of live heap bytes and the largest single request.  A request above 1 GiB terminates the
//! process with exit code 86 and a marker line on stderr (`bin/check` reports a non-zero harness
//! exit as a violation).
//!
//! S checks (one triple per API):
//!   no_panic.<api>      the call returned (Ok/Err/Some/None), it did not unwind
//!   alloc.<api>         peak live bytes during the call <= 64 * input_len + fixed budget
//!   alloc_single.<api>  largest single request <= MAX_VEC_SIZE (4 MB) or a small multiple of the input
//!   slice_length_respected.<api>  a slice parser rejects every proper prefix of a valid encoding
//!   panic_only_if_documented.<api>  a documented panic happens exactly in its documented condition
//! K ops (`acc.*`): the accessors modelled in lean/EV/Model/Accessors.lean.
//!
//! Findings of this module, all fixed in /repo since (the checks that found them stay):
//!   d0f55c0  PSET commitment fields / Value::from_commitment / Asset::from_commitment handed slices of any
//!            length to libsecp (33 bytes read regardless): SIGSEGV on an empty field, heap over-read otherwise
//!   4f34601  Transaction::verify_tx_amt_proofs panicked on an issuance amount / inflation keys of Explicit(0)
//!   17ff2cc  blinding Explicit(0) with a zero value blinding factor panicked (Transaction::blind, Pset::blind_last)
//! Recorded, outside the property's scope (counted under `observed(out-of-scope).*`): Pset::remove_input /
//! remove_output count underflow after the public `global` field was replaced; TaprootBuilder::finalize on a
//! builder that serde produced with `branch = [null]`; Transaction::all_fees overflow (DESIGN Appendix C).
use crate::props::{c01, c04};
use crate::{gen, hex, Out, Rng, SeedableRng, R};
use elements::confidential::{Asset, AssetBlindingFactor, Nonce, Value, ValueBlindingFactor};
use elements::encode::{deserialize, deserialize_partial, serialize, Decodable};
use elements::pset::{self, PartiallySignedTransaction as Pset};
use elements::schnorr::SchnorrSig;
use elements::script::{self, Instruction};
use elements::secp256k1_zkp::{self as zkp, PublicKey, RangeProof, SecretKey, SurjectionProof, Tweak, SECP256K1};
use elements::sighash::{Annex, Prevouts, SighashCache};
use elements::taproot::{ControlBlock, LeafVersion, TapLeafHash, TapNodeHash, TaprootBuilder, TaprootError, TaprootMerkleBranch, TaprootSpendInfo};
use elements::{
    Address, AddressParams, AssetId, AssetIssuance, Block, BlockHash, BlockHeader, EcdsaSighashType, LockTime, OutPoint, PeginData,
    SchnorrSighashType, Script, Sequence, Transaction, TxIn, TxInWitness, TxOut, TxOutSecrets, TxOutWitness, Txid,
};
use std::alloc::{GlobalAlloc, Layout, System};
use std::collections::HashMap;
use std::panic::{catch_unwind, AssertUnwindSafe};
use std::str::FromStr;
use std::sync::atomic::{AtomicUsize, Ordering::Relaxed};
use std::sync::Mutex;

// ------------------------------------------------------------------------------------------
// counting allocator
// ------------------------------------------------------------------------------------------

pub struct CountingAlloc;

static LIVE: AtomicUsize = AtomicUsize::new(0);
static PEAK: AtomicUsize = AtomicUsize::new(0);
static BASE: AtomicUsize = AtomicUsize::new(0);
static MAXREQ: AtomicUsize = AtomicUsize::new(0);
static FIRST: AtomicUsize = AtomicUsize::new(0);
static NREQ: AtomicUsize = AtomicUsize::new(0);
/// requests above this size end the process (so that a missing length guard cannot make the
/// machine swap): 1 GiB
const HUGE: usize = 1 << 30;
static CTX_LEN: AtomicUsize = AtomicUsize::new(0);
static mut CTX_BUF: [u8; 400] = [0u8; 400];

#[inline]
fn account(size: usize) {
    let live = LIVE.fetch_add(size, Relaxed) + size;
    if live > PEAK.load(Relaxed) {
        PEAK.store(live, Relaxed);
    }
    if size > MAXREQ.load(Relaxed) {
        MAXREQ.store(size, Relaxed);
    }
    if NREQ.fetch_add(1, Relaxed) == 0 {
        FIRST.store(size, Relaxed);
    }
}

#[cold]
fn huge_request(size: usize) -> ! {
    use std::io::Write;
    // no allocation on this path: fixed buffers only
    let mut num = [0u8; 24];
    let mut n = size;
    let mut i = num.len();
    loop {
        i -= 1;
        num[i] = b'0' + (n % 10) as u8;
        n /= 10;
        if n == 0 {
            break;
        }
    }
    let err = std::io::stderr();
    let mut e = err.lock();
    let _ = e.write_all(b"C10-HUGE-ALLOCATION request_bytes=");
    let _ = e.write_all(&num[i..]);
    let _ = e.write_all(b" during ");
    let l = CTX_LEN.load(Relaxed).min(400);
    // SAFETY: single-threaded harness; the buffer is only written between calls
    let ctx: &[u8] = unsafe { &*std::ptr::addr_of!(CTX_BUF) };
    let _ = e.write_all(&ctx[..l]);
    let _ = e.write_all(b"\n");
    std::process::exit(86);
}

unsafe impl GlobalAlloc for CountingAlloc {
    unsafe fn alloc(&self, l: Layout) -> *mut u8 {
        if l.size() > HUGE {
            huge_request(l.size());
        }
        let p = System.alloc(l);
        if !p.is_null() {
            account(l.size());
        }
        p
    }
    unsafe fn alloc_zeroed(&self, l: Layout) -> *mut u8 {
        if l.size() > HUGE {
            huge_request(l.size());
        }
        let p = System.alloc_zeroed(l);
        if !p.is_null() {
            account(l.size());
        }
        p
    }
    unsafe fn dealloc(&self, p: *mut u8, l: Layout) {
        System.dealloc(p, l);
        LIVE.fetch_sub(l.size(), Relaxed);
    }
    unsafe fn realloc(&self, p: *mut u8, l: Layout, new_size: usize) -> *mut u8 {
        if new_size > HUGE {
            huge_request(new_size);
        }
        let q = System.realloc(p, l, new_size);
        if !q.is_null() {
            LIVE.fetch_sub(l.size(), Relaxed);
            account(new_size);
        }
        q
    }
}

#[global_allocator]
static GLOBAL: CountingAlloc = CountingAlloc;

pub fn alloc_reset() {
    let live = LIVE.load(Relaxed);
    BASE.store(live, Relaxed);
    PEAK.store(live, Relaxed);
    MAXREQ.store(0, Relaxed);
    FIRST.store(0, Relaxed);
    NREQ.store(0, Relaxed);
}
/// peak of live bytes since the last reset, above the level at the reset
pub fn alloc_peak() -> usize {
    PEAK.load(Relaxed).saturating_sub(BASE.load(Relaxed))
}
pub fn alloc_maxreq() -> usize {
    MAXREQ.load(Relaxed)
}
pub fn alloc_first() -> usize {
    FIRST.load(Relaxed)
}
fn set_ctx(api: &str, input: &[u8]) {
    // SAFETY: single-threaded harness
    let buf: &mut [u8; 400] = unsafe { &mut *std::ptr::addr_of_mut!(CTX_BUF) };
    let mut n = 0;
    for &b in api.as_bytes().iter().take(80) {
        buf[n] = b;
        n += 1;
    }
    buf[n] = b' ';
    n += 1;
    const HX: &[u8; 16] = b"0123456789abcdef";
    for &b in input.iter().take(150) {
        buf[n] = HX[(b >> 4) as usize];
        buf[n + 1] = HX[(b & 15) as usize];
        n += 2;
    }
    CTX_LEN.store(n, Relaxed);
}

// ------------------------------------------------------------------------------------------
// probe: one guarded, measured call
// ------------------------------------------------------------------------------------------

const MAX_VEC_SIZE: usize = 4_000_000;
/// fixed part of the peak bound: the decoders pre-allocate at most MAX_VEC_SIZE per vector and
/// vectors nest at most 8 deep (block → txdata → inputs/outputs → witness stack → element, dynafed
/// params → signblock witness / extension space → element), plus 4 MiB of slack
const FIXED_BUDGET: usize = 8 * MAX_VEC_SIZE + (4 << 20);

static LAST_PANIC: Mutex<String> = Mutex::new(String::new());

struct Limits {
    /// extra peak budget (PSET: 10 000 pre-allocated maps)
    extra_peak: usize,
    /// largest admissible single request
    single: usize,
}
fn lim() -> Limits {
    Limits { extra_peak: 0, single: MAX_VEC_SIZE + 4096 }
}
fn pset_lim() -> Limits {
    let maps = 10_000 * std::mem::size_of::<pset::Input>().max(std::mem::size_of::<pset::Output>());
    Limits { extra_peak: 2 * maps, single: (MAX_VEC_SIZE + 4096).max(maps + 4096) }
}

/// run `f` under catch_unwind with allocation accounting; `f` returns (is_ok, value)
fn probe<T>(out: &mut Out, api: &str, input: &[u8], l: &Limits, f: impl FnOnce() -> (bool, T)) -> Option<T> {
    set_ctx(api, input);
    alloc_reset();
    let r = catch_unwind(AssertUnwindSafe(f));
    let peak = alloc_peak();
    let maxreq = alloc_maxreq();
    let n = input.len();
    let shown = |b: &[u8]| if b.len() > 3000 { format!("{}…({} bytes)", hex(&b[..3000]), b.len()) } else { hex(b) };
    match &r {
        Ok((ok, _)) => {
            out.count(&format!("{}.{}", api, if *ok { "ok" } else { "err" }));
            out.s(&format!("no_panic.{}", api), true, String::new);
        }
        Err(_) => {
            out.count(&format!("{}.panic", api));
            let at = LAST_PANIC.lock().map(|s| s.clone()).unwrap_or_default();
            out.s(&format!("no_panic.{}", api), false, || format!("input={} panic={}", shown(input), at));
        }
    }
    let bound = 64 * n + FIXED_BUDGET + l.extra_peak;
    out.s(&format!("alloc.{}", api), peak <= bound, || format!("input={} peak_bytes={} bound={}", shown(input), peak, bound));
    let sbound = l.single.max(16 * n + 4096);
    out.s(&format!("alloc_single.{}", api), maxreq <= sbound, || format!("input={} largest_request={} bound={}", shown(input), maxreq, sbound));
    r.ok().map(|x| x.1)
}
/// Result-returning call: value dropped
fn pr<T, E>(out: &mut Out, api: &str, input: &[u8], f: impl FnOnce() -> Result<T, E>) -> Option<Result<T, E>> {
    probe(out, api, input, &lim(), || {
        let r = f();
        (r.is_ok(), r)
    })
}
/// Option-returning call
fn po<T>(out: &mut Out, api: &str, input: &[u8], f: impl FnOnce() -> Option<T>) -> Option<Option<T>> {
    probe(out, api, input, &lim(), || {
        let r = f();
        (r.is_some(), r)
    })
}
/// plain call (accessor with a plain return type)
fn pv<T>(out: &mut Out, api: &str, input: &[u8], f: impl FnOnce() -> T) -> Option<T> {
    probe(out, api, input, &lim(), || (true, f()))
}
/// a call that is documented to panic exactly when `documented` holds
fn documented<T>(out: &mut Out, api: &str, input: &[u8], documented_cond: bool, f: impl FnOnce() -> T) {
    set_ctx(api, input);
    let r = catch_unwind(AssertUnwindSafe(f));
    out.count(&format!("{}.{}", api, if r.is_err() { "panic(documented)" } else { "ok" }));
    // the documentation PERMITS the panic under the condition; a version that returns instead is not a violation
    if documented_cond && r.is_ok() { out.count(&format!("{}.documented_panic_did_not_happen", api)); }
    out.s(&format!("panic_only_if_documented.{}", api), !r.is_err() || documented_cond, || {
        format!("input={} documented_condition={} panicked={}", hex(input), documented_cond, r.is_err())
    });
}

// ------------------------------------------------------------------------------------------
// K ops for the accessors modelled in EV.Model.Accessors
// ------------------------------------------------------------------------------------------

fn instr_real(s: &Script, minimal: bool) -> String {
    let it = if minimal { s.instructions_minimal() } else { s.instructions() };
    let mut items = vec![];
    let mut end = "end";
    for i in it {
        match i {
            Ok(Instruction::PushBytes(d)) => items.push(format!("p:{}", hex(d))),
            Ok(Instruction::Op(o)) => items.push(format!("o:{}", o.into_u8())),
            Err(script::Error::EarlyEndOfScript) => end = "EarlyEndOfScript",
            Err(script::Error::NonMinimalPush) => end = "NonMinimalPush",
            Err(_) => end = "other",
        }
    }
    format!("ok {} [{}] {}", items.len(), items.join(" "), end)
}
fn k_instr(out: &mut Out, s: &Script) {
    for m in [false, true] {
        let r = Out::guard(|| instr_real(s, m));
        out.k(format!("acc.instr {} {}", m as u8, hex(s.as_bytes())), r);
    }
}
fn k_pegout(out: &mut Out, o: &TxOut) {
    let r = Out::guard(|| {
        let nd = o.is_null_data();
        let opr = o.script_pubkey.is_op_return();
        let pd = match o.pegout_data() {
            None => "none".to_string(),
            Some(d) => format!(
                "some {} {} {} {} {} [{}]",
                d.value,
                hex(&serialize(&d.asset)),
                hex(AsRef::<[u8]>::as_ref(&d.genesis_hash)),
                hex(d.script_pubkey.as_bytes()),
                d.extra_data.len(),
                d.extra_data.iter().map(|x| hex(x)).collect::<Vec<_>>().join(",")
            ),
        };
        format!("ok nd={} opret={} {}", nd, opr, pd)
    });
    out.s("pegout_iff_is_pegout", catch_unwind(|| o.is_pegout() == o.pegout_data().is_some()).unwrap_or(false), || hex(&serialize(o)));
    out.count(if r.contains(" some ") { "k.pegout.some" } else { "k.pegout.none" });
    out.k(format!("acc.pegout {}", hex(&serialize(o))), r);
}
fn k_minvalue(out: &mut Out, o: &TxOut) {
    let r = Out::guard(|| format!("ok {}", o.minimum_value()));
    out.count(match (&o.value, &o.witness.rangeproof) {
        (Value::Confidential(_), Some(_)) => "k.minvalue.conf+proof",
        (Value::Confidential(_), None) => "k.minvalue.conf",
        (Value::Explicit(_), _) => "k.minvalue.explicit",
        (Value::Null, _) => "k.minvalue.null",
    });
    out.k(format!("acc.minvalue {} {}", hex(&serialize(o)), hex(&serialize(&o.witness))), r);
}
fn k_pegin(out: &mut Out, i: &TxIn) {
    let r = Out::guard(|| {
        let pd = match i.pegin_data() {
            None => "none".to_string(),
            Some(d) => format!(
                "some {} {} {} {} {} {} {} {} {}",
                d.value,
                hex(&serialize(&d.asset)),
                hex(AsRef::<[u8]>::as_ref(&d.genesis_hash)),
                hex(d.claim_script),
                hex(d.tx),
                hex(d.merkle_proof),
                hex(AsRef::<[u8]>::as_ref(&d.referenced_block)),
                hex(AsRef::<[u8]>::as_ref(&d.outpoint.txid)),
                d.outpoint.vout
            ),
        };
        let prev = elements::bitcoin::OutPoint { txid: <elements::bitcoin::Txid as elements::bitcoin::hashes::Hash>::from_byte_array(i.previous_output.txid.to_byte_array()), vout: i.previous_output.vout };
        let fw = match PeginData::from_pegin_witness(&i.witness.pegin_witness, prev) {
            Ok(_) => "ok".to_string(),
            Err(e) => format!("err:{}", e.replace(' ', "_")),
        };
        format!("ok {} fw={} pegin={}", pd, fw, i.is_pegin)
    });
    out.count(if r.contains(" some ") { "k.pegin.some" } else { "k.pegin.none" });
    out.k(format!("acc.pegin {} {}", hex(&serialize(i)), hex(&serialize(&i.witness))), r);
}
fn k_schnorr(out: &mut Out, b: &[u8]) {
    let r = Out::guard(|| match SchnorrSig::from_slice(b) {
        Ok(s) => format!("ok {} {}", hex(s.sig.as_ref()), s.hash_ty as u8),
        Err(elements::SchnorrSigError::InvalidSighashType(_)) => "err InvalidSighashType".into(),
        Err(elements::SchnorrSigError::InvalidSchnorrSig) => "err InvalidSchnorrSig".into(),
    });
    out.k(format!("acc.schnorrsig {}", hex(b)), r);
}
fn tap_err(e: &TaprootError) -> &'static str {
    match e {
        TaprootError::InvalidMerkleBranchSize(_) => "InvalidMerkleBranchSize",
        TaprootError::InvalidMerkleTreeDepth(_) => "InvalidMerkleTreeDepth",
        TaprootError::InvalidTaprootLeafVersion(_) => "InvalidTaprootLeafVersion",
        TaprootError::InvalidControlBlockSize(_) => "InvalidControlBlockSize",
        TaprootError::InvalidInternalKey(_) => "InvalidInternalKey",
        _ => "other",
    }
}
fn k_branch(out: &mut Out, b: &[u8]) {
    let r = Out::guard(|| match TaprootMerkleBranch::from_slice(b) {
        Ok(m) => format!("ok {} [{}]", m.as_inner().len(), m.as_inner().iter().map(|h| hex(&h.to_byte_array())).collect::<Vec<_>>().join(",")),
        Err(e) => format!("err {}", tap_err(&e)),
    });
    out.k(format!("acc.merklebranch {}", hex(b)), r);
}
fn k_control(out: &mut Out, b: &[u8]) {
    let r = Out::guard(|| match ControlBlock::from_slice(b) {
        Ok(c) => format!(
            "ok {} {} {} {} [{}]",
            c.leaf_version.as_u8(),
            c.output_key_parity.to_u8(),
            hex(&c.internal_key.serialize()),
            c.merkle_branch.as_inner().len(),
            c.merkle_branch.as_inner().iter().map(|h| hex(&h.to_byte_array())).collect::<Vec<_>>().join(",")
        ),
        Err(e) => format!("err {}", tap_err(&e)),
    });
    out.count(if r.starts_with("ok") { "k.controlblock.ok" } else { "k.controlblock.err" });
    out.k(format!("acc.controlblock {}", hex(b)), r);
}
/// the up-front allocation of the vector decoders: first heap request made by the decoder
fn k_alloc(out: &mut Out, kind: &str, b: &[u8]) {
    set_ctx("acc.alloc", b);
    alloc_reset();
    let ok = if kind == "bytes" {
        catch_unwind(|| deserialize_partial::<Vec<u8>>(b).is_ok())
    } else {
        catch_unwind(|| deserialize_partial::<Vec<Vec<u8>>>(b).is_ok())
    };
    let first = alloc_first();
    let r = match ok {
        Ok(true) => format!("ok {} ok", first),
        Ok(false) => format!("ok {} err", first),
        Err(_) => "panic".into(),
    };
    out.k(format!("acc.alloc {} {}", kind, hex(b)), r);
}

fn varint(n: u64) -> Vec<u8> {
    serialize(&elements::encode::VarInt(n))
}
/// a varint written in a chosen (possibly non-minimal) width
fn varint_w(n: u64, w: u8) -> Vec<u8> {
    match w {
        1 => vec![n as u8],
        3 => { let mut v = vec![0xfd]; v.extend_from_slice(&(n as u16).to_le_bytes()); v }
        5 => { let mut v = vec![0xfe]; v.extend_from_slice(&(n as u32).to_le_bytes()); v }
        _ => { let mut v = vec![0xff]; v.extend_from_slice(&n.to_le_bytes()); v }
    }
}

/// a script made of well-formed and malformed pushes and opcodes
fn struct_script(rng: &mut R) -> Script {
    let mut v = vec![];
    let n = rng.gen_range(0..7);
    for _ in 0..n {
        match rng.gen_range(0..12) {
            0 => { let l = rng.gen_range(0..=75usize); v.push(l as u8); v.extend(gen::bytes(rng, l)); }
            1 => { let l = [0usize, 1, 75, 76, 255][rng.gen_range(0..5)]; v.push(0x4c); v.push(l as u8); v.extend(gen::bytes(rng, l)); }
            2 => { let l = [0usize, 1, 255, 256, 300][rng.gen_range(0..5)]; v.push(0x4d); v.extend_from_slice(&(l as u16).to_le_bytes()); v.extend(gen::bytes(rng, l)); }
            3 => { let l = [0usize, 1, 255, 256, 70000][rng.gen_range(0..5)]; let l = if l > 1000 && rng.gen_bool(0.8) { 2 } else { l }; v.push(0x4e); v.extend_from_slice(&(l as u32).to_le_bytes()); v.extend(gen::bytes(rng, l)); }
            4 => { v.push(1); v.push([0u8, 1, 16, 17, 0x80, 0x81, 0x82][rng.gen_range(0..7)]); }
            5 => v.push(0x6a),
            6 => v.push(rng.gen_range(0x4f..=0x60)),
            7 => v.push(rng.gen_range(0x61..=0xff)),
            8 => { v.push(32); v.extend(gen::bytes(rng, 32)); }
            9 => { v.push(0x4e); v.extend_from_slice(&[0xff, 0xff, 0xff, 0xff]); }
            10 => { v.push(0x4d); v.extend_from_slice(&[0xff, 0xff]); }
            _ => v.push(rng.gen()),
        }
    }
    if rng.gen_bool(0.25) && !v.is_empty() {
        let n = rng.gen_range(0..v.len());
        v.truncate(n);
    }
    Script::from(v)
}
/// OP_RETURN <genesis> <spk> <extras…> with deliberate defects
fn pegout_script(rng: &mut R) -> Script {
    let mut v = vec![0x6a];
    let gl = match rng.gen_range(0..8) { 0 => 31, 1 => 33, 2 => 0, _ => 32 };
    let g = gen::bytes(rng, gl);
    push_any(rng, &mut v, &g);
    let sl = match rng.gen_range(0..6) { 0 => 0, 1 => 1, _ => rng.gen_range(1..40) };
    let sp = gen::bytes(rng, sl);
    push_any(rng, &mut v, &sp);
    for _ in 0..rng.gen_range(0..3) {
        match rng.gen_range(0..6) {
            0 => v.push(rng.gen_range(0x4f..=0x60)),
            1 => v.push(rng.gen_range(0x61..=0xff)),
            _ => { let l = rng.gen_range(0..80); let d = gen::bytes(rng, l); push_any(rng, &mut v, &d); }
        }
    }
    if rng.gen_bool(0.1) { let n = rng.gen_range(0..v.len()); v.truncate(n); }
    if rng.gen_bool(0.05) && !v.is_empty() { v[0] = rng.gen(); }
    Script::from(v)
}
/// push `d` with a randomly chosen (not necessarily minimal) push opcode
fn push_any(rng: &mut R, v: &mut Vec<u8>, d: &[u8]) {
    let k = rng.gen_range(0..6);
    if d.len() <= 75 && k < 3 {
        v.push(d.len() as u8);
    } else if d.len() <= 255 && k < 4 {
        v.push(0x4c);
        v.push(d.len() as u8);
    } else if d.len() <= 0xffff && k < 5 {
        v.push(0x4d);
        v.extend_from_slice(&(d.len() as u16).to_le_bytes());
    } else {
        v.push(0x4e);
        v.extend_from_slice(&(d.len() as u32).to_le_bytes());
    }
    v.extend_from_slice(d);
}
fn pegin_witness(rng: &mut R) -> Vec<Vec<u8>> {
    let mut w = vec![
        gen::u64_edge(rng).to_le_bytes().to_vec(),
        gen::bytes(rng, 32),
        gen::bytes(rng, 32),
        { let l = gen::small_len(rng); gen::bytes(rng, l) },
        { let l = gen::small_len(rng); gen::bytes(rng, l) },
        { let l = rng.gen_range(80..200); gen::bytes(rng, l) },
    ];
    match rng.gen_range(0..14) {
        0 => { w.pop(); }
        1 => w.push(vec![]),
        2 => w[0].push(0),
        3 => { w[0].pop(); }
        4 => w[1].push(1),
        5 => { w[1].pop(); }
        6 => w[2].push(1),
        7 => { w[2].pop(); }
        8 => w[5].truncate(79),
        9 => w[5].truncate(80),
        10 => w[5].clear(),
        11 => w.clear(),
        _ => {}
    }
    w
}

fn k_section(out: &mut Out, rng: &mut R, txs: &[Transaction]) {
    let scale = if out.tier_thorough { 25 } else { 2 };
    // --- instruction iterator
    for s in [vec![], vec![0x6a], vec![0x4c], vec![0x4d, 1], vec![0x4e, 1, 0, 0], vec![0x4e, 0xff, 0xff, 0xff, 0xff], vec![0x4c, 5, 1, 2], vec![1], vec![1, 5], vec![1, 0x81], vec![0x4b], vec![0x4c, 75], vec![0x4c, 76], vec![0x4d, 0xff, 0], vec![0x4d, 0, 1], vec![0x4e, 0xff, 0xff, 0, 0], vec![0x4e, 0, 0, 1, 0]] {
        k_instr(out, &Script::from(s));
    }
    for _ in 0..150 * scale {
        k_instr(out, &struct_script(rng));
        k_instr(out, &gen::script(rng));
    }
    // every single-byte script and every two-byte script starting with a push opcode (thorough)
    for b in 0u16..256 {
        k_instr(out, &Script::from(vec![b as u8]));
    }
    if out.tier_thorough {
        for a in [1u8, 2, 0x4b, 0x4c, 0x4d, 0x4e] {
            for b in 0u16..256 {
                k_instr(out, &Script::from(vec![a, b as u8]));
                k_instr(out, &Script::from(vec![a, b as u8, 0]));
            }
        }
    }
    // --- pegout / null data / minimum value
    for _ in 0..120 * scale {
        let mut o = gen::txout(rng, true);
        o.script_pubkey = match rng.gen_range(0..4) { 0 => struct_script(rng), 1 => gen::script(rng), _ => pegout_script(rng) };
        if rng.gen_bool(0.6) { o.value = Value::Explicit(gen::u64_edge(rng)); }
        k_pegout(out, &o);
        k_instr(out, &o.script_pubkey);
    }
    for _ in 0..120 * scale {
        let mut o = gen::txout(rng, true);
        if rng.gen_bool(0.7) { o.value = Value::Confidential(gen::commitment(rng)); }
        if rng.gen_bool(0.7) { o.witness.rangeproof = Some(gen::rangeproof(rng)); }
        if rng.gen_bool(0.3) { o.script_pubkey = Script::from(vec![0x6a, 1, 2]); }
        if rng.gen_bool(0.1) { o.script_pubkey = Script::new(); }
        k_minvalue(out, &o);
    }
    // minimum-value headers: every header byte with a body that passes the parser where possible
    for b0 in 0u16..256 {
        for b1 in [0u8, 1, 63, 64] {
            let mut v = vec![0u8; 70];
            v[0] = b0 as u8;
            v[1] = b1;
            for (i, x) in v.iter_mut().enumerate().skip(2) { *x = (i * 7) as u8; }
            if let Ok(p) = RangeProof::from_slice(&v) {
                let o = TxOut { asset: Asset::Null, value: Value::Confidential(gen::commitment(rng)), nonce: Nonce::Null, script_pubkey: Script::new(), witness: TxOutWitness { surjection_proof: None, rangeproof: Some(Box::new(p)) } };
                k_minvalue(out, &o);
            }
        }
    }
    // --- pegin
    for _ in 0..150 * scale {
        let kind = if rng.gen_bool(0.8) { gen::InKind::Pegin } else { gen::in_kind(rng) };
        let mut i = gen::txin(rng, kind, true);
        i.witness.pegin_witness = if rng.gen_bool(0.9) { pegin_witness(rng) } else { gen::stack(rng) };
        k_pegin(out, &i);
    }
    // --- everything found in the repository's transactions
    for t in txs {
        for i in &t.input { k_pegin(out, i); }
        for o in &t.output {
            k_pegout(out, o);
            k_minvalue(out, o);
            if o.script_pubkey.len() < 5000 { k_instr(out, &o.script_pubkey); }
        }
    }
    // --- schnorr signatures
    for l in [0usize, 1, 32, 63, 64, 65, 66, 128] {
        k_schnorr(out, &gen::bytes(rng, l));
    }
    let sig = gen::bytes(rng, 64);
    for b in 0u16..256 {
        let mut v = sig.clone();
        v.push(b as u8);
        k_schnorr(out, &v);
        let mut w = sig[..63].to_vec();
        w.push(b as u8);
        k_schnorr(out, &w);
        let mut x = sig.clone();
        x.push(1);
        x.push(b as u8);
        k_schnorr(out, &x);
    }
    // --- leaf versions, merkle branches, control blocks
    for b in 0u16..256 {
        let r = Out::guard(|| match LeafVersion::from_u8(b as u8) { Ok(v) => format!("ok {}", v.as_u8()), Err(_) => "err".into() });
        out.k(format!("acc.leafver {}", b), r);
    }
    for n in [0usize, 1, 2, 127, 128, 129, 130, 200] {
        k_branch(out, &gen::bytes(rng, 32 * n));
    }
    for l in [1usize, 31, 33, 63, 4095, 4097, 4127, 4129] {
        k_branch(out, &gen::bytes(rng, l));
    }
    for _ in 0..20 * scale {
        let l = rng.gen_range(0..300);
        k_branch(out, &gen::bytes(rng, l));
    }
    let key = gen::pubkey(rng).serialize();
    for b in 0u16..256 {
        let mut v = vec![b as u8];
        v.extend_from_slice(&key[1..]);
        v.extend(gen::bytes(rng, 32 * (b as usize % 3)));
        k_control(out, &v);
    }
    for n in [0usize, 1, 127, 128, 129, 200] {
        let mut v = vec![0xc4 | (n as u8 & 1)];
        v.extend_from_slice(&gen::pubkey(rng).serialize()[1..]);
        v.extend(gen::bytes(rng, 32 * n));
        k_control(out, &v);
        for d in [1usize, 31, 32, 33] {
            let mut w = v.clone();
            w.truncate(v.len().saturating_sub(d));
            k_control(out, &w);
            let mut x = v.clone();
            x.extend(gen::bytes(rng, d));
            k_control(out, &x);
        }
    }
    for _ in 0..60 * scale {
        // random x coordinate: about half are not on the curve
        let mut v = vec![[0xc4u8, 0xc5, 0xc0, 0x50, 0x51, 0xfe][rng.gen_range(0..6)]];
        v.extend(gen::bytes(rng, 32));
        let nb = rng.gen_range(0..3);
        v.extend(gen::bytes(rng, 32 * nb));
        k_control(out, &v);
        let l = rng.gen_range(0..120);
        k_control(out, &gen::bytes(rng, l));
    }
    // x at and around the field prime
    let pm: [u8; 32] = [0xff,0xff,0xff,0xff,0xff,0xff,0xff,0xff,0xff,0xff,0xff,0xff,0xff,0xff,0xff,0xff,0xff,0xff,0xff,0xff,0xff,0xff,0xff,0xff,0xff,0xff,0xff,0xfe,0xff,0xff,0xfc,0x2f];
    for d in [-2i32, -1, 0, 1, 2] {
        let mut x = pm;
        x[31] = (x[31] as i32 + d) as u8;
        let mut v = vec![0xc4];
        v.extend_from_slice(&x);
        k_control(out, &v);
    }
    // --- allocation ledger of the vector decoders
    for n in [0u64, 1, 2, 0xfc, 0xfd, 10_000, 166_666, 166_667, 4_000_000, 4_000_001, 0xffff_ffff, 1 << 32, 1 << 61, u64::MAX / 24, u64::MAX / 24 + 1, u64::MAX] {
        for kind in ["bytes", "vecvec"] {
            let mut b = varint(n);
            b.extend(gen::bytes(rng, 3));
            k_alloc(out, kind, &b);
            // non-minimal form of the same count
            if n < 0xfd { let mut c = varint_w(n, 3); c.push(0); k_alloc(out, kind, &c); }
        }
    }
    for _ in 0..40 * scale {
        let n = match rng.gen_range(0..4) { 0 => rng.gen_range(0..300u64), 1 => rng.gen_range(0..5_000_000u64), 2 => rng.gen::<u32>() as u64, _ => rng.gen() };
        let mut b = varint(n);
        let l = rng.gen_range(0..40);
        b.extend(gen::bytes(rng, l));
        k_alloc(out, if rng.gen_bool(0.5) { "bytes" } else { "vecvec" }, &b);
    }
    for _ in 0..20 * scale {
        let st = gen::stack(rng);
        k_alloc(out, "vecvec", &serialize(&st));
        let l = gen::small_len(rng);
        k_alloc(out, "bytes", &serialize(&gen::bytes(rng, l)));
    }
}

// ------------------------------------------------------------------------------------------
// S: consensus decoders
// ------------------------------------------------------------------------------------------

fn dec<T: Decodable>(out: &mut Out, name: &str, b: &[u8]) -> Option<T> {
    let api = format!("deserialize.{}", name);
    match pr(out, &api, b, || deserialize::<T>(b)) {
        Some(Ok(v)) => Some(v),
        _ => None,
    }
}
fn dec_partial<T: Decodable>(out: &mut Out, name: &str, b: &[u8]) {
    let api = format!("deserialize_partial.{}", name);
    pr(out, &api, b, || deserialize_partial::<T>(b).map(|(_, n)| n));
}

/// every Decodable type reachable through the public API
fn dec_all(out: &mut Out, b: &[u8]) {
    dec_main(out, b);
    dec::<TxIn>(out, "TxIn", b);
    dec::<TxOut>(out, "TxOut", b);
    dec::<TxInWitness>(out, "TxInWitness", b);
    dec::<TxOutWitness>(out, "TxOutWitness", b);
    dec::<elements::dynafed::Params>(out, "dynafed.Params", b);
    dec::<elements::dynafed::FullParams>(out, "dynafed.FullParams", b);
    dec::<Asset>(out, "Asset", b);
    dec::<Value>(out, "Value", b);
    dec::<Nonce>(out, "Nonce", b);
    dec::<AssetIssuance>(out, "AssetIssuance", b);
    dec::<OutPoint>(out, "OutPoint", b);
    dec::<Script>(out, "Script", b);
    dec::<LockTime>(out, "LockTime", b);
    dec::<elements::locktime::Height>(out, "locktime.Height", b);
    dec::<elements::locktime::Time>(out, "locktime.Time", b);
    dec::<Sequence>(out, "Sequence", b);
    dec::<Vec<u8>>(out, "Vec<u8>", b);
    dec::<Vec<Vec<u8>>>(out, "Vec<Vec<u8>>", b);
    dec::<Box<[u8]>>(out, "Box<[u8]>", b);
    dec::<Vec<TxIn>>(out, "Vec<TxIn>", b);
    dec::<Vec<TxOut>>(out, "Vec<TxOut>", b);
    dec::<Vec<Transaction>>(out, "Vec<Transaction>", b);
    dec::<Vec<TapLeafHash>>(out, "Vec<TapLeafHash>", b);
    dec::<u8>(out, "u8", b);
    dec::<u16>(out, "u16", b);
    dec::<u32>(out, "u32", b);
    dec::<u64>(out, "u64", b);
    dec::<elements::encode::VarInt>(out, "VarInt", b);
    dec::<[u8; 4]>(out, "[u8;4]", b);
    dec::<[u8; 20]>(out, "[u8;20]", b);
    dec::<[u8; 32]>(out, "[u8;32]", b);
    dec::<[u8; 33]>(out, "[u8;33]", b);
    dec::<Txid>(out, "Txid", b);
    dec::<elements::Wtxid>(out, "Wtxid", b);
    dec::<BlockHash>(out, "BlockHash", b);
    dec::<elements::TxMerkleNode>(out, "TxMerkleNode", b);
    dec::<elements::hashes::sha256d::Hash>(out, "sha256d.Hash", b);
    dec::<elements::hashes::sha256::Hash>(out, "sha256.Hash", b);
    dec::<TapLeafHash>(out, "TapLeafHash", b);
    dec::<AssetId>(out, "AssetId", b);
    dec::<Tweak>(out, "Tweak", b);
    dec::<RangeProof>(out, "RangeProof", b);
    dec::<SurjectionProof>(out, "SurjectionProof", b);
    dec::<Option<Box<RangeProof>>>(out, "Option<Box<RangeProof>>", b);
    dec::<Option<Box<SurjectionProof>>>(out, "Option<Box<SurjectionProof>>", b);
    dec::<zkp::PedersenCommitment>(out, "PedersenCommitment", b);
    dec::<zkp::Generator>(out, "Generator", b);
    dec::<PublicKey>(out, "PublicKey", b);
    dec::<elements::bitcoin::ScriptBuf>(out, "bitcoin.ScriptBuf", b);
    dec::<pset::raw::Key>(out, "pset.raw.Key", b);
    dec::<pset::raw::Pair>(out, "pset.raw.Pair", b);
    dec::<pset::raw::ProprietaryKey>(out, "pset.raw.ProprietaryKey", b);
    dec::<pset::Global>(out, "pset.Global", b);
    dec::<pset::Input>(out, "pset.Input", b);
    dec::<pset::Output>(out, "pset.Output", b);
    dec_partial::<Transaction>(out, "Transaction", b);
    dec_partial::<Block>(out, "Block", b);
    pset_serialize_traits(out, b);
}

/// the `pset::serialize::Deserialize` slice parsers
fn pset_serialize_traits(out: &mut Out, b: &[u8]) {
    use elements::bitcoin::bip32::KeySource;
    use elements::pset::serialize::Deserialize as D;
    pr(out, "pset.Deserialize.TapTree", b, || <pset::TapTree as D>::deserialize(b));
    pr(out, "pset.Deserialize.ControlBlock", b, || <ControlBlock as D>::deserialize(b));
    pr(out, "pset.Deserialize.SchnorrSig", b, || <SchnorrSig as D>::deserialize(b));
    pr(out, "pset.Deserialize.(XOnly,TapLeafHash)", b, || <(zkp::XOnlyPublicKey, TapLeafHash) as D>::deserialize(b));
    pr(out, "pset.Deserialize.(Script,LeafVersion)", b, || <(Script, LeafVersion) as D>::deserialize(b));
    pr(out, "pset.Deserialize.(Vec<TapLeafHash>,KeySource)", b, || <(Vec<TapLeafHash>, KeySource) as D>::deserialize(b));
    pr(out, "pset.Deserialize.KeySource", b, || <KeySource as D>::deserialize(b));
    pr(out, "pset.Deserialize.Value", b, || <Value as D>::deserialize(b));
    pr(out, "pset.Deserialize.Asset", b, || <Asset as D>::deserialize(b));
    pr(out, "pset.Deserialize.PsbtSighashType", b, || <pset::PsbtSighashType as D>::deserialize(b));
    pr(out, "pset.Deserialize.bitcoin.PublicKey", b, || <elements::bitcoin::PublicKey as D>::deserialize(b));
    pr(out, "pset.Deserialize.Box<RangeProof>", b, || <Box<RangeProof> as D>::deserialize(b));
    pr(out, "pset.Deserialize.Box<SurjectionProof>", b, || <Box<SurjectionProof> as D>::deserialize(b));
    pr(out, "pset.elip100.AssetMetadata", b, || pset::elip100::AssetMetadata::deserialize(b));
    pr(out, "pset.elip100.TokenMetadata", b, || pset::elip100::TokenMetadata::deserialize(b));
}

/// the four top-level decoders; accepted values go through all their accessors
fn dec_main(out: &mut Out, b: &[u8]) {
    if let Some(t) = dec::<Transaction>(out, "Transaction", b) {
        tx_accessors(out, &t, b);
    }
    if let Some(bl) = dec::<Block>(out, "Block", b) {
        block_accessors(out, &bl, b);
    }
    if let Some(h) = dec::<BlockHeader>(out, "BlockHeader", b) {
        header_accessors(out, &h, b);
    }
    dec_pset(out, b);
}
fn dec_pset(out: &mut Out, b: &[u8]) -> Option<Pset> {
    let r = probe(out, "deserialize.pset.PartiallySignedTransaction", b, &pset_lim(), || {
        let r = deserialize::<Pset>(b);
        (r.is_ok(), r)
    });
    match r {
        Some(Ok(p)) => {
            pset_accessors(out, &p, b);
            Some(p)
        }
        _ => None,
    }
}

// ------------------------------------------------------------------------------------------
// S: accessors on decoded / in-memory values
// ------------------------------------------------------------------------------------------

fn tx_accessors(out: &mut Out, t: &Transaction, src: &[u8]) {
    pv(out, "Transaction.txid", src, || t.txid());
    pv(out, "Transaction.wtxid", src, || t.wtxid());
    pv(out, "Transaction.size", src, || t.size());
    pv(out, "Transaction.weight", src, || t.weight());
    pv(out, "Transaction.vsize", src, || t.vsize());
    pv(out, "Transaction.discount_weight", src, || t.discount_weight());
    pv(out, "Transaction.discount_vsize", src, || t.discount_vsize());
    pv(out, "Transaction.has_witness", src, || t.has_witness());
    pv(out, "Transaction.is_coinbase", src, || t.is_coinbase());
    // recorded, not flagged (DESIGN Appendix C): plain-u64 fee sums overflow in debug builds
    let fee = catch_unwind(|| t.all_fees().len());
    if fee.is_err() { out.count("observed(out-of-scope).Transaction.all_fees.overflow_panic"); }
    for o in t.output.iter().take(64) {
        txout_accessors(out, o, src);
    }
    for i in t.input.iter().take(64) {
        txin_accessors(out, i, src);
    }
}
fn txout_accessors(out: &mut Out, o: &TxOut, src: &[u8]) {
    po(out, "TxOut.pegout_data", src, || o.pegout_data().map(|d| d.extra_data.len()));
    pv(out, "TxOut.minimum_value", src, || o.minimum_value());
    pv(out, "TxOut.is_fee", src, || o.is_fee());
    pv(out, "TxOut.is_null_data", src, || o.is_null_data());
    pv(out, "TxOut.is_pegout", src, || o.is_pegout());
    pv(out, "TxOut.is_partially_blinded", src, || o.is_partially_blinded());
    script_apis(out, &o.script_pubkey, false);
}
fn txin_accessors(out: &mut Out, i: &TxIn, src: &[u8]) {
    let pd = po(out, "TxIn.pegin_data", src, || i.pegin_data());
    if let Some(Some(d)) = pd {
        pr(out, "PeginData.parse_tx", d.tx, || d.parse_tx());
        pr(out, "PeginData.parse_merkle_proof", d.merkle_proof, || d.parse_merkle_proof());
        pv(out, "PeginData.to_pegin_witness", src, || d.to_pegin_witness().len());
    }
    po(out, "TxIn.pegin_prevout", src, || i.pegin_prevout());
    pv(out, "TxIn.issuance_ids", src, || i.issuance_ids());
    pv(out, "TxIn.outpoint_flag", src, || i.outpoint_flag());
    pv(out, "TxIn.has_issuance", src, || i.has_issuance());
    pv(out, "TxIn.is_coinbase", src, || i.is_coinbase());
    script_apis(out, &i.script_sig, false);
}
fn header_accessors(out: &mut Out, h: &BlockHeader, src: &[u8]) {
    pv(out, "BlockHeader.block_hash", src, || h.block_hash());
    po(out, "BlockHeader.calculate_dynafed_params_root", src, || h.calculate_dynafed_params_root());
    pv(out, "BlockHeader.is_dynafed", src, || h.is_dynafed());
    for p in [h.dynafed_current(), h.dynafed_proposed()].into_iter().flatten() {
        pv(out, "dynafed.Params.calculate_root", src, || p.calculate_root());
        po(out, "dynafed.Params.into_compact", src, || p.clone().into_compact());
        po(out, "dynafed.Params.into_full", src, || p.clone().into_full());
    }
}
fn block_accessors(out: &mut Out, b: &Block, src: &[u8]) {
    pv(out, "Block.block_hash", src, || b.block_hash());
    pv(out, "Block.size", src, || b.size());
    pv(out, "Block.weight", src, || b.weight());
    header_accessors(out, &b.header, src);
    for t in b.txdata.iter().take(16) {
        tx_accessors(out, t, src);
    }
}

fn script_apis(out: &mut Out, s: &Script, with_ints: bool) {
    let b = s.as_bytes();
    if b.len() > 100_000 {
        return;
    }
    let l = Limits { extra_peak: 0, single: MAX_VEC_SIZE + 4096 };
    probe(out, "Script.instructions", b, &l, || { let mut n = 0; let mut e = false; for i in s.instructions() { n += 1; e |= i.is_err(); } (!e, n) });
    probe(out, "Script.instructions_minimal", b, &l, || { let mut n = 0; let mut e = false; for i in s.instructions_minimal() { n += 1; e |= i.is_err(); } (!e, n) });
    // the asm string is at most ~ 30 bytes per script byte (opcode names)
    pv(out, "Script.asm", b, || s.asm().len());
    pv(out, "Script.fmt", b, || format!("{} {:?} {:x}", s, s, s).len());
    pv(out, "Script.is_x", b, || (s.is_p2sh(), s.is_p2pkh(), s.is_p2pk(), s.is_witness_program(), s.is_v0_p2wsh(), s.is_v0_p2wpkh(), s.is_v1_p2tr(), s.is_v1plus_p2witprog(), s.is_op_return(), s.is_provably_unspendable()));
    po(out, "Address.from_script", b, || Address::from_script(s, None, &AddressParams::ELEMENTS).map(|a| a.to_string().len()));
    if with_ints {
        pr(out, "script.read_scriptint", b, || script::read_scriptint(b));
        pv(out, "script.read_scriptbool", b, || script::read_scriptbool(b));
        for sz in [0usize, 1, 2, 4, 8] {
            pr(out, "script.read_uint", b, || script::read_uint(b, sz));
        }
    }
}

fn pset_accessors(out: &mut Out, p: &Pset, src: &[u8]) {
    let l = pset_lim();
    let _ = &l;
    pr(out, "Pset.sanity_check", src, || p.sanity_check());
    pr(out, "Pset.locktime", src, || p.locktime());
    pr(out, "Pset.unique_id", src, || p.unique_id());
    if let Some(Ok(t)) = pr(out, "Pset.extract_tx", src, || p.extract_tx()) {
        tx_accessors(out, &t, src);
    }
    pv(out, "Pset.n_inputs/n_outputs", src, || (p.n_inputs(), p.n_outputs()));
    for i in p.inputs().iter().take(32) {
        pv(out, "pset.Input.issuance_ids", src, || i.issuance_ids());
        pv(out, "pset.Input.has_issuance/is_pegin", src, || (i.has_issuance(), i.is_pegin()));
        pv(out, "pset.Input.asset_issuance", src, || i.asset_issuance().is_null());
        po(out, "pset.Input.ecdsa_hash_ty", src, || i.ecdsa_hash_ty());
        po(out, "pset.Input.schnorr_hash_ty", src, || i.schnorr_hash_ty());
    }
    for o in p.outputs().iter().take(32) {
        pv(out, "pset.Output.to_txout", src, || o.to_txout().is_fee());
        pv(out, "pset.Output.is_x_blinded", src, || (o.is_marked_for_blinding(), o.is_partially_blinded(), o.is_fully_blinded()));
    }
    // merge with itself and text round trip
    pr(out, "Pset.merge", src, || { let mut a = p.clone(); a.merge(p.clone()) });
    let txt = pv(out, "Pset.to_string", src, || p.to_string());
    if let Some(t) = txt {
        probe(out, "Pset.from_str", t.as_bytes(), &pset_lim(), || { let r = Pset::from_str(&t); (r.is_ok(), ()) });
    }
    let secrets: HashMap<usize, TxOutSecrets> = HashMap::new();
    pr(out, "Pset.surjection_inputs", src, || p.surjection_inputs(&secrets));
}

// ------------------------------------------------------------------------------------------
// S: text parsers (addresses, blech32, PSET base64)
// ------------------------------------------------------------------------------------------

const BECH_ALPHABET: &[u8] = b"qpzry9x8gf2tvdw0s3jn54khce6mua7l";
const B58_ALPHABET: &[u8] = b"123456789ABCDEFGHJKLMNPQRSTUVWXYZabcdefghijkmnopqrstuvwxyz";

fn text_apis(out: &mut Out, s: &str) {
    use elements::blech32::decode::{CheckedHrpstring, SegwitHrpstring, UncheckedHrpstring};
    use elements::blech32::{Blech32, Blech32m};
    let b = s.as_bytes();
    pr(out, "Address.from_str", b, || Address::from_str(s).map(|a| a.to_string().len()));
    for (n, p) in [("LIQUID", &AddressParams::LIQUID), ("ELEMENTS", &AddressParams::ELEMENTS), ("LIQUID_TESTNET", &AddressParams::LIQUID_TESTNET)] {
        let api = format!("Address.parse_with_params.{}", n);
        if let Some(Ok(a)) = pr(out, &api, b, || Address::parse_with_params(s, p)) {
            pv(out, "Address.script_pubkey", b, || a.script_pubkey().len());
            pv(out, "Address.to_string", b, || a.to_string().len());
            pv(out, "Address.to_unconfidential", b, || a.to_unconfidential().is_blinded());
        }
    }
    if let Some(Ok(u)) = pr(out, "blech32.UncheckedHrpstring.new", b, || UncheckedHrpstring::new(s)) {
        pv(out, "blech32.UncheckedHrpstring.hrp", b, || u.hrp().len());
        pv(out, "blech32.UncheckedHrpstring.has_valid_checksum", b, || (u.has_valid_checksum::<Blech32>(), u.has_valid_checksum::<Blech32m>(), u.has_valid_checksum::<bech32::NoChecksum>()));
        pr(out, "blech32.UncheckedHrpstring.validate_checksum", b, || u.validate_checksum::<Blech32>());
        // `remove_checksum` is documented to panic on data whose checksum was not validated: only
        // the validating variant is called
        if let Some(Ok(c)) = pr(out, "blech32.UncheckedHrpstring.validate_and_remove_checksum", b, || u.validate_and_remove_checksum::<Blech32m>()) {
            pv(out, "blech32.CheckedHrpstring.byte_iter", b, || c.byte_iter().count());
        }
    }
    macro_rules! checked {
        ($ck:ty, $name:expr) => {
            if let Some(Ok(c)) = pr(out, $name, b, || CheckedHrpstring::new::<$ck>(s)) {
                pv(out, "blech32.CheckedHrpstring.hrp", b, || c.hrp().len());
                pv(out, "blech32.CheckedHrpstring.byte_iter", b, || { let it = c.byte_iter(); let l = it.len(); (l, it.map(|x| x as usize).sum::<usize>()) });
                if let Some(Ok(sw)) = pr(out, "blech32.CheckedHrpstring.validate_segwit", b, || c.validate_segwit()) {
                    pv(out, "blech32.SegwitHrpstring.accessors", b, || (sw.has_valid_hrp(), sw.hrp().len(), sw.witness_version().to_u8(), sw.byte_iter().count()));
                }
            }
        };
    }
    checked!(Blech32, "blech32.CheckedHrpstring.new<Blech32>");
    checked!(Blech32m, "blech32.CheckedHrpstring.new<Blech32m>");
    checked!(bech32::NoChecksum, "blech32.CheckedHrpstring.new<NoChecksum>");
    if let Some(Ok(sw)) = pr(out, "blech32.SegwitHrpstring.new", b, || SegwitHrpstring::new(s)) {
        pv(out, "blech32.SegwitHrpstring.accessors", b, || (sw.has_valid_hrp(), sw.hrp().len(), sw.witness_version().to_u8(), { let it = sw.byte_iter(); (it.len(), it.count()) }));
    }
    if let Some(Ok(sw)) = pr(out, "blech32.SegwitHrpstring.new_bech32", b, || SegwitHrpstring::new_bech32(s)) {
        pv(out, "blech32.SegwitHrpstring.accessors", b, || (sw.has_valid_hrp(), sw.hrp().len(), sw.witness_version().to_u8(), sw.byte_iter().count()));
    }
}
fn text_pset(out: &mut Out, s: &str) {
    let b = s.as_bytes();
    if let Some(Some(p)) = probe(out, "Pset.from_str", b, &pset_lim(), || { let r = Pset::from_str(s); (r.is_ok(), r.ok()) }) {
        pset_accessors(out, &p, b);
    }
}
fn text_misc(out: &mut Out, s: &str) {
    let b = s.as_bytes();
    pr(out, "Script.from_hex_no_prefix", b, || Script::from_hex_no_prefix(s));
    pr(out, "AssetId.from_str", b, || AssetId::from_str(s));
    pr(out, "Txid.from_str", b, || Txid::from_str(s));
    pr(out, "OutPoint.from_str", b, || OutPoint::from_str(s));
    pr(out, "AssetBlindingFactor.from_str", b, || AssetBlindingFactor::from_str(s));
    pr(out, "ValueBlindingFactor.from_str", b, || ValueBlindingFactor::from_str(s));
    pr(out, "SchnorrSighashType.from_str", b, || SchnorrSighashType::from_str(s));
    pr(out, "EcdsaSighashType.from_str", b, || EcdsaSighashType::from_str(s));
    pr(out, "ContractHash.from_json_contract", b, || elements::ContractHash::from_json_contract(s));
}

fn mutate_str(rng: &mut R, s: &str) -> String {
    let mut c: Vec<char> = s.chars().collect();
    let pool: &[char] = &['1', 'q', 'Q', 'b', 'i', 'o', 'B', '0', 'l', 'L', ' ', '\u{e9}', '\u{4e2d}', '\u{1f600}', '\u{0}', '\u{7f}', '\u{80}', '=', '+', '/', '-', '_', 'z', 'Z'];
    match rng.gen_range(0..12) {
        0 if !c.is_empty() => { let i = rng.gen_range(0..c.len()); c[i] = pool[rng.gen_range(0..pool.len())]; }
        1 if !c.is_empty() => { let i = rng.gen_range(0..c.len()); c.remove(i); }
        2 => { let i = rng.gen_range(0..=c.len()); c.insert(i, pool[rng.gen_range(0..pool.len())]); }
        3 if !c.is_empty() => { let i = rng.gen_range(0..c.len()); c[i] = if c[i].is_ascii_lowercase() { c[i].to_ascii_uppercase() } else { c[i].to_ascii_lowercase() }; }
        4 => { c = c.iter().map(|x| x.to_ascii_uppercase()).collect(); }
        5 if !c.is_empty() => { let n = rng.gen_range(0..c.len()); c.truncate(n); }
        6 if !c.is_empty() => { let i = rng.gen_range(0..c.len()); c[i] = BECH_ALPHABET[rng.gen_range(0..32)] as char; }
        7 if c.len() >= 2 => { let i = rng.gen_range(0..c.len() - 1); c.swap(i, i + 1); }
        8 => { let i = rng.gen_range(0..=c.len()); c.insert(i, '1'); }
        9 if !c.is_empty() => { // remove every separator but keep the rest
            c.retain(|x| *x != '1');
        }
        10 if !c.is_empty() => { let i = rng.gen_range(0..c.len()); let x = c[i]; for _ in 0..rng.gen_range(1..40) { c.insert(i, x); } }
        _ => { c.push(B58_ALPHABET[rng.gen_range(0..58)] as char); }
    }
    c.into_iter().collect()
}

fn valid_addresses(rng: &mut R) -> Vec<String> {
    use elements::bitcoin::PublicKey as BPk;
    let mut v = vec![];
    for params in [&AddressParams::LIQUID, &AddressParams::ELEMENTS, &AddressParams::LIQUID_TESTNET] {
        for blinded in [false, true] {
            let bl = if blinded { Some(gen::pubkey(rng)) } else { None };
            let pk = BPk::new(gen::pubkey(rng));
            let sc = gen::script(rng);
            v.push(Address::p2pkh(&pk, bl, params).to_string());
            v.push(Address::p2sh(&sc, bl, params).to_string());
            v.push(Address::p2wpkh(&pk, bl, params).to_string());
            v.push(Address::p2shwpkh(&pk, bl, params).to_string());
            v.push(Address::p2wsh(&sc, bl, params).to_string());
            v.push(Address::p2shwsh(&sc, bl, params).to_string());
            let xo = gen::pubkey(rng).x_only_public_key().0;
            v.push(Address::p2tr(SECP256K1, xo, None, bl, params).to_string());
            // future witness versions and program lengths 2..=40
            let ver = bech32::Fe32::try_from(rng.gen_range(1..=16u8)).unwrap();
            let plen = [2usize, 20, 32, 33, 40][rng.gen_range(0..5)];
            let a = Address { params, payload: elements::address::Payload::WitnessProgram { version: ver, program: gen::bytes(rng, plen) }, blinding_pubkey: bl };
            v.push(a.to_string());
        }
    }
    v
}

/// strings built directly with the bech32 encoder: arbitrary hrp, data length and checksum
fn crafted_bech(rng: &mut R) -> String {
    use elements::blech32::{Blech32, Blech32m};
    let hrps = ["el", "lq", "tlq", "ert", "ex", "tex", "a", "bc", "EL", "abcdefghijklmnopqrstuvwxyz0123456789abcdefghijklmnopqrstuvwxyz0123456789abcdefghijk"];
    let hrp = bech32::Hrp::parse(hrps[rng.gen_range(0..hrps.len())]).unwrap();
    let dl = match rng.gen_range(0..8) { 0 => 0, 1 => 1, 2 => 34, 3 => 35, 4 => 53, 5 => 65, 6 => 73, _ => rng.gen_range(0..120) };
    let data = gen::bytes(rng, dl);
    let ver = bech32::Fe32::try_from(rng.gen_range(0..32u8)).unwrap();
    let r = match rng.gen_range(0..6) {
        0 => bech32::encode::<Blech32>(hrp, &data).ok(),
        1 => bech32::encode::<Blech32m>(hrp, &data).ok(),
        2 => bech32::encode::<bech32::Bech32>(hrp, &data).ok(),
        3 => bech32::encode::<bech32::Bech32m>(hrp, &data).ok(),
        4 => {
            // witness version + data, blech32 / blech32m
            use bech32::primitives::iter::{ByteIterExt, Fe32IterExt};
            Some(if rng.gen_bool(0.5) {
                data.iter().copied().bytes_to_fes().with_checksum::<Blech32>(&hrp).with_witness_version(ver).chars().collect()
            } else {
                data.iter().copied().bytes_to_fes().with_checksum::<Blech32m>(&hrp).with_witness_version(ver).chars().collect()
            })
        }
        _ => bech32::encode::<bech32::NoChecksum>(hrp, &data).ok(),
    };
    r.unwrap_or_else(|| "el1".to_string())
}

fn text_section(out: &mut Out, rng: &mut R) {
    let scale = if out.tier_thorough { 300 } else { 5 };
    // regression corpus and edge cases first
    for s in ["a1", "", "1", "11", "a", "A1", "el1", "lq1", "el1q", "el1Q", "EL1Q", "eL1q", "1q", "1qqqqqqqqqqqq", "el1qqqqqqqqqqqqq", "\u{e9}1q", "el1\u{e9}", "e\u{4e2d}l1qqq", "\u{1f600}", "el1q\u{1f600}qqqqqqqqqqqq", "lq1 ", " lq1", "tlq1qq2xvpcvfup5j8zscjq05u2wxxjcyewk7979f3mmz5l7uw5pqmx6xf5xy50hsn6vhkm5euwt72x878eq6zxx2z58hd7zrsg9qn", "2dcyt9LFshsNYNzPzLAtpzW46LJ4ySyWCS6", "\0", "el1\0"] {
        text_apis(out, s);
        text_pset(out, s);
        text_misc(out, s);
    }
    // very long strings
    for n in [90usize, 91, 150, 151, 1023, 1024, 1025, 10_000] {
        for head in ["el1", "lq1q", "", "1", "Q"] {
            let mut s = String::from(head);
            while s.len() < n { s.push(BECH_ALPHABET[rng.gen_range(0..32)] as char); }
            text_apis(out, &s);
            let z: String = std::iter::repeat('1').take(n).collect();
            text_apis(out, &z);
        }
        let b58: String = (0..n).map(|_| B58_ALPHABET[rng.gen_range(0..58)] as char).collect();
        text_apis(out, &b58);
        let b64: String = (0..n).map(|_| b"ABCDEFGHIJKLMNOPQRSTUVWXYZabcdefghijklmnopqrstuvwxyz0123456789+/="[rng.gen_range(0..65)] as char).collect();
        text_pset(out, &b64);
        text_misc(out, &b64);
    }
    let valid = valid_addresses(rng);
    out.count_n("text.valid_addresses", valid.len() as u64);
    for a in &valid {
        text_apis(out, a);
        text_apis(out, &a.to_uppercase());
        // separator at every position, truncation at every prefix (thorough; sampled in quick)
        let chars: Vec<char> = a.chars().collect();
        let step = if out.tier_thorough { 1 } else { 7 };
        for i in (0..=chars.len()).step_by(step) {
            let t: String = chars[..i].iter().collect();
            text_apis(out, &t);
            let mut c = chars.clone();
            c.insert(i, '1');
            text_apis(out, &c.iter().collect::<String>());
            if i < chars.len() {
                let mut d = chars.clone();
                d[i] = '\u{e9}';
                text_apis(out, &d.iter().collect::<String>());
            }
        }
        for _ in 0..(2 * scale) {
            let mut m = mutate_str(rng, a);
            text_apis(out, &m);
            for _ in 0..rng.gen_range(0..3) { m = mutate_str(rng, &m); }
            text_apis(out, &m);
        }
    }
    for _ in 0..150 * scale {
        let s = crafted_bech(rng);
        text_apis(out, &s);
        text_apis(out, &mutate_str(rng, &s));
        if rng.gen_bool(0.3) { text_apis(out, &s.to_uppercase()); }
    }
    // random strings over several alphabets, one separator at every position
    for _ in 0..60 * scale {
        let n = rng.gen_range(0..100);
        let al: &[u8] = match rng.gen_range(0..4) { 0 => BECH_ALPHABET, 1 => B58_ALPHABET, 2 => b"qpzry9x8gf2tvdw0s3jn54khce6mua7lQPZRY9X8GF2TVDW0S3JN54KHCE6MUA7L1", _ => b" !\"#$%&'()*+,-./0123456789:;<=>?@ABCDEFGHIJKLMNOPQRSTUVWXYZ[\\]^_`abcdefghijklmnopqrstuvwxyz{|}~" };
        let base: Vec<char> = (0..n).map(|_| al[rng.gen_range(0..al.len())] as char).collect();
        text_apis(out, &base.iter().collect::<String>());
        let i = rng.gen_range(0..=base.len());
        let mut c = base.clone();
        c.insert(i, '1');
        let s: String = c.iter().collect();
        text_apis(out, &s);
        text_misc(out, &s);
        // arbitrary unicode
        let u: String = (0..rng.gen_range(0..20)).map(|_| char::from_u32(rng.gen_range(0..0x11_0000)).unwrap_or('\u{fffd}')).collect();
        text_apis(out, &u);
        text_pset(out, &u);
        text_misc(out, &u);
    }
    // hex-ish and JSON-ish inputs for the small string parsers
    for _ in 0..40 * scale {
        let n = [0usize, 1, 31, 32, 33, 63, 64, 65, 66][rng.gen_range(0..9)];
        let mut h = hex(&gen::bytes(rng, n));
        if h == "-" { h.clear(); }
        text_misc(out, &h);
        text_misc(out, &format!("{}:{}", h, rng.gen::<u32>()));
        text_misc(out, &mutate_str(rng, &h));
    }
    for j in ["{}", "[]", "null", "{\"a\":1}", "{\"a\":{\"b\":[1,2,{\"c\":null}]},\"a\":2}", "{\"a\":1e400}", "\"x\"", "{\"\\ud800\":1}", "[[[[[[[[[[[[[[[[[[[[[[[[[[[[[[[[[[[[[[[[[[[[[[[[[[[[[[[[[[[[[[[[[[[[[[[[[[[[[[[[[[[[[[[[[[[[[[[[[[[[[[[[[[[[[[[[[[[[[[[[[[[[[[[[[[[[[[[[[[[[[[[[[[[[[[[[[[[[[[[[[[[[[[[[[[[[["] {
        text_misc(out, j);
    }
}

// ------------------------------------------------------------------------------------------
// S: scripts, taproot
// ------------------------------------------------------------------------------------------

fn script_section(out: &mut Out, rng: &mut R, txs: &[Transaction]) {
    let scale = if out.tier_thorough { 200 } else { 4 };
    for b in 0u16..256 {
        script_apis(out, &Script::from(vec![b as u8]), true);
        script_apis(out, &Script::from(vec![b as u8, 0xff, 0xff, 0xff, 0xff]), true);
        script_apis(out, &Script::from(vec![0x4e, b as u8, b as u8, b as u8, b as u8, 1]), true);
    }
    // witness-program shapes: every version opcode (OP_0, OP_1..OP_16 and their neighbours) x every program length
    // 0..=42 (exact, one byte short, one byte long): the template predicates and `Address::from_script` must be total
    for ver in [0x00u8, 0x4f, 0x50, 0x51, 0x52, 0x5f, 0x60, 0x61] {
        for n in 0usize..=42 {
            for delta in [0isize, -1, 1] {
                let body = (n as isize + delta).max(0) as usize;
                let mut v = vec![ver, n as u8];
                v.extend(gen::bytes(rng, body));
                out.count("script.witness_program_ladder");
                script_apis(out, &Script::from(v), false);
            }
        }
    }
    for _ in 0..300 * scale {
        let s = struct_script(rng);
        script_apis(out, &s, true);
        // truncation at every prefix
        let b = s.as_bytes();
        if b.len() < 80 {
            for i in 0..b.len() { script_apis(out, &Script::from(b[..i].to_vec()), false); }
        }
        script_apis(out, &Script::from(gen::mutate(rng, b)), true);
        script_apis(out, &gen::script(rng), true);
        let l = rng.gen_range(0..10);
        script_apis(out, &Script::from(gen::bytes(rng, l)), true);
    }
    for t in txs {
        for o in &t.output {
            script_apis(out, &o.script_pubkey, true);
            script_apis(out, &Script::from(gen::mutate(rng, o.script_pubkey.as_bytes())), true);
        }
        for i in &t.input {
            script_apis(out, &i.script_sig, true);
            for w in i.witness.script_witness.iter().take(8) {
                script_apis(out, &Script::from(w.clone()), true);
            }
        }
    }
    // a large script of pushes (asm output is linear in the input)
    let mut big = vec![];
    while big.len() < 60_000 { big.push(0x4d); big.extend_from_slice(&[0x00, 0x02]); big.extend(gen::bytes(rng, 512)); }
    script_apis(out, &Script::from(big), false);
    // script ints
    for v in [vec![], vec![0], vec![0x80], vec![0xff], vec![0xff, 0xff, 0xff, 0xff], vec![0xff, 0xff, 0xff, 0x7f], vec![0, 0, 0, 0x80], vec![1, 2, 3, 4, 5], vec![0; 9]] {
        pr(out, "script.read_scriptint", &v, || script::read_scriptint(&v));
        pv(out, "script.read_scriptbool", &v, || script::read_scriptbool(&v));
    }
}

fn taproot_section(out: &mut Out, rng: &mut R) {
    let scale = if out.tier_thorough { 300 } else { 5 };
    for l in (0..100).chain([4096, 4128, 4129, 4160, 4161, 4162, 8000]) {
        let b = gen::bytes(rng, l);
        pr(out, "ControlBlock.from_slice", &b, || ControlBlock::from_slice(&b));
        pr(out, "TaprootMerkleBranch.from_slice", &b, || TaprootMerkleBranch::from_slice(&b));
        pr(out, "SchnorrSig.from_slice", &b, || SchnorrSig::from_slice(&b));
    }
    for b in 0u16..256 {
        pr(out, "LeafVersion.from_u8", &[b as u8], || LeafVersion::from_u8(b as u8));
        po(out, "SchnorrSighashType.from_u8", &[b as u8], || SchnorrSighashType::from_u8(b as u8));
    }
    for n in [0usize, 1, 128, 129, 300] {
        let hs: Vec<TapNodeHash> = (0..n).map(|_| TapNodeHash::from_byte_array(gen::arr32(rng))).collect();
        pr(out, "TaprootMerkleBranch.from_inner", &[n as u8], || TaprootMerkleBranch::from_inner(hs.clone()));
    }
    // valid control blocks: parse, re-serialize, verify against arbitrary keys
    for _ in 0..30 * scale {
        let n = [0usize, 1, 2, 64, 127, 128][rng.gen_range(0..6)];
        let mut v = vec![0xc4 | rng.gen_range(0..2u8)];
        v.extend_from_slice(&gen::pubkey(rng).serialize()[1..]);
        v.extend(gen::bytes(rng, 32 * n));
        if let Some(Ok(c)) = pr(out, "ControlBlock.from_slice", &v, || ControlBlock::from_slice(&v)) {
            pv(out, "ControlBlock.serialize/size", &v, || (c.serialize().len(), c.size()));
            let ok = elements::schnorr::TweakedPublicKey::new(gen::pubkey(rng).x_only_public_key().0);
            let sc = gen::script(rng);
            pv(out, "ControlBlock.verify_taproot_commitment", &v, || c.verify_taproot_commitment(SECP256K1, &ok, &sc));
        }
        let m = gen::mutate(rng, &v);
        pr(out, "ControlBlock.from_slice", &m, || ControlBlock::from_slice(&m));
    }
    // builder: arbitrary op sequences with depths 0..=130
    let ik = gen::pubkey(rng).x_only_public_key().0;
    for round in 0..120 * scale {
        let mut b = TaprootBuilder::new();
        let nops = rng.gen_range(0..12);
        let mut trace = vec![];
        for _ in 0..nops {
            let depth: usize = match rng.gen_range(0..8) { 0 => 0, 1 => 1, 2 => 2, 3 => rng.gen_range(0..6), 4 => 127, 5 => 128, 6 => rng.gen_range(128..=130), _ => rng.gen_range(0..=130) };
            let hidden = rng.gen_bool(0.3);
            trace.push(depth as u8);
            trace.push(hidden as u8);
            let prevb = b.clone();
            let r = if hidden {
                let h = TapNodeHash::from_byte_array(gen::arr32(rng));
                pr(out, "TaprootBuilder.add_hidden", &trace, || b.add_hidden(depth, h))
            } else {
                let s = gen::script(rng);
                let ver = if rng.gen_bool(0.8) { LeafVersion::default() } else { LeafVersion::from_u8(0xc0).unwrap() };
                pr(out, "TaprootBuilder.add_leaf_with_ver", &trace, || b.add_leaf_with_ver(depth, s, ver))
            };
            b = match r { Some(Ok(nb)) => nb, _ => prevb };
            pv(out, "TaprootBuilder.is_complete", &trace, || b.is_complete());
            // finalize at every intermediate state (mostly incomplete builders)
            let bc = b.clone();
            if let Some(Ok(info)) = pr(out, "TaprootBuilder.finalize", &trace, || bc.finalize(SECP256K1, ik)) {
                spend_info_apis(out, &info, &trace);
            }
            let bc = b.clone();
            pr(out, "pset.TapTree.from_inner", &trace, || pset::TapTree::from_inner(bc).map_err(|_| ()));
        }
        let _ = round;
    }
    // complete deep trees: a chain with leaves at depth d, d, d-1, ..., 1 for d up to 128
    for d in [1usize, 2, 3, 64, 127, 128] {
        let mut b = TaprootBuilder::new();
        let mut ok = true;
        let tr = [d as u8];
        for (k, depth) in std::iter::once(d).chain((1..=d).rev()).enumerate() {
            let s = Script::from(vec![0x51, k as u8]);
            match pr(out, "TaprootBuilder.add_leaf", &tr, || b.clone().add_leaf(depth, s)) {
                Some(Ok(nb)) => b = nb,
                _ => { ok = false; break; }
            }
        }
        out.s("taproot.deep_chain_builds", ok && b.is_complete(), || format!("depth {}", d));
        if let Some(Ok(info)) = pr(out, "TaprootBuilder.finalize", &tr, || b.finalize(SECP256K1, ik)) {
            spend_info_apis(out, &info, &tr);
        }
    }
    // huffman trees: empty, one, equal weights, zero weights (degenerate chains), huge counts, extreme weights
    let mut cases: Vec<Vec<(u32, Script)>> = vec![vec![], vec![(0, Script::new())], vec![(u32::MAX, Script::new()), (u32::MAX, Script::new())]];
    for n in [2usize, 3, 129, 130, 200, 300] {
        cases.push((0..n).map(|i| (0u32, Script::from(vec![0x51, i as u8, (i >> 8) as u8]))).collect());
        cases.push((0..n).map(|i| (1u32, Script::from(vec![0x51, i as u8, (i >> 8) as u8]))).collect());
        cases.push((0..n).map(|i| (u32::MAX, Script::from(vec![0x52, i as u8, (i >> 8) as u8]))).collect());
        // fibonacci-like growth gives the deepest tree a u32 allows
        let mut a = 1u64; let mut bb = 1u64;
        cases.push((0..n).map(|i| { let w = a.min(u32::MAX as u64) as u32; let c = a + bb; a = bb; bb = c.min(1 << 40); (w, Script::from(vec![0x53, i as u8, (i >> 8) as u8])) }).collect());
        cases.push((0..n).map(|_| (gen::u32_edge(rng), gen::script(rng))).collect());
        // the same script many times
        cases.push((0..n).map(|_| (rng.gen_range(0..3), Script::from(vec![0x51]))).collect());
    }
    if out.tier_thorough {
        cases.push((0..5000).map(|i| (rng.gen::<u32>(), Script::from(vec![0x51, i as u8, (i >> 8) as u8]))).collect());
    }
    for c in cases {
        let tr = [(c.len() & 0xff) as u8, (c.len() >> 8) as u8];
        // the result holds one merkle branch (<= 128 * 32 bytes) per leaf
        let l = Limits { extra_peak: c.len() * 5000, single: MAX_VEC_SIZE + 4096 };
        let r = probe(out, "TaprootSpendInfo.with_huffman_tree", &tr, &l, || { let r = TaprootSpendInfo::with_huffman_tree(SECP256K1, ik, c.clone()); (r.is_ok(), r) });
        if let Some(Ok(info)) = r {
            spend_info_apis(out, &info, &tr);
        }
    }
    // TapTree slice parser (PSET output field): depth, version, script triples
    for _ in 0..100 * scale {
        let mut v = vec![];
        for _ in 0..rng.gen_range(0..5) {
            v.push(match rng.gen_range(0..5) { 0 => 0, 1 => 1, 2 => 2, 3 => 128, _ => rng.gen() });
            v.push(if rng.gen_bool(0.7) { 0xc4 } else { rng.gen() });
            v.extend(serialize(&gen::script(rng)));
        }
        if rng.gen_bool(0.3) { v = gen::mutate(rng, &v); }
        use elements::pset::serialize::{Deserialize as D, Serialize as Se};
        if let Some(Ok(t)) = pr(out, "pset.Deserialize.TapTree", &v, || <pset::TapTree as D>::deserialize(&v)) {
            pv(out, "pset.Serialize.TapTree", &v, || Se::serialize(&t).len());
            let b = t.into_inner();
            pr(out, "TaprootBuilder.finalize", &v, || b.finalize(SECP256K1, ik));
        }
    }
}
fn spend_info_apis(out: &mut Out, info: &TaprootSpendInfo, tr: &[u8]) {
    pv(out, "TaprootSpendInfo.accessors", tr, || (info.tap_tweak(), info.internal_key(), info.merkle_root(), info.output_key(), info.output_key_parity()));
    for (k, _) in info.as_script_map().iter().take(6) {
        if let Some(Some(cb)) = po(out, "TaprootSpendInfo.control_block", tr, || info.control_block(k)) {
            let ok = pv(out, "ControlBlock.verify_taproot_commitment", tr, || cb.verify_taproot_commitment(SECP256K1, &info.output_key(), &k.0));
            out.s("taproot.control_block_verifies", ok == Some(true), || format!("trace {}", hex(tr)));
            let ser = cb.serialize();
            pr(out, "ControlBlock.from_slice", &ser, || ControlBlock::from_slice(&ser));
        }
    }
    po(out, "TaprootSpendInfo.control_block", tr, || info.control_block(&(Script::from(vec![0xde, 0xad]), LeafVersion::default())));
}

// ------------------------------------------------------------------------------------------
// S: blinding, amount proofs, unblinding
// ------------------------------------------------------------------------------------------

fn addr_script(rng: &mut R) -> Script {
    match rng.gen_range(0..6) {
        0 => Script::new_v0_wpkh(&<elements::WPubkeyHash as elements::bitcoin::hashes::Hash>::from_byte_array({ let mut a = [0u8; 20]; rng.fill(&mut a[..]); a })),
        1 => Script::new_p2pkh(&<elements::PubkeyHash as elements::bitcoin::hashes::Hash>::from_byte_array({ let mut a = [0u8; 20]; rng.fill(&mut a[..]); a })),
        2 => Script::new_p2sh(&elements::ScriptHash::from_byte_array({ let mut a = [0u8; 20]; rng.fill(&mut a[..]); a })),
        3 => { let mut v = vec![0x51, 32]; v.extend(gen::bytes(rng, 32)); Script::from(v) }
        4 => { let mut v = vec![0x00, 32]; v.extend(gen::bytes(rng, 32)); Script::from(v) }
        _ => gen::script(rng), // usually not an address
    }
}

/// an explicit transaction with `marked` outputs carrying a blinding key
fn explicit_tx(rng: &mut R, nin: usize, nout: usize, marked: usize, assets: &[AssetId]) -> Transaction {
    let input = (0..nin).map(|_| { let k = if rng.gen_bool(0.15) { gen::InKind::Issuance } else { gen::InKind::Plain }; let mut i = gen::txin(rng, k, false); if k == gen::InKind::Issuance { i.asset_issuance.amount = Value::Explicit(rng.gen_range(0..3) * 1000); i.asset_issuance.inflation_keys = if rng.gen_bool(0.5) { Value::Explicit(5) } else { Value::Null }; } i }).collect();
    let mut output: Vec<TxOut> = (0..nout).map(|k| TxOut {
        asset: Asset::Explicit(assets[rng.gen_range(0..assets.len())]),
        value: Value::Explicit(match rng.gen_range(0..8) { 0 => 0, 1 => u64::MAX, 2 => 1 << 63, 3 => 2_100_000_000_000_000, _ => rng.gen_range(1..1_000_000) }),
        nonce: if k < marked { Nonce::Confidential(gen::pubkey(rng)) } else { Nonce::Null },
        script_pubkey: addr_script(rng),
        witness: TxOutWitness::empty(),
    }).collect();
    if rng.gen_bool(0.5) { output.push(TxOut::new_fee(rng.gen_range(0..1000), assets[0])); }
    if rng.gen_bool(0.2) && !output.is_empty() { // a fee output that nevertheless carries a nonce
        let k = rng.gen_range(0..output.len());
        output[k].script_pubkey = Script::new();
    }
    Transaction { version: 2, lock_time: LockTime::ZERO, input, output }
}
fn secrets(rng: &mut R, n: usize, assets: &[AssetId]) -> Vec<TxOutSecrets> {
    (0..n).map(|_| TxOutSecrets::new(
        assets[rng.gen_range(0..assets.len())],
        if rng.gen_bool(0.3) { AssetBlindingFactor::zero() } else { AssetBlindingFactor::from_slice(&gen::tweak(rng).as_ref()[..]).unwrap() },
        gen::u64_edge(rng),
        if rng.gen_bool(0.3) { ValueBlindingFactor::zero() } else { ValueBlindingFactor::from_slice(&gen::tweak(rng).as_ref()[..]).unwrap() },
    )).collect()
}

fn blind_section(out: &mut Out, rng: &mut R, txs: &[Transaction]) {
    let scale = if out.tier_thorough { 60 } else { 2 };
    let assets: Vec<AssetId> = (0..3).map(|_| gen::asset_id(rng)).collect();
    let mut blinded: Vec<(Transaction, Vec<TxOutSecrets>, Vec<SecretKey>)> = vec![];
    // regression for the fixed finding C10-ZERO-ISSUANCE (4f34601): a decodable input whose issuance amount (or inflation
    // keys amount) is Explicit(0) made verify_tx_amt_proofs panic in PedersenCommitment::new_unblinded; it must be an Err now
    for which in 0..2 {
        let mut i = TxIn::default();
        i.previous_output = OutPoint::new(Txid::from_byte_array([1u8; 32]), 0);
        i.asset_issuance.amount = if which == 0 { Value::Explicit(0) } else { Value::Explicit(5) };
        i.asset_issuance.inflation_keys = if which == 0 { Value::Null } else { Value::Explicit(0) };
        let t = Transaction { version: 2, lock_time: LockTime::ZERO, input: vec![i], output: vec![] };
        let b = serialize(&t);
        out.s("zero_issuance_tx_is_decodable", deserialize::<Transaction>(&b).map(|d| d == t).unwrap_or(false), || hex(&b));
        let utxo = TxOut { asset: Asset::Explicit(assets[0]), value: Value::Explicit(1), nonce: Nonce::Null, script_pubkey: Script::new(), witness: TxOutWitness::empty() };
        pr(out, "Transaction.verify_tx_amt_proofs", &b, || t.verify_tx_amt_proofs(SECP256K1, &[utxo.clone()]));
    }
    // regressions for the fixed finding C10-ZERO-VALUE-BLIND (17ff2cc): blinding an explicit 0 with a zero
    // (computed) value blinding factor asserted in PedersenCommitment::new; it must be an Err now
    {
        let msg = elements::RangeProofMessage::new(assets[0], AssetBlindingFactor::zero());
        let sk = gen::seckey(rng);
        let spk = Script::new();
        for (v, zero_bf) in [(0u64, true), (0, false), (1, true)] {
            let bf = if zero_bf { ValueBlindingFactor::zero() } else { ValueBlindingFactor::from_slice(&gen::tweak(rng).as_ref()[..]).unwrap() };
            pr(out, "Value.blind_with_shared_secret", &[v as u8, zero_bf as u8], || Value::Explicit(v).blind_with_shared_secret(SECP256K1, bf, sk, &spk, &msg).map(|_| ()));
        }
        // one unblinded input of 5, one output of 0 marked for blinding, fee 5
        let spk = Script::new_v0_wpkh(&<elements::WPubkeyHash as elements::bitcoin::hashes::Hash>::from_byte_array([7u8; 20]));
        let mut t = Transaction { version: 2, lock_time: LockTime::ZERO, input: vec![TxIn::default()],
            output: vec![TxOut { asset: Asset::Explicit(assets[0]), value: Value::Explicit(0), nonce: Nonce::Confidential(gen::pubkey(rng)), script_pubkey: spk.clone(), witness: TxOutWitness::empty() }, TxOut::new_fee(5, assets[0])] };
        let sec = [TxOutSecrets::new(assets[0], AssetBlindingFactor::zero(), 5, ValueBlindingFactor::zero())];
        let b = serialize(&t);
        pr(out, "Transaction.blind", &b, || t.blind(rng, SECP256K1, &sec, false).map(|m| m.len()));
        // the same as a PSET
        let mut p = Pset::new_v2();
        let mut i = pset::Input::from_prevout(OutPoint::new(Txid::from_byte_array([1u8; 32]), 0));
        i.witness_utxo = Some(TxOut { asset: Asset::Explicit(assets[0]), value: Value::Explicit(5), nonce: Nonce::Null, script_pubkey: spk.clone(), witness: TxOutWitness::empty() });
        p.add_input(i);
        let mut o = pset::Output::new_explicit(spk.clone(), 0, assets[0], Some(elements::bitcoin::PublicKey::new(gen::pubkey(rng))));
        o.blinder_index = Some(0);
        p.add_output(o);
        p.add_output(pset::Output::new_explicit(Script::new(), 5, assets[0], None));
        let mut m = HashMap::new();
        m.insert(0usize, sec[0]);
        let b = serialize(&p);
        pr(out, "Pset.blind_last", &b, || p.blind_last(rng, SECP256K1, &m).map(|x| x.len()));
    }
    // regression: no output marked for blinding (fixed in 241212d)
    {
        let mut t = explicit_tx(rng, 1, 2, 0, &assets);
        let sec = secrets(rng, 1, &assets);
        let b = serialize(&t);
        pr(out, "Transaction.blind", &b, || t.blind(rng, SECP256K1, &sec, false));
    }
    // balanced single-asset transactions that blind and verify (the deep path of every function)
    for _ in 0..6 * scale {
        let nin = rng.gen_range(1..3usize);
        let nout = rng.gen_range(1..4usize);
        let per_out = 1000u64;
        let fee = 7u64;
        let total = per_out * nout as u64 + fee;
        let sec: Vec<TxOutSecrets> = (0..nin).map(|k| TxOutSecrets::new(assets[0], AssetBlindingFactor::from_slice(&gen::tweak(rng).as_ref()[..]).unwrap(), if k == 0 { total - (nin as u64 - 1) } else { 1 }, ValueBlindingFactor::from_slice(&gen::tweak(rng).as_ref()[..]).unwrap())).collect();
        let mut t = Transaction { version: 2, lock_time: LockTime::ZERO,
            input: (0..nin).map(|_| gen::txin(rng, gen::InKind::Plain, false)).collect(),
            output: (0..nout).map(|_| { let mut spk = addr_script(rng); while Address::from_script(&spk, None, &AddressParams::ELEMENTS).is_none() { spk = addr_script(rng); } TxOut { asset: Asset::Explicit(assets[0]), value: Value::Explicit(per_out), nonce: Nonce::Confidential(gen::pubkey(rng)), script_pubkey: spk, witness: TxOutWitness::empty() } }).collect() };
        t.output.push(TxOut::new_fee(fee, assets[0]));
        let b = serialize(&t);
        let r = pr(out, "Transaction.blind", &b, || t.blind(rng, SECP256K1, &sec, false));
        if let Some(Ok(map)) = r {
            out.count("blind.balanced.ok");
            let keys: Vec<SecretKey> = map.values().map(|x| x.2).collect();
            blinded.push((t.clone(), sec.clone(), keys));
        } else {
            out.count("blind.balanced.err");
        }
    }
    for round in 0..40 * scale {
        let nin = rng.gen_range(0..4);
        let nout = rng.gen_range(0..5);
        let marked = if nout == 0 { 0 } else { rng.gen_range(0..=nout) };
        let mut t = explicit_tx(rng, nin, nout, marked, &assets);
        if rng.gen_bool(0.1) && !t.output.is_empty() { // non-explicit output
            let k = rng.gen_range(0..t.output.len());
            if rng.gen_bool(0.5) { t.output[k].value = Value::Confidential(gen::commitment(rng)); } else { t.output[k].asset = if rng.gen_bool(0.5) { Asset::Null } else { Asset::Confidential(gen::generator(rng)) }; }
        }
        // number of secrets: right, too few, too many, none
        let ns = match rng.gen_range(0..6) { 0 => 0, 1 => nin.saturating_sub(1), 2 => nin + 1, _ => nin };
        let sec = secrets(rng, ns, &assets);
        let b = serialize(&t);
        let iss = rng.gen_bool(0.4);
        out.count(&format!("blind.shape.marked{}.secrets{}", marked.min(3), if ns == nin { "=" } else if ns < nin { "<" } else { ">" }));
        let r = pr(out, "Transaction.blind", &b, || t.blind(rng, SECP256K1, &sec, iss));
        if let Some(Err(e)) = &r { out.count(&format!("blind.err.{}", e.to_string().chars().filter(|c| !c.is_ascii_digit()).take(60).collect::<String>())); }
        if let Some(Ok(map)) = r {
            let keys: Vec<SecretKey> = map.values().map(|x| x.2).collect();
            blinded.push((t.clone(), sec.clone(), keys));
        }
        let _ = round;
    }
    out.count_n("blind.successes", blinded.len() as u64);
    // amount proofs with arbitrary utxo lists
    let mk_utxo = |rng: &mut R| { let w = rng.gen_bool(0.3); gen::txout(rng, w) };
    let mut cases: Vec<(Transaction, Vec<TxOut>)> = vec![];
    for (t, sec, _) in blinded.iter().take(12 * scale) {
        // the matching explicit-from-secrets utxos (commitments recomputed): should verify or fail cleanly
        // (PedersenCommitment::new asserts on a zero value with a zero blinding factor: infallible API, skipped)
        let utx = catch_unwind(|| sec.iter().map(|s| {
            let (g, _, _) = s.surjection_inputs(SECP256K1);
            let vc = zkp::PedersenCommitment::new(SECP256K1, s.value, s.value_bf.into_inner(), g);
            TxOut { asset: Asset::Confidential(g), value: Value::Confidential(vc), nonce: Nonce::Null, script_pubkey: Script::new(), witness: TxOutWitness::empty() }
        }).collect::<Vec<TxOut>>());
        if let Ok(utx) = utx { cases.push((t.clone(), utx)); }
        cases.push((t.clone(), (0..t.input.len()).map(|_| mk_utxo(rng)).collect()));
        cases.push((t.clone(), vec![]));
    }
    for _ in 0..25 * scale {
        let t = gen::tx(rng);
        let n = match rng.gen_range(0..4) { 0 => 0, 1 => t.input.len() + 1, _ => t.input.len() };
        cases.push((t, (0..n).map(|_| mk_utxo(rng)).collect()));
    }
    for t in txs.iter().take(if out.tier_thorough { 40 } else { 8 }) {
        cases.push((t.clone(), (0..t.input.len()).map(|_| mk_utxo(rng)).collect()));
        cases.push((t.clone(), (0..t.input.len()).map(|_| TxOut::default()).collect()));
    }
    for (t, u) in &cases {
        let b = serialize(t);
        if b.len() > 200_000 { continue; }
        pr(out, "Transaction.verify_tx_amt_proofs", &b, || t.verify_tx_amt_proofs(SECP256K1, u));
    }
    // the transactions with test vectors in the repository verify against their documented utxo
    out.count_n("verify.cases", cases.len() as u64);
    // unblinding with arbitrary keys
    for (t, _, keys) in blinded.iter().take(15 * scale) {
        for o in &t.output {
            let b = serialize(o);
            for k in keys.iter().take(2).copied().chain(std::iter::once(gen::seckey(rng))) {
                pr(out, "TxOut.unblind", &b, || o.unblind(SECP256K1, k));
            }
            txout_accessors(out, o, &b);
        }
    }
    for _ in 0..40 * scale {
        let mut o = gen::txout(rng, true);
        if rng.gen_bool(0.6) { o.value = Value::Confidential(gen::commitment(rng)); o.asset = Asset::Confidential(gen::generator(rng)); o.nonce = Nonce::Confidential(gen::pubkey(rng)); o.witness.rangeproof = Some(gen::rangeproof(rng)); }
        let b = serialize(&o);
        let k = gen::seckey(rng);
        pr(out, "TxOut.unblind", &b, || o.unblind(SECP256K1, k));
    }
    for t in txs.iter() {
        for o in t.output.iter().take(4) {
            let b = serialize(o);
            if b.len() > 10_000 { continue; }
            let k = gen::seckey(rng);
            pr(out, "TxOut.unblind", &b, || o.unblind(SECP256K1, k));
        }
    }
    // single-output constructors with arbitrary arguments
    for _ in 0..10 * scale {
        let ns0 = rng.gen_range(0..3);
        let sec = secrets(rng, ns0, &assets);
        let addr = Address::p2wpkh(&elements::bitcoin::PublicKey::new(gen::pubkey(rng)), if rng.gen_bool(0.7) { Some(gen::pubkey(rng)) } else { None }, &AddressParams::ELEMENTS);
        let v = gen::u64_edge(rng);
        let a = assets[rng.gen_range(0..3)];
        pr(out, "TxOut.new_not_last_confidential", &v.to_le_bytes(), || TxOut::new_not_last_confidential(rng, SECP256K1, v, &addr, a, &sec).map(|x| x.0.is_partially_blinded()));
        let ns1 = rng.gen_range(0..3);
        let osec = secrets(rng, ns1, &assets);
        let osr: Vec<&TxOutSecrets> = osec.iter().collect();
        let spk = addr.script_pubkey();
        let bk = gen::pubkey(rng);
        pr(out, "TxOut.new_last_confidential", &v.to_le_bytes(), || TxOut::new_last_confidential(rng, SECP256K1, v, a, spk, bk, &sec, &osr).map(|x| x.0.is_partially_blinded()));
    }
}

// ------------------------------------------------------------------------------------------
// S: PSET operations on decoded and hand-built values
// ------------------------------------------------------------------------------------------

fn xpub(rng: &mut R) -> elements::bitcoin::bip32::Xpub {
    use elements::bitcoin::bip32::{Xpriv, Xpub};
    let secp = elements::bitcoin::secp256k1::Secp256k1::new();
    let seed = gen::arr32(rng);
    let xp = Xpriv::new_master(elements::bitcoin::NetworkKind::Main, &seed).unwrap();
    Xpub::from_priv(&secp, &xp)
}

/// PSETs built through the public API, then bent: counts inconsistent with the maps, missing
/// fields, blinder index out of range, both lock-time kinds
fn handbuilt_psets(rng: &mut R, assets: &[AssetId]) -> Vec<Pset> {
    let mut v = vec![];
    for _ in 0..6 {
        let t = gen::tx(rng);
        let mut p = Pset::from_tx(t);
        match rng.gen_range(0..6) {
            0 => { p.global = pset::Global::default(); }                                   // counts 0, maps not empty
            1 => { let q = Pset::from_tx(gen::tx_wide(rng, 3, 5)); p.global = q.global.clone(); } // counts of another pset
            2 => { for o in p.outputs_mut() { o.amount = None; o.amount_comm = None; } }
            3 => { for o in p.outputs_mut() { o.asset = None; o.asset_comm = None; } }
            4 => { for o in p.outputs_mut() { o.blinder_index = Some([0u32, 1, 1000, u32::MAX][rng.gen_range(0..4)]); o.blinding_key = Some(elements::bitcoin::PublicKey::new(gen::pubkey(rng))); } }
            _ => {}
        }
        for i in p.inputs_mut() {
            match rng.gen_range(0..5) {
                0 => { i.required_time_locktime = elements::locktime::Time::from_consensus(rng.gen_range(500_000_000..u32::MAX)).ok(); }
                1 => { i.required_height_locktime = elements::locktime::Height::from_consensus(rng.gen_range(0..500_000_000)).ok(); }
                2 => { i.required_time_locktime = elements::locktime::Time::from_consensus(500_000_000).ok(); i.required_height_locktime = elements::locktime::Height::from_consensus(499_999_999).ok(); }
                _ => {}
            }
            if rng.gen_bool(0.2) { i.previous_output_index = [0u32, u32::MAX, 1 << 30, 1 << 31, (1 << 30) - 1, 3 << 30][rng.gen_range(0..6)]; }
            if rng.gen_bool(0.3) { i.witness_utxo = Some(gen::txout(rng, false)); }
            if rng.gen_bool(0.1) { i.blinded_issuance = Some(rng.gen_range(0..3)); }
        }
        v.push(p);
    }
    // a blindable pset: explicit inputs with witness utxos, outputs with blinding keys
    // (the first few without any defect, so that blinding runs to completion)
    for round in 0..10 {
        let clean = round < 4;
        let mut p = Pset::new_v2();
        let nin = rng.gen_range(1..3);
        for _ in 0..nin {
            let mut i = pset::Input::from_prevout(OutPoint::new(Txid::from_byte_array(gen::arr32(rng)), rng.gen_range(0..4)));
            i.witness_utxo = Some(TxOut { asset: Asset::Explicit(assets[0]), value: Value::Explicit(10_000), nonce: Nonce::Null, script_pubkey: addr_script(rng), witness: TxOutWitness::empty() });
            if !clean && rng.gen_bool(0.15) { i.witness_utxo = None; }
            if !clean && rng.gen_bool(0.15) { i.issuance_value_amount = Some(5); i.blinded_issuance = Some(rng.gen_range(0..2)); }
            p.add_input(i);
        }
        let nout = rng.gen_range(1..4);
        for _ in 0..nout {
            let bk = if clean || rng.gen_bool(0.8) { Some(elements::bitcoin::PublicKey::new(gen::pubkey(rng))) } else { None };
            let amt = if clean { rng.gen_range(1..5_000) } else { [0u64, 1, 5_000, u64::MAX][rng.gen_range(0..4)] };
            let ast = if clean { assets[0] } else { assets[rng.gen_range(0..assets.len())] };
            let mut spk = addr_script(rng);
            if clean { while Address::from_script(&spk, None, &AddressParams::ELEMENTS).is_none() { spk = addr_script(rng); } }
            let mut o = pset::Output::new_explicit(spk, amt, ast, bk);
            o.blinder_index = if clean { Some(rng.gen_range(0..nin as u32)) } else { match rng.gen_range(0..6) { 0 => None, 1 => Some(nin as u32), 2 => Some(u32::MAX), _ => Some(rng.gen_range(0..nin as u32)) } };
            if !clean && rng.gen_bool(0.1) { o.amount = None; }
            if !clean && rng.gen_bool(0.1) { o.asset = None; }
            p.add_output(o);
        }
        p.add_output(pset::Output::new_explicit(Script::new(), 100, assets[0], None));
        if !clean && rng.gen_bool(0.3) { p.global.scalars.push(gen::tweak(rng)); }
        if !clean && rng.gen_bool(0.2) { p.global.scalars.push(Tweak::from_slice(&[0u8; 32]).unwrap()); }
        v.push(p);
    }
    v
}

fn pset_ops(out: &mut Out, rng: &mut R, p: &Pset, others: &[Pset], assets: &[AssetId]) {
    let src = catch_unwind(|| serialize(p)).unwrap_or_default();
    let src = if src.len() > 50_000 { src[..50_000].to_vec() } else { src };
    pset_accessors(out, p, &src);
    // merge: with a clone, with unrelated psets, with a clone whose global data differs
    for q in others.iter().take(3) {
        pr(out, "Pset.merge", &src, || { let mut a = p.clone(); a.merge(q.clone()) });
    }
    {
        let mut q = p.clone();
        q.global.tx_data.tx_modifiable = Some(rng.gen());
        q.global.version = rng.gen_range(0..4);
        q.global.scalars.push(gen::tweak(rng));
        for i in q.inputs_mut() { i.sequence = Some(Sequence(rng.gen())); i.final_script_sig = Some(gen::script(rng)); i.sighash_type = Some(pset::PsbtSighashType::from_u32(rng.gen())); }
        pr(out, "Pset.merge", &src, || { let mut a = p.clone(); a.merge(q) });
    }
    // blinding with arbitrary secrets maps
    let nin = p.inputs().len();
    for variant in 0..3 {
        let mut m: HashMap<usize, TxOutSecrets> = HashMap::new();
        match variant {
            0 => {}
            1 => { for k in 0..nin { m.insert(k, TxOutSecrets::new(assets[0], AssetBlindingFactor::zero(), 10_000, ValueBlindingFactor::zero())); } }
            _ => { for s in secrets(rng, 2, assets) { m.insert([0usize, 1, nin, usize::MAX, 7][rng.gen_range(0..5)], s); } }
        }
        let mut a = p.clone();
        pr(out, "Pset.blind_non_last", &src, || a.blind_non_last(rng, SECP256K1, &m).map(|x| x.len()));
        let mut a = p.clone();
        let r = pr(out, "Pset.blind_last", &src, || a.blind_last(rng, SECP256K1, &m).map(|x| x.len()));
        if let Some(Err(e)) = &r { out.count(&format!("pset.blind_last.err.{}", e.to_string().chars().filter(|c| !c.is_ascii_digit()).take(60).collect::<String>())); }
        if let Some(Ok(_)) = r {
            out.count("pset.blind_last.success");
            let b2 = serialize(&a);
            pset_accessors(out, &a, &b2);
            // the blinded pset survives the wire
            dec_pset(out, &b2);
        }
        pr(out, "Pset.surjection_inputs", &src, || p.surjection_inputs(&m).map(|x| x.len()));
    }
    // unlisted Option-returning mutators: recorded only
    let mut a = p.clone();
    if catch_unwind(AssertUnwindSafe(|| { a.remove_input(0); a.remove_output(0); })).is_err() {
        out.count("observed(out-of-scope).Pset.remove_input/remove_output.count_underflow_panic");
    }
}

fn xpub_merge(out: &mut Out, rng: &mut R) {
    use elements::bitcoin::bip32::{ChildNumber, DerivationPath, Fingerprint};
    let base = Pset::from_tx(gen::tx_wide(rng, 1, 1));
    let x = xpub(rng);
    let path = |v: &[u32]| DerivationPath::from(v.iter().map(|n| ChildNumber::from(*n)).collect::<Vec<_>>());
    let fp = |b: u8| Fingerprint::from([b; 4]);
    // every relation between the two key sources of the same xpub
    let rel: Vec<((Fingerprint, DerivationPath), (Fingerprint, DerivationPath))> = vec![
        ((fp(1), path(&[1, 2, 3])), (fp(1), path(&[1, 2, 3]))),             // equal
        ((fp(1), path(&[1, 2, 3])), (fp(2), path(&[1, 2, 3]))),             // same path, other fingerprint
        ((fp(1), path(&[1, 2, 3])), (fp(1), path(&[1, 2, 4]))),             // same length, different
        ((fp(1), path(&[2, 3])), (fp(2), path(&[1, 2, 3]))),                // shorter is a suffix
        ((fp(1), path(&[1, 2, 3])), (fp(2), path(&[2, 3]))),                // longer first
        ((fp(1), path(&[9, 3])), (fp(2), path(&[1, 2, 3]))),                // shorter is not a suffix
        ((fp(1), path(&[1, 2, 3])), (fp(2), path(&[9, 3]))),
        ((fp(1), path(&[])), (fp(2), path(&[1, 2, 3]))),                    // empty vs non-empty
        ((fp(1), path(&[1, 2, 3])), (fp(2), path(&[]))),
        ((fp(1), path(&[])), (fp(1), path(&[]))),
        ((fp(1), path(&[])), (fp(2), path(&[]))),
        ((fp(1), path(&[0x8000_0000, u32::MAX])), (fp(1), path(&[u32::MAX]))),
        ((fp(1), path(&[1, 2, 3, 4, 5, 6, 7, 8])), (fp(1), path(&[1]))),    // much shorter, not a suffix
    ];
    for (k, (a, b)) in rel.into_iter().enumerate() {
        let mut p = base.clone();
        let mut q = base.clone();
        p.global.xpub.insert(x, a);
        q.global.xpub.insert(x, b);
        pr(out, "Pset.merge(xpub)", &[k as u8], || { let mut l = p.clone(); l.merge(q.clone()) });
        pr(out, "Pset.merge(xpub)", &[k as u8, 1], || { let mut l = q.clone(); l.merge(p.clone()) });
    }
    for _ in 0..20 {
        let mut p = base.clone();
        let mut q = base.clone();
        let xs = [x, xpub(rng)];
        for m in [&mut p, &mut q] {
            for xx in xs.iter() {
                if rng.gen_bool(0.7) {
                    let l = rng.gen_range(0..5);
                    let v: Vec<u32> = (0..l).map(|_| rng.gen_range(0..3)).collect();
                    m.global.xpub.insert(*xx, (fp(rng.gen_range(0..2)), path(&v)));
                }
            }
        }
        pr(out, "Pset.merge(xpub)", &[0xff], || { let mut l = p.clone(); l.merge(q.clone()) });
    }
}

/// raw PSET bytes with adversarial claims
fn crafted_pset_bytes(rng: &mut R) -> Vec<Vec<u8>> {
    let pair = |k: &[u8], v: &[u8]| { let mut o = varint(k.len() as u64); o.extend_from_slice(k); o.extend(varint(v.len() as u64)); o.extend_from_slice(v); o };
    let head = |nin: &[u8], nout: &[u8]| {
        let mut o = b"pset\xff".to_vec();
        o.extend(pair(&[0x02], &2u32.to_le_bytes()));
        o.extend(pair(&[0x04], nin));
        o.extend(pair(&[0x05], nout));
        o.extend(pair(&[0xfb], &2u32.to_le_bytes()));
        o.push(0);
        o
    };
    let mut v = vec![];
    for n in [0u64, 1, 2, 9_999, 10_000, 10_001, 0xffff, 0xffff_ffff, 1 << 32, u64::MAX] {
        v.push(head(&varint(n), &varint(0)));
        v.push(head(&varint(0), &varint(n)));
        v.push(head(&varint(n), &varint(n)));
        // followed by as many empty maps as fit in a small input
        let mut w = head(&varint(n), &varint(n));
        w.extend(std::iter::repeat(0u8).take(64));
        v.push(w);
    }
    // key length claims: 2^32, 2^32+1, u64::MAX, MAX_VEC_SIZE ± 1, at the first global key and inside an input map
    for claim in [1u64 << 32, (1 << 32) + 1, u64::MAX, 4_000_000, 4_000_001, 4_000_002, 0xfffe, 0xffff_fffe] {
        let mut w = b"pset\xff".to_vec();
        w.extend(varint(claim));
        w.extend(gen::bytes(rng, 20));
        v.push(w);
        let mut w = head(&varint(1), &varint(0));
        w.extend(varint(claim));
        w.extend(gen::bytes(rng, 20));
        v.push(w);
        // value length claims
        let mut w = b"pset\xff".to_vec();
        w.extend([1u8, 0x02]);
        w.extend(varint(claim));
        w.extend(gen::bytes(rng, 8));
        v.push(w);
    }
    // xpub entries with short / misaligned derivation data
    for vl in [0usize, 1, 3, 4, 5, 8, 12] {
        let mut k = vec![0x01];
        k.extend(xpub(rng).encode());
        let mut w = b"pset\xff".to_vec();
        w.extend(pair(&k, &gen::bytes(rng, vl)));
        w.extend(head(&varint(0), &varint(0))[5..].to_vec());
        v.push(w);
    }
    // proprietary keys: prefix length claims, scalars of wrong size
    for kl in [0usize, 1, 5, 6, 37, 38, 39] {
        let mut k = vec![0xfc, 4];
        k.extend(b"pset");
        k.push(0x00);
        k.extend(gen::bytes(rng, kl));
        let mut w = b"pset\xff".to_vec();
        w.extend(pair(&k, &[]));
        w.extend(head(&varint(0), &varint(0))[5..].to_vec());
        v.push(w);
        let mut k2 = vec![0xfc];
        k2.extend(varint([0u64, 4, 0xfd, 1 << 32, u64::MAX][kl % 5]));
        k2.extend(gen::bytes(rng, kl));
        let mut w = b"pset\xff".to_vec();
        w.extend(pair(&k2, &[1]));
        w.push(0);
        v.push(w);
    }
    v
}

fn pset_section(out: &mut Out, rng: &mut R, hv: &[Vec<u8>]) {
    let scale = if out.tier_thorough { 60 } else { 2 };
    let assets: Vec<AssetId> = (0..3).map(|_| gen::asset_id(rng)).collect();
    let decoded: Vec<(Vec<u8>, Pset)> = hv.iter().filter_map(|b| { set_ctx("harvest:deserialize.pset", b); catch_unwind(|| deserialize::<Pset>(b).ok()).ok().flatten().map(|p| (b.clone(), p)) }).collect();
    out.count_n("pset.harvested", decoded.len() as u64);
    let dps: Vec<Pset> = decoded.iter().map(|x| x.1.clone()).collect();
    xpub_merge(out, rng);
    for (_, p) in decoded.iter() {
        pset_ops(out, rng, p, &dps, &assets);
    }
    for _ in 0..scale {
        let hb = handbuilt_psets(rng, &assets);
        for p in &hb {
            pset_ops(out, rng, p, &hb, &assets);
        }
    }
    for _ in 0..10 * scale {
        let p = Pset::from_tx(gen::tx(rng));
        let b = serialize(&p);
        dec_pset(out, &b);
        for _ in 0..4 {
            let m = gen::mutate(rng, &b);
            dec_pset(out, &m);
        }
    }
    // mutations and truncations of the repository's PSETs
    for (b, _) in decoded.iter() {
        for _ in 0..(6 * scale) {
            let mut m = gen::mutate(rng, b);
            for _ in 0..rng.gen_range(0..3) { m = gen::mutate(rng, &m); }
            dec_pset(out, &m);
        }
        let step = if out.tier_thorough { 1 } else { 23 };
        for i in (0..b.len().min(4000)).step_by(step) {
            dec_pset(out, &b[..i]);
        }
        length_claims(out, rng, b, 2, if out.tier_thorough { 600 } else { 60 });
    }
    for b in crafted_pset_bytes(rng) {
        dec_pset(out, &b);
        dec::<pset::Global>(out, "pset.Global", &b[5.min(b.len())..]);
        dec::<pset::raw::Pair>(out, "pset.raw.Pair", &b[5.min(b.len())..]);
        dec::<pset::raw::Key>(out, "pset.raw.Key", &b[5.min(b.len())..]);
    }
    // documented panic: insert at a position beyond the end
    for _ in 0..6 {
        let mut p = Pset::from_tx(gen::tx_wide(rng, 2, 2));
        let pos = rng.gen_range(0..5usize);
        documented(out, "Pset.insert_input", &[pos as u8], pos > 2, || p.insert_input(pset::Input::default(), pos));
        let mut p = Pset::from_tx(gen::tx_wide(rng, 2, 2));
        documented(out, "Pset.insert_output", &[pos as u8], pos > 2, || p.insert_output(pset::Output::default(), pos));
    }
}

// ------------------------------------------------------------------------------------------
// S: signature hashes
// ------------------------------------------------------------------------------------------

fn sighash_section(out: &mut Out, rng: &mut R, txs: &[Transaction]) {
    let scale = if out.tier_thorough { 100 } else { 3 };
    let all_types = [SchnorrSighashType::Default, SchnorrSighashType::All, SchnorrSighashType::None, SchnorrSighashType::Single, SchnorrSighashType::AllPlusAnyoneCanPay, SchnorrSighashType::NonePlusAnyoneCanPay, SchnorrSighashType::SinglePlusAnyoneCanPay, SchnorrSighashType::Reserved];
    let mut pool: Vec<Transaction> = (0..12 * scale).map(|_| gen::tx(rng)).collect();
    pool.push(Transaction { version: 2, lock_time: LockTime::ZERO, input: vec![], output: vec![] });
    pool.push(gen::tx_wide(rng, 1, 0));
    pool.push(gen::tx_wide(rng, 0, 1));
    pool.push(gen::tx_wide(rng, 3, 1));
    pool.extend(txs.iter().filter(|t| t.input.len() + t.output.len() < 12).take(6 * scale).cloned());
    let genesis = BlockHash::from_byte_array(gen::arr32(rng));
    for t in &pool {
        let src = serialize(t);
        let src = if src.len() > 20_000 { src[..20_000].to_vec() } else { src };
        let nin = t.input.len();
        let nout = t.output.len();
        let utx: Vec<TxOut> = (0..nin + 2).map(|_| gen::txout(rng, false)).collect();
        let mut idxs = vec![0usize, 1, nin.saturating_sub(1), nin, nin + 1, nout.saturating_sub(1), nout, nout + 1, usize::MAX, u32::MAX as usize, u32::MAX as usize + 1];
        idxs.sort();
        idxs.dedup();
        let annex_bytes = [0x50u8, 1, 2, 3];
        let leaf = TapLeafHash::from_byte_array(gen::arr32(rng));
        let mut shared = SighashCache::new(t);
        for &i in &idxs {
            for &ty in &all_types {
                let prevs: Vec<Prevouts<TxOut>> = vec![
                    Prevouts::All(&utx[..nin]),
                    Prevouts::All(&utx[..nin.saturating_sub(1)]),
                    Prevouts::All(&utx[..nin + 1]),
                    Prevouts::All(&[]),
                    Prevouts::One(i, utx[0].clone()),
                    Prevouts::One(i.wrapping_add(1), utx[1].clone()),
                    Prevouts::One(0, utx[0].clone()),
                ];
                for (pk, pv_) in prevs.iter().enumerate() {
                    let annex = if (pk + i % 2) % 2 == 0 { Some(Annex::new(&annex_bytes).unwrap()) } else { None };
                    let lh = if pk % 3 == 0 { Some((leaf, 0xffff_ffffu32)) } else { None };
                    // a fresh cache and a cache shared by all calls on this transaction
                    pr(out, "SighashCache.taproot_sighash", &src, || SighashCache::new(t).taproot_sighash(i, pv_, annex.clone(), lh, ty, genesis));
                    pr(out, "SighashCache.taproot_sighash(shared cache)", &src, || shared.taproot_sighash(i, pv_, annex.clone(), lh, ty, genesis));
                    if pk < 2 {
                        pr(out, "SighashCache.taproot_key_spend_signature_hash", &src, || shared.taproot_key_spend_signature_hash(i, pv_, ty, genesis));
                        pr(out, "SighashCache.taproot_script_spend_signature_hash", &src, || shared.taproot_script_spend_signature_hash(i, pv_, leaf, ty, genesis));
                        pr(out, "SighashCache.taproot_encode_signing_data_to", &src, || { let mut w = vec![]; SighashCache::new(t).taproot_encode_signing_data_to(&mut w, i, pv_, annex.clone(), lh, ty, genesis).map(|_| w.len()) });
                    }
                }
            }
        }
        // ECDSA variants: documented to panic exactly when the index is out of range
        let sc = gen::script(rng);
        for &i in &[0usize, nin.saturating_sub(1), nin, nin + 3] {
            for raw in [1u32, 2, 3, 0x81, 0x82, 0x83, 0, 4, 0x80, 0xff, u32::MAX] {
                let ty = EcdsaSighashType::from_u32(raw);
                let val = gen::value(rng);
                documented(out, "SighashCache.segwitv0_sighash", &src, i >= nin, || SighashCache::new(t).segwitv0_sighash(i, &sc, val, ty));
                documented(out, "SighashCache.legacy_sighash", &src, i >= nin, || SighashCache::new(t).legacy_sighash(i, &sc, ty));
                documented(out, "SighashCache.encode_segwitv0_signing_data_to", &src, i >= nin, || { let mut w = vec![]; let _ = SighashCache::new(t).encode_segwitv0_signing_data_to(&mut w, i, &sc, val, ty); });
                documented(out, "SighashCache.encode_legacy_signing_data_to", &src, i >= nin, || { let mut w = vec![]; let _ = SighashCache::new(t).encode_legacy_signing_data_to(&mut w, i, &sc, ty); });
            }
        }
        po(out, "SighashCache.witness_mut", &src, || { let mut tt = t.clone(); let mut c = SighashCache::new(&mut tt); c.witness_mut(nin).map(|w| w.len()) });
    }
    for b in [vec![], vec![0x50], vec![0x51], vec![0x50, 0, 0], gen::bytes(rng, 40)] {
        pr(out, "Annex.new", &b, || Annex::new(&b).map(|a| a.as_bytes().len()));
    }
    for raw in [0u32, 1, 2, 3, 4, 0x80, 0x81, 0x82, 0x83, 0x84, 0xff, 0x100, 0x181, u32::MAX] {
        pr(out, "EcdsaSighashType.from_standard", &raw.to_le_bytes(), || EcdsaSighashType::from_standard(raw));
    }
}

/// Slice parsers must look at the slice length: a prefix of a valid 33-byte commitment/generator is
/// not a commitment.  The sub-slices handed over here all lie inside one 33-byte array, so a parser
/// that ignores the length still only reads memory owned by the harness.
fn slice_length_section(out: &mut Out, rng: &mut R) {
    use elements::pset::serialize::Deserialize as D;
    let c = gen::commitment(rng).serialize();
    let g = gen::generator(rng).serialize();
    let pk = gen::pubkey(rng).serialize();
    for k in 0..=33usize {
        let want_ok = k == 33;
        let r = pr(out, "Value.from_commitment", &c[..k], || Value::from_commitment(&c[..k]));
        slice_len_check(out, "Value.from_commitment", &c[..k], matches!(r, Some(Ok(_))), want_ok);
        let r = pr(out, "Asset.from_commitment", &g[..k], || Asset::from_commitment(&g[..k]));
        slice_len_check(out, "Asset.from_commitment", &g[..k], matches!(r, Some(Ok(_))), want_ok);
        let r = pr(out, "Nonce.from_commitment", &pk[..k], || Nonce::from_commitment(&pk[..k]));
        slice_len_check(out, "Nonce.from_commitment", &pk[..k], matches!(r, Some(Ok(_))), want_ok);
        let r = pr(out, "pset.Deserialize.PedersenCommitment", &c[..k], || <zkp::PedersenCommitment as D>::deserialize(&c[..k]));
        slice_len_check(out, "pset.Deserialize.PedersenCommitment", &c[..k], matches!(r, Some(Ok(_))), want_ok);
        let r = pr(out, "pset.Deserialize.Generator", &g[..k], || <zkp::Generator as D>::deserialize(&g[..k]));
        slice_len_check(out, "pset.Deserialize.Generator", &g[..k], matches!(r, Some(Ok(_))), want_ok);
        let r = pr(out, "pset.Deserialize.Tweak", &c[..k], || <Tweak as D>::deserialize(&c[..k]));
        slice_len_check(out, "pset.Deserialize.Tweak", &c[..k], matches!(r, Some(Ok(_))), k == 32 && <Tweak as D>::deserialize(&c[..32]).is_ok());
    }
}
/// PSETs whose commitment-typed fields (output value / asset commitment, input issuance value /
/// inflation keys commitment) hold fewer than 33 bytes must be rejected.  Before d0f55c0 the field
/// parser read 33 bytes whatever the length (fixed finding C10-UNCHECKED-SLICE-LEN), so the first,
/// empty-field, case is decoded in a child process first: a regression there would kill the harness.
fn short_commitment_in_pset(out: &mut Out, rng: &mut R) {
    let c = gen::commitment(rng);
    let g = gen::generator(rng);
    let o = TxOut { asset: Asset::Confidential(g), value: Value::Confidential(c), nonce: Nonce::Null, script_pubkey: Script::new(), witness: TxOutWitness::empty() };
    let mut i = gen::txin(rng, gen::InKind::Issuance, false);
    i.asset_issuance.amount = Value::Confidential(gen::commitment(rng));
    i.asset_issuance.inflation_keys = Value::Confidential(gen::commitment(rng));
    let fields: Vec<[u8; 33]> = vec![c.serialize(), g.serialize(), i.asset_issuance.amount.commitment().unwrap().serialize(), i.asset_issuance.inflation_keys.commitment().unwrap().serialize()];
    let p = Pset::from_tx(Transaction { version: 2, lock_time: LockTime::ZERO, input: vec![i], output: vec![o] });
    let b = serialize(&p);
    out.s("pset_with_commitments_roundtrips", deserialize::<Pset>(&b).map(|q| q == p).unwrap_or(false), || hex(&b));
    let mut child_ok = true;
    for (fi, cs) in fields.iter().enumerate() {
        let Some(pos) = b.windows(33).position(|w| w == &cs[..]) else { out.s("pset_commitment_field_found", false, || format!("field {}", fi)); continue };
        if pos == 0 || b[pos - 1] != 33 { out.s("pset_commitment_field_found", false, || format!("field {}", fi)); continue; }
        for k in 0..33usize {
            let mut m = b[..pos - 1].to_vec();
            m.push(k as u8);
            m.extend_from_slice(&cs[..k]);
            m.extend_from_slice(&b[pos + 33..]);
            if k == 0 {
                child_ok &= crash_in_child(out, &m);
                if !child_ok { break; }
            }
            let r = dec_pset(out, &m);
            out.s("slice_length_respected.deserialize.pset(short commitment field)", r.is_none(), || format!("field {} truncated to {} bytes was accepted: {}", fi, k, hex(&m)));
        }
    }
}
/// entry point of `evh probe c10-decode-pset <hex>`: decode in this (child) process
pub fn crash_probe(args: &[String]) {
    let b = crate::unhex(args.get(0).map(|s| s.as_str()).unwrap_or("-"));
    match deserialize::<Pset>(&b) {
        Ok(_) => println!("ok"),
        Err(_) => println!("err"),
    }
}
/// decode `m` as a PSET in a child process (`evh probe c10-decode-pset`); true iff it printed "err"
fn crash_in_child(out: &mut Out, m: &[u8]) -> bool {
    let name = "no_crash.deserialize.pset(empty commitment field)";
    let Ok(exe) = std::env::current_exe() else { return true };
    let Ok(res) = std::process::Command::new(exe).args(["probe", "c10-decode-pset", &hex(m)]).output() else { return true };
    let stdout = String::from_utf8_lossy(&res.stdout).trim().to_string();
    let ok = res.status.success() && stdout == "err";
    out.count(&format!("child.decode_pset_with_empty_commitment.{}", if res.status.success() { stdout.as_str() } else { "killed" }));
    out.s(name, ok, || format!("input={} child status={:?} stdout={:?}", hex(m), res.status, stdout));
    ok
}
fn slice_len_check(out: &mut Out, api: &str, b: &[u8], got_ok: bool, want_ok: bool) {
    out.s(&format!("slice_length_respected.{}", api), got_ok == want_ok, || format!("input={} ({} bytes) accepted={} expected={}", hex(b), b.len(), got_ok, want_ok));
}

/// small fallible constructors over integers, and recorded out-of-scope observations
fn misc_section(out: &mut Out, rng: &mut R) {
    for _ in 0..200 {
        let n = gen::u32_edge(rng);
        let b = n.to_le_bytes();
        pr(out, "Sequence.from_seconds_floor", &b, || Sequence::from_seconds_floor(n));
        pr(out, "Sequence.from_seconds_ceil", &b, || Sequence::from_seconds_ceil(n));
        pr(out, "LockTime.from_height", &b, || LockTime::from_height(n));
        pr(out, "LockTime.from_time", &b, || LockTime::from_time(n));
        pr(out, "locktime.Height.from_consensus", &b, || elements::locktime::Height::from_consensus(n));
        pr(out, "locktime.Time.from_consensus", &b, || elements::locktime::Time::from_consensus(n));
        po(out, "LockTime.partial_cmp", &b, || LockTime::from_consensus(n).partial_cmp(&LockTime::from_consensus(gen::u32_edge(rng))));
    }
    // issuance blinding with arbitrary factors
    for _ in 0..6 {
        let mut i = gen::txin(rng, gen::InKind::Issuance, false);
        i.asset_issuance.amount = [Value::Explicit(0), Value::Explicit(1), Value::Explicit(u64::MAX), Value::Null, Value::Confidential(gen::commitment(rng))][rng.gen_range(0..5)];
        i.asset_issuance.inflation_keys = [Value::Explicit(0), Value::Explicit(7), Value::Null][rng.gen_range(0..3)];
        let z = ValueBlindingFactor::zero();
        let r = ValueBlindingFactor::from_slice(&gen::tweak(rng).as_ref()[..]).unwrap();
        let (a, b2) = if rng.gen_bool(0.5) { (z, r) } else { (r, z) };
        let (k1, k2) = (gen::seckey(rng), gen::seckey(rng));
        let src = serialize(&i);
        pr(out, "TxIn.blind_issuances_with_bfs", &src, || i.blind_issuances_with_bfs(SECP256K1, a, b2, k1, k2));
    }
    // recorded, not flagged: a TaprootBuilder can only hold `branch = [None]` when it comes out of
    // serde (the field is private); `finalize` then hits its invariant `expect`
    if let Ok(b) = serde_json::from_str::<TaprootBuilder>("{\"branch\":[null]}") {
        let ik = gen::pubkey(rng).x_only_public_key().0;
        if catch_unwind(AssertUnwindSafe(|| b.finalize(SECP256K1, ik).is_ok())).is_err() {
            out.count("observed(out-of-scope).TaprootBuilder.finalize.panics_on_serde_built_branch_[null]");
        }
    }
}

// ------------------------------------------------------------------------------------------
// boundary scalars in PSET blinding, blinding-factor arithmetic, rare nonce encodings
// ------------------------------------------------------------------------------------------

const N_ORDER: [u8; 32] = [
    0xFF, 0xFF, 0xFF, 0xFF, 0xFF, 0xFF, 0xFF, 0xFF, 0xFF, 0xFF, 0xFF, 0xFF, 0xFF, 0xFF, 0xFF, 0xFE, 0xBA, 0xAE, 0xDC, 0xE6, 0xAF, 0x48, 0xA0, 0x3B, 0xBF, 0xD2, 0x5E, 0x8C, 0xD0, 0x36, 0x41, 0x41,
];
/// big-endian 256-bit helpers, independent of libsecp: (a + b) mod n and (−a) mod n for a, b < n
fn be_add(a: &[u8; 32], b: &[u8; 32]) -> ([u8; 32], bool) {
    let mut r = [0u8; 32];
    let mut c = 0u16;
    for i in (0..32).rev() {
        let s = a[i] as u16 + b[i] as u16 + c;
        r[i] = s as u8;
        c = s >> 8;
    }
    (r, c != 0)
}
fn be_sub(a: &[u8; 32], b: &[u8; 32]) -> [u8; 32] {
    let mut r = [0u8; 32];
    let mut brw = 0i16;
    for i in (0..32).rev() {
        let mut d = a[i] as i16 - b[i] as i16 - brw;
        if d < 0 { d += 256; brw = 1; } else { brw = 0; }
        r[i] = d as u8;
    }
    r
}
fn add_mod_n(a: &[u8; 32], b: &[u8; 32]) -> [u8; 32] {
    let (s, carry) = be_add(a, b);
    if carry || s >= N_ORDER { be_sub(&s, &N_ORDER) } else { s }
}
fn neg_mod_n(a: &[u8; 32]) -> [u8; 32] {
    if *a == [0u8; 32] { *a } else { be_sub(&N_ORDER, a) }
}
fn tw32(t: &Tweak) -> [u8; 32] {
    let mut a = [0u8; 32];
    a.copy_from_slice(t.as_ref());
    a
}
fn tweak_of(a: &[u8; 32]) -> Tweak {
    Tweak::from_slice(a).expect("scalar below the group order")
}
fn twh(t: &Tweak) -> String {
    c04::bf_hex(t.as_ref())
}
fn small(k: u8) -> [u8; 32] {
    let mut a = [0u8; 32];
    a[31] = k;
    a
}
/// the boundary scalars: 0, 1, 2, n−1, n−2, (n−1)/2, (n+1)/2, 2^255, a random x and −x
fn boundary_scalars(rng: &mut R) -> Vec<(&'static str, [u8; 32])> {
    let nm1 = be_sub(&N_ORDER, &small(1));
    let mut half = [0u8; 32]; // (n-1)/2
    let mut c = 0u8;
    for i in 0..32 { let v = nm1[i]; half[i] = (v >> 1) | (c << 7); c = v & 1; }
    let mut top = [0u8; 32];
    top[0] = 0x80;
    let x = tw32(&gen::tweak(rng));
    vec![("0", [0u8; 32]), ("1", small(1)), ("2", small(2)), ("n-1", nm1), ("n-2", be_sub(&N_ORDER, &small(2))), ("(n-1)/2", half), ("(n+1)/2", add_mod_n(&half, &small(1))), ("2^255", top), ("x", x), ("-x", neg_mod_n(&x))]
}

/// `ValueBlindingFactor` `+=` / unary `-` on every pair of boundary scalars (all four zero/non-zero
/// combinations, x + (−x), (n−1) + 1, …) against an independent 256-bit oracle, and as the
/// `psetblind.addneg` correspondence op; `ValueBlindingFactor::last` with zero operands on either side
fn scalar_arith_section(out: &mut Out, rng: &mut R) {
    let rounds = if out.tier_thorough { 12 } else { 1 };
    for _ in 0..rounds {
        let bs = boundary_scalars(rng);
        for (na, a) in &bs {
            // negation
            let ta = tweak_of(a);
            let src: Vec<u8> = a.to_vec();
            let neg = pv(out, "ValueBlindingFactor.neg", &src, || -ValueBlindingFactor::from_slice(a).unwrap());
            out.s("vbf_neg_is_minus_mod_n", neg.map(|v| tw32(&v.into_inner())) == Some(neg_mod_n(a)), || format!("a={}", twh(&ta)));
            for (nb, b) in &bs {
                out.count(&format!("vbf.add.shape.{}+{}", if *a == [0u8; 32] { "zero" } else { "nonzero" }, if *b == [0u8; 32] { "zero" } else { "nonzero" }));
                let tb = tweak_of(b);
                let mut src = a.to_vec();
                src.extend_from_slice(b);
                let sum = pv(out, "ValueBlindingFactor.add_assign", &src, || { let mut x = ValueBlindingFactor::from_slice(a).unwrap(); x += ValueBlindingFactor::from_slice(b).unwrap(); x });
                out.s("vbf_add_is_plus_mod_n", sum.map(|v| tw32(&v.into_inner())) == Some(add_mod_n(a, b)), || format!("{} + {}: a={} b={}", na, nb, twh(&ta), twh(&tb)));
                let k = match (sum, neg) { (Some(x), Some(n)) => format!("ok {} {}", twh(&x.into_inner()), twh(&n.into_inner())), _ => "panic".to_string() };
                out.k(format!("psetblind.addneg {} {}", twh(&ta), twh(&tb)), k);
            }
        }
        // x += -x, x += x, chains that return to zero
        for (_, a) in &bs {
            let src = a.to_vec();
            let r = pv(out, "ValueBlindingFactor.add_assign", &src, || { let x = ValueBlindingFactor::from_slice(a).unwrap(); let mut y = x; y += -x; y += x; y += -x; y });
            out.s("vbf_x_plus_minus_x_is_zero", r == Some(ValueBlindingFactor::zero()), || c04::bf_hex(a));
        }
        // last(): zero / boundary operands on every side
        let vals = [0u64, 1, u64::MAX, 1 << 63, 5_000];
        for (_, abf) in bs.iter().take(6) {
            for shape in 0..6 {
                let v = vals[rng.gen_range(0..vals.len())];
                let mk = |rng: &mut R, zero_a: bool, zero_v: bool, val: u64| {
                    let bsx = boundary_scalars(rng);
                    let a = if zero_a { [0u8; 32] } else { bsx[rng.gen_range(1..bsx.len())].1 };
                    let b = if zero_v { [0u8; 32] } else { bsx[rng.gen_range(1..bsx.len())].1 };
                    (val, AssetBlindingFactor::from_slice(&a).unwrap(), ValueBlindingFactor::from_slice(&b).unwrap())
                };
                let (ins, outs): (Vec<_>, Vec<_>) = match shape {
                    0 => (vec![], vec![]),
                    1 => (vec![mk(rng, true, true, 0)], vec![mk(rng, true, true, 0)]),
                    2 => (vec![mk(rng, true, false, 7)], vec![mk(rng, false, true, 7)]),
                    3 => { let vv = vals[rng.gen_range(0..5)]; let e = mk(rng, false, false, vv); (vec![e], vec![e]) }    // equal operands: the difference is zero
                    4 => (vec![mk(rng, false, false, u64::MAX), mk(rng, false, false, u64::MAX)], vec![]),
                    _ => {
                        let mut rnd = |rng: &mut R| { let (za, zv, vv) = (rng.gen_bool(0.5), rng.gen_bool(0.5), gen::u64_edge(rng)); mk(rng, za, zv, vv) };
                        ((0..3).map(|_| rnd(rng)).collect(), (0..3).map(|_| rnd(rng)).collect())
                    }
                };
                out.count(&format!("vbf.last.shape{}", shape));
                let abf_v = AssetBlindingFactor::from_slice(abf).unwrap();
                let f = |l: &Vec<(u64, AssetBlindingFactor, ValueBlindingFactor)>| c04::join(&l.iter().map(|(v, a, b)| format!("0:{}:{}:{}", v, c04::abf_hex(a), c04::vbf_hex(b))).collect::<Vec<_>>());
                let r = pv(out, "ValueBlindingFactor.last", abf, || ValueBlindingFactor::last(SECP256K1, v, abf_v, &ins, &outs));
                out.k(format!("psetblind.last {} {} {} {}", v, c04::abf_hex(&abf_v), f(&ins), f(&outs)), match r { Some(x) => format!("ok {}", c04::vbf_hex(&x)), None => "panic".into() });
            }
        }
    }
}

struct Amap(Vec<AssetId>);
impl Amap {
    fn idx(&mut self, a: AssetId) -> usize {
        match self.0.iter().position(|x| *x == a) { Some(i) => i, None => { self.0.push(a); self.0.len() - 1 } }
    }
}
fn opts<T: ToString>(o: Option<T>) -> String { o.map(|x| x.to_string()).unwrap_or_else(|| "n".into()) }
fn b01(b: bool) -> char { if b { '1' } else { '0' } }
fn step_flags(o: &pset::Output) -> String {
    [o.amount_comm.is_some(), o.asset_comm.is_some(), o.ecdh_pubkey.is_some(), o.value_rangeproof.is_some(), o.asset_surjection_proof.is_some(), o.blind_value_proof.is_some(), o.blind_asset_proof.is_some()].iter().map(|b| b01(*b)).collect()
}
fn scalars_s(p: &Pset) -> String { c04::join(&p.global.scalars.iter().map(twh).collect::<Vec<_>>()) }

/// one real `blind_last` / `blind_non_last` call as the `psetblind.step` correspondence op of the C09
/// model (state rendered exactly as harness/src/props/c09.rs does), plus the C10 no-panic verdict
fn pset_step(out: &mut Out, api: &str, shape: &str, last: bool, p: &mut Pset, sup: &HashMap<usize, TxOutSecrets>, prng: &mut R) -> bool {
    let mut am = Amap(vec![]);
    let ins: Vec<String> = p.inputs().iter().map(|i| {
        let mut s = format!("{}{}{}", b01(i.witness_utxo.is_some()), b01(i.has_issuance()), opts(i.blinded_issuance));
        let (a, t) = i.issuance_ids();
        if i.issuance_value_amount.is_some() || i.issuance_value_comm.is_some() { s.push_str(&format!("+{}", am.idx(a))); }
        if i.issuance_inflation_keys.is_some() || i.issuance_inflation_keys_comm.is_some() { s.push_str(&format!("+{}", am.idx(t))); }
        s
    }).collect();
    let outs: Vec<String> = p.outputs().iter().map(|o| format!("{}:{}:{}:{}:{}:{}", opts(o.amount), opts(o.asset.map(|a| am.idx(a))), b01(o.blinding_key.is_some()), opts(o.blinder_index),
        b01(Address::from_script(&o.script_pubkey, None, &AddressParams::ELEMENTS).is_some()), step_flags(o))).collect();
    let pre_sc = scalars_s(p);
    let mut supv: Vec<(&usize, &TxOutSecrets)> = sup.iter().collect();
    supv.sort_by_key(|e| *e.0);
    let sup_s: Vec<String> = supv.iter().map(|(i, s)| format!("{}:{}:{}:{}:{}", i, am.idx(s.asset), s.value, c04::abf_hex(&s.asset_bf), c04::vbf_hex(&s.value_bf))).collect();
    let src = catch_unwind(AssertUnwindSafe(|| serialize(&*p))).unwrap_or_default();
    let r = probe(out, api, &src, &pset_lim(), || { let r = if last { p.blind_last(prng, SECP256K1, sup) } else { p.blind_non_last(prng, SECP256K1, sup) }; (r.is_ok(), r) });
    let (rands, result) = match &r {
        None => { out.count(&format!("{}.{}.panic", api, shape)); ("-".to_string(), "panic".to_string()) }
        Some(Err(e)) => {
            use elements::pset::PsetBlindError as E;
            use elements::ConfidentialTxOutError as C;
            let t = match e {
                E::BlindingIssuanceUnsupported(_) => "Issuance", E::BlinderIndexOutOfBounds(..) => "Index", E::AtleastOneOutputBlind => "NoOutput", E::MissingWitnessUtxo(_) => "Utxo",
                E::MustHaveExplicitTxOut(_) => "Explicit", E::ConfidentialTxOutError(_, C::ExpectedExplicitValue) => "ExplValue", E::ConfidentialTxOutError(_, C::ExpectedExplicitAsset) => "ExplAsset",
                E::ConfidentialTxOutError(_, C::InvalidAddress) => "Address", E::ConfidentialTxOutError(..) => "Proof", E::BlindingProofsCreationError(..) => "Proof", _ => "Other",
            };
            out.count(&format!("{}.{}.err.{}", api, shape, t));
            ("-".to_string(), format!("err {}", t))
        }
        Some(Ok(ret)) => {
            out.count(&format!("{}.{}.ok", api, shape));
            let n = ret.len();
            let rands: Vec<String> = ret.iter().enumerate().map(|(j, (loc, (abf, vbf, _)))| {
                let v = if last && j + 1 == n { "0".repeat(64) } else { c04::vbf_hex(vbf) };
                format!("{}:{}:{}", loc.input_index, c04::abf_hex(abf), v)
            }).collect();
            let sel: Vec<String> = ret.keys().map(|l| l.input_index.to_string()).collect();
            let sv = if last { ret.values().last().map(|(_, v, _)| c04::vbf_hex(v)).unwrap_or_else(|| "-".into()) }
                     else if ret.is_empty() { "-".into() } else { p.global.scalars.last().map(twh).unwrap_or_else(|| "-".into()) };
            let flags: Vec<String> = p.outputs().iter().map(step_flags).collect();
            let bidx: Vec<String> = p.outputs().iter().map(|o| opts(o.blinder_index)).collect();
            (c04::join(&rands), format!("ok sel={} s={} scalars={} flags={} bidx={}", c04::join(&sel), sv, scalars_s(p), flags.join(","), bidx.join(",")))
        }
    };
    // the C09 model takes proof creation to succeed whatever the blinding factor is; libsecp refuses to
    // sign a range proof with blinding factor 0 (an `Err`, which is fine for C10): no K line for the
    // shapes built to make the final factor 0
    if !shape.contains("final factor 0") {
        out.k(format!("psetblind.step {} {} {} {} {} {}", if last { "l" } else { "n" }, c04::join(&ins), c04::join(&outs), pre_sc, c04::join(&sup_s), rands), result);
    }
    matches!(r, Some(Ok(_)))
}

/// a consistent blindable PSET: `nin` explicit inputs of one asset with witness utxos, `nout` outputs
/// with blinding keys and in-range blinder indices, a fee output, amounts balanced; and the matching
/// secrets of every input (non-zero or zero blinding factors)
fn clean_pset(rng: &mut R, asset: AssetId, nin: usize, nout: usize, zero_in_bfs: bool) -> (Pset, HashMap<usize, TxOutSecrets>) {
    let mut p = Pset::new_v2();
    let per_out = 1000u64;
    let total = per_out * nout as u64 + 9;
    let mut m = HashMap::new();
    for k in 0..nin {
        let v = if k == 0 { total - (nin as u64 - 1) } else { 1 };
        let mut i = pset::Input::from_prevout(OutPoint::new(Txid::from_byte_array(gen::arr32(rng)), k as u32));
        let sec = if zero_in_bfs { TxOutSecrets::new(asset, AssetBlindingFactor::zero(), v, ValueBlindingFactor::zero()) }
                  else { TxOutSecrets::new(asset, AssetBlindingFactor::from_slice(gen::tweak(rng).as_ref()).unwrap(), v, ValueBlindingFactor::from_slice(gen::tweak(rng).as_ref()).unwrap()) };
        let mut spk = addr_script(rng);
        while Address::from_script(&spk, None, &AddressParams::ELEMENTS).is_none() { spk = addr_script(rng); }
        i.witness_utxo = Some(if zero_in_bfs {
            TxOut { asset: Asset::Explicit(asset), value: Value::Explicit(v), nonce: Nonce::Null, script_pubkey: spk, witness: TxOutWitness::empty() }
        } else {
            let (g, _, _) = sec.surjection_inputs(SECP256K1);
            TxOut { asset: Asset::Confidential(g), value: Value::Confidential(zkp::PedersenCommitment::new(SECP256K1, v, sec.value_bf.into_inner(), g)), nonce: Nonce::Null, script_pubkey: spk, witness: TxOutWitness::empty() }
        });
        p.add_input(i);
        m.insert(k, sec);
    }
    for _ in 0..nout {
        let mut spk = addr_script(rng);
        while Address::from_script(&spk, None, &AddressParams::ELEMENTS).is_none() { spk = addr_script(rng); }
        let mut o = pset::Output::new_explicit(spk, per_out, asset, Some(elements::bitcoin::PublicKey::new(gen::pubkey(rng))));
        o.blinder_index = Some(rng.gen_range(0..nin as u32));
        p.add_output(o);
    }
    p.add_output(pset::Output::new_explicit(Script::new(), 9, asset, None));
    (p, m)
}

/// `blind_last` / `blind_non_last` on consistent PSETs whose `global.scalars` holds boundary scalars
fn pset_scalar_section(out: &mut Out, rng: &mut R) {
    let rounds = if out.tier_thorough { 10 } else { 1 };
    let asset = gen::asset_id(rng);
    for round in 0..rounds {
        let nin = 1 + round % 2;
        let nout = 1 + (round / 2) % 3;
        let zero_in = round % 3 == 2;
        let (base, sup) = clean_pset(rng, asset, nin, nout, zero_in);
        let seed: u64 = rng.gen();
        // dry run with no scalars: the balancing factor f0 the last blinder computes with this rng
        let f0: Option<[u8; 32]> = {
            let mut q = base.clone();
            let mut pr_ = R::seed_from_u64(seed);
            match catch_unwind(AssertUnwindSafe(|| q.blind_last(&mut pr_, SECP256K1, &sup))) {
                Ok(Ok(ret)) => ret.values().last().map(|(_, v, _)| tw32(&v.into_inner())),
                _ => None,
            }
        };
        out.count(if f0.is_some() { "pset.scalars.dry_run.ok" } else { "pset.scalars.dry_run.failed" });
        let bs = boundary_scalars(rng);
        let x = bs[8].1;
        let y = tw32(&gen::tweak(rng));
        let nm1 = bs[3].1;
        let mut shapes: Vec<(&'static str, Vec<[u8; 32]>)> = vec![
            ("none", vec![]),
            ("[0]", vec![[0u8; 32]]),
            ("[1]", vec![small(1)]),
            ("[n-1]", vec![nm1]),
            ("[0,0]", vec![[0u8; 32], [0u8; 32]]),
            ("[x,x]", vec![x, x]),
            ("[n-1,n-1]", vec![nm1, nm1]),
            ("[x,-x]", vec![x, neg_mod_n(&x)]),
            ("[n-1,1]", vec![nm1, small(1)]),
            ("[0,n-1,1]", vec![[0u8; 32], nm1, small(1)]),
            ("[0,x]", vec![[0u8; 32], x]),
            ("[x,0]", vec![x, [0u8; 32]]),
            ("[x,y,-(x+y)]", vec![x, y, neg_mod_n(&add_mod_n(&x, &y))]),
            ("[(n-1)/2,(n+1)/2]", vec![bs[5].1, bs[6].1]),
            ("[2^255,2^255]", vec![bs[7].1, bs[7].1]),
        ];
        {
            // many scalars that sum to zero mod n
            let mut v: Vec<[u8; 32]> = (0..19).map(|_| tw32(&gen::tweak(rng))).collect();
            let mut acc = [0u8; 32];
            for t in &v { acc = add_mod_n(&acc, t); }
            v.push(neg_mod_n(&acc));
            shapes.push(("20 summing to 0", v));
        }
        if let Some(f) = f0 {
            // the scalars cancel the computed factor: the last output is committed with blinding factor 0
            shapes.push(("[-f0] (final factor 0)", vec![neg_mod_n(&f)]));
            shapes.push(("[a,-f0-a] (final factor 0)", vec![y, neg_mod_n(&add_mod_n(&f, &y))]));
            shapes.push(("[-f0+1] (final factor 1)", vec![add_mod_n(&neg_mod_n(&f), &small(1))]));
            shapes.push(("[-f0-1] (final factor n-1)", vec![add_mod_n(&neg_mod_n(&f), &nm1)]));
        }
        for (name, sc) in &shapes {
            let scal: Vec<Tweak> = sc.iter().map(tweak_of).collect();
            for via_wire in [false, true] {
                let mut p = base.clone();
                p.global.scalars = scal.clone();
                if via_wire {
                    // the decoder accepts the all-zero scalar; it refuses duplicate scalars (map keys)
                    let b = serialize(&p);
                    match dec_pset(out, &b) {
                        Some(q) => { out.count(&format!("pset.scalars.{}.decoded", name)); p = q; }
                        None => { out.count(&format!("pset.scalars.{}.decoder_refused", name)); continue; }
                    }
                }
                let tag = format!("{}{}", name, if via_wire { " via wire" } else { "" });
                let mut a = p.clone();
                let ok = pset_step(out, "Pset.blind_last(boundary scalars)", &tag, true, &mut a, &sup, &mut R::seed_from_u64(seed));
                if ok {
                    // a successful last step clears the scalars and leaves a decodable, extractable PSET
                    out.s("pset.blind_last.clears_scalars", a.global.scalars.is_empty(), || format!("shape {}", tag));
                    let b2 = serialize(&a);
                    pset_accessors(out, &a, &b2);
                    dec_pset(out, &b2);
                }
                let mut a = p.clone();
                let okn = pset_step(out, "Pset.blind_non_last(boundary scalars)", &tag, false, &mut a, &sup, &mut R::seed_from_u64(seed ^ 1));
                if okn && !via_wire {
                    // a second party: the non-last blinder's own scalar joins the boundary scalars, then the last step
                    let mut c = a.clone();
                    for o in c.outputs_mut() { if o.blinding_key.is_some() && o.amount_comm.is_none() { o.blinder_index = Some(0); } }
                    pset_step(out, "Pset.blind_last(boundary scalars)", &format!("{} after non_last", name), true, &mut c, &sup, &mut R::seed_from_u64(seed ^ 2));
                }
            }
        }
    }
}

/// nonce kinds of one output: Null, Explicit([u8;32]) (prefix 0x01), Confidential(pubkey)
fn nonce_of(rng: &mut R, k: u8) -> Nonce {
    match k { 0 => Nonce::Null, 1 => Nonce::Explicit(if rng.gen_bool(0.3) { gen::pubkey(rng).serialize()[1..].try_into().unwrap() } else { gen::arr32(rng) }), _ => Nonce::Confidential(gen::pubkey(rng)) }
}
fn nonce_ch(k: u8) -> char { ['n', 'e', 'c'][k as usize] }

/// `Transaction::blind` and the per-output blinding entry points on every placement of the three nonce
/// encodings (non-fee outputs, fee outputs, next to a real blinding key, alone), in memory and decoded
fn nonce_shape_section(out: &mut Out, rng: &mut R) {
    let asset = gen::asset_id(rng);
    let reps = if out.tier_thorough { 4 } else { 1 };
    let mut patterns: Vec<Vec<u8>> = vec![];
    for n in 1..=3usize {
        for code in 0..3usize.pow(n as u32) {
            patterns.push((0..n).map(|j| ((code / 3usize.pow(j as u32)) % 3) as u8).collect());
        }
    }
    for rep in 0..reps {
        for pat in &patterns {
            // quick: all patterns of 1 and 2 outputs, every third pattern of 3 outputs
            if !out.tier_thorough && pat.len() == 3 && (pat[0] as usize + 3 * pat[1] as usize + 9 * pat[2] as usize + rep) % 3 != 0 { continue; }
            for fee_nonce in 0..4u8 {       // 3 = no fee output at all
                let nin = 1 + (pat.len() + fee_nonce as usize) % 2;
                let per_out = 1000u64;
                let fee = 7u64;
                let total = per_out * pat.len() as u64 + if fee_nonce < 3 { fee } else { 0 };
                let spent: Vec<TxOutSecrets> = (0..nin).map(|k| TxOutSecrets::new(asset, AssetBlindingFactor::from_slice(gen::tweak(rng).as_ref()).unwrap(), if k == 0 { total - (nin as u64 - 1) } else { 1 }, ValueBlindingFactor::from_slice(gen::tweak(rng).as_ref()).unwrap())).collect();
                let mut t = Transaction { version: 2, lock_time: LockTime::ZERO, input: (0..nin).map(|_| gen::txin(rng, gen::InKind::Plain, false)).collect(), output: vec![] };
                for &k in pat {
                    let mut spk = addr_script(rng);
                    while Address::from_script(&spk, None, &AddressParams::ELEMENTS).is_none() { spk = addr_script(rng); }
                    t.output.push(TxOut { asset: Asset::Explicit(asset), value: Value::Explicit(per_out), nonce: nonce_of(rng, k), script_pubkey: spk, witness: TxOutWitness::empty() });
                }
                if fee_nonce < 3 {
                    let mut f = TxOut::new_fee(fee, asset);
                    f.nonce = nonce_of(rng, fee_nonce);
                    // the fee output anywhere, not only last
                    let pos = rng.gen_range(0..=t.output.len());
                    t.output.insert(pos, f);
                }
                let shape: String = format!("outs={} fee={}", pat.iter().map(|k| nonce_ch(*k)).collect::<String>(), if fee_nonce < 3 { nonce_ch(fee_nonce).to_string() } else { "-".into() });
                for decoded in [false, true] {
                    let b = serialize(&t);
                    let tx = if decoded {
                        match dec::<Transaction>(out, "Transaction", &b) {
                            Some(d) => { out.s("explicit_nonce_tx_roundtrips", d == t, || hex(&b)); d }
                            None => { out.s("explicit_nonce_tx_roundtrips", false, || hex(&b)); continue; }
                        }
                    } else { t.clone() };
                    // K (`blind.select` of the C04 model: which outputs get blinded, or which error) + verdict
                    let oc = c04::run_blind(rng, out, SECP256K1, &tx, &spent);
                    let tag = match &oc.res { Ok(v) => format!("ok{}", v.len()), Err(e) => e.replace(' ', "_") };
                    out.count(&format!("nonce.blind.{}.{}{}", shape, tag, if decoded { ".decoded" } else { "" }));
                    out.s("no_panic.Transaction.blind(nonce encodings)", oc.res != Err("panic".to_string()), || format!("shape {} tx {}", shape, hex(&b)));
                    // exactly the non-fee outputs with a confidential nonce are blinded; explicit nonces are left alone
                    if let Ok(items) = &oc.res {
                        let want: Vec<usize> = tx.output.iter().enumerate().filter(|(_, o)| !o.is_fee() && o.nonce.is_confidential()).map(|(i, _)| i).collect();
                        let got: Vec<usize> = items.iter().map(|x| x.0).collect();
                        out.s("blind_selects_confidential_nonces_only", got == want, || format!("shape {} want {:?} got {:?} tx {}", shape, want, got, hex(&b)));
                        let untouched = tx.output.iter().zip(oc.tx.output.iter()).enumerate().all(|(i, (a, b2))| want.contains(&i) || a == b2);
                        out.s("blind_leaves_other_outputs_untouched", untouched, || format!("shape {} tx {}", shape, hex(&b)));
                        tx_accessors(out, &oc.tx, &b);
                    } else if oc.res == Err("err TooFewBlindingOutputs".to_string()) {
                        let none_marked = !tx.output.iter().any(|o| !o.is_fee() && o.nonce.is_confidential());
                        out.s("too_few_iff_no_marked_output", none_marked, || format!("shape {} tx {}", shape, hex(&b)));
                    }
                    // with issuance blinding requested as well (no issuance present)
                    if !decoded {
                        let mut t2 = tx.clone();
                        pr(out, "Transaction.blind(nonce encodings, blind_issuances)", &b, || t2.blind(rng, SECP256K1, &spent, true).map(|m| m.len()));
                    }
                }
                // per-output entry points on each output of this transaction
                if rep == 0 {
                    for o in &t.output {
                        let ob = serialize(o);
                        let bk = gen::pubkey(rng);
                        let kind = match o.nonce { Nonce::Null => "null", Nonce::Explicit(_) => "explicit", Nonce::Confidential(_) => "confidential" };
                        let r = pr(out, "TxOut.to_non_last_confidential", &ob, || o.to_non_last_confidential(rng, SECP256K1, bk, &spent));
                        out.count(&format!("nonce.to_non_last.{}.{}.{}", kind, if o.is_fee() { "fee" } else { "nonfee" }, match &r { Some(Ok(_)) => "ok", Some(Err(_)) => "err", None => "panic" }));
                        if let Some(Ok((c, _, _, _))) = r {
                            // the result carries the sender's ephemeral key, whatever the nonce was before
                            out.s("to_non_last_sets_confidential_nonce", c.nonce.is_confidential(), || hex(&ob));
                            let cb = serialize(&c);
                            let sk = gen::seckey(rng);
                            pr(out, "TxOut.unblind", &cb, || c.unblind(SECP256K1, sk));
                            // the blinded output with its nonce replaced by each encoding: unblinding reports, never panics
                            for k in 0..3u8 {
                                let mut c2 = c.clone();
                                c2.nonce = nonce_of(rng, k);
                                let cb2 = serialize(&c2);
                                let r = pr(out, "TxOut.unblind(nonce encodings)", &cb2, || c2.unblind(SECP256K1, sk));
                                out.count(&format!("nonce.unblind.{}.{}", nonce_ch(k), match r { Some(Ok(_)) => "ok", Some(Err(_)) => "err", None => "panic" }));
                            }
                        }
                        pv(out, "Nonce.accessors", &ob, || (o.nonce.commitment().is_some(), o.nonce.explicit().is_some(), o.nonce.is_null(), o.nonce.is_explicit(), o.nonce.is_confidential()));
                        let sk = gen::seckey(rng);
                        po(out, "Nonce.shared_secret", &ob, || o.nonce.shared_secret(&sk));
                        pv(out, "pset.Output.from_txout/to_txout", &ob, || pset::Output::from_txout(o.clone()).to_txout().is_fee());
                    }
                    // the same transaction as a PSET
                    let p = Pset::from_tx(t.clone());
                    let pb = serialize(&p);
                    pset_accessors(out, &p, &pb);
                    dec_pset(out, &pb);
                }
            }
        }
    }
    // the nonce decoder on the three prefixes and their neighbours
    for pre in [0u8, 1, 2, 3, 4, 0xff] {
        for l in [0usize, 1, 31, 32, 33] {
            let mut b = vec![pre];
            b.extend(gen::bytes(rng, l));
            dec::<Nonce>(out, "Nonce", &b);
            let mut g = vec![pre];
            g.extend_from_slice(&gen::pubkey(rng).serialize()[1..]);
            g.truncate(1 + l);
            dec::<Nonce>(out, "Nonce", &g);
        }
    }
}

/// other documented panics, called on both sides of their documented condition
fn documented_section(out: &mut Out, rng: &mut R) {
    use elements::bitcoin::PublicKey as BPk;
    for _ in 0..6 {
        let k = gen::pubkey(rng);
        for compressed in [true, false] {
            let pk = if compressed { BPk::new(k) } else { BPk::new_uncompressed(k) };
            documented(out, "Address.p2wpkh", &[compressed as u8], !compressed, || Address::p2wpkh(&pk, None, &AddressParams::ELEMENTS));
            documented(out, "Address.p2shwpkh", &[compressed as u8], !compressed, || Address::p2shwpkh(&pk, None, &AddressParams::LIQUID));
        }
    }
    for v in 0u8..32 {
        let fe = bech32::Fe32::try_from(v).unwrap();
        let prog = gen::bytes(rng, 20);
        documented(out, "Script.new_witness_program", &[v], v > 16, || Script::new_witness_program(fe, &prog));
    }
}

// ------------------------------------------------------------------------------------------
// input streams for the decoders
// ------------------------------------------------------------------------------------------

/// replace the byte at every position (sampled by `budget`) with huge varint claims
fn length_claims(out: &mut Out, rng: &mut R, b: &[u8], which: u8, budget: usize) {
    if b.is_empty() { return; }
    let claims: [&[u8]; 9] = [
        &[0xfd, 0xff, 0xff],
        &[0xfd, 0x11, 0x27],
        &[0xfe, 0xff, 0xff, 0xff, 0xff],
        &[0xfe, 0x00, 0x09, 0x3d, 0x00],
        &[0xfe, 0x01, 0x09, 0x3d, 0x00],
        &[0xfe, 0x2b, 0x8b, 0x02, 0x00],
        &[0xff, 0xff, 0xff, 0xff, 0xff, 0xff, 0xff, 0xff, 0xff],
        &[0xff, 0x00, 0x00, 0x00, 0x00, 0x01, 0x00, 0x00, 0x00],
        &[0xff, 0xab, 0xaa, 0xaa, 0xaa, 0xaa, 0xaa, 0xaa, 0x0a],
    ];
    let positions: Vec<usize> = if b.len() * claims.len() <= budget { (0..b.len()).collect() } else { (0..budget / claims.len()).map(|_| rng.gen_range(0..b.len())).collect() };
    for i in positions {
        for c in claims.iter() {
            let mut m = b[..i].to_vec();
            m.extend_from_slice(c);
            m.extend_from_slice(&b[i + 1..]);
            match which {
                0 => { dec_main_light(out, &m); }
                1 => { if let Some(bl) = dec::<Block>(out, "Block", &m) { block_accessors(out, &bl, &m); } dec::<BlockHeader>(out, "BlockHeader", &m); }
                _ => { dec_pset(out, &m); }
            }
        }
    }
}
fn dec_main_light(out: &mut Out, b: &[u8]) {
    if let Some(t) = dec::<Transaction>(out, "Transaction", b) {
        tx_accessors(out, &t, b);
    }
}

fn typed<T: Decodable + elements::encode::Encodable>(out: &mut Out, rng: &mut R, name: &str, v: &T, muts: usize, all_prefixes: bool) {
    let b = serialize(v);
    dec::<T>(out, name, &b);
    for _ in 0..muts {
        let mut m = gen::mutate(rng, &b);
        for _ in 0..rng.gen_range(0..3) { m = gen::mutate(rng, &m); }
        dec::<T>(out, name, &m);
        dec_main(out, &m);
    }
    if all_prefixes && b.len() <= 400 {
        for i in 0..b.len() { dec::<T>(out, name, &b[..i]); }
    }
}

fn decoder_section(out: &mut Out, rng: &mut R, hv: &[Vec<u8>]) {
    let scale = if out.tier_thorough { 200 } else { 4 };
    // (1) every valid encoding found in the repository, tried as every type
    for v in hv.iter() {
        if v.len() > 20_000 && !out.tier_thorough { dec_main(out, v); continue; }
        dec_all(out, v);
    }
    // nested maximal claims: each level claims the largest count the guard admits
    {
        let sz_tx = std::mem::size_of::<Transaction>();
        let sz_in = std::mem::size_of::<TxIn>();
        let sz_out = std::mem::size_of::<TxOut>();
        let mut hdr = serialize(&BlockHeader { version: 1, prev_blockhash: BlockHash::from_byte_array([0u8; 32]), merkle_root: elements::TxMerkleNode::from_byte_array([0u8; 32]), time: 0, height: 0, ext: elements::BlockExtData::Proof { challenge: Script::new(), solution: Script::new() } });
        hdr.extend(varint((MAX_VEC_SIZE / sz_tx) as u64));          // Vec<Transaction>::with_capacity(max)
        hdr.extend([2, 0, 0, 0, 1]);                                  // version, witness flag
        hdr.extend(varint((MAX_VEC_SIZE / sz_in) as u64));           // Vec<TxIn>::with_capacity(max)
        let mut a = hdr.clone();
        a.extend([0u8; 36]);
        a.extend(varint(MAX_VEC_SIZE as u64));                         // script_sig vec![0; max]
        dec_main(out, &a);
        // inputs fine, outputs maximal, then witness stacks maximal
        let mut b = serialize(&BlockHeader { version: 1, prev_blockhash: BlockHash::from_byte_array([0u8; 32]), merkle_root: elements::TxMerkleNode::from_byte_array([0u8; 32]), time: 0, height: 0, ext: elements::BlockExtData::Dynafed { current: elements::dynafed::Params::Null, proposed: elements::dynafed::Params::Null, signblock_witness: vec![] } });
        b.extend(varint((MAX_VEC_SIZE / sz_tx) as u64));
        b.extend([2, 0, 0, 0, 1, 1]);
        b.extend([7u8; 32]); b.extend([0, 0, 0, 0]); b.push(0); b.extend([0xff; 4]);
        b.extend(varint((MAX_VEC_SIZE / sz_out) as u64));
        let mut c = b.clone();
        c.extend([0, 0, 0]);
        c.extend(varint(MAX_VEC_SIZE as u64));
        dec_main(out, &c);
        let mut d = b[..b.len() - varint((MAX_VEC_SIZE / sz_out) as u64).len()].to_vec();
        d.push(0);                                                    // no outputs
        d.extend([0, 0, 0, 0]);                                       // lock time
        d.extend([0, 0]);                                             // two empty proofs
        d.extend(varint((MAX_VEC_SIZE / 24) as u64));                 // script witness: max elements
        d.extend(varint(MAX_VEC_SIZE as u64));                        // first element: max bytes
        dec_main(out, &d);
        // dynafed header: signblock witness and extension space claims
        let mut h = vec![0, 0, 0, 0x80];
        h.extend([0u8; 72]);
        h.push(2);                                                    // full params
        h.push(0); h.extend([0, 0, 0, 0]); h.push(0); h.push(0);
        h.extend(varint((MAX_VEC_SIZE / 24) as u64));
        h.extend(varint(MAX_VEC_SIZE as u64));
        dec_main(out, &h);
    }
    // (2) generated values of every type, serialized; (3) mutations; prefixes
    for _ in 0..25 * scale {
        let t = gen::tx(rng);
        { let v = t; typed(out, rng, "Transaction", &v, 3, out.tier_thorough); }
        let bl = gen::block(rng);
        { let v = bl; typed(out, rng, "Block", &v, 2, false); }
        { let v = gen::header(rng); typed(out, rng, "BlockHeader", &v, 3, true); }
        { let v = gen::params(rng); typed(out, rng, "dynafed.Params", &v, 3, true); }
        { let v = gen::full_params(rng); typed(out, rng, "dynafed.FullParams", &v, 2, true); }
        let k = gen::in_kind(rng);
        { let v = gen::txin(rng, k, false); typed(out, rng, "TxIn", &v, 3, true); }
        { let v = gen::txout(rng, false); typed(out, rng, "TxOut", &v, 3, true); }
        { let v = gen::txin_witness(rng, true, true); typed(out, rng, "TxInWitness", &v, 3, false); }
        { let v = gen::txout_witness(rng); typed(out, rng, "TxOutWitness", &v, 3, false); }
        { let v = gen::asset(rng); typed(out, rng, "Asset", &v, 2, true); }
        { let v = gen::value(rng); typed(out, rng, "Value", &v, 2, true); }
        { let v = gen::nonce(rng); typed(out, rng, "Nonce", &v, 2, true); }
        let re = rng.gen_bool(0.5);
        { let v = gen::issuance(rng, re); typed(out, rng, "AssetIssuance", &v, 2, true); }
        { let v = OutPoint::new(Txid::from_byte_array(gen::arr32(rng)), gen::u32_edge(rng)); typed(out, rng, "OutPoint", &v, 1, true); }
        { let v = gen::script(rng); typed(out, rng, "Script", &v, 2, false); }
        { let v = LockTime::from_consensus(gen::u32_edge(rng)); typed(out, rng, "LockTime", &v, 1, true); }
        { let v = Sequence(gen::u32_edge(rng)); typed(out, rng, "Sequence", &v, 1, true); }
        { let v = gen::stack(rng); typed(out, rng, "Vec<Vec<u8>>", &v, 3, true); }
        let l = gen::small_len(rng);
        { let v = gen::bytes(rng, l); typed(out, rng, "Vec<u8>", &v, 2, false); }
        { let v = gen::u64_edge(rng); typed(out, rng, "u64", &v, 1, true); }
        { let v = *gen::rangeproof(rng); typed(out, rng, "RangeProof", &v, 2, false); }
        { let v = *gen::surjproof(rng); typed(out, rng, "SurjectionProof", &v, 2, false); }
    }
    // (4) adversarial length claims at every vector position of short valid encodings
    for _ in 0..(3 * scale) {
        let t = gen::tx(rng);
        let b = serialize(&t);
        length_claims(out, rng, &b, 0, if out.tier_thorough { 4000 } else { 900 });
        let bl = Block { header: gen::header(rng), txdata: vec![gen::tx_wide(rng, 1, 1)] };
        let bb = serialize(&bl);
        length_claims(out, rng, &bb, 1, if out.tier_thorough { 4000 } else { 900 });
    }
    for v in hv.iter().filter(|v| v.len() < 6000) {
        length_claims(out, rng, v, 0, if out.tier_thorough { 300 } else { 27 });
        for _ in 0..(2 * scale) {
            let mut m = gen::mutate(rng, v);
            for _ in 0..rng.gen_range(0..3) { m = gen::mutate(rng, &m); }
            dec_main(out, &m);
        }
    }
    // bare claims fed to every decoder
    for n in [0u64, 1, 0xfc, 0xfd, 0xffff, 0x10000, 10_000, 10_001, 4_000_000, 4_000_001, 0xffff_ffff, 1 << 32, u64::MAX] {
        for pre in [vec![], vec![0u8; 4], vec![2, 0, 0, 0, 0], vec![2, 0, 0, 0, 1], b"pset\xff".to_vec()] {
            let mut b = pre.clone();
            b.extend(varint(n));
            dec_all(out, &b);
            b.extend(varint(n));
            b.extend(gen::bytes(rng, 8));
            dec_all(out, &b);
        }
    }
    // (5) random bytes into every decoder
    for _ in 0..40 * scale {
        let n = match rng.gen_range(0..4) { 0 => rng.gen_range(0..10), 1 => rng.gen_range(0..100), 2 => rng.gen_range(0..1000), _ => 33 };
        let b = gen::bytes(rng, n);
        dec_all(out, &b);
    }
    for b0 in 0u16..256 {
        dec_all(out, &[b0 as u8]);
    }
}

pub fn run(rng: &mut R, out: &mut Out) {
    // panic messages (with source location) are kept for the replay detail
    let prev = std::panic::take_hook();
    std::panic::set_hook(Box::new(|info| {
        if let Ok(mut g) = LAST_PANIC.lock() {
            *g = info.to_string().replace('\n', " ");
        }
    }));
    let r = catch_unwind(AssertUnwindSafe(|| run_inner(rng, out)));
    std::panic::set_hook(prev);
    if let Err(e) = r {
        // a panic of the harness itself (outside every probe): make it visible and fail the run
        eprintln!("C10 harness panicked outside a probe: {}", LAST_PANIC.lock().map(|s| s.clone()).unwrap_or_default());
        std::panic::resume_unwind(e);
    }
}

fn run_inner(rng: &mut R, out: &mut Out) {
    c01::cfg_line(out);
    let hv = c01::harvest_hex();
    out.count_n("harvested_hex_vectors", hv.len() as u64);
    let txs: Vec<Transaction> = hv.iter().filter_map(|b| { set_ctx("harvest:deserialize.Transaction", b); catch_unwind(|| deserialize::<Transaction>(b).ok()).ok().flatten() }).collect();
    out.count_n("harvested_transactions", txs.len() as u64);
    // regression corpus of fixed findings (must pass now)
    text_apis(out, "a1");
    let timing = std::env::var("C10_TIMING").is_ok();
    let mut t0 = std::time::Instant::now();
    let mut lap = |name: &str| { if timing { eprintln!("C10 section {:<10} {:>8.2}s", name, t0.elapsed().as_secs_f64()); } t0 = std::time::Instant::now(); };
    k_section(out, rng, &txs); lap("k");
    decoder_section(out, rng, &hv); lap("decoders");
    text_section(out, rng); lap("text");
    script_section(out, rng, &txs); lap("scripts");
    taproot_section(out, rng); lap("taproot");
    blind_section(out, rng, &txs); lap("blind");
    pset_section(out, rng, &hv); lap("pset");
    sighash_section(out, rng, &txs); lap("sighash");
    documented_section(out, rng); lap("documented");
    slice_length_section(out, rng);
    short_commitment_in_pset(out, rng);
    misc_section(out, rng); lap("misc");
    scalar_arith_section(out, rng); lap("scalars");
    pset_scalar_section(out, rng); lap("psetscal");
    nonce_shape_section(out, rng); lap("nonces");
    // in-memory transactions straight from the generators (not only decoded ones)
    let scale = if out.tier_thorough { 100 } else { 4 };
    for _ in 0..40 * scale {
        let t = gen::tx(rng);
        let b = serialize(&t);
        tx_accessors(out, &t, &b);
        let bl = gen::block(rng);
        let bb = serialize(&bl);
        block_accessors(out, &bl, &bb);
    }
}
