//! C12 — size, weight, vsize and discount weight equal the real serialized sizes
use crate::{gen, hex, Out, Rng, R};
use crate::props::c01;
use elements::encode::{deserialize, serialize};
use elements::{Block, Transaction, TxInWitness, TxOutWitness, Script};

/// model growth: transaction-level accessors, fee accounting, pegout/pegin parsing (EV.Model.TxAccessors)
#[path = "c12_txacc.rs"]
pub mod txacc;

fn strip(t: &Transaction) -> Transaction {
    let mut s = t.clone();
    for i in s.input.iter_mut() { i.witness = TxInWitness::empty(); }
    for o in s.output.iter_mut() { o.witness = TxOutWitness::empty(); }
    s
}

pub fn one_tx(out: &mut Out, t: &Transaction) {
    one_tx_k(out, t, true)
}

/// `k = false`: the serialization of `t` is not something the decoder accepts (in-memory shapes only the encoder
/// knows), so the model driver, which receives the bytes, cannot rebuild the value: direct checks only
pub fn one_tx_k(out: &mut Out, t: &Transaction, k: bool) {
    let b = serialize(t);
    let res = Out::guard(|| format!("ok {} {} {} {} {}", t.size(), t.weight(), t.vsize(), t.discount_weight(), t.discount_vsize()));
    if k {
        out.k(format!("sizes {}", hex(&b)), res.clone());
    } else {
        // field-wise in-memory transport (EV.Driver.MemTx): the model computes the sizes of the value itself
        out.k(format!("sizesmem {}", gen::memtx_hex(t)), res.clone());
    }
    out.s("sizes_never_panic", res != "panic", || hex(&b));
    if res == "panic" { return; }
    let full = b.len();
    let stripped = serialize(&strip(t)).len();
    out.s("size_is_serialized_length", t.size() == full, || format!("{} size={} len={}", hex(&b), t.size(), full));
    out.s("weight_is_3x_stripped_plus_full", t.weight() == 3 * stripped + full, || format!("{} weight={} stripped={} full={}", hex(&b), t.weight(), stripped, full));
    out.s("vsize_is_ceil_quarter", t.vsize() == (t.weight() + 3) / 4, || hex(&b));
    // discount weight from the real serializations of the witnesses
    let mut exp = t.weight() as i64;
    for o in &t.output {
        let wlen = serialize(&o.witness).len() as i64;
        exp -= wlen - 2;
        if o.value.is_confidential() { exp -= 4 * 24; }
        if o.nonce.is_confidential() { exp -= 4 * 32; }
    }
    out.s("discount_weight_formula", t.discount_weight() as i64 == exp, || format!("{} dw={} exp={}", hex(&b), t.discount_weight(), exp));
    out.s("discount_vsize_is_ceil_quarter", t.discount_vsize() == (t.discount_weight() + 3) / 4, || hex(&b));
    out.count(&format!("tx.wit_in{}.wit_out{}", t.input.iter().any(|i| !i.witness.is_empty()), t.output.iter().any(|o| !o.witness.is_empty())));
}

pub fn one_block(out: &mut Out, bk: &Block) {
    one_block_k(out, bk, true)
}

pub fn one_block_k(out: &mut Out, bk: &Block, k: bool) {
    let b = serialize(bk);
    let res = Out::guard(|| format!("ok {} {}", bk.size(), bk.weight()));
    if k && b.len() <= 150_000 {
        out.k(format!("blocksizes {}", hex(&b)), res);
    }
    out.s("block_size_is_serialized_length", bk.size() == b.len(), || hex(&b));
    // compact-size length from the definition, not from the crate's `VarInt::size`
    let n = bk.txdata.len() as u64;
    let cs = if n < 0xfd { 1 } else if n <= 0xffff { 3 } else if n <= 0xffff_ffff { 5 } else { 9 };
    out.s("varint_size_is_emitted_length", elements::encode::VarInt(n).size() == cs && serialize(&elements::encode::VarInt(n)).len() == cs, || format!("VarInt({})", n));
    let hdr = serialize(&bk.header).len() + cs;
    let w: usize = 4 * hdr + bk.txdata.iter().map(|t| t.weight()).sum::<usize>();
    out.s("block_weight_formula", bk.weight() == w, || hex(&b));
    out.count(&format!("block.ntx{}", bk.txdata.len().min(3)));
}

pub fn run(rng: &mut R, out: &mut Out) {
    c01::cfg_line(out);
    let scale = if out.tier_thorough { 15 } else { 1 };
    for _ in 0..300 * scale {
        one_tx(out, &gen::tx(rng));
    }
    // script and vector lengths on both sides of every varint boundary
    let mut lens = vec![0usize, 1, 0xfc, 0xfd, 0xfe, 0xffff, 0x10000];
    if out.tier_thorough { lens.push(0x10001); lens.push(100_000); }
    for &l in &lens {
        let mut t = gen::tx_wide(rng, 1, 1);
        t.input[0].script_sig = Script::from(gen::bytes(rng, l));
        one_tx(out, &t);
        let mut t = gen::tx_wide(rng, 1, 1);
        t.output[0].script_pubkey = Script::from(gen::bytes(rng, l));
        one_tx(out, &t);
        let mut t = gen::tx_wide(rng, 1, 1);
        t.input[0].witness.script_witness = vec![gen::bytes(rng, l)];
        one_tx(out, &t);
        if l <= 0xfe {
            let mut t = gen::tx_wide(rng, 1, 1);
            t.input[0].witness.pegin_witness = (0..l).map(|_| vec![]).collect();
            one_tx(out, &t);
        }
    }
    for (a, b) in [(0xfc, 1), (0xfd, 1), (1, 0xfc), (1, 0xfd), (0, 0), (0, 1), (1, 0)] {
        one_tx(out, &gen::tx_wide(rng, a, b));
    }
    for v in c01::harvest_hex() {
        if let Ok(t) = deserialize::<Transaction>(&v) { one_tx(out, &t); out.count("repo_vector_tx"); }
        if let Ok(bk) = deserialize::<Block>(&v) { one_block(out, &bk); out.count("repo_vector_block"); }
    }
    for _ in 0..40 * scale {
        one_block(out, &gen::block(rng));
    }
    // transaction counts on both sides of every compact-size boundary (smallest possible transactions)
    for n in [0xfcusize, 0xfd, 0xfe, 0xffff, 0x10000, 0x10001] {
        let mut bk = gen::block(rng);
        let t = Transaction { version: 2, lock_time: elements::LockTime::ZERO, input: vec![], output: vec![] };
        bk.txdata = vec![t; n];
        out.count("block.tx_count_boundary");
        one_block(out, &bk);
    }
    for n in [0xfcu64, 0xfd, 0xfe, 0xffff, 0x10000, 0x10001, 0xffff_ffff, 0x1_0000_0000, u64::MAX] {
        let cs = if n < 0xfd { 1 } else if n <= 0xffff { 3 } else if n <= 0xffff_ffff { 5 } else { 9 };
        out.s("varint_size_is_emitted_length", elements::encode::VarInt(n).size() == cs && serialize(&elements::encode::VarInt(n)).len() == cs, || format!("VarInt({})", n));
    }
    // in-memory inputs the decoder never produces (a null outpoint that carries a pegin flag and/or an issuance):
    // the sizes are those of what the ENCODER writes for them
    for v in 0..(12 * scale) {
        let mut t = gen::tx(rng);
        if t.input.is_empty() { t.input.push(gen::txin(rng, gen::InKind::Plain, false)); }
        let i = rng.gen_range(0..t.input.len());
        let mut n = gen::txin(rng, if v % 3 == 0 { gen::InKind::Pegin } else { gen::InKind::Issuance }, v % 2 == 0);
        n.previous_output = elements::OutPoint::null();
        if v % 4 == 1 { n.is_pegin = true; }
        t.input[i] = n;
        out.count("tx.null_outpoint_with_flags");
        let k = deserialize::<Transaction>(&serialize(&t)).is_ok();
        one_tx_k(out, &t, k);
        let bk = Block { header: gen::header(rng), txdata: vec![t] };
        one_block_k(out, &bk, k);
    }
    txacc::run(rng, out);
}
