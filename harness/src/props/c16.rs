//! C16 — scripts built by the builder parse back exactly; templates and addresses agree
use crate::{gen, hex, Out, Rng, R};
use bech32::Fe32;
use elements::address::Payload;
use elements::bitcoin::hashes::Hash as BHash;
use elements::opcodes;
use elements::script::{self, Builder, Instruction, Script};
use elements::secp256k1_zkp as zkp;
use elements::{Address, AddressParams, PubkeyHash, ScriptHash, WPubkeyHash, WScriptHash};
use std::str::FromStr;

// model growth: opcode classification / names, asm and the other text forms, script-number boundaries
#[path = "c16asm.rs"]
mod asm;

// ------------------------------------------------------------------ builder operations

#[derive(Clone, Debug, PartialEq)]
enum BOp {
    Int(i64),
    ScriptInt(i64),
    Slice(Vec<u8>),
    Fill(usize, u8),
    Opcode(u8),
    Verify,
}

fn hexraw(b: &[u8]) -> String {
    let mut s = String::with_capacity(b.len() * 2);
    for x in b {
        s.push_str(&format!("{:02x}", x));
    }
    s
}

fn tok(o: &BOp) -> String {
    match o {
        BOp::Int(i) => format!("i:{}", i),
        BOp::ScriptInt(i) => format!("n:{}", i),
        BOp::Slice(d) => format!("d:{}", hex(d)),
        BOp::Fill(n, b) => format!("z:{}:{}", n, b),
        BOp::Opcode(c) => format!("o:{}", c),
        BOp::Verify => "v".to_string(),
    }
}

fn op_line(ops: &[BOp]) -> String {
    let mut s = "build".to_string();
    for o in ops {
        s.push(' ');
        s.push_str(&tok(o));
    }
    s
}

/// the real builder
fn apply(ops: &[BOp]) -> Script {
    let mut b = Builder::new();
    for o in ops {
        b = match o {
            BOp::Int(i) => b.push_int(*i),
            BOp::ScriptInt(i) => b.push_scriptint(*i),
            BOp::Slice(d) => b.push_slice(d),
            BOp::Fill(n, x) => b.push_slice(&vec![*x; *n]),
            BOp::Opcode(c) => b.push_opcode(opcodes::All::from(*c)),
            BOp::Verify => b.push_verify(),
        };
    }
    b.into_script()
}

#[derive(Clone, Debug, PartialEq)]
enum Ins {
    P(Vec<u8>),
    O(u8),
}
#[derive(Clone, Copy, Debug, PartialEq)]
enum IErr {
    Early,
    NonMin,
    Other,
}

/// the real iterator, collected
fn iterate(s: &Script, minimal: bool) -> (Vec<Ins>, Vec<IErr>, usize) {
    let it = if minimal { s.instructions_minimal() } else { s.instructions() };
    let mut items = vec![];
    let mut errs = vec![];
    let mut after_err = 0usize;
    for r in it {
        if !errs.is_empty() {
            after_err += 1;
        }
        match r {
            Ok(Instruction::PushBytes(d)) => items.push(Ins::P(d.to_vec())),
            Ok(Instruction::Op(o)) => items.push(Ins::O(o.into_u8())),
            Err(script::Error::EarlyEndOfScript) => errs.push(IErr::Early),
            Err(script::Error::NonMinimalPush) => errs.push(IErr::NonMin),
            Err(_) => errs.push(IErr::Other),
        }
    }
    (items, errs, after_err)
}

fn listing(s: &Script, minimal: bool) -> String {
    let (items, errs, _) = iterate(s, minimal);
    let mut v: Vec<String> = items
        .iter()
        .map(|i| match i {
            Ins::P(d) => format!("P{}", hexraw(d)),
            Ins::O(o) => format!("O{:02x}", o),
        })
        .collect();
    for e in errs {
        v.push(match e { IErr::Early => "Ee", IErr::NonMin => "Em", IErr::Other => "E?" }.to_string());
    }
    if v.is_empty() { "-".to_string() } else { v.join(",") }
}

// ------------------------------------------------------------------ independent oracles

/// sign-magnitude little-endian script number, written the way Bitcoin Core's CScriptNum::serialize is
fn scriptnum(i: i64) -> Vec<u8> {
    if i == 0 {
        return vec![];
    }
    let neg = i < 0;
    let mut a = i.unsigned_abs();
    let mut v = vec![];
    while a > 0 {
        v.push((a & 0xff) as u8);
        a >>= 8;
    }
    if v.last().unwrap() & 0x80 != 0 {
        v.push(if neg { 0x80 } else { 0 });
    } else if neg {
        *v.last_mut().unwrap() |= 0x80;
    }
    v
}

fn verify_form(c: u8) -> Option<u8> {
    match c {
        0x87 => Some(0x88),
        0x9c => Some(0x9d),
        0xac => Some(0xad),
        0xae => Some(0xaf),
        0xc1 => Some(0xc2),
        _ => None,
    }
}

/// the instruction sequence that "was added": pushes and opcodes in order; a verify directly after a
/// foldable opcode replaces it by its VERIFY form
fn expected(ops: &[BOp]) -> Vec<Ins> {
    let mut out = vec![];
    let mut prev: Option<u8> = None;
    for o in ops {
        match o {
            BOp::Int(i) => {
                if *i == -1 || (1..=16).contains(i) {
                    out.push(Ins::O((0x50 + *i) as u8));
                } else if *i == 0 {
                    out.push(Ins::P(vec![]));
                } else {
                    out.push(Ins::P(scriptnum(*i)));
                }
                prev = None;
            }
            BOp::ScriptInt(i) => { out.push(Ins::P(scriptnum(*i))); prev = None; }
            BOp::Slice(d) => { out.push(Ins::P(d.clone())); prev = None; }
            BOp::Fill(n, b) => { out.push(Ins::P(vec![*b; *n])); prev = None; }
            BOp::Opcode(c) => {
                out.push(if *c == 0 { Ins::P(vec![]) } else { Ins::O(*c) });
                prev = verify_form(*c);
            }
            BOp::Verify => {
                if let Some(v) = prev {
                    out.pop();
                    out.push(Ins::O(v));
                } else {
                    out.push(Ins::O(0x69));
                }
                prev = None;
            }
        }
    }
    out
}

/// the shortest push encoding of `n` bytes: (total header length, header bytes)
fn min_header(n: usize) -> Vec<u8> {
    if n <= 75 {
        vec![n as u8]
    } else if n <= 255 {
        vec![0x4c, n as u8]
    } else if n <= 65535 {
        vec![0x4d, (n & 0xff) as u8, (n >> 8) as u8]
    } else {
        vec![0x4e, (n & 0xff) as u8, ((n >> 8) & 0xff) as u8, ((n >> 16) & 0xff) as u8, ((n >> 24) & 0xff) as u8]
    }
}

fn is_small_num_push(d: &[u8]) -> bool {
    d.len() == 1 && (d[0] == 0x81 || (1..=16).contains(&d[0]))
}

fn ops_have_pushclass_opcode(ops: &[BOp]) -> bool {
    ops.iter().any(|o| matches!(o, BOp::Opcode(c) if *c >= 1 && *c <= 0x4e))
}
fn ops_have_min(ops: &[BOp]) -> bool {
    ops.iter().any(|o| matches!(o, BOp::Int(i) | BOp::ScriptInt(i) if *i == i64::MIN))
}

fn one_build(out: &mut Out, ops: &[BOp]) {
    let line = op_line(ops);
    let res = Out::guard(|| {
        let s = apply(ops);
        format!("ok {} {} {}", hex(s.as_bytes()), listing(&s, false), listing(&s, true))
    });
    out.k(line.clone(), res);
    if ops_have_min(ops) {
        out.count("build.i64min");
        return;
    }
    if ops_have_pushclass_opcode(ops) {
        out.count("build.pushclass-opcode");
        return;
    }
    out.count("build.wf");
    out.count(&format!("build.len{}", ops.len().min(12)));
    let s = apply(ops);
    let exp = expected(ops);
    // script bytes = concatenation of the minimal encodings of the expected instructions
    let mut bytes = vec![];
    for i in &exp {
        match i {
            Ins::P(d) => { bytes.extend(min_header(d.len())); bytes.extend(d); }
            Ins::O(c) => bytes.push(*c),
        }
    }
    out.s("build_bytes_minimal_encoding", s.as_bytes() == &bytes[..], || line.chars().take(400).collect());
    let (items, errs, _) = iterate(&s, false);
    out.s("instructions_build", errs.is_empty() && items == exp, || line.chars().take(400).collect());
    let (mitems, merrs, _) = iterate(&s, true);
    match exp.iter().position(|i| matches!(i, Ins::P(d) if is_small_num_push(d))) {
        None => {
            out.count("build.bip62-minimal");
            out.s("instructions_minimal_build", merrs.is_empty() && mitems == exp, || line.chars().take(400).collect());
        }
        Some(k) => {
            out.count("build.small-int-push");
            out.s("small_int_push_nonminimal", merrs == vec![IErr::NonMin] && mitems[..] == exp[..k], || line.chars().take(400).collect());
        }
    }
    if ops.iter().any(|o| *o == BOp::Verify) {
        out.count("build.has-verify");
    }
}

// ------------------------------------------------------------------ arbitrary scripts

fn one_instr(out: &mut Out, b: &[u8]) {
    let s = Script::from(b.to_vec());
    let res = Out::guard(|| format!("ok {} {}", listing(&s, false), listing(&s, true)));
    out.k(format!("instr {}", hex(b)), res);
    let (items, errs, after) = iterate(&s, false);
    let (mitems, merrs, mafter) = iterate(&s, true);
    out.s("iterator_one_error_then_stop", errs.len() <= 1 && merrs.len() <= 1 && after == 0 && mafter == 0, || hex(b));
    // minimal iteration is a prefix of plain iteration
    out.s("minimal_is_prefix", mitems.len() <= items.len() && mitems[..] == items[..mitems.len()], || hex(b));
    if errs.is_empty() { out.count("instr.ok"); } else { out.count("instr.err"); }
    if merrs.is_empty() {
        out.count("instr.minimal-ok");
        // a script that iterates minimally is exactly what the builder writes for its instructions
        let mut bld = Builder::new();
        for i in &mitems {
            bld = match i { Ins::P(d) => bld.push_slice(d), Ins::O(c) => bld.push_opcode(opcodes::All::from(*c)) };
        }
        out.s("minimal_ok_rebuild_identity", bld.into_script().as_bytes() == b, || hex(b));
    } else if merrs[0] == IErr::NonMin {
        out.count("instr.nonminimal");
    }
    // Builder::from(bytes) remembers the last opcode iff the last instruction is an opcode
    if errs.is_empty() {
        let v = Builder::from(b.to_vec()).push_verify().into_script();
        let exp_last = match items.last() { Some(Ins::O(c)) => verify_form(*c), _ => None };
        let mut e = b.to_vec();
        match exp_last { Some(vf) => { e.pop(); e.push(vf); } None => e.push(0x69) }
        out.s("builder_from_bytes_verify", v.as_bytes() == &e[..], || hex(b));
    }
}

fn one_scriptint_bytes(out: &mut Out, v: &[u8]) {
    let res = Out::guard(|| match script::read_scriptint(v) {
        Ok(i) => format!("ok {}", i),
        Err(_) => "err".to_string(),
    });
    out.k(format!("scriptint {}", hex(v)), res);
    let res = Out::guard(|| format!("ok {}", if script::read_scriptbool(v) { 1 } else { 0 }));
    out.k(format!("scriptbool {}", hex(v)), res);
    match script::read_scriptint(v) {
        Ok(i) => {
            out.count("scriptint.ok");
            out.s("read_scriptint_range", v.len() <= 4 && i.abs() < (1i64 << 31), || hex(v));
            out.s("scriptbool_is_nonzero", script::read_scriptbool(v) == (i != 0), || hex(v));
        }
        Err(e) => {
            out.count("scriptint.err");
            out.s("read_scriptint_overflow_only_gt4", v.len() > 4 && e == script::Error::NumericOverflow, || hex(v));
        }
    }
}

fn one_int(out: &mut Out, i: i64) {
    if i == i64::MIN {
        return;
    }
    let s = Builder::new().push_scriptint(i).into_script();
    let (items, errs, _) = iterate(&s, false);
    let ok_shape = errs.is_empty() && items.len() == 1 && matches!(&items[0], Ins::P(_));
    out.s("scriptint_push_shape", ok_shape, || format!("{}", i));
    if !ok_shape {
        return;
    }
    let d = match &items[0] { Ins::P(d) => d.clone(), _ => unreachable!() };
    out.s("build_scriptint_encoding", d == scriptnum(i), || format!("{} -> {}", i, hex(&d)));
    let r = script::read_scriptint(&d);
    if i.unsigned_abs() < (1u64 << 31) {
        out.count("int.in-range");
        out.s("scriptint_roundtrip", r == Ok(i), || format!("{} -> {} -> {:?}", i, hex(&d), r));
    } else {
        out.count("int.beyond-4-bytes");
        out.s("scriptint_beyond_range_overflow", r == Err(script::Error::NumericOverflow) && d.len() > 4, || format!("{} -> {}", i, hex(&d)));
    }
    // push_int: dedicated opcodes for -1, 0, 1..16, otherwise the script number
    let p = Builder::new().push_int(i).into_script();
    let exp: Vec<u8> = if i == -1 || (1..=16).contains(&i) { vec![(0x50 + i) as u8] } else if i == 0 { vec![0] } else { s.to_bytes() };
    out.s("push_int_small_opcodes", p.as_bytes() == &exp[..], || format!("{}", i));
}

// ------------------------------------------------------------------ templates and payloads

fn payload_str(p: &Payload) -> String {
    match p {
        Payload::PubkeyHash(h) => format!("pkh:{}", hex(AsRef::<[u8]>::as_ref(h))),
        Payload::ScriptHash(h) => format!("sh:{}", hex(h.as_byte_array())),
        Payload::WitnessProgram { version, program } => format!("wp:{}:{}", version.to_u8(), hex(program)),
    }
}

fn pred_bits(s: &Script) -> [bool; 10] {
    [
        s.is_p2pkh(), s.is_p2sh(), s.is_p2pk(), s.is_witness_program(), s.is_v0_p2wpkh(), s.is_v0_p2wsh(),
        s.is_v1_p2tr(), s.is_v1plus_p2witprog(), s.is_op_return(), s.is_provably_unspendable(),
    ]
}

const P: &AddressParams = &AddressParams::ELEMENTS;

fn tmpl_real(s: &Script) -> String {
    let bits: String = pred_bits(s).iter().map(|b| if *b { '1' } else { '0' }).collect();
    match Address::from_script(s, None, P) {
        None => format!("ok {} none none", bits),
        Some(a) => format!("ok {} {} {}", bits, payload_str(&a.payload), hex(a.script_pubkey().as_bytes())),
    }
}

#[derive(Clone, Debug, PartialEq)]
enum OPayload {
    Pkh(Vec<u8>),
    Sh(Vec<u8>),
    Wp(u8, Vec<u8>),
}

/// the byte patterns of the templates, written with literal bytes (the specification)
fn oracle(s: &[u8]) -> ([bool; 10], Option<OPayload>) {
    let n = s.len();
    let p2pkh = n == 25 && s[..3] == [0x76, 0xa9, 0x14] && s[23..] == [0x88, 0xac];
    let p2sh = n == 23 && s[..2] == [0xa9, 0x14] && s[22] == 0x87;
    let p2pk = (n == 67 && s[0] == 65 && s[66] == 0xac) || (n == 35 && s[0] == 33 && s[34] == 0xac);
    let vernum = |b: u8| (0x51..=0x60).contains(&b);
    let proglen_ok = n >= 2 && (2..=40).contains(&s[1]) && n == 2 + s[1] as usize;
    let witprog = proglen_ok && (s[0] == 0 || vernum(s[0]));
    let wpkh = n == 22 && s[..2] == [0x00, 0x14];
    let wsh = n == 34 && s[..2] == [0x00, 0x20];
    let p2tr = n == 34 && s[..2] == [0x51, 0x20];
    let v1plus = proglen_ok && vernum(s[0]);
    let opret = n >= 1 && s[0] == 0x6a;
    let unsp = opret || n > 10_000 || n == 0;
    let payload = if p2pkh {
        Some(OPayload::Pkh(s[3..23].to_vec()))
    } else if p2sh {
        Some(OPayload::Sh(s[2..22].to_vec()))
    } else if wpkh || wsh {
        Some(OPayload::Wp(0, s[2..].to_vec()))
    } else if v1plus {
        Some(OPayload::Wp(s[0] - 0x50, s[2..].to_vec()))
    } else {
        None
    };
    ([p2pkh, p2sh, p2pk, witprog, wpkh, wsh, p2tr, v1plus, opret, unsp], payload)
}

fn opayload_of(p: &Payload) -> OPayload {
    match p {
        Payload::PubkeyHash(h) => OPayload::Pkh(AsRef::<[u8]>::as_ref(h).to_vec()),
        Payload::ScriptHash(h) => OPayload::Sh(h.as_byte_array().to_vec()),
        Payload::WitnessProgram { version, program } => OPayload::Wp(version.to_u8(), program.clone()),
    }
}

const PRED_NAMES: [&str; 10] = [
    "is_p2pkh", "is_p2sh", "is_p2pk", "is_witness_program", "is_v0_p2wpkh", "is_v0_p2wsh", "is_v1_p2tr",
    "is_v1plus_p2witprog", "is_op_return", "is_provably_unspendable",
];

struct Keys {
    blinder: zkp::PublicKey,
}

/// the property on one script, real code against the pattern oracle; returns true iff everything held
fn check_script(out: &mut Out, keys: &Keys, b: &[u8], quiet: bool) -> bool {
    let s = Script::from(b.to_vec());
    let (obits, opl) = oracle(b);
    let rbits = pred_bits(&s);
    let mut all = true;
    for i in 0..10 {
        let ok = obits[i] == rbits[i];
        all &= ok;
        if !quiet || !ok {
            out.s(&format!("template_{}", PRED_NAMES[i]), ok, || hex(b));
        }
    }
    let a = Address::from_script(&s, None, P);
    let ok = a.as_ref().map(|a| opayload_of(&a.payload)) == opl;
    all &= ok;
    if !quiet || !ok {
        out.s("from_script_iff_template", ok, || hex(b));
    }
    // is_witness_program and from_script: agree except for version 0 with a program that is not 20/32 bytes
    let v0_odd = obits[3] && b[0] == 0 && b.len() != 22 && b.len() != 34;
    if obits[3] {
        let ok = a.is_some() != v0_odd;
        all &= ok;
        if !quiet || !ok {
            out.s("witness_program_address_unless_v0_odd_length", ok, || hex(b));
        }
    }
    if let Some(a) = a {
        out.count("tmpl.address");
        out.count(match a.payload { Payload::PubkeyHash(_) => "tmpl.address.pkh", Payload::ScriptHash(_) => "tmpl.address.sh", Payload::WitnessProgram { .. } => "tmpl.address.wp" });
        let ok = a.script_pubkey().as_bytes() == b;
        all &= ok;
        out.s("script_addr_script", ok, || hex(b));
        for params in [&AddressParams::LIQUID, &AddressParams::ELEMENTS, &AddressParams::LIQUID_TESTNET] {
            for blinder in [None, Some(keys.blinder)] {
                let a = Address::from_script(&s, blinder, params).unwrap();
                let text = a.to_string();
                let back = Address::from_str(&text);
                let ok = back.as_ref().ok() == Some(&a);
                all &= ok;
                out.s("address_text_roundtrip", ok, || format!("{} {} -> {:?}", hex(b), text, back.as_ref().map(|x| x.to_string())));
                let back2 = Address::parse_with_params(&text, params);
                let ok = back2.as_ref().ok() == Some(&a) && back2.as_ref().map(|x| x.script_pubkey().to_bytes()).ok() == Some(b.to_vec());
                all &= ok;
                out.s("address_text_roundtrip_with_params", ok, || format!("{} {}", hex(b), text));
            }
        }
    }
    all
}

fn one_tmpl(out: &mut Out, keys: &Keys, b: &[u8]) {
    let s = Script::from(b.to_vec());
    out.k(format!("tmpl {}", hex(b)), Out::guard(|| tmpl_real(&s)));
    check_script(out, keys, b, false);
}

fn mask(bits: &[bool; 10]) -> u32 {
    bits.iter().fold(0u32, |a, b| 2 * a + (*b as u32))
}

/// every byte value at `pos`: K op for the 256 results, S against the oracle for each
fn one_scan(out: &mut Out, keys: &Keys, base: &[u8], pos: usize) {
    assert!(pos < base.len());
    let res = Out::guard(|| {
        let mut r = String::from("ok ");
        let mut v = base.to_vec();
        for x in 0..=255u8 {
            v[pos] = x;
            let s = Script::from(v.clone());
            let kind = match Address::from_script(&s, None, P).map(|a| a.payload) {
                None => '0',
                Some(Payload::PubkeyHash(_)) => '1',
                Some(Payload::ScriptHash(_)) => '2',
                Some(Payload::WitnessProgram { .. }) => '3',
            };
            r.push_str(&format!("{:03x}{}", mask(&pred_bits(&s)), kind));
        }
        r
    });
    out.k(format!("tmplscan {} {}", hex(base), pos), res);
    let mut v = base.to_vec();
    let mut ok = true;
    for x in 0..=255u8 {
        v[pos] = x;
        ok &= check_script(out, keys, &v, true);
    }
    // quiet mode records failures itself; account for the evaluations here
    out.s("template_scan_all_256_values", ok, || format!("{} pos {}", hex(base), pos));
    out.count_n("S.template_scan_all_256_values.evals", 255 * 12);
    out.count("tmpl.scan");
}

fn payload_of(kind: &str, ver: u8, data: &[u8]) -> Option<Payload> {
    match kind {
        "pkh" => Some(Payload::PubkeyHash(PubkeyHash::from_byte_array(data.try_into().ok()?))),
        "sh" => Some(Payload::ScriptHash(ScriptHash::from_byte_array(data.try_into().ok()?))),
        _ => Some(Payload::WitnessProgram { version: Fe32::try_from(ver).ok()?, program: data.to_vec() }),
    }
}

fn standard(kind: &str, ver: u8, data: &[u8]) -> bool {
    match kind {
        "pkh" | "sh" => data.len() == 20,
        _ => (ver == 0 && (data.len() == 20 || data.len() == 32)) || ((1..=16).contains(&ver) && (2..=40).contains(&data.len())),
    }
}

fn one_payload(out: &mut Out, keys: &Keys, kind: &str, ver: u8, data: &[u8]) {
    let p = match payload_of(kind, ver, data) { Some(p) => p, None => return };
    let a = Address { params: P, payload: p.clone(), blinding_pubkey: None };
    let res = Out::guard(|| {
        let s = a.script_pubkey();
        let back = Address::from_script(&s, None, P);
        format!("ok {} {}", hex(s.as_bytes()), back.map(|b| payload_str(&b.payload)).unwrap_or("none".into()))
    });
    let v = if kind == "wp" { ver } else { 0 };
    out.k(format!("payloadspk {} {} {}", kind, v, hex(data)), res);
    let s = a.script_pubkey();
    let back = Address::from_script(&s, None, P);
    if standard(kind, ver, data) {
        out.count("payload.standard");
        out.s("addr_script_addr", back.as_ref().map(|b| &b.payload) == Some(&p), || format!("{} {} {}", kind, ver, hex(data)));
        check_script(out, keys, s.as_bytes(), false);
    } else {
        out.count("payload.nonstandard");
        out.s("nonstandard_payload_has_no_template", back.is_none(), || format!("{} {} {}", kind, ver, hex(data)));
    }
    // the script constructors agree with the address scripts
    let res = Out::guard(|| {
        let s = match kind {
            "pkh" => Script::new_p2pkh(&PubkeyHash::from_byte_array(data.try_into().unwrap())),
            "sh" => Script::new_p2sh(&ScriptHash::from_byte_array(data.try_into().unwrap())),
            _ => Script::new_witness_program(Fe32::try_from(ver).unwrap(), data),
        };
        format!("ok {}", hex(s.as_bytes()))
    });
    out.k(format!("newscript {} {} {}", kind, v, hex(data)), res.clone());
    if kind != "wp" || ver <= 16 {
        out.s("constructor_eq_script_pubkey", res == format!("ok {}", hex(s.as_bytes())), || format!("{} {} {}", kind, ver, hex(data)));
    } else {
        // documented assertion on the version: permitted, not obliged (counted); what must NOT happen is a script
        out.count(if res == "panic" { "new_witness_program.version_assert_fired" } else { "new_witness_program.version_assert_absent" });
    }
    if kind == "wp" && ver == 0 && data.len() == 20 {
        let w = Script::new_v0_wpkh(&WPubkeyHash::from_byte_array(data.try_into().unwrap()));
        out.s("new_v0_wpkh", w == s && w.is_v0_p2wpkh(), || hex(data));
    }
    if kind == "wp" && ver == 0 && data.len() == 32 {
        let w = Script::new_v0_wsh(&WScriptHash::from_byte_array(data.try_into().unwrap()));
        out.s("new_v0_wsh", w == s && w.is_v0_p2wsh(), || hex(data));
    }
    if kind == "wp" && ver == 1 && data.len() == 32 {
        if let Ok(x) = zkp::XOnlyPublicKey::from_slice(data) {
            let w = Script::new_v1_p2tr_tweaked(elements::schnorr::TweakedPublicKey::new(x));
            out.s("new_v1_p2tr_tweaked", w == s && w.is_v1_p2tr(), || hex(data));
        }
    }
}

fn one_readuint(out: &mut Out, d: &[u8], size: usize) {
    let res = Out::guard(|| match script::read_uint(d, size) { Ok(n) => format!("ok {}", n), Err(_) => "err".to_string() });
    out.k(format!("readuint {} {}", hex(d), size), res);
}

// ------------------------------------------------------------------ generators

fn int_edge(rng: &mut R) -> i64 {
    let sign = if rng.gen_bool(0.5) { 1i64 } else { -1 };
    match rng.gen_range(0..12) {
        0 => rng.gen_range(-1..=17),
        1 => sign * rng.gen_range(0..=0x100),
        2 => {
            let k = rng.gen_range(0..63);
            let d = rng.gen_range(-1..=1);
            sign * ((1i64 << k).wrapping_add(d)).max(0)
        }
        3 => sign * [0x7f, 0x80, 0x81, 0xff, 0x100, 0x7fff, 0x8000, 0x8001, 0xffff, 0x10000, 0x7fffff, 0x800000, 0x800001, 0xffffff, 0x1000000][rng.gen_range(0..15)],
        4 => sign * [0x7fffffffi64, 0x80000000, 0x80000001, 0xffffffff, 0x100000000, 0x7fffffffff, 0x8000000000][rng.gen_range(0..7)],
        5 => [i64::MAX, i64::MIN + 1, i64::MAX - 1, i64::MIN + 2][rng.gen_range(0..4)],
        6 => rng.gen::<i32>() as i64,
        7 => rng.gen::<i64>(),
        8 => sign * rng.gen_range(0..0x10000),
        9 => sign * rng.gen_range(0..0x1000000),
        _ => rng.gen_range(-130..=130),
    }
}

fn slice_edge(rng: &mut R, big: bool) -> BOp {
    match rng.gen_range(0..14) {
        0 => BOp::Slice(vec![]),
        1 => BOp::Slice(vec![[0u8, 1, 2, 15, 16, 17, 0x7f, 0x80, 0x81, 0x82, 0xff][rng.gen_range(0..11)]]),
        2 => BOp::Slice(vec![rng.gen()]),
        3 => { let n = rng.gen_range(2..6); BOp::Slice(gen::bytes(rng, n)) }
        4 => { let n = [74usize, 75, 76, 77][rng.gen_range(0..4)]; BOp::Slice(gen::bytes(rng, n)) }
        5 => { let n = [254usize, 255, 256, 257][rng.gen_range(0..4)]; BOp::Slice(gen::bytes(rng, n)) }
        6 if big => { let n = [65534usize, 65535, 65536, 65537][rng.gen_range(0..4)]; BOp::Fill(n, rng.gen()) }
        7 => { let n = [20usize, 32, 33, 65][rng.gen_range(0..4)]; BOp::Slice(gen::bytes(rng, n)) }
        8 => { let n = rng.gen_range(0..300); BOp::Slice(gen::bytes(rng, n)) }
        _ => { let n = rng.gen_range(0..40); BOp::Slice(gen::bytes(rng, n)) }
    }
}

const FOLDABLE: [u8; 5] = [0x87, 0x9c, 0xac, 0xae, 0xc1];

fn opcode_edge(rng: &mut R) -> u8 {
    match rng.gen_range(0..10) {
        0 | 1 | 2 => FOLDABLE[rng.gen_range(0..5)],
        3 => FOLDABLE[rng.gen_range(0..5)] + 1,
        4 => [0x69u8, 0x6a, 0x76, 0xa9, 0x4f, 0x50, 0x51, 0x60, 0x61, 0xff, 0x00][rng.gen_range(0..11)],
        5 => rng.gen_range(0x4f..=0xff),
        6 if rng.gen_bool(0.3) => rng.gen_range(0x01..=0x4e), // push-class byte through push_opcode (outside the theorem's guard)
        _ => rng.gen_range(0x4f..=0xff),
    }
}

fn gen_ops(rng: &mut R, big: bool) -> Vec<BOp> {
    let n = match rng.gen_range(0..6) { 0 => rng.gen_range(0..3), 1 => rng.gen_range(8..16), _ => rng.gen_range(1..8) };
    let mut ops = vec![];
    let mut have_big = false;
    for _ in 0..n {
        let o = match rng.gen_range(0..10) {
            0 | 1 => BOp::Int(int_edge(rng)),
            2 => BOp::ScriptInt(int_edge(rng)),
            3 | 4 => slice_edge(rng, big && !have_big),
            5 | 6 => BOp::Opcode(opcode_edge(rng)),
            _ => BOp::Verify,
        };
        if matches!(o, BOp::Fill(..)) { have_big = true; }
        ops.push(o);
    }
    ops
}

fn gen_script_bytes(rng: &mut R) -> Vec<u8> {
    match rng.gen_range(0..8) {
        0 => { let n = gen::small_len(rng); gen::bytes(rng, n) }
        1 => { // a push opcode with a payload that is too short / just right / too long
            let op = [0x01u8, 0x02, 0x4b, 0x4c, 0x4d, 0x4e][rng.gen_range(0..6)];
            let n = rng.gen_range(0..90);
            let mut v = vec![op];
            v.extend(gen::bytes(rng, n));
            v
        }
        2 => { // PUSHDATA with a chosen length field, minimal or not
            let n: usize = [0usize, 1, 75, 76, 255, 256, 300][rng.gen_range(0..7)];
            let mut v = match rng.gen_range(0..3) {
                0 if n < 256 => vec![0x4c, n as u8],
                1 => vec![0x4d, (n & 0xff) as u8, (n >> 8) as u8],
                _ => vec![0x4e, (n & 0xff) as u8, (n >> 8) as u8, 0, 0],
            };
            let have = match rng.gen_range(0..4) { 0 => n.saturating_sub(1), 1 => n + 1, _ => n };
            v.extend(gen::bytes(rng, have));
            if rng.gen_bool(0.5) { v.push(0xac); }
            v
        }
        3 => { let mut v = vec![0x01, [0u8, 1, 16, 17, 0x80, 0x81, 0x82][rng.gen_range(0..7)]]; if rng.gen_bool(0.5) { v.push(0x87); } v }
        _ => { // a built script, possibly mutated
            let ops = gen_ops(rng, false);
            if ops_have_min(&ops) { return vec![]; }
            let b = apply(&ops).to_bytes();
            if rng.gen_bool(0.6) { gen::mutate(rng, &b) } else { b }
        }
    }
}

fn resize(rng: &mut R, base: &[u8], len: usize) -> Vec<u8> {
    let mut v = base.to_vec();
    if v.len() > len {
        v.truncate(len);
    } else {
        while v.len() < len {
            v.push(rng.gen());
        }
    }
    v
}

pub fn run(rng: &mut R, out: &mut Out) {
    let thorough = out.tier_thorough;
    let scale = if thorough { 40 } else { 1 };
    let keys = Keys { blinder: gen::pubkey(rng) };

    // ---- regression corpus / hand-picked cases: builder
    let h20: Vec<u8> = (1..=20).collect();
    let h32: Vec<u8> = (1..=32).collect();
    one_build(out, &[]);
    one_build(out, &[BOp::Opcode(0x76), BOp::Opcode(0xa9), BOp::Slice(h20.clone()), BOp::Opcode(0x88), BOp::Opcode(0xac)]);
    one_build(out, &[BOp::Opcode(0x76), BOp::Opcode(0xa9), BOp::Slice(h20.clone()), BOp::Opcode(0x87), BOp::Verify, BOp::Opcode(0xac)]);
    for c in FOLDABLE {
        one_build(out, &[BOp::Opcode(c), BOp::Verify]);
        one_build(out, &[BOp::Opcode(c), BOp::Verify, BOp::Verify]);
        one_build(out, &[BOp::Opcode(c), BOp::Slice(vec![]), BOp::Verify]);
        one_build(out, &[BOp::Opcode(c), BOp::Slice(vec![c]), BOp::Verify]);
        one_build(out, &[BOp::Slice(vec![c]), BOp::Verify]);
        one_build(out, &[BOp::Slice(vec![0xaa, c]), BOp::Verify]);
        one_build(out, &[BOp::Opcode(c), BOp::Int(0), BOp::Verify]);
        one_build(out, &[BOp::Opcode(c), BOp::Int(5), BOp::Verify]);
        one_build(out, &[BOp::Opcode(c), BOp::Int(c as i64), BOp::Verify]);
        one_build(out, &[BOp::Opcode(c), BOp::ScriptInt(1), BOp::Verify]);
        one_build(out, &[BOp::Opcode(c), BOp::Opcode(c), BOp::Verify]);
        one_build(out, &[BOp::Opcode(c + 1), BOp::Verify]);
        one_build(out, &[BOp::Slice(h20.clone()), BOp::Opcode(c), BOp::Verify, BOp::Opcode(c), BOp::Verify]);
    }
    one_build(out, &[BOp::Verify]);
    one_build(out, &[BOp::Int(1), BOp::Verify]);
    one_build(out, &[BOp::Opcode(0x69), BOp::Verify]);
    for n in [0usize, 1, 2, 74, 75, 76, 77, 254, 255, 256, 257, 65534, 65535, 65536, 65537] {
        one_build(out, &[BOp::Fill(n, 0xab)]);
        one_build(out, &[BOp::Opcode(0xac), BOp::Fill(n, 0x11), BOp::Opcode(0x87), BOp::Verify]);
    }
    if thorough {
        for n in [100_000usize, 1 << 17, (1 << 18) + 3] {
            one_build(out, &[BOp::Fill(n, 0x5a), BOp::Opcode(0xae), BOp::Verify]);
        }
    }
    for b in 0..=255u8 {
        if thorough || b <= 17 || b >= 0x7e && b <= 0x83 || b == 0xff {
            one_build(out, &[BOp::Slice(vec![b])]);
        }
        if thorough || b % 7 == 0 || b >= 0x4b && b <= 0x52 {
            one_build(out, &[BOp::Opcode(b), BOp::Slice(vec![0xaa; 3])]);
        }
    }
    for i in -20..=20i64 {
        one_build(out, &[BOp::Int(i), BOp::ScriptInt(i)]);
    }
    one_build(out, &[BOp::Int(i64::MIN)]);
    one_build(out, &[BOp::ScriptInt(i64::MIN)]);
    one_build(out, &[BOp::Opcode(0xac), BOp::ScriptInt(i64::MIN)]);
    for k in 0..63u32 {
        for d in [-1i64, 0, 1] {
            for sign in [1i64, -1] {
                let i = sign * ((1i64 << k) + d);
                one_int(out, i);
                if thorough || k % 8 == 7 || k % 8 == 0 {
                    one_build(out, &[BOp::Int(i)]);
                    one_build(out, &[BOp::ScriptInt(i)]);
                }
            }
        }
    }
    one_int(out, i64::MAX);
    one_int(out, i64::MIN + 1);
    one_build(out, &[BOp::Int(i64::MAX), BOp::ScriptInt(i64::MIN + 1)]);
    for i in -300..=300i64 {
        one_int(out, i);
    }
    // push_key is push_slice of the key serialization
    for _ in 0..4 {
        let pk = elements::bitcoin::PublicKey::new(gen::pubkey(rng));
        let mut pku = pk;
        pku.compressed = false;
        for k in [pk, pku] {
            let a = Builder::new().push_opcode(opcodes::all::OP_CHECKSIG).push_key(&k).push_verify().into_script();
            let b = Builder::new().push_opcode(opcodes::all::OP_CHECKSIG).push_slice(&k.to_bytes()).push_verify().into_script();
            out.s("push_key_is_push_slice", a == b, || hex(&k.to_bytes()));
            let p = Script::new_p2pk(&k);
            out.s("new_p2pk_is_p2pk", p.is_p2pk() && oracle(p.as_bytes()).0[2], || hex(p.as_bytes()));
        }
    }

    // ---- generated builder chains
    for _ in 0..700 * scale {
        let big = rng.gen_bool(if thorough { 0.02 } else { 0.005 });
        let ops = gen_ops(rng, big);
        one_build(out, &ops);
    }
    for _ in 0..300 * scale {
        one_int(out, int_edge(rng));
    }

    // ---- arbitrary scripts through both iterators
    for b in [vec![], vec![0x4c], vec![0x4c, 0x01], vec![0x4c, 0x01, 0xaa], vec![0x4c, 0x4c], vec![0x4d, 0x01], vec![0x4d, 0x01, 0x00], vec![0x4d, 0x01, 0x00, 0xaa],
              vec![0x4d, 0xff, 0xff], vec![0x4e, 0, 0, 0], vec![0x4e, 0, 0, 0, 0], vec![0x4e, 1, 0, 0, 0, 7], vec![0x4e, 0xff, 0xff, 0xff, 0xff], vec![0x4e, 0xff, 0xff, 0xff, 0xff, 1],
              vec![0x01], vec![0x01, 0x81], vec![0x01, 0x10], vec![0x01, 0x11], vec![0x01, 0x00], vec![0x4b], vec![0x00], vec![0x00, 0x00], vec![0xff], vec![0x50], vec![0x62], vec![0xba], vec![0xc0]] {
        one_instr(out, &b);
    }
    for b in 0..=255u8 {
        one_instr(out, &[b]);
        one_instr(out, &[b, 0x01, 0x02]);
    }
    for _ in 0..500 * scale {
        let b = gen_script_bytes(rng);
        one_instr(out, &b);
    }
    {
        // long PUSHDATA2/4 payloads, exact and one short
        for n in [256usize, 65535, 65536] {
            let mut v = if n < 65536 { vec![0x4d, (n & 0xff) as u8, (n >> 8) as u8] } else { vec![0x4e, 0, 0, 1, 0] };
            v.extend(vec![0x33u8; n]);
            one_instr(out, &v);
            v.pop();
            one_instr(out, &v);
        }
        let mut v = vec![0x4e, 0x00, 0x01, 0, 0];
        v.extend(vec![0x33u8; 256]);
        one_instr(out, &v);
    }

    // ---- script numbers from bytes, read_uint
    for v in [vec![], vec![0x00], vec![0x80], vec![0x7f], vec![0xff], vec![0x00, 0x80], vec![0xff, 0xff, 0xff, 0x7f], vec![0xff, 0xff, 0xff, 0xff], vec![0, 0, 0, 0x80],
              vec![0, 0, 0, 0, 0], vec![0, 0, 0, 0x80, 0], vec![1, 0, 0, 0, 0x80], vec![0x00, 0x00], vec![0x80, 0x00], vec![0x80, 0x80]] {
        one_scriptint_bytes(out, &v);
    }
    for _ in 0..300 * scale {
        let n = rng.gen_range(0..7);
        let mut v = gen::bytes(rng, n);
        if n > 0 && rng.gen_bool(0.3) { let l = v.len(); v[l - 1] = [0x00, 0x80, 0x7f, 0xff][rng.gen_range(0..4)]; }
        if rng.gen_bool(0.2) { for x in v.iter_mut().rev().skip(1) { *x = 0; } }
        one_scriptint_bytes(out, &v);
    }
    for _ in 0..60 * scale {
        let n = rng.gen_range(0..12);
        let d = gen::bytes(rng, n);
        let size = rng.gen_range(0..=10);
        one_readuint(out, &d, size);
    }

    // ---- templates: the exact templates, near misses, exhaustive neighbourhoods
    let p2pkh: Vec<u8> = [&[0x76u8, 0xa9, 0x14][..], &h20, &[0x88, 0xac]].concat();
    let p2sh: Vec<u8> = [&[0xa9u8, 0x14][..], &h20, &[0x87]].concat();
    let wpkh: Vec<u8> = [&[0x00u8, 0x14][..], &h20].concat();
    let wsh: Vec<u8> = [&[0x00u8, 0x20][..], &h32].concat();
    let p2tr: Vec<u8> = [&[0x51u8, 0x20][..], &h32].concat();
    let mut bases: Vec<(Vec<u8>, Vec<usize>)> = vec![
        (p2pkh.clone(), vec![0, 1, 2, 3, 22, 23, 24]),
        (p2sh.clone(), vec![0, 1, 2, 21, 22]),
        (wpkh.clone(), vec![0, 1, 2, 21]),
        (wsh.clone(), vec![0, 1, 2, 33]),
        (p2tr.clone(), vec![0, 1, 2, 33]),
    ];
    for (v, n) in [(0x52u8, 2usize), (0x60, 40), (0x51, 33), (0x00, 2), (0x00, 40), (0x5a, 20)] {
        let mut s = vec![v, n as u8];
        s.extend((0..n).map(|i| i as u8));
        bases.push((s, vec![0, 1]));
    }
    for (b, _) in &bases {
        one_tmpl(out, &keys, b);
    }
    for b in [vec![], vec![0x6a], vec![0x6a, 0x01, 0x02], vec![0x00], vec![0x51], vec![0x51, 0x00], vec![0x51, 0x01, 0xaa], vec![0x60, 0x00], vec![0x00, 0x00], vec![0x00, 0x01, 0x00],
              vec![0x51, 0x02, 0xaa], vec![0x51, 0x02, 0xaa, 0xbb, 0xcc], vec![0x50, 0x02, 0xaa, 0xbb], vec![0x61, 0x02, 0xaa, 0xbb], vec![0x4f, 0x02, 0xaa, 0xbb]] {
        one_tmpl(out, &keys, &b);
    }
    {
        // 41- and 42-byte programs, PUSHDATA1-encoded program, oversized script, p2pk shapes
        for n in [41usize, 42, 75, 76] {
            for v in [0x00u8, 0x51, 0x60] {
                let s = apply(&[BOp::Opcode(v), BOp::Fill(n, 7)]).to_bytes();
                one_tmpl(out, &keys, &s);
            }
        }
        one_tmpl(out, &keys, &vec![0x51u8; 10_000]);
        one_tmpl(out, &keys, &vec![0x51u8; 10_001]);
        for n in [33usize, 65, 32, 64] {
            let mut s = vec![n as u8];
            s.extend(vec![2u8; n]);
            s.push(0xac);
            one_tmpl(out, &keys, &s);
        }
    }
    // every length 0..45 of every base, every interesting position, all 256 values there
    for (base, poss) in &bases {
        for len in 0..=45usize {
            let v = resize(rng, base, len);
            if !thorough && !(len + 3 >= base.len() && len <= base.len() + 2) && len % 9 != 0 {
                if len > 0 { one_tmpl(out, &keys, &v); }
                continue;
            }
            for &pos in poss {
                if pos < len {
                    one_scan(out, &keys, &v, pos);
                }
            }
            if len > 0 {
                // the last byte as well
                one_scan(out, &keys, &v, len - 1);
            }
        }
    }
    // the (leading opcode, push-length byte) grid at every length
    let lead_quick: [u8; 14] = [0x00, 0x01, 0x4f, 0x50, 0x51, 0x52, 0x5f, 0x60, 0x61, 0x6a, 0x76, 0xa9, 0x14, 0xff];
    for len in 2..=45usize {
        for b0 in 0..=255u8 {
            if !thorough && !(lead_quick.contains(&b0) && (len % 4 == 2 || len >= 40 || len == 22 || len == 34 || len <= 5)) {
                continue;
            }
            let mut v = gen::bytes(rng, len);
            v[0] = b0;
            one_scan(out, &keys, &v, 1);
            if thorough && (b0 <= 0x61 || b0 == 0x76 || b0 == 0xa9) {
                // with a length byte that fits, vary the leading opcode and the first program byte too
                v[1] = (len - 2) as u8;
                one_scan(out, &keys, &v, 0);
                if len > 2 { one_scan(out, &keys, &v, 2); }
            }
        }
    }
    // random and mutated scripts
    for _ in 0..300 * scale {
        let base = &bases[rng.gen_range(0..bases.len())].0;
        let mut v = base.clone();
        for _ in 0..rng.gen_range(1..3) {
            v = gen::mutate(rng, &v);
        }
        one_tmpl(out, &keys, &v);
    }
    for _ in 0..100 * scale {
        let b = gen_script_bytes(rng);
        one_tmpl(out, &keys, &b);
    }

    // ---- payload -> script -> payload
    for kind in ["pkh", "sh"] {
        for _ in 0..20 * scale {
            let d = gen::bytes(rng, 20);
            one_payload(out, &keys, kind, 0, &d);
        }
    }
    for ver in 0..32u8 {
        for n in [0usize, 1, 2, 3, 19, 20, 21, 31, 32, 33, 39, 40, 41, 42, 75, 76, 80, 255, 256] {
            if !thorough && !(ver <= 2 || ver == 16 || ver == 17 || ver == 31) && n % 5 != 0 {
                continue;
            }
            let d = gen::bytes(rng, n);
            one_payload(out, &keys, "wp", ver, &d);
        }
    }
    for _ in 0..60 * scale {
        let ver = rng.gen_range(0..32u8);
        let n = rng.gen_range(0..45);
        let d = gen::bytes(rng, n);
        one_payload(out, &keys, "wp", ver, &d);
    }
    // x-only keys for the p2tr constructor
    for _ in 0..5 * scale {
        let pk = gen::pubkey(rng);
        let (x, _) = pk.x_only_public_key();
        one_payload(out, &keys, "wp", 1, &x.serialize());
    }

    // ---- opcodes, text forms, script-number boundaries (c16asm.rs); last, so the stream above is unchanged
    asm::run(rng, out);
}
