//! C14 — merging PSETs never loses information, never panics, and is order-insensitive
use crate::props::c01;
use crate::props::psetdesc::{self as pd, Add, IdRole};
use crate::{gen, hex, Out, Rng, R};
use elements::bitcoin::bip32::{ChildNumber, DerivationPath, Fingerprint, Xpub};
use elements::confidential::{Asset, Nonce, Value};
use elements::encode::serialize;
use elements::pset::PartiallySignedTransaction as Pset;
use elements::Transaction;
use std::collections::BTreeMap;

// ------------------------------------------------------------------ xpub key sources

type Src = ([u8; 4], Vec<u32>);

/// the documented reconciliation, as a decision table (independent of the code's index arithmetic)
fn xpub_oracle(mine: &Src, theirs: &Src) -> Result<Src, ()> {
    if mine == theirs {
        return Ok(mine.clone());
    }
    let (a, b) = (&mine.1, &theirs.1);
    if b.len() < a.len() && a.ends_with(b) {
        return Ok(mine.clone());
    }
    if a.len() < b.len() && b.ends_with(a) {
        return Ok(theirs.clone());
    }
    Err(())
}

fn path_s(p: &[u32]) -> String {
    if p.is_empty() { "-".into() } else { p.iter().map(|c| c.to_string()).collect::<Vec<_>>().join(",") }
}
fn to_path(p: &[u32]) -> DerivationPath {
    p.iter().map(|c| ChildNumber::from(*c)).collect::<Vec<_>>().into()
}

fn xpub_case(out: &mut Out, key: &Xpub, mine: &Src, theirs: &Src) {
    let real = Out::guard(|| {
        let mut a = Pset::new_v2();
        let mut b = Pset::new_v2();
        a.global.xpub.insert(*key, (Fingerprint::from(mine.0), to_path(&mine.1)));
        b.global.xpub.insert(*key, (Fingerprint::from(theirs.0), to_path(&theirs.1)));
        match a.merge(b) {
            Ok(()) => {
                let (fp, path) = a.global.xpub.get(key).expect("key kept").clone();
                let p: Vec<u32> = path.into_iter().map(|c| u32::from(*c)).collect();
                format!("ok {} {}", hex(fp.as_bytes()), path_s(&p))
            }
            Err(elements::pset::Error::MergeConflict(_)) => "err".into(),
            Err(e) => format!("err-unexpected {}", pd::err_name(&e)),
        }
    });
    out.k(format!("pset.xpub {} {} {} {}", hex(&mine.0), path_s(&mine.1), hex(&theirs.0), path_s(&theirs.1)), real.clone());
    let exp = match xpub_oracle(mine, theirs) {
        Ok(s) => format!("ok {} {}", hex(&s.0), path_s(&s.1)),
        Err(()) => "err".into(),
    };
    out.s("xpub_reconcile_spec", real == exp, || format!("mine={}/{} theirs={}/{} real={} spec={}", hex(&mine.0), path_s(&mine.1), hex(&theirs.0), path_s(&theirs.1), real, exp));
    out.s("xpub_no_panic", real != "panic", || format!("mine={}/{} theirs={}/{}", hex(&mine.0), path_s(&mine.1), hex(&theirs.0), path_s(&theirs.1)));
    let class = if mine == theirs { "equal" } else if mine.1 == theirs.1 { "same_path_diff_fp" } else if mine.1.len() == theirs.1.len() { "same_len_diff" }
        else if mine.1.ends_with(&theirs.1) { "theirs_suffix" } else if theirs.1.ends_with(&mine.1) { "mine_suffix" } else { "unrelated_diff_len" };
    out.count(&format!("xpub.class.{}", class));
}

fn child(rng: &mut R) -> u32 {
    match rng.gen_range(0..4) { 0 => 0, 1 => 0x8000_0000, 2 => rng.gen_range(0..3), _ => rng.gen_range(0..3) | 0x8000_0000 }
}
fn xpubs(out: &mut Out, rng: &mut R) {
    let key = Xpub::decode(&pd::xpub_bytes(rng)).unwrap();
    let f1 = [1, 2, 3, 4];
    let f2 = [9, 9, 9, 9];
    // regression corpus: the F4 shapes first
    xpub_case(out, &key, &(f1, vec![1, 2, 3]), &(f2, vec![7, 7]));      // shorter non-suffix from other (was: usize underflow)
    xpub_case(out, &key, &(f1, vec![1, 2, 3]), &(f2, vec![1, 2, 3]));   // equal path, different fingerprint (was: overwritten)
    xpub_case(out, &key, &(f1, vec![1, 2, 3]), &(f1, vec![1, 2, 3]));
    xpub_case(out, &key, &(f1, vec![1, 2, 3]), &(f2, vec![2, 3]));
    xpub_case(out, &key, &(f1, vec![2, 3]), &(f2, vec![1, 2, 3]));
    xpub_case(out, &key, &(f1, vec![]), &(f2, vec![]));
    xpub_case(out, &key, &(f1, vec![]), &(f2, vec![5]));
    xpub_case(out, &key, &(f1, vec![5]), &(f2, vec![]));
    xpub_case(out, &key, &(f1, vec![1, 2]), &(f2, vec![2, 1]));
    xpub_case(out, &key, &(f1, vec![1, 2, 3]), &(f2, vec![1, 2]));      // prefix, not suffix
    let n = if out.tier_thorough { 6000 } else { 500 };
    for _ in 0..n {
        let key = if rng.gen_bool(0.1) { Xpub::decode(&pd::xpub_bytes(rng)).unwrap() } else { key };
        let la = rng.gen_range(0..6);
        let a: Vec<u32> = (0..la).map(|_| child(rng)).collect();
        let b: Vec<u32> = match rng.gen_range(0..7) {
            0 => a.clone(),
            1 => a[rng.gen_range(0..=a.len())..].to_vec(),
            2 => { let mut v: Vec<u32> = (0..rng.gen_range(1..3)).map(|_| child(rng)).collect(); v.extend_from_slice(&a); v }
            3 => { let mut v = a.clone(); if !v.is_empty() { let i = rng.gen_range(0..v.len()); v[i] ^= 1; } v }
            4 => a[..rng.gen_range(0..=a.len())].to_vec(),
            _ => { let l = rng.gen_range(0..6); (0..l).map(|_| child(rng)).collect() }
        };
        let fa = if rng.gen_bool(0.5) { f1 } else { f2 };
        let fb = if rng.gen_bool(0.5) { f1 } else { f2 };
        if rng.gen_bool(0.5) { xpub_case(out, &key, &(fa, a), &(fb, b)); } else { xpub_case(out, &key, &(fb, b), &(fa, a)); }
    }
    // exhaustive over paths of length <= 3 over a 2-symbol alphabet, both fingerprints
    if out.tier_thorough {
        let mut paths: Vec<Vec<u32>> = vec![vec![]];
        for l in 1..=3 { for code in 0..(1 << l) { paths.push((0..l).map(|i| if (code >> i) & 1 == 1 { 0x8000_0001 } else { 1 }).collect()); } }
        for a in &paths { for b in &paths { for fb in [f1, f2] { xpub_case(out, &key, &(f1, a.clone()), &(fb, b.clone())); } } }
    }
}

// ------------------------------------------------------------------ merge expressions on described PSETs

/// evaluate a postfix expression on the real code
fn eval_real(ops: &[Pset], expr: &str) -> Result<Pset, String> {
    let mut st: Vec<Pset> = vec![];
    for c in expr.chars() {
        if c == 'm' {
            let b = st.pop().unwrap();
            let mut a = st.pop().unwrap();
            a.merge(b).map_err(|e| pd::err_name(&e))?;
            st.push(a);
        } else {
            st.push(ops[c as usize - 48].clone());
        }
    }
    Ok(st.pop().unwrap())
}

fn uid_s(p: &Pset) -> String {
    match p.unique_id() { Ok(u) => hex(&elements::hashes::Hash::to_byte_array(u)), Err(e) => format!("err:{}", pd::err_name(&e)) }
}

fn real_mergex(ops: &[Pset], expr: &str) -> String {
    Out::guard(|| match eval_real(ops, expr) {
        Ok(m) => format!("ok {} {}", pd::dump_pset(&m), uid_s(&m)),
        Err(e) => format!("err {}", e),
    })
}

fn k_mergex(out: &mut Out, t: &Transaction, addss: &[Vec<Add>], expr: &str) -> Option<String> {
    let ops: Option<Vec<Pset>> = addss.iter().map(|a| pd::build(t, a)).collect();
    let ops = match ops { Some(o) => o, None => { out.s("harness_description_applies", false, || format!("{} {:?}", hex(&serialize(t)), addss.iter().map(|a| pd::adds_text(a)).collect::<Vec<_>>())); return None; } };
    let real = real_mergex(&ops, expr);
    let line = format!("pset.mergex {} {} {}", hex(&serialize(t)), expr, addss.iter().map(|a| pd::adds_text(a)).collect::<Vec<_>>().join(" "));
    out.k(line, real.clone());
    Some(real)
}

/// dump → { (section, field, key) ↦ value }
fn items(dump: &str) -> BTreeMap<(String, String, String), String> {
    let mut m = BTreeMap::new();
    for sec in dump.split('|') {
        let (name, body) = sec.split_once('{').unwrap();
        let body = &body[..body.len() - 1];
        for f in body.split(';') {
            if f.is_empty() { continue; }
            let (fname, val) = f.split_once('=').unwrap();
            if val.starts_with('[') {
                for kv in val[1..val.len() - 1].split(',') {
                    let (k, v) = kv.split_once(':').unwrap_or((kv, ""));
                    m.insert((name.to_string(), fname.to_string(), k.to_string()), v.to_string());
                }
            } else {
                m.insert((name.to_string(), fname.to_string(), String::new()), val.to_string());
            }
        }
    }
    m
}

/// fields whose merged value is a combination rather than one of the operands' values
fn combined(field: &str) -> bool {
    matches!(field, "tx_modifiable" | "version" | "required_time_locktime" | "required_height_locktime")
}

fn family(out: &mut Out, rng: &mut R, k_budget: &mut usize) {
    let t = loop { let t = quantifier(rng); if t.input.len() <= 3 && t.output.len() <= 3 { break t; } };
    // common ancestor: drop some finalisation fields, add a few things
    let mut base: Vec<Add> = vec![];
    for j in 0..t.input.len() {
        for f in ["sequence", "final_script_sig", "final_script_witness"] {
            if rng.gen_bool(0.6) { base.push(Add::unset(&format!("i{}", j), f)); }
        }
    }
    for _ in 0..rng.gen_range(0..4) { base.extend(one_add(rng, &t, None)); }
    let anc = match pd::build(&t, &base) { Some(p) => p, None => { out.s("harness_description_applies", false, || pd::adds_text(&base)); return; } };
    let anc_items = items(&pd::dump_pset(&anc));
    let k = rng.gen_range(2..=4usize);
    // a pool of additions; each goes to one or several descendants (identical additions)
    let mut addss: Vec<Vec<Add>> = vec![base.clone(); k];
    let mut taken: std::collections::BTreeSet<(String, String, Vec<u8>)> = Default::default();
    let npool = rng.gen_range(1..10);
    for _ in 0..npool {
        for a in one_add(rng, &t, Some(&anc_items)) {
            let key = (a.loc.clone(), a.field.clone(), if a.field == "scalars" { vec![] } else { a.key.clone() });
            if a.field != "scalars" && !taken.insert(key) { continue; }
            let mut any = false;
            for d in 0..k {
                if rng.gen_bool(0.45) { addss[d].push(a.clone()); any = true; }
            }
            if !any { let d = rng.gen_range(0..k); addss[d].push(a.clone()); }
        }
    }
    out.count(&format!("family.k{}", k));
    let nk = if *k_budget > 0 { 3 } else { 0 };
    *k_budget = k_budget.saturating_sub(nk);
    check_family(out, rng, &t, &addss, nk);
}

/// a family of descendants (each given by its additions to `from_tx(t)`): ALL merge orders and
/// bracketings on the real code give the same serialized PSET, nothing of any operand is lost
/// (whole family and every ordered pair), nothing is invented, the id is kept; `nk` sampled
/// expressions go to the correspondence stream
fn check_family(out: &mut Out, rng: &mut R, t: &Transaction, addss: &[Vec<Add>], nk: usize) {
    let k = addss.len();
    let ops: Vec<Pset> = match addss.iter().map(|a| pd::build(t, a)).collect::<Option<Vec<_>>>() { Some(o) => o, None => { out.s("harness_description_applies", false, || format!("{:?}", addss.iter().map(|a| pd::adds_text(a)).collect::<Vec<_>>())); return; } };
    // all orders, all groupings
    let exprs = expressions(k);
    let mut results: Vec<(String, Result<Vec<u8>, String>)> = vec![];
    for e in &exprs {
        let r = std::panic::catch_unwind(std::panic::AssertUnwindSafe(|| eval_real(&ops, e)));
        match r {
            Err(_) => { out.s("merge_no_panic", false, || format!("{} {} {:?}", hex(&serialize(t)), e, addss.iter().map(|a| pd::adds_text(a)).collect::<Vec<_>>())); return; }
            Ok(r) => { out.s("merge_no_panic", true, String::new); results.push((e.clone(), r.map(|p| serialize(&p)))); }
        }
    }
    let desc = |e: &str| format!("pset.mergex {} {} {}", hex(&serialize(t)), e, addss.iter().map(|a| pd::adds_text(a)).collect::<Vec<_>>().join(" "));
    let first = results[0].1.clone();
    out.s("merge_family_succeeds", first.is_ok(), || format!("{} -> {:?}", desc(&results[0].0), first.as_ref().err()));
    for (e, r) in &results[1..] {
        out.s("merge_order_insensitive", *r == first, || format!("{} differs from {}", desc(e), results[0].0));
    }
    // nothing lost, id kept
    if let Ok(m) = eval_real(&ops, &exprs[0]) {
        let mi = items(&pd::dump_pset(&m));
        for (d, op) in ops.iter().enumerate() {
            let oi = items(&pd::dump_pset(op));
            for (key, val) in &oi {
                let kept = match mi.get(key) { Some(v) => combined(&key.1) || v == val, None => false };
                out.s("merge_keeps_all", kept, || format!("{} : operand {} has {:?}={} result has {:?}", desc(&exprs[0]), d, key, val, mi.get(key)));
            }
            out.s("merge_keeps_id", uid_s(&m) == uid_s(op), || format!("{} operand {} uid {} result {}", desc(&exprs[0]), d, uid_s(op), uid_s(&m)));
        }
        // and nothing invented: every item of the result comes from some operand (or is a combined field)
        for (key, val) in &mi {
            let from = ops.iter().any(|op| items(&pd::dump_pset(op)).get(key) == Some(val));
            out.s("merge_adds_nothing", from || combined(&key.1), || format!("{} : result has {:?}={}", desc(&exprs[0]), key, val));
        }
    }
    // every ordered pair: nothing of either operand is lost, whichever side is `self`
    for i in 0..k {
        for j in 0..k {
            if i == j { continue; }
            let mut m = ops[i].clone();
            if m.merge(ops[j].clone()).is_err() { continue; }
            let mi = items(&pd::dump_pset(&m));
            for d in [i, j] {
                for (key, val) in &items(&pd::dump_pset(&ops[d])) {
                    let kept = match mi.get(key) { Some(v) => combined(&key.1) || v == val, None => false };
                    out.s("merge_keeps_all", kept, || format!("{} : operand {} has {:?}={} result has {:?}", desc(&format!("{}{}m", i, j)), d, key, val, mi.get(key)));
                }
            }
            out.s("merge_keeps_id", uid_s(&m) == uid_s(&ops[i]), || format!("{} uid {} result {}", desc(&format!("{}{}m", i, j)), uid_s(&ops[i]), uid_s(&m)));
        }
    }
    // correspondence: every expression of a small family, otherwise a sample
    if nk >= exprs.len() {
        for e in &exprs { k_mergex(out, t, addss, e); }
    } else {
        for _ in 0..nk {
            let e = &exprs[rng.gen_range(0..exprs.len())];
            k_mergex(out, t, addss, e);
        }
    }
}

/// (found missing by seeded change C14-w3m1) optional fields that are PRESENT BUT EMPTY: the ancestor
/// has neither final_script_sig nor final_script_witness; one descendant sets both to the
/// placeholder shape `Input::from_txin` produces for an unsigned input (`Some(Script::new())`,
/// `Some(vec![])`), another adds something else (a partial sig, a tap script sig, nothing), a
/// third repeats the placeholder (identical addition) or adds yet another field. Also: only one
/// of the two; empty redeem/witness scripts on inputs and outputs; empty proprietary / unknown
/// values at global, input and output level. First present wins: the result carries the empty
/// field, in every direction and grouping.
fn placeholder_families(out: &mut Out, rng: &mut R) {
    let t = loop { let t = quantifier(rng); if !t.input.is_empty() && !t.output.is_empty() && t.input.len() <= 3 && t.output.len() <= 3 { break t; } };
    let mut base: Vec<Add> = vec![];
    for j in 0..t.input.len() {
        base.push(Add::unset(&format!("i{}", j), "final_script_sig"));
        base.push(Add::unset(&format!("i{}", j), "final_script_witness"));
        if rng.gen_bool(0.5) { base.push(Add::unset(&format!("i{}", j), "sequence")); }
    }
    let empty_stack = pd::se(&Vec::<Vec<u8>>::new());
    for variant in 0..7 {
        let il = format!("i{}", rng.gen_range(0..t.input.len()));
        let ol = format!("o{}", rng.gen_range(0..t.output.len()));
        let placeholder: Vec<Add> = match variant {
            0 => vec![Add::new(&il, "final_script_sig", &[], &[]), Add::new(&il, "final_script_witness", &[], &empty_stack)],
            1 => vec![Add::new(&il, "final_script_sig", &[], &[])],
            2 => vec![Add::new(&il, "final_script_witness", &[], &empty_stack)],
            3 => vec![Add::new(&il, "redeem_script", &[], &[]), Add::new(&il, "witness_script", &[], &[])],
            4 => vec![Add::new(&ol, "redeem_script", &[], &[]), Add::new(&ol, "witness_script", &[], &[])],
            5 => vec![Add::new("g", "proprietary", &pd::prop_key_gen(rng), &[]), Add::new(&il, "proprietary", &pd::prop_key_gen(rng), &[]), Add::new(&ol, "proprietary", &pd::prop_key_gen(rng), &[])],
            _ => vec![Add::new("g", "unknown", &pd::unknown_key_gen(rng), &[]), Add::new(&il, "unknown", &pd::unknown_key_gen(rng), &[]), Add::new(&ol, "unknown", &pd::unknown_key_gen(rng), &[])],
        };
        for other in 0..3 {
            let b_add: Vec<Add> = match other {
                0 => { let (k, v) = pd::field_value(rng, 'i', "partial_sigs"); vec![Add::new(&il, "partial_sigs", &k, &v)] }
                1 => { let (k, v) = pd::field_value(rng, 'i', "tap_script_sigs"); vec![Add::new(&il, "tap_script_sigs", &k, &v)] }
                _ => vec![],
            };
            let mut a = base.clone();
            a.extend(placeholder.clone());
            let mut b = base.clone();
            b.extend(b_add.clone());
            let mut addss = vec![a.clone(), b];
            match rng.gen_range(0..3) {
                0 => {}
                1 => { addss.push(a.clone()); } // identical addition
                _ => { let mut c = base.clone(); c.push(Add::new(&il, "sighash_type", &[], &le32(1))); if rng.gen_bool(0.5) { c.extend(placeholder.clone()); } addss.push(c); }
            }
            out.count(&format!("placeholder.family.variant{}.k{}", variant, addss.len()));
            out.count("placeholder.families");
            // the placeholder items must be in every merge of the family
            let wanted: Vec<String> = placeholder.iter().map(|p| if p.key.is_empty() { format!("{}=", p.field) } else { format!("{}:", hex(&p.key)) }).collect();
            let ops: Option<Vec<Pset>> = addss.iter().map(|x| pd::build(&t, x)).collect();
            if let Some(ops) = ops {
                for e in expressions(addss.len()) {
                    let r = real_mergex(&ops, &e);
                    for w in &wanted {
                        out.s("merge_keeps_present_but_empty", r.starts_with("ok ") && r.contains(w.as_str()), || format!("pset.mergex {} {} {} : result lacks the present-but-empty item {} ({})", hex(&serialize(&t)), e, addss.iter().map(|x| pd::adds_text(x)).collect::<Vec<_>>().join(" "), w, &r[..r.len().min(50)]));
                    }
                }
            }
            let n = addss.len();
            check_family(out, rng, &t, &addss, if n == 2 { 2 } else { 4 });
        }
    }
}

/// (found missing by seeded change C14-w3m2) the same transaction with different marker bits in the raw
/// `previous_output_index`: `from_tx`/`from_txin` set bit 31 on an issuance input and bit 30 on a
/// pegin, an input built by hand (`from_prevout` + issuance fields) has neither; `unique_id`
/// masks bit 31 (the issuance is read from the fields) while bit 30 IS the pegin flag. Whenever
/// the two unique ids are equal on the real code the merge must go through in both directions,
/// keep the id and every field of both (the raw index is the receiver's); otherwise it is refused.
fn index_bits(out: &mut Out, rng: &mut R, kind: gen::InKind) {
    let mut t = gen::tx_wide(rng, 0, 1);
    if rng.gen_bool(0.4) { t.input.push(gen::txin(rng, gen::InKind::Plain, false)); }
    let j = t.input.len();
    let mut inp = gen::txin(rng, kind, true);
    if inp.previous_output.vout == (1 << 30) - 1 { inp.previous_output.vout = rng.gen_range(0..1000); } // keep clear of the IDX-3FFFFFFF class
    t.input.push(inp);
    let loc = format!("i{}", j);
    let a_pset = match pd::build(&t, &[]) { Some(p) => p, None => return };
    let raw = a_pset.inputs()[j].previous_output_index;
    for (bi, mask) in [1u32 << 31, 1 << 30, (1 << 31) | (1 << 30)].iter().enumerate() {
        let raw_b = raw ^ mask;
        let (k1, v1) = pd::field_value(rng, 'i', "partial_sigs");
        let (k2, v2) = pd::field_value(rng, 'i', "tap_script_sigs");
        let a = vec![Add::new(&loc, "partial_sigs", &k1, &v1)];
        // the hand-built shape: no finalisation placeholders, no sequence
        let mut b = vec![Add::new(&loc, "previous_output_index", &[], &le32(raw_b)), Add::new(&loc, "tap_script_sigs", &k2, &v2)];
        if rng.gen_bool(0.5) { for f in ["sequence", "final_script_sig", "final_script_witness"] { b.push(Add::unset(&loc, f)); } }
        let c = vec![Add::new(&loc, "sighash_type", &[], &le32(0x81))];
        let (pa, pb) = match (pd::build(&t, &a), pd::build(&t, &b)) { (Some(x), Some(y)) => (x, y), _ => { out.s("harness_description_applies", false, || pd::adds_text(&b)); continue; } };
        let same = matches!((pa.unique_id(), pb.unique_id()), (Ok(x), Ok(y)) if x == y);
        out.count(&format!("indexbits.{:?}.bits{}.{}", kind, ["31", "30", "31+30"][bi], if same { "same_id" } else { "different_id" }));
        out.count("indexbits.pairs");
        let addss = vec![a.clone(), b.clone(), c.clone()];
        let desc = |e: &str| format!("pset.mergex {} {} {}", hex(&serialize(&t)), e, addss.iter().map(|x| pd::adds_text(x)).collect::<Vec<_>>().join(" "));
        let strip_idx = |dump: &str| -> BTreeMap<(String, String, String), String> { let mut m = items(dump); m.retain(|k, _| k.1 != "previous_output_index"); m };
        let mut dumps: Vec<BTreeMap<(String, String, String), String>> = vec![];
        for e in ["01m", "10m", "01m2m", "012mm", "10m2m", "21m0m", "201mm", "02m1m"] {
            let r = match k_mergex(out, &t, &addss, e) { Some(r) => r, None => continue };
            out.s("merge_no_panic", r != "panic", || desc(e));
            if !same {
                // a different pegin flag is a different transaction
                out.s("merge_id_gate", r == "err UniqueIdMismatch", || format!("{} -> {}", desc(e), &r[..r.len().min(80)]));
                continue;
            }
            out.s("merge_same_id_different_index_bits_succeeds", r.starts_with("ok "), || format!("{} : operands have the same unique id {} but merge returned {}", desc(e), uid_s(&pa), &r[..r.len().min(80)]));
            if !r.starts_with("ok ") { continue; }
            out.s("merge_keeps_id", r.ends_with(&format!(" {}", uid_s(&pa))), || format!("{} : id {} -> {}", desc(e), uid_s(&pa), r.rsplit(' ').next().unwrap_or("")));
            let dump = r[3..].rsplit_once(' ').map(|x| x.0).unwrap_or("");
            let mi = items(dump);
            // the raw index is that of the receiving (left-most) operand
            let first: usize = e.chars().next().unwrap() as usize - 48;
            let recv_idx = if first == 1 { raw_b } else { raw };
            out.s("merge_raw_index_is_receivers", mi.get(&(format!("I{}", j), "previous_output_index".to_string(), String::new())) == Some(&hex(&le32(recv_idx))), || format!("{} : expected raw index {:08x}", desc(e), recv_idx));
            // every field of every operand that takes part
            for (d, x) in addss.iter().enumerate() {
                if !e.contains(char::from(b'0' + d as u8)) { continue; }
                let op = pd::build(&t, x).unwrap();
                for (key, val) in &strip_idx(&pd::dump_pset(&op)) {
                    let kept = match mi.get(key) { Some(v) => combined(&key.1) || v == val, None => false };
                    out.s("merge_keeps_all", kept, || format!("{} : operand {} has {:?}={} result has {:?}", desc(e), d, key, val, mi.get(key)));
                }
            }
            if e.len() > 3 { dumps.push(strip_idx(dump)); }
        }
        // all orders/groupings of the three agree up to the raw index
        for d in dumps.iter().skip(1) {
            out.s("merge_order_insensitive", *d == dumps[0], || format!("{} : results differ beyond the raw index", desc("(three operands)")));
        }
    }
}

fn permutations(n: usize) -> Vec<Vec<usize>> {
    if n == 1 { return vec![vec![0]]; }
    let mut r = vec![];
    for p in permutations(n - 1) {
        for i in 0..n { let mut q = p.clone(); q.insert(i, n - 1); r.push(q); }
    }
    r
}
/// all bracketings of a sequence as postfix strings
fn bracketings(seq: &[usize]) -> Vec<String> {
    if seq.len() == 1 { return vec![seq[0].to_string()]; }
    let mut r = vec![];
    for cut in 1..seq.len() {
        for l in bracketings(&seq[..cut]) { for rr in bracketings(&seq[cut..]) { r.push(format!("{}{}m", l, rr)); } }
    }
    r
}
fn expressions(k: usize) -> Vec<String> {
    let mut v = vec![];
    for p in permutations(k) { v.extend(bracketings(&p)); }
    v
}

fn quantifier(rng: &mut R) -> Transaction {
    let mut t = gen::tx(rng);
    for i in t.input.iter_mut() {
        if !i.is_pegin { i.witness.pegin_witness = vec![]; }
        if !i.has_issuance() { i.witness.amount_rangeproof = None; i.witness.inflation_keys_rangeproof = None; }
    }
    for o in t.output.iter_mut() {
        if o.asset.is_null() { o.asset = Asset::Explicit(gen::asset_id(rng)); }
        if o.value.is_null() { o.value = Value::Explicit(gen::u64_edge(rng)); }
        let ok = match o.nonce { Nonce::Null => true, Nonce::Explicit(_) => false, Nonce::Confidential(_) => o.is_partially_blinded() };
        if !ok { o.nonce = Nonce::Null; }
    }
    t
}

/// one addition of a field the unique id ignores, at a random position. With `present` (the items of
/// the ancestor) an Option field is only added where the ancestor has none (additions, not changes);
/// fields whose merge is a combination (flags, version) are always allowed.
fn one_add(rng: &mut R, t: &Transaction, present: Option<&BTreeMap<(String, String, String), String>>) -> Vec<Add> {
    for _ in 0..20 {
        let sec = match rng.gen_range(0..5) { 0 => 'g', 1 | 2 if !t.input.is_empty() => 'i', 3 | 4 if !t.output.is_empty() => 'o', _ => 'g' };
        let table = match sec { 'g' => pd::GLOBAL_FIELDS, 'i' => pd::INPUT_FIELDS, _ => pd::OUTPUT_FIELDS };
        let (name, role, is_map) = table[rng.gen_range(0..table.len())];
        if role == IdRole::Committed { continue; }
        let (loc, secname) = match sec {
            'g' => ("g".to_string(), "G".to_string()),
            'i' => { let j = rng.gen_range(0..t.input.len()); (format!("i{}", j), format!("I{}", j)) }
            _ => { let j = rng.gen_range(0..t.output.len()); (format!("o{}", j), format!("O{}", j)) }
        };
        let (k, v) = pd::field_value(rng, sec, name);
        if let Some(pres) = present {
            if !is_map && !combined(name) && pres.contains_key(&(secname.clone(), name.to_string(), String::new())) { continue; }
            if is_map && name != "scalars" && pres.contains_key(&(secname.clone(), name.to_string(), hex(&k))) { continue; }
        }
        return vec![Add::new(&loc, name, &k, &v)];
    }
    vec![]
}

/// different unique ids are refused
fn gate(out: &mut Out, rng: &mut R) {
    let t = loop { let t = quantifier(rng); if t.input.len() + t.output.len() > 0 { break t; } };
    let a = vec![];
    // a committed change in the other operand
    let mut b: Vec<Add> = vec![];
    for _ in 0..30 {
        let sec = if t.input.is_empty() { 'o' } else if t.output.is_empty() { 'i' } else if rng.gen_bool(0.5) { 'i' } else { 'o' };
        let table = if sec == 'i' { pd::INPUT_FIELDS } else { pd::OUTPUT_FIELDS };
        let (name, role, _) = table[rng.gen_range(0..table.len())];
        if role != IdRole::Committed { continue; }
        let loc = if sec == 'i' { format!("i{}", rng.gen_range(0..t.input.len())) } else { format!("o{}", rng.gen_range(0..t.output.len())) };
        let (k, v) = pd::field_value(rng, sec, name);
        b.push(Add::new(&loc, name, &k, &v));
        break;
    }
    if b.is_empty() { b.push(Add::new("g", "tx_version", &[], &[9, 0, 0, 0])); }
    let (pa, pb) = match (pd::build(&t, &a), pd::build(&t, &b)) { (Some(x), Some(y)) => (x, y), _ => return };
    let same = matches!((pa.unique_id(), pb.unique_id()), (Ok(x), Ok(y)) if x == y);
    let r = k_mergex(out, &t, &[a.clone(), b.clone()], "01m");
    let r2 = k_mergex(out, &t, &[a.clone(), b.clone()], "10m");
    if let (Some(r), Some(r2)) = (r, r2) {
        out.count(if same { "gate.same_id" } else { "gate.different_id" });
        // different ids => refused (both directions); equal => proceeds
        out.s("merge_id_gate", same == r.starts_with("ok ") && same == r2.starts_with("ok "), || format!("{} | {} -> {} / {}", hex(&serialize(&t)), pd::adds_text(&b), &r[..r.len().min(60)], &r2[..r2.len().min(60)]));
        if pa.unique_id().is_err() {
            out.pin("merge_id_gate_variant", r == format!("err {}", pd::err_name(&pa.unique_id().unwrap_err())), || format!("{} | {} -> {}", hex(&serialize(&t)), pd::adds_text(&b), &r[..r.len().min(80)]));
        } else if pb.unique_id().is_err() {
            out.pin("merge_id_gate_variant", r == format!("err {}", pd::err_name(&pb.unique_id().unwrap_err())), || format!("{} | {} -> {}", hex(&serialize(&t)), pd::adds_text(&b), &r[..r.len().min(80)]));
        } else if !same {
            out.pin("merge_id_gate_variant", r == "err UniqueIdMismatch", || format!("{} | {} -> {}", hex(&serialize(&t)), pd::adds_text(&b), &r[..r.len().min(80)]));
        }
    }
}

fn le32(x: u32) -> Vec<u8> { x.to_le_bytes().to_vec() }

/// shapes outside "same transaction, compatible additions": what merge does there (K), and the two
/// places where the real merge does not keep what the property says
fn corners(out: &mut Out, rng: &mut R) {
    let t = loop { let t = quantifier(rng); if t.input.len() >= 2 && !t.output.is_empty() { break t; } };
    const TH: u32 = 500_000_000;
    // (1) the other operand's fallback lock time when self has none (ids equal: inputs fix the lock
    //     time) is kept (regression: class F15fallback, fixed in e48a316)
    let a = vec![Add::new("i0", "required_height_locktime", &[], &le32(100)), Add::unset("g", "fallback_locktime")];
    let b = vec![Add::new("i0", "required_height_locktime", &[], &le32(100)), Add::new("g", "fallback_locktime", &[], &le32(77))];
    for e in ["01m", "10m"] {
        if let Some(r) = k_mergex(out, &t, &[a.clone(), b.clone()], e) {
            out.s("merge_keeps_all", r.contains("fallback_locktime=4d000000"), || format!("pset.mergex {} {} {} {} -> result has no fallback_locktime (one operand had 77); call site Global::merge (src/pset/map/global.rs)", hex(&serialize(&t)), e, pd::adds_text(&a), pd::adds_text(&b)));
        }
    }
    k_mergex(out, &t, &[a.clone(), b.clone()], "10m");
    // (2) per-input lock-time requirements that differ although the ids agree: the merged maxima can
    //     enable the height kind and so change the lock time = the unique id
    let a = vec![Add::new("i0", "required_time_locktime", &[], &le32(TH + 10)), Add::new("i1", "required_time_locktime", &[], &le32(TH + 20)), Add::new("i1", "required_height_locktime", &[], &le32(9))];
    let b = vec![Add::new("i0", "required_time_locktime", &[], &le32(TH + 10)), Add::new("i0", "required_height_locktime", &[], &le32(7)), Add::new("i1", "required_time_locktime", &[], &le32(TH + 20))];
    if let (Some(pa), Some(pb)) = (pd::build(&t, &a), pd::build(&t, &b)) {
        if let Some(r) = k_mergex(out, &t, &[a.clone(), b.clone()], "01m") {
            let ua = uid_s(&pa);
            let same_before = ua == uid_s(&pb);
            let kept = r.ends_with(&format!(" {}", ua));
            let detail = || format!("pset.mergex {} 01m {} {} : operands share unique id {} (lock time {}), result {} ; call site Input::merge (src/pset/map/input.rs): cmp::max on required_time/height_locktime", hex(&serialize(&t)), pd::adds_text(&a), pd::adds_text(&b), ua, TH + 20, r.rsplit(' ').next().unwrap_or(""));
            out.s("merge_corner_ids_equal", same_before, || detail());
            // the recorded class is exactly: the merge SUCCEEDS and the result carries another id; anything else
            // (an error, a panic) is not that finding
            if kept { out.s("merge_keeps_id", true, String::new); } else if r.starts_with("ok") { out.s_known("merge_keeps_id", "F16locktime", detail); } else { out.s("merge_keeps_id", false, detail); }
        }
    }
    // (3) both unique ids fail with the same error: refused with that error (regression: a482e8c; before,
    //     the gate compared the two `Err`s and let them through)
    let a = vec![Add::new("i0", "required_time_locktime", &[], &le32(TH + 1)), Add::new("i1", "required_height_locktime", &[], &le32(5)), Add::new("i0", "partial_sigs", &pd::se(&pd::btc_pubkey(rng)), &[1, 2, 3])];
    let b = vec![Add::new("i0", "required_time_locktime", &[], &le32(TH + 1)), Add::new("i1", "required_height_locktime", &[], &le32(5)), Add::new("i0", "previous_txid", &[], &[7u8; 32])];
    if let Some(r) = k_mergex(out, &t, &[a.clone(), b.clone()], "01m") {
        out.s("merge_id_gate", r == "err LocktimeConflict", || format!("two PSETs without a unique id (LocktimeConflict) and different previous_txid: {}", &r[..r.len().min(80)]));
    }
    // (4) different errors, error against ok
    let c = vec![Add::unset("o0", "asset"), Add::unset("o0", "asset_comm")];
    k_mergex(out, &t, &[a.clone(), c.clone()], "01m");
    k_mergex(out, &t, &[c.clone(), a.clone()], "01m");
    k_mergex(out, &t, &[vec![], c.clone()], "01m");
    k_mergex(out, &t, &[c.clone(), vec![]], "01m");
    // (5) conflicting values (not additions): first present wins / other's map value wins
    let pk = pd::se(&pd::btc_pubkey(rng));
    let a = vec![Add::new("i0", "partial_sigs", &pk, &[1]), Add::new("i0", "redeem_script", &[], &[0x51]), Add::new("g", "tx_modifiable", &[], &[1]), Add::new("g", "version", &[], &le32(2))];
    let b = vec![Add::new("i0", "partial_sigs", &pk, &[2]), Add::new("i0", "redeem_script", &[], &[0x52]), Add::new("g", "tx_modifiable", &[], &[6]), Add::new("g", "version", &[], &le32(3))];
    k_mergex(out, &t, &[a.clone(), b.clone()], "01m");
    k_mergex(out, &t, &[a.clone(), b.clone()], "10m");
    // (6) xpub conflicts inside a whole merge, several keys
    let x1 = pd::xpub_bytes(rng);
    let x2 = pd::xpub_bytes(rng);
    let ks = |fp: u8, p: &[u32]| { let mut v = vec![fp; 4]; for c in p { v.extend_from_slice(&c.to_le_bytes()); } v };
    let a = vec![Add::new("g", "xpub", &x1, &ks(1, &[1, 2, 3])), Add::new("g", "xpub", &x2, &ks(1, &[5]))];
    for (p1, p2) in [(vec![2u32, 3], vec![4u32, 5]), (vec![9, 9], vec![5]), (vec![0, 1, 2, 3], vec![]), (vec![1, 2, 3], vec![5])] {
        let b = vec![Add::new("g", "xpub", &x1, &ks(2, &p1)), Add::new("g", "xpub", &x2, &ks(1, &p2))];
        k_mergex(out, &t, &[a.clone(), b.clone()], "01m");
        k_mergex(out, &t, &[a.clone(), b.clone()], "10m");
    }
    // (7) scalars: union, sorted, deduplicated
    let s1 = pd::se(&gen::tweak(rng));
    let s2 = pd::se(&gen::tweak(rng));
    let s3 = pd::se(&gen::tweak(rng));
    let a = vec![Add::new("g", "scalars", &s1, &[]), Add::new("g", "scalars", &s2, &[]), Add::new("g", "scalars", &s1, &[])];
    let b = vec![Add::new("g", "scalars", &s3, &[]), Add::new("g", "scalars", &s2, &[])];
    k_mergex(out, &t, &[a.clone(), b.clone()], "01m");
    k_mergex(out, &t, &[a, b], "10m");
    // (9) regression corpus F13: sighash type, sequence, both UTXO forms, output amount/asset beside a commitment
    {
        let comm = gen::point33(rng, 8).to_vec();
        let gen_ = gen::point33(rng, 10).to_vec();
        let base = vec![Add::unset("i0", "sequence"), Add::new("o0", "amount_comm", &[], &comm), Add::new("o0", "asset_comm", &[], &gen_),
            Add::unset("o0", "amount"), Add::unset("o0", "asset")];
        let mut a = base.clone();
        a.push(Add::new("i0", "non_witness_utxo", &[], &pd::small_tx_bytes(rng)));
        let mut b = base.clone();
        b.push(Add::new("i0", "witness_utxo", &[], &serialize(&gen::txout(rng, false))));
        b.push(Add::new("i0", "sighash_type", &[], &le32(0x83)));
        b.push(Add::new("i0", "sequence", &[], &le32(0xffff_fffd)));
        b.push(Add::new("o0", "amount", &[], &5u64.to_le_bytes()));
        b.push(Add::new("o0", "asset", &[], &[3u8; 32]));
        for e in ["01m", "10m"] {
            if let Some(r) = k_mergex(out, &t, &[a.clone(), b.clone()], e) {
                for f in ["non_witness_utxo=", "witness_utxo=", "sighash_type=83000000", "sequence=fdffffff", "amount=0500000000000000", "asset=0303"] {
                    out.s("merge_keeps_all", r.contains(f), || format!("pset.mergex {} {} {} {} : result lacks {}", hex(&serialize(&t)), e, pd::adds_text(&a), pd::adds_text(&b), f));
                }
            }
        }
    }
    // (10) pairs of representations on an issuance input: one descendant adds the explicit amounts next to
    //      the commitments and sets the blinded-issuance marker (explicit-value proof data): same id
    //      (the commitment wins, the marker is not identifying), so the merge goes through and keeps all
    //      (gap found by seeded change C08-w2m2)
    for marker in [0u8, 1] {
        let comm = gen::point33(rng, 8).to_vec();
        let kcomm = gen::point33(rng, 8).to_vec();
        let base = vec![Add::new("i0", "issuance_value_comm", &[], &comm), Add::unset("i0", "issuance_value_amount"),
            Add::new("i0", "issuance_inflation_keys_comm", &[], &kcomm), Add::unset("i0", "issuance_inflation_keys"),
            Add::new("i0", "issuance_asset_entropy", &[], &[5u8; 32]), Add::unset("i0", "blinded_issuance")];
        let a = base.clone();
        let mut b = base.clone();
        b.push(Add::new("i0", "issuance_value_amount", &[], &21u64.to_le_bytes()));
        b.push(Add::new("i0", "issuance_inflation_keys", &[], &3u64.to_le_bytes()));
        b.push(Add::new("i0", "blinded_issuance", &[], &[marker]));
        b.push(Add::new("i0", "in_issuance_blind_value_proof", &[], &pd::small_rangeproof(rng)));
        if let (Some(pa), Some(pb)) = (pd::build(&t, &a), pd::build(&t, &b)) {
            out.s("merge_corner_ids_equal", uid_s(&pa) == uid_s(&pb), || format!("{} | {} | {} : {} vs {}", hex(&serialize(&t)), pd::adds_text(&a), pd::adds_text(&b), uid_s(&pa), uid_s(&pb)));
            for e in ["01m", "10m"] {
                if let Some(r) = k_mergex(out, &t, &[a.clone(), b.clone()], e) {
                    for f in ["issuance_value_amount=1500000000000000", "issuance_inflation_keys=0300000000000000", "issuance_value_comm=", "issuance_inflation_keys_comm=", "in_issuance_blind_value_proof="] {
                        out.s("merge_keeps_all", r.contains(f), || format!("pset.mergex {} {} {} {} : result lacks {} ({})", hex(&serialize(&t)), e, pd::adds_text(&a), pd::adds_text(&b), f, &r[..r.len().min(60)]));
                    }
                    out.s("merge_keeps_id", r.ends_with(&format!(" {}", uid_s(&pa))), || format!("pset.mergex {} {} {} {} : id {} -> {}", hex(&serialize(&t)), e, pd::adds_text(&a), pd::adds_text(&b), uid_s(&pa), r.rsplit(' ').next().unwrap_or("")));
                }
            }
        }
    }
    // (8) operands of different shape that still pass the gate are impossible without a collision;
    //     count mismatch on one side is an error on that side
    let a = vec![Add::new("g", "input_count", &[], &9u64.to_le_bytes())];
    k_mergex(out, &t, &[a.clone(), vec![]], "01m");
    k_mergex(out, &t, &[a.clone(), a], "01m");
}

/// the crate's own construction path: an issuance PSET built by hand (`new_v2`, `Input::from_prevout`
/// + explicit issuance amounts, `Output::new_explicit`: no marker bit) against
/// `from_tx(a.extract_tx())` (marker bit 31 set by `from_txin`) carrying a signature
fn hand_built_vs_from_tx(out: &mut Out, rng: &mut R) {
    use elements::pset::{Input, Output};
    let mut a = Pset::new_v2();
    let mut inp = Input::from_prevout(elements::OutPoint::new(elements::Txid::from_byte_array(gen::arr32(rng)), rng.gen_range(0..1000)));
    match rng.gen_range(0..3) {
        0 => inp.issuance_value_amount = Some(rng.gen_range(1..1000)),
        1 => inp.issuance_inflation_keys = Some(rng.gen_range(1..1000)),
        _ => { inp.issuance_value_amount = Some(rng.gen_range(1..1000)); inp.issuance_inflation_keys = Some(1); }
    }
    if rng.gen_bool(0.5) { inp.issuance_asset_entropy = Some(gen::arr32(rng)); }
    a.add_input(inp);
    a.add_output(Output::new_explicit(gen::script(rng), rng.gen_range(0..1000), gen::asset_id(rng), None));
    let tx = match a.extract_tx() { Ok(t) => t, Err(_) => return };
    let mut b = Pset::from_tx(tx);
    let (k, v) = pd::field_value(rng, 'i', "partial_sigs");
    pd::set_input(&mut b.inputs_mut()[0], "partial_sigs", &k, Some(&v));
    let detail = || format!("hand-built {} vs from_tx(extract_tx) {}", pd::dump_pset(&a), pd::dump_pset(&b));
    out.count("indexbits.hand_built_vs_from_tx");
    out.s("merge_corner_ids_equal", a.unique_id().is_ok() && a.unique_id().ok() == b.unique_id().ok() && a.inputs()[0].previous_output_index != b.inputs()[0].previous_output_index, detail);
    for (x, y) in [(&a, &b), (&b, &a)] {
        let mut m = x.clone();
        let r = Out::guard(|| match m.merge(y.clone()) { Ok(()) => "ok".into(), Err(e) => format!("err {}", pd::err_name(&e)) });
        out.s("merge_same_id_different_index_bits_succeeds", r == "ok", || format!("{} -> {}", detail(), r));
        if r == "ok" {
            out.s("merge_keeps_id", uid_s(&m) == uid_s(x), detail);
            out.s("merge_keeps_all", m.inputs()[0].partial_sigs.len() == 1 && m.inputs()[0].issuance_value_amount == a.inputs()[0].issuance_value_amount && m.inputs()[0].issuance_inflation_keys == a.inputs()[0].issuance_inflation_keys, detail);
        }
    }
}

pub fn run(rng: &mut R, out: &mut Out) {
    c01::cfg_line(out);
    let scale = if out.tier_thorough { 10 } else { 1 };
    xpubs(out, rng);
    for _ in 0..3 * scale { corners(out, rng); }
    for _ in 0..2 * scale { placeholder_families(out, rng); }
    for _ in 0..4 * scale { hand_built_vs_from_tx(out, rng); }
    for _ in 0..2 * scale {
        for kind in [gen::InKind::Issuance, gen::InKind::Reissuance, gen::InKind::PeginIssuance, gen::InKind::Plain, gen::InKind::Pegin] { index_bits(out, rng, kind); }
    }
    let mut k_budget = 150 * scale;
    for _ in 0..60 * scale { family(out, rng, &mut k_budget); }
    for _ in 0..40 * scale { gate(out, rng); }
}
