//! C18 — fast_merkle_root is the definitional midstate merkle tree for every leaf count
use crate::{gen, hex, Out, Rng, R};
use elements::fast_merkle_root;
use elements::hashes::{sha256, HashEngine, Hash};

/// independent oracle: SHA-256 midstate of exactly 64 bytes from the initial state
fn comb(l: &[u8; 32], r: &[u8; 32]) -> [u8; 32] {
    let mut e = sha256::Hash::engine();
    e.input(l);
    e.input(r);
    e.midstate().expect("64").to_parts().0
}

/// the definitional tree: pair adjacent, promote odd, repeat
pub fn level_root(leaves: &[[u8; 32]]) -> [u8; 32] {
    if leaves.is_empty() {
        return [0u8; 32];
    }
    let mut cur: Vec<[u8; 32]> = leaves.to_vec();
    while cur.len() > 1 {
        let mut next = Vec::with_capacity((cur.len() + 1) / 2);
        let mut i = 0;
        while i + 1 < cur.len() {
            next.push(comb(&cur[i], &cur[i + 1]));
            i += 2;
        }
        if i < cur.len() {
            next.push(cur[i]);
        }
        cur = next;
    }
    cur[0]
}

fn leaves_hex(l: &[[u8; 32]]) -> String {
    let mut v = Vec::with_capacity(l.len() * 32);
    for x in l {
        v.extend_from_slice(x);
    }
    hex(&v)
}

fn one(out: &mut Out, leaves: &[[u8; 32]], rng: &mut R, emit_k: bool) {
    let n = leaves.len();
    let real = Out::guard(|| format!("ok {}", hex(&fast_merkle_root(leaves).to_parts().0)));
    if emit_k {
        out.k(format!("fmr {} {}", n, leaves_hex(leaves)), real.clone());
    }
    let spec = format!("ok {}", hex(&level_root(leaves)));
    out.s("root_is_level_tree", real == spec, || format!("n={} leaves={} real={} spec={}", n, leaves_hex(leaves), real, spec));
    out.count(&format!("n.bucket.{}", if n == 0 { "0".into() } else if n == 1 { "1".into() } else if n.is_power_of_two() { "pow2".to_string() } else if (n + 1).is_power_of_two() { "pow2-1".into() } else if (n - 1).is_power_of_two() { "pow2+1".into() } else { "other".into() }));
    if n == 0 {
        out.s("root_empty_zero", real == format!("ok {}", hex(&[0u8; 32])), || real.clone());
    }
    if n == 1 {
        out.s("root_single_is_leaf", real == format!("ok {}", hex(&leaves[0])), || real.clone());
    }
    if n >= 1 {
        // depends on every leaf: flip one bit of one leaf
        let i = rng.gen_range(0..n);
        let mut l2 = leaves.to_vec();
        l2[i][rng.gen_range(0..32)] ^= 1 << rng.gen_range(0..8);
        let r2 = Out::guard(|| format!("ok {}", hex(&fast_merkle_root(&l2).to_parts().0)));
        out.s("root_depends_on_every_leaf", r2 != real, || format!("n={} i={} leaves={}", n, i, leaves_hex(leaves)));
    }
    if n >= 2 {
        let i = rng.gen_range(0..n);
        let mut j = rng.gen_range(0..n);
        if i == j {
            j = (j + 1) % n;
        }
        if leaves[i] != leaves[j] {
            let mut l2 = leaves.to_vec();
            l2.swap(i, j);
            let r2 = Out::guard(|| format!("ok {}", hex(&fast_merkle_root(&l2).to_parts().0)));
            out.s("root_depends_on_order", r2 != real, || format!("n={} i={} j={} leaves={}", n, i, j, leaves_hex(leaves)));
        }
    }
}

pub fn run(rng: &mut R, out: &mut Out) {
    let max_all = if out.tier_thorough { 1100 } else { 200 };
    // every count 0..max_all (all counts, not samples)
    for n in 0..=max_all {
        let leaves: Vec<[u8; 32]> = (0..n).map(|_| gen::arr32(rng)).collect();
        one(out, &leaves, rng, true);
    }
    // structured leaves: all equal, all zero, counting
    for n in [2usize, 3, 5, 8, 9, 31, 33] {
        let l = gen::arr32(rng);
        one(out, &vec![l; n], rng, true);
        one(out, &vec![[0u8; 32]; n], rng, true);
    }
    // leaves drawn from a tiny alphabet: identical siblings, identical subtrees, repeated pairs at every level
    {
        let abc: Vec<[u8; 32]> = (0..4).map(|_| gen::arr32(rng)).collect();
        let (a, b, c, d) = (abc[0], abc[1], abc[2], abc[3]);
        for l in [vec![a, a, b, b], vec![a, a, c, c], vec![a, b, a, b, c, d, c, d], vec![a, a, a, a, b, b, b, b], vec![a, b, b, a], vec![a, a, b], vec![a, b, a, b, a, b], vec![a, a, b, b, c, c, d, d, a]] {
            out.count("leaves.small_alphabet");
            one(out, &l, rng, true);
        }
        for _ in 0..(if out.tier_thorough { 600 } else { 60 }) {
            let n = rng.gen_range(2..18);
            let k = rng.gen_range(2..5);
            let l: Vec<[u8; 32]> = (0..n).map(|_| abc[rng.gen_range(0..k)]).collect();
            out.count("leaves.small_alphabet");
            one(out, &l, rng, true);
        }
    }
    // the root is a function of the leaves alone: the same list on a brand-new thread (nothing any earlier call
    // may have left behind in thread-local state) gives the definitional root
    {
        let x = gen::arr32(rng);
        let mut lists: Vec<Vec<[u8; 32]>> = vec![vec![[0u8; 32]; 2], vec![[0u8; 32]; 3], vec![[0u8; 32]; 4], vec![[0u8; 32], [0u8; 32], x], vec![x, x], vec![x; 5], vec![]];
        for _ in 0..8 {
            let n = rng.gen_range(1..12);
            lists.push((0..n).map(|_| gen::arr32(rng)).collect());
        }
        for l in lists {
            let l2 = l.clone();
            let fresh = std::thread::spawn(move || std::panic::catch_unwind(|| hex(&fast_merkle_root(&l2).to_parts().0)).map(|h| format!("ok {}", h)).unwrap_or_else(|_| "panic".into())).join().unwrap_or_else(|_| "panic".into());
            let spec = format!("ok {}", hex(&level_root(&l)));
            out.count("fresh_thread.cases");
            out.s("root_on_fresh_thread_is_level_tree", fresh == spec, || format!("first call on a new thread: n={} leaves={} real={} spec={}", l.len(), leaves_hex(&l), fresh, spec));
        }
    }
    // sampled larger counts (K kept modest in size; S only for the largest)
    let big: Vec<usize> = if out.tier_thorough {
        vec![2047, 2048, 2049, 4095, 4097, 10000, 65535, 65536, 65537, 100_001]
    } else {
        vec![1023, 1025, 4097, 65535, 65536, 65537, 131073]
    };
    for n in big {
        let leaves: Vec<[u8; 32]> = (0..n).map(|_| gen::arr32(rng)).collect();
        one(out, &leaves, rng, n <= 5000);
    }
    let extra = if out.tier_thorough { 300 } else { 30 };
    for _ in 0..extra {
        let n = rng.gen_range(0..3000);
        let leaves: Vec<[u8; 32]> = (0..n).map(|_| gen::arr32(rng)).collect();
        one(out, &leaves, rng, n <= 1500);
    }
}
