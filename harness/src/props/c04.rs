//! C04 — blinding yields a transaction that verifies and that receivers can unblind
//!
//! Real code under test: `Transaction::blind`, `TxOut::{new_not_last_confidential, new_last_confidential,
//! with_txout_secrets, unblind}`, `ValueBlindingFactor::{last, add_assign, neg}`,
//! `Transaction::verify_tx_amt_proofs`, `confidential::{Asset::new_confidential,
//! Value::new_confidential_from_assetid}`, `Script::is_provably_unspendable`, `Address::from_script`.
//! The Lean driver cannot do EC math, so K ops carry scalars and structure only.
use crate::{gen, hex, Out, Rng, SeedableRng, R};
use elements::confidential::{Asset, AssetBlindingFactor, Nonce, Value, ValueBlindingFactor};
use elements::encode::serialize;
use elements::secp256k1_zkp::{All, PublicKey, Secp256k1, SecretKey, Tweak, ZERO_TWEAK};
use elements::{
    Address, AddressParams, AssetId, AssetIssuance, BlindError, CtLocationType, LockTime, OutPoint, Script, Sequence,
    SurjectionInput, Transaction, TxIn, TxInWitness, TxOut, TxOutSecrets, TxOutWitness, Txid,
};
use std::collections::BTreeMap;

pub const N_HEX: &str = "fffffffffffffffffffffffffffffffebaaedce6af48a03bbfd25e8cd0364141";

pub fn bf_hex(b: &[u8]) -> String {
    let mut s = String::with_capacity(64);
    for x in b {
        s.push_str(&format!("{:02x}", x));
    }
    s
}
pub fn abf_hex(a: &AssetBlindingFactor) -> String {
    bf_hex(a.into_inner().as_ref())
}
pub fn vbf_hex(a: &ValueBlindingFactor) -> String {
    bf_hex(a.into_inner().as_ref())
}
pub fn join(v: &[String]) -> String {
    if v.is_empty() { "-".into() } else { v.join(",") }
}
/// `value:abf:vbf`
pub fn sec3(s: &TxOutSecrets) -> String {
    format!("{}:{}:{}", s.value, abf_hex(&s.asset_bf), vbf_hex(&s.value_bf))
}
/// `asset:value:abf:vbf`
pub fn sec4(s: &TxOutSecrets) -> String {
    format!("{}:{}:{}:{}", bf_hex(&s.asset.to_byte_array()), s.value, abf_hex(&s.asset_bf), vbf_hex(&s.value_bf))
}

/// a scalar on either side of the interesting boundaries
pub fn edge_tweak(rng: &mut R) -> Tweak {
    let mut b = [0u8; 32];
    match rng.gen_range(0..8) {
        0 => {}
        1 => b[31] = 1,
        2 => {
            // n - 1, n - 2
            let n = crate::unhex(N_HEX);
            b.copy_from_slice(&n);
            b[31] -= rng.gen_range(1..3u8);
        }
        3 => b[31] = rng.gen(),
        _ => return gen::tweak(rng),
    }
    Tweak::from_slice(&b).unwrap()
}
pub fn edge_value(rng: &mut R) -> u64 {
    match rng.gen_range(0..10) {
        0 => 0,
        1 => 1,
        2 => u64::MAX,
        3 => (1 << 52) - 1,
        4 => 1 << 52,
        5 => (1 << 63) - 1,
        6 => rng.gen_range(0..1000),
        7 => 1u64 << rng.gen_range(0..64),
        _ => rng.gen(),
    }
}
/// amounts a blinded output can carry (range proof: min value 1, 52 bits minimum, < 2^63)
pub fn out_amount(rng: &mut R) -> u64 {
    match rng.gen_range(0..12) {
        0 => 1,
        1 => 2,
        2 => (1 << 52) - 1,
        3 => 1 << 52,
        4 => (1 << 52) + 1,
        5 => (1 << 62) + rng.gen_range(0..1000),
        6 => (1 << 63) - 1,
        7 | 8 => rng.gen_range(1..100_000),
        9 => rng.gen_range(1..2_100_000_000_000_000),
        _ => rng.gen_range(1..(1u64 << 40)),
    }
}

// ------------------------------------------------------------------------------------------------
// independent oracles (no call into the code under test)

fn merkle_comb(l: &[u8; 32], r: &[u8; 32]) -> [u8; 32] {
    use elements::hashes::{sha256, Hash, HashEngine};
    let mut e = sha256::Hash::engine();
    e.input(l);
    e.input(r);
    e.midstate().expect("64 bytes").to_parts().0
}
fn leaf32(first: u8) -> [u8; 32] {
    let mut l = [0u8; 32];
    l[0] = first;
    l
}
/// (asset id, token id) of an issuance input from primitives: entropy = comb(sha256d(outpoint), contract
/// hash) for a new issuance (zero blinding nonce), the given entropy for a reissuance; asset =
/// comb(entropy, 0^32); token = comb(entropy, flag ‖ 0^31), flag 2 iff the issuance AMOUNT is a commitment
pub fn oracle_ids(inp: &TxIn) -> (AssetId, AssetId) {
    use elements::hashes::{sha256d, Hash};
    let iss = &inp.asset_issuance;
    let e = if iss.asset_blinding_nonce == ZERO_TWEAK {
        let mut pre = inp.previous_output.txid.to_byte_array().to_vec();
        pre.extend_from_slice(&inp.previous_output.vout.to_le_bytes());
        merkle_comb(&sha256d::Hash::hash(&pre).to_byte_array(), &iss.asset_entropy)
    } else {
        iss.asset_entropy
    };
    let conf = matches!(iss.amount, Value::Confidential(_));
    (AssetId::from_byte_array(merkle_comb(&e, &leaf32(0))), AssetId::from_byte_array(merkle_comb(&e, &leaf32(if conf { 2 } else { 1 }))))
}
/// `CScript::IsUnspendable` of Elements: OP_RETURN first, or longer than 10 000 bytes, or empty
pub fn oracle_unspendable(s: &Script) -> bool {
    let b = s.as_bytes();
    b.is_empty() || b[0] == 0x6a || b.len() > 10_000
}

// ------------------------------------------------------------------------------------------------
// scripts

pub fn addressable_script(rng: &mut R) -> Script {
    let v = match rng.gen_range(0..6) {
        0 => { let mut v = vec![0x00, 0x14]; v.extend(gen::bytes(rng, 20)); v }
        1 => { let mut v = vec![0x00, 0x20]; v.extend(gen::bytes(rng, 32)); v }
        2 => { let mut v = vec![0x76, 0xa9, 0x14]; v.extend(gen::bytes(rng, 20)); v.extend([0x88, 0xac]); v }
        3 => { let mut v = vec![0xa9, 0x14]; v.extend(gen::bytes(rng, 20)); v.push(0x87); v }
        4 => { let mut v = vec![0x51, 0x20]; v.extend(gen::bytes(rng, 32)); v }
        _ => { let l = rng.gen_range(2..41usize); let mut v = vec![rng.gen_range(0x51..0x61u8), l as u8]; v.extend(gen::bytes(rng, l)); v }
    };
    Script::from(v)
}
pub fn odd_script(rng: &mut R) -> Script {
    let v = match rng.gen_range(0..12) {
        0 => vec![],
        1 => vec![0x6a],
        2 => { let mut v = vec![0x6a, 0x04]; v.extend(gen::bytes(rng, 4)); v }
        3 => { let mut v = vec![0x00, 0x14]; v.extend(gen::bytes(rng, 19)); v }
        4 => { let mut v = vec![0x00, 0x20]; v.extend(gen::bytes(rng, 33)); v }
        5 => { let mut v = vec![0x76, 0xa9, 0x14]; v.extend(gen::bytes(rng, 20)); v.extend([0x88, 0xad]); v }
        6 => { let mut v = vec![0xa9, 0x14]; v.extend(gen::bytes(rng, 20)); v.push(0x88); v }
        7 => { let l = rng.gen_range(0..3usize) * 40 + 1; let mut v = vec![rng.gen_range(0x50..0x62u8), l as u8]; v.extend(gen::bytes(rng, l)); v }
        8 => vec![0x51],
        9 => { let l = rng.gen_range(2..41usize); let mut v = vec![rng.gen_range(0x51..0x61u8), l as u8]; v.extend(gen::bytes(rng, l + 1)); v }
        10 => { let mut s = addressable_script(rng).into_bytes(); let i = rng.gen_range(0..s.len().min(3)); s[i] ^= 1 << rng.gen_range(0..8); s }
        _ => gen::script(rng).into_bytes(),
    };
    Script::from(v)
}
fn tf(b: bool) -> &'static str { if b { "t" } else { "f" } }
pub fn script_case(out: &mut Out, s: &Script) {
    let res = Out::guard(|| {
        format!("ok {} {} {}", tf(s.is_provably_unspendable()), tf(Address::from_script(s, None, &AddressParams::ELEMENTS).is_some()), tf(s.is_op_return()))
    });
    out.k(format!("blind.script {}", hex(s.as_bytes())), res);
    // an address built from a script gives the script back (the blinder relies on it)
    if let Some(a) = Address::from_script(s, None, &AddressParams::ELEMENTS) {
        out.s("from_script_script_pubkey_roundtrip", a.script_pubkey() == *s, || hex(s.as_bytes()));
    }
}

// ------------------------------------------------------------------------------------------------
// scalar ops against the real `ValueBlindingFactor::last` / `+=` / `-`

pub fn rand_secret(rng: &mut R) -> TxOutSecrets {
    TxOutSecrets::new(
        AssetId::from_byte_array([0u8; 32]),
        AssetBlindingFactor::from_slice(edge_tweak(rng).as_ref()).unwrap(),
        edge_value(rng),
        ValueBlindingFactor::from_slice(edge_tweak(rng).as_ref()).unwrap(),
    )
}
pub fn real_last(secp: &Secp256k1<All>, value: u64, abf: AssetBlindingFactor, ins: &[TxOutSecrets], outs: &[TxOutSecrets]) -> String {
    Out::guard(|| {
        let i: Vec<_> = ins.iter().map(|s| s.value_blind_inputs()).collect();
        let o: Vec<_> = outs.iter().map(|s| s.value_blind_inputs()).collect();
        format!("ok {}", vbf_hex(&ValueBlindingFactor::last(secp, value, abf, &i, &o)))
    })
}
pub fn last_case(out: &mut Out, secp: &Secp256k1<All>, value: u64, abf: AssetBlindingFactor, ins: &[TxOutSecrets], outs: &[TxOutSecrets]) {
    let res = real_last(secp, value, abf, ins, outs);
    let i: Vec<String> = ins.iter().map(sec3).collect();
    let o: Vec<String> = outs.iter().map(sec3).collect();
    out.k(format!("blind.last {} {} {} {}", value, abf_hex(&abf), join(&i), join(&o)), res);
}
/// Σ_in term − Σ_out term as the real code computes it: `last(0, 0, ins, outs)`
pub fn balance_case(out: &mut Out, secp: &Secp256k1<All>, ins: &[TxOutSecrets], outs: &[TxOutSecrets]) -> String {
    let res = real_last(secp, 0, AssetBlindingFactor::zero(), ins, outs);
    let i: Vec<String> = ins.iter().map(sec3).collect();
    let o: Vec<String> = outs.iter().map(sec3).collect();
    out.k(format!("blind.balance {} {}", join(&i), join(&o)), res.clone());
    res
}
fn scalar_ops(rng: &mut R, out: &mut Out, secp: &Secp256k1<All>, n: usize) {
    for _ in 0..n {
        let ni = rng.gen_range(0..5);
        let no = rng.gen_range(0..5);
        let ins: Vec<_> = (0..ni).map(|_| rand_secret(rng)).collect();
        let outs: Vec<_> = (0..no).map(|_| rand_secret(rng)).collect();
        let v = edge_value(rng);
        let abf = AssetBlindingFactor::from_slice(edge_tweak(rng).as_ref()).unwrap();
        last_case(out, secp, v, abf, &ins, &outs);
        out.count("last.random");
        // the defining equation, checked with the real arithmetic: the computed factor closes the balance
        let vbf = ValueBlindingFactor::last(secp, v, abf, &ins.iter().map(|s| s.value_blind_inputs()).collect::<Vec<_>>(), &outs.iter().map(|s| s.value_blind_inputs()).collect::<Vec<_>>());
        let mut outs2 = outs.clone();
        outs2.push(TxOutSecrets::new(AssetId::from_byte_array([0u8; 32]), abf, v, vbf));
        let bal = balance_case(out, secp, &ins, &outs2);
        out.s("last_closes_balance", bal == format!("ok {}", "0".repeat(64)), || format!("v={} abf={} ins={:?} outs={:?}", v, abf_hex(&abf), ins.iter().map(sec3).collect::<Vec<_>>(), outs.iter().map(sec3).collect::<Vec<_>>()));
    }
    for _ in 0..n {
        let a = ValueBlindingFactor::from_slice(edge_tweak(rng).as_ref()).unwrap();
        let b = match rng.gen_range(0..4) { 0 => -a, _ => ValueBlindingFactor::from_slice(edge_tweak(rng).as_ref()).unwrap() };
        let r = Out::guard(|| { let mut x = a; x += b; format!("ok {}", vbf_hex(&x)) });
        out.k(format!("vbf.add {} {}", vbf_hex(&a), vbf_hex(&b)), r);
        let r = Out::guard(|| format!("ok {}", vbf_hex(&(-a))));
        out.k(format!("vbf.neg {}", vbf_hex(&a)), r);
        // a + (-a) = 0 on the real code
        let mut x = a;
        x += -a;
        out.s("vbf_add_neg_zero", x == ValueBlindingFactor::zero(), || vbf_hex(&a));
    }
}

// ------------------------------------------------------------------------------------------------
// transactions

#[derive(Clone)]
pub struct Base {
    /// all outputs explicit, nonces null
    pub tx: Transaction,
    pub utxos: Vec<TxOut>,
    /// openings of inputs and issuance pseudo-inputs in the order the verifier visits them
    pub spent: Vec<TxOutSecrets>,
    pub n_assets: usize,
    pub n_issuances: usize,
    pub n_conf_utxos: usize,
    /// lattice tags of what was generated (spent-output kinds, issuance kinds)
    pub tags: Vec<String>,
    /// facts about the generated pieces that must hold on the real code (name, holds)
    pub checks: Vec<(&'static str, bool)>,
}

/// count the lattice tags of a base and evaluate its construction checks
pub fn base_record(out: &mut Out, base: &Base) {
    for t in &base.tags {
        out.count(&format!("lattice.{}", t));
    }
    for (n, ok) in &base.checks {
        out.s(n, *ok, || describe(&base.tx, &base.utxos, &base.spent));
    }
}

fn plain_txin(rng: &mut R) -> TxIn {
    TxIn {
        previous_output: OutPoint::new(Txid::from_byte_array(gen::arr32(rng)), rng.gen_range(0..5)),
        is_pegin: false,
        script_sig: Script::new(),
        sequence: Sequence::MAX,
        asset_issuance: AssetIssuance::null(),
        witness: TxInWitness::empty(),
    }
}

/// split `total` into `k` parts >= 1
fn split(rng: &mut R, total: u128, k: usize) -> Vec<u64> {
    assert!(total >= k as u128 && k >= 1);
    let mut rest = total;
    let mut v = vec![];
    for i in 0..k {
        let left = (k - 1 - i) as u128;
        if left == 0 {
            assert!(rest <= u64::MAX as u128);
            v.push(rest as u64);
        } else {
            let max = (rest - left).min(u64::MAX as u128);
            // the remainder must still fit into `left` parts of at most u64::MAX
            let min = if rest > left * (u64::MAX as u128) { rest - left * (u64::MAX as u128) } else { 1 };
            let x = match rng.gen_range(0..4) { 0 => min, 1 => max, _ => rng.gen_range(min..=max) };
            v.push(x as u64);
            rest -= x;
        }
    }
    v
}

pub struct Shape {
    pub n_in: usize,
    pub n_assets: usize,
    pub issuance: bool,
    pub max_outs: usize,
    pub zero_opreturn: bool,
    /// spent outputs: 0 = all explicit, 1 = round robin over the kinds
    /// EE, CC (made by the library), CC, CE (asset blinded, amount explicit), EC (amount blinded on the
    /// unblinded generator), 2 = all CC
    pub utxo_mode: u8,
    /// every other issuance gets confidential amounts (TxIn::blind_issuances_with_bfs)
    pub conf_issuance: bool,
    /// rotates the round robins
    pub seq: usize,
}
impl Default for Shape {
    fn default() -> Shape {
        Shape { n_in: 1, n_assets: 1, issuance: false, max_outs: 2, zero_opreturn: false, utxo_mode: 1, conf_issuance: false, seq: 0 }
    }
}

/// a balanced explicit transaction over `n_assets` assets with `n_in` inputs (mix of explicit and
/// confidential spent outputs), optionally explicit issuances / reissuances, a fee output
pub fn base_tx(rng: &mut R, secp: &Secp256k1<All>, sh: &Shape) -> Base {
    let assets: Vec<AssetId> = (0..sh.n_assets).map(|_| gen::asset_id(rng)).collect();
    // every asset gets at least one input when possible
    let mut in_asset: Vec<usize> = (0..sh.n_in).map(|i| if i < sh.n_assets { i } else { rng.gen_range(0..sh.n_assets) }).collect();
    if sh.n_in < sh.n_assets {
        in_asset = (0..sh.n_in).collect();
    }
    let live_assets = sh.n_assets.min(sh.n_in);
    // outputs per asset first (amounts from the edge classes), then the inputs split the totals
    let mut outs: Vec<(AssetId, u64, bool)> = vec![]; // (asset, amount, is_fee)
    let mut totals: Vec<u128> = vec![0; live_assets];
    for a in 0..live_assets {
        let n_in_a = in_asset.iter().filter(|x| **x == a).count();
        let k = rng.gen_range(1..=sh.max_outs.max(1));
        let mut t: u128 = 0;
        for _ in 0..k {
            let amt = out_amount(rng);
            if t + amt as u128 > u64::MAX as u128 { continue; }
            t += amt as u128;
            outs.push((assets[a], amt, false));
        }
        if a == 0 && rng.gen_bool(0.8) {
            let fee = match rng.gen_range(0..4) { 0 => 1, 1 => 0, _ => rng.gen_range(1..5000) };
            if t + fee as u128 <= u64::MAX as u128 {
                t += fee as u128;
                outs.push((assets[a], fee, true));
            }
        }
        // enough to give every input of this asset at least 1
        // (the total stays <= n_in_a * u64::MAX: it is <= u64::MAX before this loop)
        while t < n_in_a as u128 {
            outs.push((assets[a], 1, false));
            t += 1;
        }
        totals[a] = t;
    }
    let mut in_vals: Vec<u64> = vec![0; sh.n_in];
    for a in 0..live_assets {
        let idx: Vec<usize> = (0..sh.n_in).filter(|i| in_asset[*i] == a).collect();
        let parts = split(rng, totals[a], idx.len());
        for (i, p) in idx.iter().zip(parts) {
            in_vals[*i] = p;
        }
    }
    let mut inputs = vec![];
    let mut utxos = vec![];
    let mut spent = vec![];
    let mut n_iss = 0;
    let mut n_conf = 0;
    let mut tags: Vec<String> = vec![];
    let mut checks: Vec<(&'static str, bool)> = vec![];
    for i in 0..sh.n_in {
        let a = assets[in_asset[i]];
        let v = in_vals[i];
        let mut inp = plain_txin(rng);
        let spk = addressable_script(rng);
        // kind of the spent output: E/C for (asset, amount)
        let mode = match sh.utxo_mode { 0 => 0, 2 => 2, _ => (sh.seq + i) % 5 };
        let (utxo, sec) = if mode == 0 {
            tags.push("utxo.EE".into());
            (TxOut { asset: Asset::Explicit(a), value: Value::Explicit(v), nonce: Nonce::Null, script_pubkey: spk, witness: TxOutWitness::default() },
             TxOutSecrets::new(a, AssetBlindingFactor::zero(), v, ValueBlindingFactor::zero()))
        } else if mode == 1 && v >= 1 && v < (1 << 63) {
            // a confidential output made by the library itself
            tags.push("utxo.CC_lib".into());
            let abf = AssetBlindingFactor::new(rng);
            let vbf = ValueBlindingFactor::new(rng);
            let sec = TxOutSecrets::new(a, abf, v, vbf);
            let rsk = gen::seckey(rng);
            let esk = gen::seckey(rng);
            let prev = SurjectionInput::Known { asset: a, asset_bf: AssetBlindingFactor::new(rng) };
            let pseed: u64 = rng.gen();
            let made = std::panic::catch_unwind(std::panic::AssertUnwindSafe(|| {
                let mut prng = R::seed_from_u64(pseed);
                TxOut::with_txout_secrets(&mut prng, secp, spk.clone(), PublicKey::from_secret_key(secp, &rsk), esk, sec, &[prev])
            }));
            n_conf += 1;
            match made {
                Ok(Ok(o)) => {
                    checks.push(("with_txout_secrets_succeeds_for_admissible_values", true));
                    checks.push(("lib_made_utxo_unblinds", matches!(o.unblind(secp, rsk), Ok(x) if x == sec)));
                    (o, sec)
                }
                _ => {
                    // the amount is in [1, 2^63): must have worked; keep going with the same opening made by hand
                    checks.push(("with_txout_secrets_succeeds_for_admissible_values", false));
                    (TxOut { asset: Asset::new_confidential(secp, a, abf), value: Value::new_confidential_from_assetid(secp, v, a, vbf, abf),
                             nonce: Nonce::Null, script_pubkey: spk, witness: TxOutWitness::default() }, sec)
                }
            }
        } else if mode == 3 {
            // asset blinded, amount explicit: the verifier commits to the amount on the blinded generator
            tags.push("utxo.CE".into());
            let abf = AssetBlindingFactor::new(rng);
            n_conf += 1;
            (TxOut { asset: Asset::new_confidential(secp, a, abf), value: Value::Explicit(v), nonce: Nonce::Null, script_pubkey: spk, witness: TxOutWitness::default() },
             TxOutSecrets::new(a, abf, v, ValueBlindingFactor::zero()))
        } else if mode == 4 {
            // amount blinded on the unblinded generator, asset explicit
            tags.push("utxo.EC".into());
            let vbf = ValueBlindingFactor::new(rng);
            n_conf += 1;
            (TxOut { asset: Asset::Explicit(a), value: Value::new_confidential_from_assetid(secp, v, a, vbf, AssetBlindingFactor::zero()),
                     nonce: Nonce::Null, script_pubkey: spk, witness: TxOutWitness::default() },
             TxOutSecrets::new(a, AssetBlindingFactor::zero(), v, vbf))
        } else {
            tags.push("utxo.CC".into());
            let abf = AssetBlindingFactor::new(rng);
            let vbf = ValueBlindingFactor::new(rng);
            n_conf += 1;
            (TxOut { asset: Asset::new_confidential(secp, a, abf), value: Value::new_confidential_from_assetid(secp, v, a, vbf, abf),
                     nonce: Nonce::Confidential(gen::pubkey(rng)), script_pubkey: spk, witness: TxOutWitness::default() },
             TxOutSecrets::new(a, abf, v, vbf))
        };
        utxos.push(utxo);
        spent.push(sec);
        if sh.issuance && rng.gen_bool(0.5) {
            n_iss += 1;
            // shapes round robin: new issuance / reissuance × asset only / token only / both
            let shape_no = (sh.seq + i + n_iss) % 6;
            let re = shape_no >= 3;
            let (has_amount, has_keys) = match shape_no % 3 { 0 => (true, false), 1 => (false, true), _ => (true, true) };
            let amount = out_amount(rng);
            let keys = rng.gen_range(1..10u64);
            inp.asset_issuance = AssetIssuance {
                asset_blinding_nonce: if re { gen::tweak(rng) } else { ZERO_TWEAK },
                asset_entropy: gen::arr32(rng),
                amount: if has_amount { Value::Explicit(amount) } else { Value::Null },
                inflation_keys: if has_keys { Value::Explicit(keys) } else { Value::Null },
            };
            // every other issuance with confidential amounts
            let conf_iss = sh.conf_issuance && (sh.seq * 7 + i * 3 + n_iss) % 4 < 2;
            let (ivbf, tvbf) = if conf_iss {
                let (x, y) = (ValueBlindingFactor::new(rng), ValueBlindingFactor::new(rng));
                if has_amount && !has_keys {
                    // made by the library
                    let (sk1, sk2) = (gen::seckey(rng), gen::seckey(rng));
                    let r = std::panic::catch_unwind(std::panic::AssertUnwindSafe(|| inp.blind_issuances_with_bfs(secp, x, y, sk1, sk2).is_ok()));
                    let ok = matches!(r, Ok(true));
                    checks.push(("blind_issuances_with_bfs_ok", ok));
                    if !ok {
                        inp.asset_issuance.amount = Value::new_confidential_from_assetid(secp, amount, oracle_ids(&inp).0, x, AssetBlindingFactor::zero());
                    }
                } else {
                    // by hand: the token id depends on the amount being a commitment, so the keys are
                    // committed on the generator of the id derived AFTER the amount is blinded
                    // (TxIn::blind_issuances_with_bfs reads the ids before: see probe.blind_issuances_token_id)
                    if has_amount {
                        inp.asset_issuance.amount = Value::new_confidential_from_assetid(secp, amount, oracle_ids(&inp).0, x, AssetBlindingFactor::zero());
                    }
                    inp.asset_issuance.inflation_keys = Value::new_confidential_from_assetid(secp, keys, oracle_ids(&inp).1, y, AssetBlindingFactor::zero());
                }
                (x, y)
            } else {
                (ValueBlindingFactor::zero(), ValueBlindingFactor::zero())
            };
            tags.push(format!("issuance.{}.{}.{}", if re { "re" } else { "new" }, if conf_iss { "conf" } else { "explicit" },
                match (has_amount, has_keys) { (true, false) => "asset_only", (false, true) => "token_only", _ => "both" }));
            // the ids the caller works with come from the independent derivation, not from the code under test
            let (aid, tid) = oracle_ids(&inp);
            let real_ids = std::panic::catch_unwind(std::panic::AssertUnwindSafe(|| inp.issuance_ids()));
            checks.push(("issuance_ids_match_independent_derivation", matches!(real_ids, Ok(p) if p == (aid, tid))));
            if conf_iss && has_amount && !has_keys {
                checks.push(("blinded_issuance_amount_is_commitment_on_unblinded_generator",
                    inp.asset_issuance.amount == Value::new_confidential_from_assetid(secp, amount, aid, ivbf, AssetBlindingFactor::zero())));
            }
            if has_amount {
                spent.push(TxOutSecrets::new(aid, AssetBlindingFactor::zero(), amount, ivbf));
                let kparts = rng.gen_range(1..=2usize).min(amount as usize);
                for p in split(rng, amount as u128, kparts) {
                    outs.push((aid, p, false));
                }
            }
            if has_keys {
                spent.push(TxOutSecrets::new(tid, AssetBlindingFactor::zero(), keys, tvbf));
                outs.push((tid, keys, false));
            }
        }
        inputs.push(inp);
    }
    // shuffle the outputs (fee anywhere)
    for i in (1..outs.len()).rev() {
        let j = rng.gen_range(0..=i);
        outs.swap(i, j);
    }
    let mut output: Vec<TxOut> = outs
        .iter()
        .map(|(a, v, fee)| TxOut {
            asset: Asset::Explicit(*a),
            value: Value::Explicit(*v),
            nonce: Nonce::Null,
            script_pubkey: if *fee { Script::new() } else { addressable_script(rng) },
            witness: TxOutWitness::default(),
        })
        .collect();
    if sh.zero_opreturn {
        let pos = rng.gen_range(0..=output.len());
        let mut d = vec![0x6a, 0x03];
        d.extend(gen::bytes(rng, 3));
        output.insert(pos, TxOut { asset: Asset::Explicit(assets[0]), value: Value::Explicit(0), nonce: Nonce::Null, script_pubkey: Script::from(d), witness: TxOutWitness::default() });
    }
    Base {
        tx: Transaction { version: 2, lock_time: LockTime::ZERO, input: inputs, output },
        utxos,
        spent,
        n_assets: live_assets,
        n_issuances: n_iss,
        n_conf_utxos: n_conf,
        tags,
        checks,
    }
}

/// outputs that can be marked: not fee-shaped, positive amount
pub fn markable(tx: &Transaction) -> Vec<usize> {
    (0..tx.output.len()).filter(|i| !tx.output[*i].script_pubkey.is_empty() && tx.output[*i].value.explicit().unwrap_or(0) > 0).collect()
}

pub struct Marked {
    pub tx: Transaction,
    pub rsk: BTreeMap<usize, SecretKey>,
}
pub fn mark(rng: &mut R, secp: &Secp256k1<All>, base: &Base, which: &[usize]) -> Marked {
    let mut tx = base.tx.clone();
    let mut rsk = BTreeMap::new();
    for i in which {
        let sk = gen::seckey(rng);
        tx.output[*i].nonce = Nonce::Confidential(PublicKey::from_secret_key(secp, &sk));
        rsk.insert(*i, sk);
    }
    Marked { tx, rsk }
}

pub fn out_desc(o: &TxOut, with_proofs: Option<(&str, &str)>) -> String {
    let a = match o.asset { Asset::Null => "n".to_string(), Asset::Explicit(id) => format!("e{}", bf_hex(&id.to_byte_array())), Asset::Confidential(_) => "c".into() };
    let v = match o.value { Value::Null => "n".to_string(), Value::Explicit(v) => format!("e{}", v), Value::Confidential(_) => "c".into() };
    let n = match o.nonce { Nonce::Null => "n", Nonce::Explicit(_) => "e", Nonce::Confidential(_) => "c" };
    match with_proofs {
        None => format!("{}:{}:{}:{}", a, v, n, hex(o.script_pubkey.as_bytes())),
        Some((rp, sp)) => format!("{}:{}:{}:{}:{}:{}", a, v, n, hex(o.script_pubkey.as_bytes()), rp, sp),
    }
}

/// the blinder's draws, replayed on a clone of its rng: per marked output (abf, vbf) — the last one
/// draws no vbf (reported as zero)
pub fn replay_draws(brng: &R, n_marked: usize) -> Vec<(AssetBlindingFactor, ValueBlindingFactor, SecretKey)> {
    let mut r = brng.clone();
    let mut v = vec![];
    for k in 0..n_marked {
        let abf = AssetBlindingFactor::new(&mut r);
        let vbf = if k + 1 < n_marked { ValueBlindingFactor::new(&mut r) } else { ValueBlindingFactor::zero() };
        let esk = SecretKey::new(&mut r);
        let mut seed = [0u8; 32];
        elements::secp256k1_zkp::rand::RngCore::fill_bytes(&mut r, &mut seed);
        v.push((abf, vbf, esk));
    }
    v
}

pub fn blind_err_name(e: &BlindError) -> &'static str {
    match e {
        BlindError::InvalidAddress => "InvalidAddress",
        BlindError::TooFewBlindingOutputs => "TooFewBlindingOutputs",
        BlindError::MustHaveAllExplicitTxOuts => "MustHaveAllExplicitTxOuts",
        BlindError::ConfidentialTxOutError(_) => "ConfidentialTxOutError",
        BlindError::NoIssuanceToBlind => "NoIssuanceToBlind",
        BlindError::ZeroValueBlindingNotAllowed => "ZeroValueBlindingNotAllowed",
        BlindError::IssuanceAmountMustBeExplicit => "IssuanceAmountMustBeExplicit",
    }
}

pub struct BlindOutcome {
    pub tx: Transaction,
    /// Ok(map) as (index, abf, vbf, esk) in key order
    pub res: Result<Vec<(usize, AssetBlindingFactor, ValueBlindingFactor, SecretKey)>, String>,
    /// openings of all outputs after a successful blind
    pub out_secrets: Vec<TxOutSecrets>,
}

/// run the real `Transaction::blind`, emit the `blind.select` op, return the outcome
pub fn run_blind(rng: &mut R, out: &mut Out, secp: &Secp256k1<All>, unblinded: &Transaction, spent: &[TxOutSecrets]) -> BlindOutcome {
    let mut tx = unblinded.clone();
    let mut brng = R::seed_from_u64(rng.gen());
    let n_marked = tx.output.iter().filter(|o| !o.is_fee() && o.nonce.is_confidential()).count();
    let draws = replay_draws(&brng, n_marked);
    let r = std::panic::catch_unwind(std::panic::AssertUnwindSafe(|| tx.blind(&mut brng, secp, spent, false)));
    let res: Result<Vec<_>, String> = match r {
        Err(_) => Err("panic".to_string()),
        Ok(Err(e)) => Err(format!("err {}", blind_err_name(&e))),
        Ok(Ok(m)) => Ok(m.iter().map(|(k, (a, v, e))| {
            assert!(k.ty == CtLocationType::Input);
            (k.input_index, *a, *v, *e)
        }).collect()),
    };
    let real = match &res {
        Ok(items) => {
            let l: Vec<String> = items.iter().map(|(i, a, v, _)| format!("{}:{}:{}", i, abf_hex(a), vbf_hex(v))).collect();
            let kinds: String = tx.output.iter().map(|o| match o.value { Value::Confidential(_) => 'c', Value::Explicit(_) => 'e', Value::Null => 'n' }).collect();
            format!("ok {} {}", join(&l), kinds)
        }
        Err(e) => e.clone(),
    };
    let sp: Vec<String> = spent.iter().map(sec4).collect();
    let od: Vec<String> = unblinded.output.iter().map(|o| out_desc(o, None)).collect();
    let rd: Vec<String> = draws.iter().map(|(a, v, _)| format!("{}:{}", abf_hex(a), vbf_hex(v))).collect();
    out.k(format!("blind.select {} {} {}", join(&sp), join(&od), join(&rd)), real);
    let mut out_secrets = vec![];
    if let Ok(items) = &res {
        // the replay of the rng is faithful: all but the last reported pairs are the draws
        let faithful = items.len() == draws.len()
            && items.iter().zip(draws.iter()).enumerate().all(|(k, ((_, a, v, e), (da, dv, de)))| a == da && e == de && (k + 1 == items.len() || v == dv));
        out.s("rng_replay_faithful", faithful, || format!("tx {}", hex(&serialize(unblinded))));
        let m: BTreeMap<usize, (AssetBlindingFactor, ValueBlindingFactor)> = items.iter().map(|(i, a, v, _)| (*i, (*a, *v))).collect();
        for (i, o) in unblinded.output.iter().enumerate() {
            let (a, v) = (o.asset.explicit().unwrap(), o.value.explicit().unwrap());
            out_secrets.push(match m.get(&i) {
                Some((abf, vbf)) => TxOutSecrets::new(a, *abf, v, *vbf),
                None => TxOutSecrets::new(a, AssetBlindingFactor::zero(), v, ValueBlindingFactor::zero()),
            });
        }
    }
    BlindOutcome { tx, res, out_secrets }
}

/// the real `Transaction::blind` without any record; Some(blinded tx) on success
pub fn run_blind_quiet(rng: &mut R, secp: &Secp256k1<All>, unblinded: &Transaction, spent: &[TxOutSecrets]) -> Option<Transaction> {
    let mut tx = unblinded.clone();
    let mut brng = R::seed_from_u64(rng.gen());
    let r = std::panic::catch_unwind(std::panic::AssertUnwindSafe(|| tx.blind(&mut brng, secp, spent, false)));
    match r { Ok(Ok(_)) => Some(tx), _ => None }
}

pub fn describe(unblinded: &Transaction, utxos: &[TxOut], spent: &[TxOutSecrets]) -> String {
    format!(
        "tx {} utxos [{}] spent [{}]",
        hex(&serialize(unblinded)),
        utxos.iter().map(|u| hex(&serialize(u))).collect::<Vec<_>>().join(","),
        spent.iter().map(sec4).collect::<Vec<_>>().join(",")
    )
}

/// the C04 statement on one marked transaction
/// what `c04_case` saw: the blinded transaction if it verified, and whether every marked output
/// unblinded with its receiver key to the reported secrets
pub struct CaseResult {
    pub blinded: Option<Transaction>,
    pub verified: bool,
    pub all_unblind: bool,
}

pub fn c04_case(rng: &mut R, out: &mut Out, secp: &Secp256k1<All>, base: &Base, which: &[usize]) -> CaseResult {
    let mut all_unblind = true;
    let mut m = mark(rng, secp, base, which);
    // a blinding key on the fee output must change nothing: fee outputs are never blinded
    if rng.gen_bool(0.3) {
        for o in m.tx.output.iter_mut() {
            if o.is_fee() {
                o.nonce = Nonce::Confidential(gen::pubkey(rng));
                out.count("blind.fee_with_nonce");
            }
        }
    }
    let oc = run_blind(rng, out, secp, &m.tx, &base.spent);
    let det = || format!("marked {:?} {}", which, describe(&m.tx, &base.utxos, &base.spent));
    let in_range = which.iter().all(|i| { let v = m.tx.output[*i].value.explicit().unwrap(); v >= 1 && v < (1 << 63) });
    match &oc.res {
        Err(e) => {
            if e.starts_with("err ConfidentialTxOutError") && in_range && base.spent.len() > 3 {
                // `SurjectionProof::new` looks at <= 3 inputs in 100 random tries: may fail by chance
                out.count("blind.surjection_creation_failed");
            } else if !in_range {
                out.count("blind.out_of_range_err");
                out.s("out_of_range_is_error_not_panic", e.starts_with("err"), &det);
            } else {
                out.s("blind_succeeds", false, || format!("{} -> {}", det(), e));
            }
            CaseResult { blinded: None, verified: false, all_unblind: false }
        }
        Ok(items) => {
            out.count("blind.ok");
            out.count(&format!("blind.marked.{}", which.len().min(5)));
            out.s("blind_succeeds", true, &det);
            let keys: Vec<usize> = items.iter().map(|x| x.0).collect();
            out.s("map_keys_are_marked_outputs", keys == which, &det);
            // balance of the scalars, by the real arithmetic
            let bal = balance_case(out, secp, &base.spent, &oc.out_secrets);
            out.s("blinded_scalars_balance", bal == format!("ok {}", "0".repeat(64)), &det);
            // the last vbf is `ValueBlindingFactor::last` of the others
            let (li, labf, lvbf, _) = items[items.len() - 1];
            let others: Vec<TxOutSecrets> = oc.out_secrets.iter().enumerate().filter(|(i, _)| *i != li).map(|(_, s)| *s).collect();
            let lv = m.tx.output[li].value.explicit().unwrap();
            let i3: Vec<String> = base.spent.iter().map(sec3).collect();
            let o3: Vec<String> = others.iter().map(sec3).collect();
            out.k(format!("blind.last {} {} {} {}", lv, abf_hex(&labf), join(&i3), join(&o3)), format!("ok {}", vbf_hex(&lvbf)));
            // verification
            let vr = std::panic::catch_unwind(std::panic::AssertUnwindSafe(|| oc.tx.verify_tx_amt_proofs(secp, &base.utxos)));
            out.s("blinded_tx_verifies", matches!(vr, Ok(Ok(()))), || format!("{} -> {:?}", det(), vr.as_ref().map(|r| r.as_ref().map_err(|e| e.to_string())).map_err(|_| "panic")));
            for (i, o) in oc.tx.output.iter().enumerate() {
                let orig = &m.tx.output[i];
                match items.iter().find(|x| x.0 == i) {
                    None => out.s("unmarked_output_untouched", o == orig, &det),
                    Some((_, abf, vbf, esk)) => {
                        let (a, v) = (orig.asset.explicit().unwrap(), orig.value.explicit().unwrap());
                        out.s("script_kept", o.script_pubkey == orig.script_pubkey, &det);
                        out.s("nonce_is_ephemeral_pubkey", o.nonce == Nonce::Confidential(PublicKey::from_secret_key(secp, esk)), &det);
                        out.s("asset_commitment_reproduced", o.asset == Asset::new_confidential(secp, a, *abf), &det);
                        out.s("value_commitment_reproduced", o.value == Value::new_confidential_from_assetid(secp, v, a, *vbf, *abf), &det);
                        out.s("proofs_present", o.witness.rangeproof.is_some() && o.witness.surjection_proof.is_some(), &det);
                        let ub = std::panic::catch_unwind(std::panic::AssertUnwindSafe(|| o.unblind(secp, m.rsk[&i])));
                        let good = match &ub { Ok(Ok(s)) => *s == TxOutSecrets::new(a, *abf, v, *vbf), _ => false };
                        all_unblind &= good;
                        out.s("unblind_returns_reported_secrets", good, || format!("output {} {}", i, det()));
                        // a different key does not unblind to the same secrets
                        let wrong = gen::seckey(rng);
                        let ub2 = std::panic::catch_unwind(std::panic::AssertUnwindSafe(|| o.unblind(secp, wrong)));
                        out.s("wrong_key_does_not_unblind", !matches!(&ub2, Ok(Ok(s)) if *s == TxOutSecrets::new(a, *abf, v, *vbf)), &det);
                    }
                }
            }
            let verified = matches!(vr, Ok(Ok(())));
            CaseResult { blinded: Some(oc.tx), verified, all_unblind }
        }
    }
}

// ------------------------------------------------------------------------------------------------
// the surjection domain is a LIST: duplicates of every kind and position

#[derive(Clone, Copy)]
enum DupIn {
    /// an ordinary explicit spent output of the reissued asset X
    X,
    /// an explicit spent output of another asset B
    B,
    /// spends B and reissues X (non-zero blinding nonce, the entropy of X, explicit amount)
    BReissueX,
    /// spends an explicit X output and reissues X itself
    XReissueX,
    /// an explicit spent output of the reissuance TOKEN of the new issuance made by `BNewWithKeys`
    Token,
    /// spends B and makes a new issuance with inflation keys
    BNewWithKeys,
}

/// build the explicit transaction of one duplicate-domain shape; the ids come from `oracle_ids`
fn dup_base(rng: &mut R, shape: &[DupIn]) -> Base {
    let entropy = gen::arr32(rng);
    let b = gen::asset_id(rng);
    // X = the asset a reissuance with this entropy reissues
    let x = {
        let mut probe = plain_txin(rng);
        probe.asset_issuance = AssetIssuance { asset_blinding_nonce: gen::tweak(rng), asset_entropy: entropy, amount: Value::Explicit(1), inflation_keys: Value::Null };
        oracle_ids(&probe).0
    };
    // the inputs that issue are made first (the token id of a new issuance depends on its outpoint)
    let mut inputs: Vec<TxIn> = shape.iter().map(|_| plain_txin(rng)).collect();
    let mut token = None;
    let mut checks: Vec<(&'static str, bool)> = vec![];
    for (i, k) in shape.iter().enumerate() {
        match k {
            DupIn::BReissueX | DupIn::XReissueX => {
                inputs[i].asset_issuance = AssetIssuance { asset_blinding_nonce: gen::tweak(rng), asset_entropy: entropy, amount: Value::Explicit(out_amount(rng).min(1 << 40)), inflation_keys: Value::Null };
            }
            DupIn::BNewWithKeys => {
                inputs[i].asset_issuance = AssetIssuance { asset_blinding_nonce: ZERO_TWEAK, asset_entropy: gen::arr32(rng), amount: Value::Explicit(rng.gen_range(1..1_000_000)), inflation_keys: Value::Explicit(rng.gen_range(1..10)) };
                token = Some(oracle_ids(&inputs[i]).1);
            }
            _ => {}
        }
    }
    let mut utxos = vec![];
    let mut spent = vec![];
    let zero = (AssetBlindingFactor::zero(), ValueBlindingFactor::zero());
    for (i, k) in shape.iter().enumerate() {
        let a = match k { DupIn::X | DupIn::XReissueX => x, DupIn::Token => token.expect("shape has a new issuance"), _ => b };
        let v = match rng.gen_range(0..4) { 0 => 1, 1 => rng.gen_range(1..1000), _ => rng.gen_range(1..(1u64 << 40)) };
        utxos.push(TxOut { asset: Asset::Explicit(a), value: Value::Explicit(v), nonce: Nonce::Null, script_pubkey: addressable_script(rng), witness: TxOutWitness::default() });
        spent.push(TxOutSecrets::new(a, zero.0, v, zero.1));
        if inputs[i].has_issuance() {
            let (aid, tid) = oracle_ids(&inputs[i]);
            let real_ids = std::panic::catch_unwind(std::panic::AssertUnwindSafe(|| inputs[i].issuance_ids()));
            checks.push(("issuance_ids_match_independent_derivation", matches!(real_ids, Ok(p) if p == (aid, tid))));
            if matches!(k, DupIn::BReissueX | DupIn::XReissueX) {
                checks.push(("reissuance_reissues_the_asset_of_its_entropy", aid == x));
            }
            if let Value::Explicit(am) = inputs[i].asset_issuance.amount { spent.push(TxOutSecrets::new(aid, zero.0, am, zero.1)); }
            if let Value::Explicit(kk) = inputs[i].asset_issuance.inflation_keys { spent.push(TxOutSecrets::new(tid, zero.0, kk, zero.1)); }
        }
    }
    // outputs: every asset's total split into 1-2 outputs, a fee from the first asset that can pay one
    let mut totals: Vec<(AssetId, u128)> = vec![];
    for s_ in &spent {
        match totals.iter_mut().find(|t| t.0 == s_.asset) { Some(t) => t.1 += s_.value as u128, None => totals.push((s_.asset, s_.value as u128)) }
    }
    let mut outs: Vec<(AssetId, u64, bool)> = vec![];
    let mut fee_done = false;
    for (a, t) in totals {
        let mut t = t;
        if !fee_done && t >= 2 {
            let fee = rng.gen_range(1..=(t - 1).min(500)) as u64;
            outs.push((a, fee, true));
            t -= fee as u128;
            fee_done = true;
        }
        let k = if t >= 2 && rng.gen_bool(0.6) { 2 } else { 1 };
        for p in split(rng, t, k) { outs.push((a, p, false)); }
    }
    for i in (1..outs.len()).rev() { let j = rng.gen_range(0..=i); outs.swap(i, j); }
    let output: Vec<TxOut> = outs.iter().map(|(a, v, fee)| TxOut {
        asset: Asset::Explicit(*a), value: Value::Explicit(*v), nonce: Nonce::Null,
        script_pubkey: if *fee { Script::new() } else { addressable_script(rng) }, witness: TxOutWitness::default(),
    }).collect();
    Base { tx: Transaction { version: 2, lock_time: LockTime::ZERO, input: inputs, output }, utxos, spent, n_assets: 2, n_issuances: 1, n_conf_utxos: 0, tags: vec![], checks }
}

/// C04 on transactions whose surjection domain has the same generator more than once
fn domain_duplicates(rng: &mut R, out: &mut Out, secp: &Secp256k1<All>, rounds: usize) {
    use DupIn::*;
    let shapes: Vec<(&str, Vec<DupIn>)> = vec![
        ("two_explicit_inputs_adjacent", vec![X, X]),
        ("two_explicit_inputs_apart", vec![X, B, X]),
        ("three_explicit_inputs", vec![X, X, X]),
        ("explicit_before_reissuance", vec![X, BReissueX]),
        ("explicit_after_reissuance", vec![BReissueX, X]),
        ("explicit_before_and_after_reissuance", vec![X, BReissueX, X]),
        ("explicit_two_before_reissuance", vec![X, B, X, BReissueX]),
        ("two_reissuances", vec![BReissueX, BReissueX]),
        ("explicit_before_two_reissuances", vec![X, BReissueX, BReissueX]),
        ("two_reissuances_around_explicit", vec![BReissueX, X, BReissueX]),
        ("reissuing_input_spends_the_asset", vec![XReissueX]),
        ("reissuing_input_spends_the_asset_then_explicit", vec![XReissueX, X]),
        ("explicit_then_reissuing_input_spends_the_asset", vec![X, XReissueX]),
        ("token_input_before_new_issuance_with_keys", vec![Token, BNewWithKeys]),
        ("token_input_after_new_issuance_with_keys", vec![BNewWithKeys, Token]),
        ("token_inputs_around_new_issuance_with_keys", vec![Token, BNewWithKeys, Token]),
    ];
    for round in 0..rounds {
        for (name, shape) in &shapes {
            let base = dup_base(rng, shape);
            base_record(out, &base);
            let mk = markable(&base.tx);
            if mk.is_empty() { out.count("dup_domain.nothing_markable"); continue; }
            // all outputs blinded / some explicit (a single one; a random proper subset)
            let mut variants: Vec<(&str, Vec<usize>)> = vec![("all_blinded", mk.clone())];
            if mk.len() > 1 {
                let one = mk[(round + name.len()) % mk.len()];
                variants.push(("one_blinded", vec![one]));
                let sub: Vec<usize> = mk.iter().copied().filter(|i| (*i != one && rng.gen_bool(0.7)) || (*i == one && rng.gen_bool(0.4))).collect();
                if !sub.is_empty() && sub.len() < mk.len() { variants.push(("some_explicit", sub)); }
            }
            for (vn, which) in variants {
                out.count(&format!("dup_domain.{}.{}", name, vn));
                let r = c04_case(rng, out, secp, &base, &which);
                let det = || format!("shape {} marked {:?} {}", name, which, describe(&base.tx, &base.utxos, &base.spent));
                out.s("dup_domain_blind_succeeds", r.blinded.is_some(), &det);
                if let Some(tx) = &r.blinded {
                    out.s("dup_domain_blinded_tx_verifies", r.verified, &det);
                    out.s("dup_domain_receiver_unblinds", r.all_unblind, &det);
                    // the verdict with the primitives evaluated by the harness on ITS reading of the domain (a
                    // list, duplicates kept, ids from the independent derivation) against the model
                    let v = super::c05::decide_case(out, secp, tx, &base.utxos);
                    out.count(&format!("dup_domain.verdict.{}", v.split(' ').take(2).collect::<Vec<_>>().join("_")));
                }
            }
        }
    }
}

// ------------------------------------------------------------------------------------------------
// partially blinded outputs: the whole (asset, amount) lattice, built with the library's own pieces

/// kind of an output: asset Explicit/Confidential × amount Explicit/Confidential/Zero (explicit 0
/// on an OP_RETURN script)
#[derive(Clone, Copy, PartialEq, Eq, Debug)]
pub enum OutKind { EE, CC, EC, CE, CZ, EZ }
impl OutKind {
    pub fn name(self) -> &'static str {
        match self { OutKind::EE => "EE", OutKind::CC => "CC", OutKind::EC => "EC", OutKind::CE => "CE", OutKind::CZ => "CZ", OutKind::EZ => "EZ" }
    }
}

pub struct Lattice {
    pub tx: Transaction,
    pub kinds: Vec<OutKind>,
    pub out_secrets: Vec<TxOutSecrets>,
    /// receiver keys of the fully blinded outputs
    pub rsk: BTreeMap<usize, SecretKey>,
    /// index of the output whose value blinding factor was solved with `ValueBlindingFactor::last`
    pub solver: usize,
}

fn op_return_script(rng: &mut R) -> Script {
    let mut d = vec![0x6a, 0x03];
    d.extend(gen::bytes(rng, 3));
    Script::from(d)
}

/// an output with a confidential asset and the explicit amount `v` (0: on an OP_RETURN script), with
/// the surjection proof `Asset::blind` makes for it
pub fn asset_blinded_output(rng: &mut R, secp: &Secp256k1<All>, a: AssetId, v: u64, spk: Script, spent: &[TxOutSecrets]) -> Option<(TxOut, TxOutSecrets)> {
    let abf = AssetBlindingFactor::new(rng);
    let mut prng = R::seed_from_u64(rng.gen());
    let (asset, sp) = Asset::Explicit(a).blind(&mut prng, secp, abf, spent).ok()?;
    Some((
        TxOut { asset, value: Value::Explicit(v), nonce: Nonce::Null, script_pubkey: spk, witness: TxOutWitness { surjection_proof: Some(Box::new(sp)), rangeproof: None } },
        TxOutSecrets::new(a, abf, v, ValueBlindingFactor::zero()),
    ))
}

/// an output with an explicit asset and the amount committed on the unblinded generator, with the
/// range proof `Value::blind_with_shared_secret` makes for it
pub fn amount_blinded_output(rng: &mut R, secp: &Secp256k1<All>, a: AssetId, v: u64, vbf: ValueBlindingFactor, spk: Script) -> Option<(TxOut, TxOutSecrets)> {
    let msg = elements::RangeProofMessage::new(a, AssetBlindingFactor::zero());
    let (value, rp) = Value::Explicit(v).blind_with_shared_secret(secp, vbf, gen::seckey(rng), &spk, &msg).ok()?;
    Some((
        TxOut { asset: Asset::Explicit(a), value, nonce: Nonce::Null, script_pubkey: spk, witness: TxOutWitness { surjection_proof: None, rangeproof: Some(Box::new(rp)) } },
        TxOutSecrets::new(a, AssetBlindingFactor::zero(), v, vbf),
    ))
}

/// the outputs of `base` re-made over the lattice of kinds (round robin from `seq`), one amount
/// blinding factor solved with the real `ValueBlindingFactor::last`, plus a zero-value OP_RETURN output
/// with a blinded asset.  Emits the `blind.last` op for the solved factor.
pub fn lattice_tx(rng: &mut R, out: &mut Out, secp: &Secp256k1<All>, base: &Base, seq: usize) -> Option<Lattice> {
    let n = base.tx.output.len();
    let rr = [OutKind::EC, OutKind::CE, OutKind::CC, OutKind::EE];
    let mut kinds: Vec<OutKind> = vec![];
    let mut k = seq;
    for o in &base.tx.output {
        let v = o.value.explicit().unwrap();
        if o.script_pubkey.is_empty() { kinds.push(OutKind::EE); }
        else if v == 0 { kinds.push(OutKind::EZ); }
        else { kinds.push(rr[k % 4]); k += 1; }
    }
    // one output carries the solved value blinding factor: the last CC / EC one (made if there is none)
    let solver = match (0..n).rev().find(|i| matches!(kinds[*i], OutKind::CC | OutKind::EC)) {
        Some(i) => i,
        None => {
            let i = (0..n).find(|i| matches!(kinds[*i], OutKind::CE | OutKind::EE) && !base.tx.output[*i].script_pubkey.is_empty())?;
            kinds[i] = if seq % 2 == 0 { OutKind::EC } else { OutKind::CC };
            i
        }
    };
    let mut secrets: Vec<Option<TxOutSecrets>> = vec![None; n];
    let mut outs: Vec<Option<TxOut>> = vec![None; n];
    let mut rsk = BTreeMap::new();
    for i in 0..n {
        if i == solver { continue; }
        let o = &base.tx.output[i];
        let (a, v) = (o.asset.explicit().unwrap(), o.value.explicit().unwrap());
        let (no, sec) = match kinds[i] {
            OutKind::EE | OutKind::EZ => (o.clone(), TxOutSecrets::new(a, AssetBlindingFactor::zero(), v, ValueBlindingFactor::zero())),
            OutKind::CE | OutKind::CZ => asset_blinded_output(rng, secp, a, v, o.script_pubkey.clone(), &base.spent)?,
            OutKind::EC => { let vbf = ValueBlindingFactor::new(rng); amount_blinded_output(rng, secp, a, v, vbf, o.script_pubkey.clone())? }
            OutKind::CC => {
                let sec = TxOutSecrets::new(a, AssetBlindingFactor::new(rng), v, ValueBlindingFactor::new(rng));
                let sk = gen::seckey(rng);
                let mut prng = R::seed_from_u64(rng.gen());
                let no = TxOut::with_txout_secrets(&mut prng, secp, o.script_pubkey.clone(), PublicKey::from_secret_key(secp, &sk), gen::seckey(rng), sec, &base.spent).ok()?;
                rsk.insert(i, sk);
                (no, sec)
            }
        };
        outs[i] = Some(no);
        secrets[i] = Some(sec);
    }
    // the solved one
    {
        let o = &base.tx.output[solver];
        let (a, v) = (o.asset.explicit().unwrap(), o.value.explicit().unwrap());
        let abf = if kinds[solver] == OutKind::CC { AssetBlindingFactor::new(rng) } else { AssetBlindingFactor::zero() };
        let others: Vec<TxOutSecrets> = secrets.iter().flatten().copied().collect();
        let vbf = ValueBlindingFactor::last(secp, v, abf, &base.spent.iter().map(|s| s.value_blind_inputs()).collect::<Vec<_>>(), &others.iter().map(|s| s.value_blind_inputs()).collect::<Vec<_>>());
        last_case(out, secp, v, abf, &base.spent, &others);
        let sec = TxOutSecrets::new(a, abf, v, vbf);
        let no = if kinds[solver] == OutKind::CC {
            let sk = gen::seckey(rng);
            let mut prng = R::seed_from_u64(rng.gen());
            let no = TxOut::with_txout_secrets(&mut prng, secp, o.script_pubkey.clone(), PublicKey::from_secret_key(secp, &sk), gen::seckey(rng), sec, &base.spent).ok()?;
            rsk.insert(solver, sk);
            no
        } else {
            amount_blinded_output(rng, secp, a, v, vbf, o.script_pubkey.clone())?.0
        };
        outs[solver] = Some(no);
        secrets[solver] = Some(sec);
    }
    let mut output: Vec<TxOut> = outs.into_iter().map(|o| o.unwrap()).collect();
    let mut out_secrets: Vec<TxOutSecrets> = secrets.into_iter().map(|s| s.unwrap()).collect();
    // a zero-value OP_RETURN output with a blinded asset (term 0, contributes nothing, needs its proof)
    let czspk = op_return_script(rng);
    let (cz, czs) = asset_blinded_output(rng, secp, base.spent[seq % base.spent.len()].asset, 0, czspk, &base.spent)?;
    let pos = rng.gen_range(0..=output.len());
    output.insert(pos, cz);
    out_secrets.insert(pos, czs);
    kinds.insert(pos, OutKind::CZ);
    let solver = if pos <= solver { solver + 1 } else { solver };
    let rsk = rsk.into_iter().map(|(i, k)| (if pos <= i { i + 1 } else { i }, k)).collect();
    // superfluous proofs on an explicit output must not matter
    if seq % 3 == 0 {
        let rp = output.iter().find_map(|o| o.witness.rangeproof.clone());
        let sp = output.iter().find_map(|o| o.witness.surjection_proof.clone());
        if let Some(i) = (0..output.len()).find(|i| kinds[*i] == OutKind::EE) {
            output[i].witness.rangeproof = rp;
            output[i].witness.surjection_proof = sp;
            out.count("lattice.out.EE_with_stray_proofs");
        }
    }
    for k in &kinds { out.count(&format!("lattice.out.{}", k.name())); }
    out.count(&format!("lattice.solver.{}", kinds[solver].name()));
    Some(Lattice { tx: Transaction { version: 2, lock_time: LockTime::ZERO, input: base.tx.input.clone(), output }, kinds, out_secrets, rsk, solver })
}

/// append to a verifying transaction a zero-value OP_RETURN output with a blinded asset and its
/// surjection proof: the transaction must still verify
pub fn append_zero_conf_asset(rng: &mut R, secp: &Secp256k1<All>, tx: &mut Transaction, spent: &[TxOutSecrets]) -> Option<usize> {
    let a = spent[rng.gen_range(0..spent.len())].asset;
    let czspk = op_return_script(rng);
    let (cz, _) = asset_blinded_output(rng, secp, a, 0, czspk, spent)?;
    let pos = rng.gen_range(0..=tx.output.len());
    tx.output.insert(pos, cz);
    Some(pos)
}

/// C04-side checks on a lattice transaction: it verifies, its scalars balance, fully blinded outputs unblind
pub fn lattice_case(rng: &mut R, out: &mut Out, secp: &Secp256k1<All>, base: &Base, seq: usize) {
    let l = match lattice_tx(rng, out, secp, base, seq) { Some(l) => l, None => { out.count("lattice.not_built"); return; } };
    let det = || format!("kinds {:?} tx {} utxos [{}] spent [{}]", l.kinds, hex(&serialize(&l.tx)),
        base.utxos.iter().map(|u| hex(&serialize(u))).collect::<Vec<_>>().join(","), base.spent.iter().map(sec4).collect::<Vec<_>>().join(","));
    let bal = balance_case(out, secp, &base.spent, &l.out_secrets);
    out.s("lattice_scalars_balance", bal == format!("ok {}", "0".repeat(64)), &det);
    let vr = std::panic::catch_unwind(std::panic::AssertUnwindSafe(|| l.tx.verify_tx_amt_proofs(secp, &base.utxos)));
    out.s("lattice_tx_verifies", matches!(vr, Ok(Ok(()))), || format!("{} -> {:?}", det(), vr.as_ref().map(|r| r.as_ref().map_err(|e| e.to_string())).map_err(|_| "panic")));
    for (i, o) in l.tx.output.iter().enumerate() {
        let s = l.out_secrets[i];
        match l.kinds[i] {
            OutKind::CC => {
                out.s("lattice_cc_unblinds", matches!(o.unblind(secp, l.rsk[&i]), Ok(x) if x == s), &det);
            }
            OutKind::EC => {
                out.s("lattice_ec_commitment_reproduced", o.value == Value::new_confidential_from_assetid(secp, s.value, s.asset, s.value_bf, AssetBlindingFactor::zero()), &det);
            }
            OutKind::CE | OutKind::CZ => {
                out.s("lattice_ce_commitment_reproduced", o.asset == Asset::new_confidential(secp, s.asset, s.asset_bf), &det);
            }
            _ => {}
        }
    }
    let _ = rng;
}

/// all non-empty subsets of `items` (at most `cap`, the rest sampled)
pub fn subsets(rng: &mut R, items: &[usize], cap: usize) -> Vec<Vec<usize>> {
    let n = items.len();
    let mut v: Vec<Vec<usize>> = vec![];
    if n == 0 { return v; }
    if n <= 12 && (1usize << n) - 1 <= cap {
        for m in 1..(1usize << n) {
            v.push((0..n).filter(|i| m >> i & 1 == 1).map(|i| items[i]).collect());
        }
    } else {
        // singletons, the full set, then random masks
        for i in 0..n { v.push(vec![items[i]]); }
        v.push(items.to_vec());
        while v.len() < cap {
            let s: Vec<usize> = (0..n).filter(|_| rng.gen_bool(0.5)).map(|i| items[i]).collect();
            if !s.is_empty() { v.push(s); }
        }
        v.truncate(cap);
    }
    v
}

/// error paths of `Transaction::blind`
fn blind_errors(rng: &mut R, out: &mut Out, secp: &Secp256k1<All>) {
    let sh = Shape { n_in: 2, n_assets: 1, max_outs: 3, ..Shape::default() };
    let base = base_tx(rng, secp, &sh);
    let mk = markable(&base.tx);
    // none marked
    let oc = run_blind(rng, out, secp, &base.tx, &base.spent);
    out.s("none_marked_is_TooFewBlindingOutputs", oc.res == Err("err TooFewBlindingOutputs".into()), || describe(&base.tx, &base.utxos, &base.spent));
    // only the fee output carries a blinding key
    if let Some(f) = (0..base.tx.output.len()).find(|i| base.tx.output[*i].is_fee()) {
        let m = mark(rng, secp, &base, &[f]);
        let oc = run_blind(rng, out, secp, &m.tx, &base.spent);
        out.s("fee_only_marked_is_TooFewBlindingOutputs", oc.res == Err("err TooFewBlindingOutputs".into()), || describe(&m.tx, &base.utxos, &base.spent));
    }
    // a non-explicit output anywhere
    for _ in 0..4 {
        let mut m = mark(rng, secp, &base, &mk[..1]);
        let i = rng.gen_range(0..m.tx.output.len());
        match rng.gen_range(0..4) {
            0 => m.tx.output[i].value = Value::Null,
            1 => m.tx.output[i].asset = Asset::Null,
            2 => m.tx.output[i].value = Value::Confidential(gen::commitment(rng)),
            _ => m.tx.output[i].asset = Asset::Confidential(gen::generator(rng)),
        }
        let oc = run_blind(rng, out, secp, &m.tx, &base.spent);
        out.s("non_explicit_is_MustHaveAllExplicitTxOuts", oc.res == Err("err MustHaveAllExplicitTxOuts".into()), || describe(&m.tx, &base.utxos, &base.spent));
    }
    // a marked output whose script is not an address
    for _ in 0..6 {
        let mut m = mark(rng, secp, &base, &mk);
        let i = mk[rng.gen_range(0..mk.len())];
        let s = loop { let s = odd_script(rng); if !s.is_empty() { break s; } };
        let addr = Address::from_script(&s, None, &AddressParams::ELEMENTS).is_some();
        m.tx.output[i].script_pubkey = s;
        let oc = run_blind(rng, out, secp, &m.tx, &base.spent);
        if !addr {
            out.s("unaddressable_marked_is_InvalidAddress", oc.res == Err("err InvalidAddress".into()), || describe(&m.tx, &base.utxos, &base.spent));
        }
    }
    // marked output of an asset that no input carries; amounts outside the range-proof range
    for k in 0..6 {
        let mut m = mark(rng, secp, &base, &mk);
        let i = mk[rng.gen_range(0..mk.len())];
        match k % 3 {
            0 => m.tx.output[i].asset = Asset::Explicit(gen::asset_id(rng)),
            1 => m.tx.output[i].value = Value::Explicit(0),
            _ => m.tx.output[i].value = Value::Explicit((1 << 63) + rng.gen_range(0..3u64)),
        }
        let oc = run_blind(rng, out, secp, &m.tx, &base.spent);
        out.count(&format!("blind.errcase.{}", match &oc.res { Ok(_) => "ok".to_string(), Err(e) => e.replace(' ', "_") }));
        // (value 0 with a computed blinding factor 0 once asserted inside PedersenCommitment::new; fixed in /repo 17ff2cc)
        out.s("unprovable_output_is_error", matches!(&oc.res, Err(e) if e == "err ConfidentialTxOutError"), || describe(&m.tx, &base.utxos, &base.spent));
    }
}

/// the amounts at the edges of what the range-proof parameters admit (min value 1, 52 bits minimum,
/// below 2^63), each as the single / the last / a non-last marked output: inside the range blinding must
/// succeed and the result verify, outside it must fail with an error (never a panic)
fn admissible_amounts(rng: &mut R, out: &mut Out, secp: &Secp256k1<All>) {
    let cases: [(u64, bool); 8] = [(1, true), ((1 << 52) - 1, true), (1 << 52, true), (1 << 62, true), ((1 << 63) - 2, true), ((1 << 63) - 1, true), (1 << 63, false), (u64::MAX, false)];
    for (v, admissible) in cases {
        for pos in 0..3 {
            let a = gen::asset_id(rng);
            let other = rng.gen_range(1..1000u64);
            let fee = rng.gen_range(1..100u64);
            let vals: Vec<u64> = match pos { 0 => vec![v], 1 => vec![other, v], _ => vec![v, other] };
            let total: u128 = vals.iter().map(|x| *x as u128).sum::<u128>() + fee as u128;
            let parts = split(rng, total, if total > u64::MAX as u128 { 2 } else { 1 + pos % 2 });
            let mut utxos = vec![];
            let mut spent = vec![];
            let mut input = vec![];
            for (k, p) in parts.iter().enumerate() {
                // explicit and fully blinded spent outputs alternate
                if (k + pos) % 2 == 0 {
                    utxos.push(TxOut { asset: Asset::Explicit(a), value: Value::Explicit(*p), nonce: Nonce::Null, script_pubkey: addressable_script(rng), witness: TxOutWitness::default() });
                    spent.push(TxOutSecrets::new(a, AssetBlindingFactor::zero(), *p, ValueBlindingFactor::zero()));
                } else {
                    let (abf, vbf) = (AssetBlindingFactor::new(rng), ValueBlindingFactor::new(rng));
                    utxos.push(TxOut { asset: Asset::new_confidential(secp, a, abf), value: Value::new_confidential_from_assetid(secp, *p, a, vbf, abf), nonce: Nonce::Null, script_pubkey: addressable_script(rng), witness: TxOutWitness::default() });
                    spent.push(TxOutSecrets::new(a, abf, *p, vbf));
                }
                input.push(plain_txin(rng));
            }
            let mut output: Vec<TxOut> = vals.iter().map(|x| TxOut {
                asset: Asset::Explicit(a), value: Value::Explicit(*x), nonce: Nonce::Confidential(gen::pubkey(rng)), script_pubkey: addressable_script(rng), witness: TxOutWitness::default(),
            }).collect();
            output.push(TxOut { asset: Asset::Explicit(a), value: Value::Explicit(fee), nonce: Nonce::Null, script_pubkey: Script::new(), witness: TxOutWitness::default() });
            let tx = Transaction { version: 2, lock_time: LockTime::ZERO, input, output };
            let oc = run_blind(rng, out, secp, &tx, &spent);
            let det = || format!("amount {} as {} marked output: {} -> {:?}", v, ["single", "last", "non-last"][pos], describe(&tx, &utxos, &spent), oc.res.as_ref().map(|m| m.len()));
            out.count(&format!("admissible.{}.{}", if admissible { "in_range" } else { "out_of_range" }, ["single", "last", "non_last"][pos]));
            if admissible {
                out.s("blind_succeeds_for_admissible_values", oc.res.is_ok(), &det);
                if oc.res.is_ok() {
                    let vr = std::panic::catch_unwind(std::panic::AssertUnwindSafe(|| oc.tx.verify_tx_amt_proofs(secp, &utxos)));
                    out.s("admissible_value_blinded_tx_verifies", matches!(vr, Ok(Ok(()))), &det);
                }
            } else {
                out.s("blind_fails_with_error_for_inadmissible_values", oc.res == Err("err ConfidentialTxOutError".into()), &det);
            }
        }
    }
}

/// a TOKEN-ONLY issuance (amount null, explicit inflation keys), new and reissuance, the token id
/// supplied by the caller from the independent derivation; the token output is blinded
fn token_only_issuance_cases(rng: &mut R, out: &mut Out, secp: &Secp256k1<All>) {
    for re in [false, true] {
        let a = gen::asset_id(rng);
        let v = rng.gen_range(1000..100_000u64);
        let k = rng.gen_range(1..10u64);
        let mut inp = plain_txin(rng);
        inp.asset_issuance = AssetIssuance {
            asset_blinding_nonce: if re { gen::tweak(rng) } else { ZERO_TWEAK },
            asset_entropy: gen::arr32(rng),
            amount: Value::Null,
            inflation_keys: Value::Explicit(k),
        };
        let (_, tid) = oracle_ids(&inp);
        let real_ids = std::panic::catch_unwind(std::panic::AssertUnwindSafe(|| inp.issuance_ids()));
        let utxo = TxOut { asset: Asset::Explicit(a), value: Value::Explicit(v), nonce: Nonce::Null, script_pubkey: addressable_script(rng), witness: TxOutWitness::default() };
        let spent = vec![
            TxOutSecrets::new(a, AssetBlindingFactor::zero(), v, ValueBlindingFactor::zero()),
            TxOutSecrets::new(tid, AssetBlindingFactor::zero(), k, ValueBlindingFactor::zero()),
        ];
        let mk_out = |rng: &mut R, asset: AssetId, value: u64, fee: bool| TxOut {
            asset: Asset::Explicit(asset), value: Value::Explicit(value), nonce: Nonce::Null,
            script_pubkey: if fee { Script::new() } else { addressable_script(rng) }, witness: TxOutWitness::default(),
        };
        let output = vec![mk_out(rng, a, v - 100, false), mk_out(rng, tid, k, false), mk_out(rng, a, 100, true)];
        let base = Base {
            tx: Transaction { version: 2, lock_time: LockTime::ZERO, input: vec![inp], output },
            utxos: vec![utxo], spent, n_assets: 2, n_issuances: 1, n_conf_utxos: 0,
            tags: vec![format!("issuance.{}.explicit.token_only", if re { "re" } else { "new" })],
            checks: vec![("issuance_ids_match_independent_derivation", matches!(real_ids, Ok(p) if p.1 == tid))],
        };
        base_record(out, &base);
        for which in [vec![1usize], vec![0, 1]] {
            c04_case(rng, out, secp, &base, &which);
        }
    }
}

/// the single marked output has amount 0 and every input is explicit, so the computed last blinding
/// factor is 0 too: must be an error (was an assertion failure before /repo 17ff2cc)
fn zero_last_case(rng: &mut R, out: &mut Out, secp: &Secp256k1<All>) {
    let a = gen::asset_id(rng);
    let v = rng.gen_range(1..1000u64);
    let utxo = TxOut { asset: Asset::Explicit(a), value: Value::Explicit(v), nonce: Nonce::Null, script_pubkey: addressable_script(rng), witness: TxOutWitness::default() };
    let spent = vec![TxOutSecrets::new(a, AssetBlindingFactor::zero(), v, ValueBlindingFactor::zero())];
    let tx = Transaction {
        version: 2, lock_time: LockTime::ZERO, input: vec![plain_txin(rng)],
        output: vec![
            TxOut { asset: Asset::Explicit(a), value: Value::Explicit(0), nonce: Nonce::Confidential(gen::pubkey(rng)), script_pubkey: addressable_script(rng), witness: TxOutWitness::default() },
            TxOut { asset: Asset::Explicit(a), value: Value::Explicit(v), nonce: Nonce::Null, script_pubkey: Script::new(), witness: TxOutWitness::default() },
        ],
    };
    let oc = run_blind(rng, out, secp, &tx, &spent);
    out.s("zero_value_last_output_is_error", oc.res == Err("err ConfidentialTxOutError".into()), || describe(&tx, &[utxo.clone()], &spent));
}

/// `new_not_last_confidential` + `new_last_confidential` by hand (the raw API of examples/raw_blind.rs)
fn manual_case(rng: &mut R, out: &mut Out, secp: &Secp256k1<All>) {
    let sh = Shape { n_in: rng.gen_range(1..4), n_assets: 1, max_outs: 3, seq: rng.gen_range(0..5), ..Shape::default() };
    let base = base_tx(rng, secp, &sh);
    let mk = markable(&base.tx);
    if mk.is_empty() { return; }
    let mut tx = base.tx.clone();
    let mut secrets: Vec<TxOutSecrets> = vec![];
    let mut rsks = BTreeMap::new();
    // all but the last markable output through new_not_last_confidential
    for i in 0..tx.output.len() {
        let o = tx.output[i].clone();
        let (a, v) = (o.asset.explicit().unwrap(), o.value.explicit().unwrap());
        if mk.contains(&i) && i != *mk.last().unwrap() {
            let rsk = gen::seckey(rng);
            let addr = match Address::from_script(&o.script_pubkey, Some(PublicKey::from_secret_key(secp, &rsk)), &AddressParams::ELEMENTS) {
                Some(a) => a,
                None => { out.s("address_from_addressable_script", false, || hex(o.script_pubkey.as_bytes())); return; }
            };
            let mut brng = R::seed_from_u64(rng.gen());
            match TxOut::new_not_last_confidential(&mut brng, secp, v, &addr, a, &base.spent) {
                Ok((no, abf, vbf, _)) => {
                    tx.output[i] = no;
                    secrets.push(TxOutSecrets::new(a, abf, v, vbf));
                    rsks.insert(i, rsk);
                }
                Err(_) => { out.count("manual.not_last_failed"); return; }
            }
        } else if i != *mk.last().unwrap() {
            secrets.push(TxOutSecrets::new(a, AssetBlindingFactor::zero(), v, ValueBlindingFactor::zero()));
        }
    }
    let li = *mk.last().unwrap();
    let o = tx.output[li].clone();
    let (a, v) = (o.asset.explicit().unwrap(), o.value.explicit().unwrap());
    let rsk = gen::seckey(rng);
    let refs: Vec<&TxOutSecrets> = secrets.iter().collect();
    let mut brng = R::seed_from_u64(rng.gen());
    match TxOut::new_last_confidential(&mut brng, secp, v, a, o.script_pubkey.clone(), PublicKey::from_secret_key(secp, &rsk), &base.spent, &refs) {
        Ok((no, abf, vbf, _)) => {
            tx.output[li] = no;
            let i3: Vec<String> = base.spent.iter().map(sec3).collect();
            let o3: Vec<String> = secrets.iter().map(sec3).collect();
            out.k(format!("blind.last {} {} {} {}", v, abf_hex(&abf), join(&i3), join(&o3)), format!("ok {}", vbf_hex(&vbf)));
            let vr = std::panic::catch_unwind(std::panic::AssertUnwindSafe(|| tx.verify_tx_amt_proofs(secp, &base.utxos)));
            out.s("manual_blinded_tx_verifies", matches!(vr, Ok(Ok(()))), || describe(&base.tx, &base.utxos, &base.spent));
            let ub = tx.output[li].unblind(secp, rsk);
            out.s("manual_last_unblinds", matches!(&ub, Ok(s) if *s == TxOutSecrets::new(a, abf, v, vbf)), || describe(&base.tx, &base.utxos, &base.spent));
            out.count("manual.ok");
        }
        Err(_) => out.count("manual.last_failed"),
    }
}

/// not a check, a recorded observation: `TxIn::blind_issuances_with_bfs` reads `issuance_ids()` before it
/// replaces the amount by a commitment, so the inflation keys are committed on the generator of the
/// token id of an UNBLINDED issuance, while every later `issuance_ids()` (the one in
/// verify_tx_amt_proofs included) derives the token id of a BLINDED issuance
fn probe_blind_issuances_token_id(rng: &mut R, out: &mut Out, secp: &Secp256k1<All>) {
    let mut inp = plain_txin(rng);
    inp.asset_issuance = AssetIssuance { asset_blinding_nonce: ZERO_TWEAK, asset_entropy: gen::arr32(rng), amount: Value::Explicit(1000), inflation_keys: Value::Explicit(2) };
    let (_, tid_before) = inp.issuance_ids();
    let y = ValueBlindingFactor::new(rng);
    if inp.blind_issuances_with_bfs(secp, ValueBlindingFactor::new(rng), y, gen::seckey(rng), gen::seckey(rng)).is_ok() {
        let (_, tid_after) = inp.issuance_ids();
        let on_after = inp.asset_issuance.inflation_keys == Value::new_confidential_from_assetid(secp, 2, tid_after, y, AssetBlindingFactor::zero());
        let on_before = inp.asset_issuance.inflation_keys == Value::new_confidential_from_assetid(secp, 2, tid_before, y, AssetBlindingFactor::zero());
        out.count(&format!("probe.blind_issuances_token_id.keys_committed_on_{}", if on_after { "verifier_token_id" } else if on_before { "pre_blinding_token_id" } else { "neither" }));
    }
}

/// the vector of `blind::tests::test_blind_tx`
fn repo_vector(rng: &mut R, out: &mut Out, secp: &Secp256k1<All>) {
    let src = std::fs::read_to_string("/repo/src/blind.rs").unwrap_or_default();
    let hex_tx = src.split("const TX_HEX: &str = \"").nth(1).and_then(|s| s.split('"').next());
    let found = hex_tx.is_some();
    out.pin("repo_vector_test_blind_tx_found", found, || "const TX_HEX in src/blind.rs".into());
    if let Some(h) = hex_tx {
        let tx: Transaction = elements::encode::deserialize(&crate::unhex(h)).unwrap();
        let sec = TxOutSecrets {
            asset: "b2e15d0d7a0c94e4e2ce0fe6e8691b9e451377f6e46e8045a86f7c4b5d4f0f23".parse().unwrap(),
            asset_bf: "a5b3d111cdaa5fc111e2723df4caf315864f25fb4610cc737f10d5a55cd4096f".parse().unwrap(),
            value: 2099999797999114,
            value_bf: "e36a4de359469f547571d117bc5509fb74fba73c84b0cdd6f4edfa7ff7fa457d".parse().unwrap(),
        };
        let utxo = TxOut {
            asset: Asset::from_commitment(&crate::unhex("0baf634b18e1880c96dcf9947b0e0fd2d38d66d723339174df3fd980148c2f0bb3")).unwrap(),
            value: Value::from_commitment(&crate::unhex("093baba9076190867fbc5e43132cb2f82245caf603b493d7c0da8b7eda7912fa2c")).unwrap(),
            nonce: Nonce::Null,
            script_pubkey: Script::from(crate::unhex("0014d2bcde17e7744f6377466ca1bd35d212954674c8")),
            witness: TxOutWitness::default(),
        };
        out.s("repo_vector_secrets_open_utxo", utxo.asset == Asset::new_confidential(secp, sec.asset, sec.asset_bf) && utxo.value == Value::new_confidential_from_assetid(secp, sec.value, sec.asset, sec.value_bf, sec.asset_bf), || "test_blind_tx".into());
        let oc = run_blind(rng, out, secp, &tx, &[sec]);
        let ok = oc.res.is_ok() && oc.tx.verify_tx_amt_proofs(secp, &[utxo]).is_ok();
        out.s("repo_vector_blinds_and_verifies", ok, || "test_blind_tx".into());
    }
}

pub fn run(rng: &mut R, out: &mut Out) {
    let secp = Secp256k1::new();
    let thorough = out.tier_thorough;
    // regression corpus / edge cases first
    for s in [vec![], vec![0x6a], vec![0x6a, 1, 2], vec![0x6b], vec![0x00, 0x14], vec![0x51, 0x02, 1, 2], vec![0x51, 0x01, 1], vec![0x60, 0x28], vec![0x61, 0x02, 0, 0], vec![0x50, 0x02, 0, 0]] {
        script_case(out, &Script::from(s));
    }
    script_case(out, &Script::from(vec![0x51u8; 10_000]));
    script_case(out, &Script::from(vec![0x51u8; 10_001]));
    for _ in 0..(if thorough { 3000 } else { 300 }) {
        let s = if rng.gen_bool(0.4) { addressable_script(rng) } else { odd_script(rng) };
        script_case(out, &s);
    }
    scalar_ops(rng, out, &secp, if thorough { 6000 } else { 600 });
    repo_vector(rng, out, &secp);
    probe_blind_issuances_token_id(rng, out, &secp);
    blind_errors(rng, out, &secp);
    zero_last_case(rng, out, &secp);
    admissible_amounts(rng, out, &secp);
    token_only_issuance_cases(rng, out, &secp);
    domain_duplicates(rng, out, &secp, if thorough { 12 } else { 1 });
    for _ in 0..(if thorough { 40 } else { 4 }) {
        manual_case(rng, out, &secp);
    }
    // partially blinded inputs and outputs: the whole lattice, round robin
    for seq in 0..(if thorough { 240 } else { 24 }) {
        let sh = Shape {
            n_in: 1 + seq % 5, n_assets: 1 + seq % 3, issuance: seq % 2 == 1, max_outs: 2 + seq % 2, zero_opreturn: seq % 4 == 0,
            utxo_mode: if seq % 7 == 6 { 0 } else { 1 }, conf_issuance: true, seq,
        };
        let base = base_tx(rng, &secp, &sh);
        base_record(out, &base);
        lattice_case(rng, out, &secp, &base, seq);
    }
    // the C04 statement: shapes × every non-empty subset of markable outputs
    let budget = if thorough { 2500 } else { 150 };
    let mut done = 0;
    let mut round = 0;
    while done < budget {
        round += 1;
        let sh = Shape {
            n_in: if round <= 6 { round } else { rng.gen_range(1..=6) },
            n_assets: rng.gen_range(1..=3),
            issuance: rng.gen_bool(0.4),
            max_outs: if rng.gen_bool(0.7) { 2 } else { 3 },
            zero_opreturn: rng.gen_bool(0.25),
            utxo_mode: match round % 6 { 0 => 0, 5 => 2, _ => 1 },
            conf_issuance: true,
            seq: round,
        };
        let base = base_tx(rng, &secp, &sh);
        base_record(out, &base);
        out.count(&format!("base.inputs.{}", sh.n_in));
        out.count(&format!("base.assets.{}", base.n_assets));
        if base.n_issuances > 0 { out.count("base.with_issuance"); }
        if base.n_conf_utxos > 0 { out.count("base.with_conf_utxo"); }
        if base.n_conf_utxos == 0 { out.count("base.all_explicit_utxos"); }
        let mut mk = markable(&base.tx);
        // sometimes one positive-value output is a burn / data carrier (OP_RETURN, or another script without an
        // address) that is never marked: it stays explicit and still counts in the balance
        let mut base = base;
        if mk.len() >= 2 && rng.gen_bool(0.35) {
            let burn = mk.remove(rng.gen_range(0..mk.len()));
            base.tx.output[burn].script_pubkey = if rng.gen_bool(0.7) { op_return_script(rng) } else { loop { let s = odd_script(rng); if !s.is_empty() && Address::from_script(&s, None, &AddressParams::ELEMENTS).is_none() { break s; } } };
            out.count("base.with_positive_value_unaddressable_output");
        }
        let subs = subsets(rng, &mk, if thorough { 31 } else { 15 });
        for which in subs {
            if done >= budget { break; }
            c04_case(rng, out, &secp, &base, &which);
            done += 1;
        }
    }
}
