//! C17 — segwit address checksums detect every one- and two-character corruption
use crate::{gen, hex, Out, Rng, R};
use bech32::primitives::checksum::{Checksum, Engine};
use bech32::primitives::iter::{ByteIterExt, Fe32IterExt};
use bech32::{Bech32, Bech32m, Fe32, Hrp};
use elements::address::Payload;
use elements::blech32::{Blech32, Blech32m};
use elements::{Address, AddressParams};
use std::str::FromStr;

pub const CHARSET: &[u8; 32] = b"qpzry9x8gf2tvdw0s3jn54khce6mua7l";

pub fn nets() -> [(&'static str, &'static AddressParams); 3] {
    [("LIQUID", &AddressParams::LIQUID), ("ELEMENTS", &AddressParams::ELEMENTS), ("LIQUID_TESTNET", &AddressParams::LIQUID_TESTNET)]
}

pub fn shex(s: &str) -> String {
    hex(s.as_bytes())
}

/// a witness-program address built directly from its parts (all fields of `Address` are public)
pub fn wit_addr(params: &'static AddressParams, ver: u8, prog: Vec<u8>, blinder: Option<elements::secp256k1_zkp::PublicKey>) -> Address {
    Address { params, payload: Payload::WitnessProgram { version: Fe32::try_from(ver).unwrap(), program: prog }, blinding_pubkey: blinder }
}

/// encode arbitrary payload bytes as a segwit-style string with the given checksum algorithm
pub fn enc_with<Ck: Checksum>(hrp: &Hrp, ver: u8, payload: &[u8]) -> String {
    payload.iter().copied().bytes_to_fes().with_checksum::<Ck>(hrp).with_witness_version(Fe32::try_from(ver).unwrap()).chars().collect()
}
pub fn enc_variant(variant: &str, hrp: &Hrp, ver: u8, payload: &[u8]) -> String {
    match variant {
        "bech32" => enc_with::<Bech32>(hrp, ver, payload),
        "bech32m" => enc_with::<Bech32m>(hrp, ver, payload),
        "blech32" => enc_with::<Blech32>(hrp, ver, payload),
        _ => enc_with::<Blech32m>(hrp, ver, payload),
    }
}

/// independent polymod (textbook form: shift in one symbol, XOR the generators selected by the
/// symbol shifted out) — not the crate's packed engine
pub fn ref_polymod(gens: &[u64; 5], len: u32, hrp_lower: &[u8], syms: &[u8]) -> u64 {
    let mut c: u64 = 1;
    let top_shift = 5 * (len - 1);
    let mask = (1u64 << top_shift) - 1;
    let mut feed = |v: u8| {
        let c0 = (c >> top_shift) as u8;
        c = ((c & mask) << 5) ^ (v as u64);
        for i in 0..5 {
            if (c0 >> i) & 1 == 1 {
                c ^= gens[i];
            }
        }
    };
    for b in hrp_lower {
        feed(b >> 5);
    }
    feed(0);
    for b in hrp_lower {
        feed(b & 31);
    }
    for s in syms {
        feed(*s);
    }
    c
}
pub const BECH_GEN: [u64; 5] = [0x3b6a57b2, 0x26508e6d, 0x1ea119fa, 0x3d4233dd, 0x2a1462b3];
pub const BLECH_GEN: [u64; 5] = [0x7d52fba40bd886, 0x5e8dbf1a03950c, 0x1c3a3c74072a18, 0x385d72fa0e5139, 0x7093e5a608865b];
pub fn ref_params(variant: &str) -> (&'static [u64; 5], u32, u64) {
    match variant {
        "bech32" => (&BECH_GEN, 6, 1),
        "bech32m" => (&BECH_GEN, 6, 0x2bc830a3),
        "blech32" => (&BLECH_GEN, 12, 1),
        _ => (&BLECH_GEN, 12, 0x455972a3350f7a1),
    }
}

fn engine_residue(variant: &str, hrp: &Hrp, syms: &[u8]) -> u64 {
    fn run<Ck: Checksum>(hrp: &Hrp, syms: &[u8]) -> Ck::MidstateRepr {
        let mut e = Engine::<Ck>::new();
        e.input_hrp(*hrp);
        for s in syms {
            e.input_fe(Fe32::try_from(*s).unwrap());
        }
        *e.residue()
    }
    match variant {
        "bech32" => run::<Bech32>(hrp, syms) as u64,
        "bech32m" => run::<Bech32m>(hrp, syms) as u64,
        "blech32" => run::<Blech32>(hrp, syms),
        _ => run::<Blech32m>(hrp, syms),
    }
}

fn k_polymod(out: &mut Out, variant: &str, hrp: &str, syms: &[u8]) {
    let h = Hrp::parse(hrp).unwrap();
    let res = Out::guard(|| format!("ok {}", engine_residue(variant, &h, syms)));
    out.k(format!("polymod {} {} {}", variant, shex(hrp), hex(syms)), res);
    let (g, l, _) = ref_params(variant);
    let lower: Vec<u8> = hrp.bytes().map(|b| b.to_ascii_lowercase()).collect();
    out.s("engine_matches_reference_polymod", engine_residue(variant, &h, syms) == ref_polymod(g, l, &lower, syms), || format!("{} {} {}", variant, hrp, hex(syms)));
}

fn k_chk(out: &mut Out, variant: &str, s: &str) {
    let res = Out::guard(|| {
        let ok = match variant {
            "bech32" => bech32::primitives::decode::CheckedHrpstring::new::<Bech32>(s).is_ok(),
            "bech32m" => bech32::primitives::decode::CheckedHrpstring::new::<Bech32m>(s).is_ok(),
            "blech32" => elements::blech32::decode::CheckedHrpstring::new::<Blech32>(s).is_ok(),
            _ => elements::blech32::decode::CheckedHrpstring::new::<Blech32m>(s).is_ok(),
        };
        if ok { "ok".to_string() } else { "err".to_string() }
    });
    out.count(&format!("chk.{}.{}", variant, res));
    out.k(format!("chk {} {}", variant, shex(s)), res);
}

pub fn k_segwit(out: &mut Out, mode: u8, s: &str) {
    let res = Out::guard(|| match mode {
        0 => match bech32::primitives::decode::SegwitHrpstring::new(s) {
            Ok(h) => format!("ok {} {} {}", shex(h.hrp().as_str()), h.witness_version().to_u8(), hex(&h.byte_iter().collect::<Vec<u8>>())),
            Err(_) => "err".into(),
        },
        1 => match elements::blech32::decode::SegwitHrpstring::new(s) {
            Ok(h) => format!("ok {} {} {}", shex(h.hrp().as_str()), h.witness_version().to_u8(), hex(&h.byte_iter().collect::<Vec<u8>>())),
            Err(_) => "err".into(),
        },
        _ => match elements::blech32::decode::SegwitHrpstring::new_bech32(s) {
            Ok(h) => format!("ok {} {} {}", shex(h.hrp().as_str()), h.witness_version().to_u8(), hex(&h.byte_iter().collect::<Vec<u8>>())),
            Err(_) => "err".into(),
        },
    });
    out.count(&format!("segwit.{}.{}", mode, &res[..res.len().min(3)].trim()));
    out.k(format!("segwit {} {}", mode, shex(s)), res);
}

/// does any of the four parsing entry points accept the string?
pub fn accepted_anywhere(s: &str) -> Option<String> {
    if let Ok(a) = Address::from_str(s) {
        return Some(format!("from_str -> {}", a));
    }
    for (n, p) in nets() {
        if let Ok(a) = Address::parse_with_params(s, p) {
            return Some(format!("parse_with_params {} -> {}", n, a));
        }
    }
    None
}
fn accepted_fast(s: &str, own: &'static AddressParams) -> Option<String> {
    if let Ok(a) = Address::from_str(s) {
        return Some(format!("from_str -> {}", a));
    }
    if let Ok(a) = Address::parse_with_params(s, own) {
        return Some(format!("parse_with_params(own) -> {}", a));
    }
    None
}

/// representative valid segwit addresses: every network × blinded/unblinded × (v0/20, v0/32, v1/32, v≥2 with a
/// random standard length, extra lengths 2 and 40)
pub fn representative(rng: &mut R, more: bool) -> Vec<(Address, String)> {
    let mut v = vec![];
    for (name, p) in nets() {
        for blinded in [false, true] {
            let mut shapes: Vec<(u8, usize)> = vec![(0, 20), (0, 32), (1, 32), (rng.gen_range(2..=16), rng.gen_range(2..=40))];
            if more {
                shapes.push((16, 2));
                shapes.push((rng.gen_range(1..=16), 40));
                shapes.push((rng.gen_range(1..=16), rng.gen_range(2..=40)));
            }
            for (ver, len) in shapes {
                let bl = if blinded { Some(gen::pubkey(rng)) } else { None };
                let a = wit_addr(p, ver, gen::bytes(rng, len), bl);
                v.push((a, format!("{}/{}/v{}/{}", name, if blinded { "blinded" } else { "plain" }, ver, len)));
            }
        }
    }
    v
}

fn sep_pos(s: &str) -> usize {
    s.rfind('1').unwrap()
}

fn substitute(s: &str, edits: &[(usize, u8)]) -> String {
    let mut b = s.as_bytes().to_vec();
    for (i, c) in edits {
        b[*i] = *c;
    }
    String::from_utf8(b).unwrap()
}

fn single_subs(out: &mut Out, a: &Address, label: &str, upper: bool) {
    let s0 = a.to_string();
    let s = if upper { s0.to_uppercase() } else { s0.clone() };
    let sep = sep_pos(&s);
    let mut n = 0u64;
    for i in sep + 1..s.len() {
        for c in CHARSET.iter() {
            let c = if upper { c.to_ascii_uppercase() } else { *c };
            if c == s.as_bytes()[i] {
                continue;
            }
            let t = substitute(&s, &[(i, c)]);
            n += 1;
            let acc = accepted_anywhere(&t);
            out.s("single_substitution_rejected", acc.is_none(), || format!("{} orig={} corrupted={} accepted: {}", label, s, t, acc.clone().unwrap_or_default()));
        }
    }
    out.count_n("subst.single", n);
}

fn double_subs_sampled(rng: &mut R, out: &mut Out, a: &Address, label: &str, samples: usize) {
    let s = a.to_string();
    let sep = sep_pos(&s);
    let n = s.len() - sep - 1;
    for k in 0..samples {
        let i = sep + 1 + rng.gen_range(0..n);
        // half of the samples include the witness-version character
        let i = if k % 2 == 0 { sep + 1 } else { i };
        let mut j = sep + 1 + rng.gen_range(0..n);
        while j == i {
            j = sep + 1 + rng.gen_range(0..n);
        }
        let mut ci = CHARSET[rng.gen_range(0..32)];
        while ci == s.as_bytes()[i] {
            ci = CHARSET[rng.gen_range(0..32)];
        }
        let mut cj = CHARSET[rng.gen_range(0..32)];
        while cj == s.as_bytes()[j] {
            cj = CHARSET[rng.gen_range(0..32)];
        }
        let t = substitute(&s, &[(i, ci), (j, cj)]);
        let acc = accepted_anywhere(&t);
        out.s("double_substitution_rejected", acc.is_none(), || format!("{} orig={} corrupted={} accepted: {}", label, s, t, acc.clone().unwrap_or_default()));
    }
    out.count_n("subst.double.sampled", samples as u64);
}

fn double_subs_exhaustive(out: &mut Out, a: &Address, label: &str) {
    let s = a.to_string();
    let sep = sep_pos(&s);
    let mut n = 0u64;
    let bytes = s.as_bytes().to_vec();
    let mut t = bytes.clone();
    for i in sep + 1..s.len() {
        for ci in CHARSET.iter() {
            if *ci == bytes[i] {
                continue;
            }
            t[i] = *ci;
            for j in i + 1..s.len() {
                for cj in CHARSET.iter() {
                    if *cj == bytes[j] {
                        continue;
                    }
                    t[j] = *cj;
                    n += 1;
                    let ts = std::str::from_utf8(&t).unwrap();
                    let acc = accepted_fast(ts, a.params);
                    if acc.is_some() {
                        let tss = ts.to_string();
                        out.s("double_substitution_rejected", false, || format!("{} orig={} corrupted={} accepted: {}", label, s, tss, acc.clone().unwrap_or_default()));
                    }
                }
                t[j] = bytes[j];
            }
        }
        t[i] = bytes[i];
    }
    out.count_n("S.double_substitution_rejected.evals", n);
    out.count_n("subst.double.exhaustive", n);
}

fn hrp_subs(out: &mut Out, a: &Address, label: &str, doubles: bool) {
    let s = a.to_string();
    let sep = sep_pos(&s);
    let mut n = 0u64;
    for i in 0..sep {
        for c in 33u8..=126 {
            if c == s.as_bytes()[i] {
                continue;
            }
            let t = substitute(&s, &[(i, c)]);
            n += 1;
            let acc = accepted_anywhere(&t);
            out.s("hrp_substitution_rejected", acc.is_none(), || format!("{} orig={} corrupted={} accepted: {}", label, s, t, acc.clone().unwrap_or_default()));
        }
    }
    // whole-HRP replacement by the HRP of another network / kind (`lq`→`el` is a two-character corruption). The valid
    // string is parsed immediately before each corrupted one, so that nothing the decoder might remember from a
    // successful parse of the SAME data part can make the corrupted string pass.
    for h in ["ex", "lq", "ert", "el", "tex", "tlq"] {
        let own = &s[..sep];
        if h == own {
            continue;
        }
        let t = format!("{}{}", h, &s[sep..]);
        let hamming = if h.len() == own.len() { h.bytes().zip(own.bytes()).filter(|(x, y)| x != y).count() } else { usize::MAX };
        let _ = Address::from_str(&s);
        let _ = Address::parse_with_params(&s, a.params);
        let acc = accepted_anywhere(&t);
        n += 1;
        out.count(&format!("subst.hrp.network_swap.{}", if hamming <= 2 { "within_two_chars" } else { "longer" }));
        // any such string would have to carry a valid checksum under the other hrp: a coincidence of >= 30 bits
        out.s("hrp_substitution_rejected", acc.is_none(), || format!("{} orig={} hrp replaced by {:?} (valid string parsed just before)={} accepted: {}", label, s, h, t, acc.clone().unwrap_or_default()));
    }
    if doubles {
        for i in 0..sep {
            for j in i + 1..sep {
                for ci in 33u8..=126 {
                    for cj in 33u8..=126 {
                        if ci == s.as_bytes()[i] || cj == s.as_bytes()[j] {
                            continue;
                        }
                        let t = substitute(&s, &[(i, ci), (j, cj)]);
                        n += 1;
                        let acc = accepted_fast(&t, a.params);
                        out.s("hrp_substitution_rejected", acc.is_none(), || format!("{} orig={} corrupted={} accepted: {}", label, s, t, acc.clone().unwrap_or_default()));
                    }
                }
            }
        }
    }
    out.count_n("subst.hrp", n);
}

const VARIANTS: [&str; 4] = ["bech32", "bech32m", "blech32", "blech32m"];

pub fn run(rng: &mut R, out: &mut Out) {
    let thorough = out.tier_thorough;
    let scale = if thorough { 10 } else { 1 };

    // ---- regression corpus / edge strings through all decoders
    let edge: Vec<String> = vec![
        "".into(), "1".into(), "a1".into(), "ex1".into(), "lq1".into(), "A1".into(), "11".into(), "ex1q".into(), "ex11".into(),
        "ex1qqqqqq".into(), "EX1QQQQQQ".into(), "Ex1qqqqqq".into(), "ex1b".into(), "ex1é".into(), "éx1qqqqqqq".into(), "x".into(),
        "qqqqqq".into(), "1qqqqqq".into(), " 1qqqqqq".into(), "ex1 qqqqqq".into(), "e\u{7f}1qqqqqq".into(),
        enc_variant("bech32", &Hrp::parse("ex").unwrap(), 0, &[]),
        enc_variant("blech32", &Hrp::parse("lq").unwrap(), 0, &[]),
        enc_variant("blech32", &Hrp::parse("a").unwrap(), 0, &[]),
        // historical: blinded payload with a 0- / 1-byte program (F10) and the empty data part (F3)
        enc_variant("blech32m", &Hrp::parse("lq").unwrap(), 1, &{ let mut v = gen::pubkey(rng).serialize().to_vec(); v.push(7); v }),
        enc_variant("blech32m", &Hrp::parse("el").unwrap(), 1, &gen::pubkey(rng).serialize()),
        enc_variant("blech32", &Hrp::parse("lq").unwrap(), 0, &gen::pubkey(rng).serialize()),
    ];
    for s in &edge {
        for m in 0..3 {
            k_segwit(out, m, s);
        }
        for v in VARIANTS {
            k_chk(out, v, s);
        }
        out.s("edge_string_rejected_by_address", accepted_anywhere(s).is_none(), || format!("{:?}", s));
    }

    // ---- the one way a replaced hrp still parses: a 2-character hrp replaced by its upper-case form in a
    // string whose data part contains no letter (so the case rule is not violated); the result is the SAME
    // address (BIP173 case-insensitivity), recorded as finding class HRPCASE
    for s in ["ex1994576888070", "ex1980307835520", "ex1985495248386"] {
        let orig = Address::from_str(s);
        out.s("letter_free_address_parses", orig.is_ok(), || s.to_string());
        let t = format!("EX{}", &s[2..]);
        k_segwit(out, 0, &t);
        match (Address::from_str(&t), orig) {
            (Ok(a), Ok(b)) => {
                out.s("hrp_case_variant_names_same_address", a == b, || t.clone());
                out.s_known("hrp_substitution_rejected", "HRPCASE", || format!("orig={} both hrp characters upper-cased={} parses as the same address {}", s, t, a));
            }
            (Ok(a), _) => out.s("hrp_case_variant_names_same_address", false, || format!("{} -> {}", t, a)),
            _ => out.count("hrpcase.rejected"),
        }
        // one upper-cased hrp character only: mixed case, rejected
        let t1 = format!("Ex{}", &s[2..]);
        out.s("hrp_substitution_rejected", accepted_anywhere(&t1).is_none(), || t1.clone());
    }

    // ---- polymod engine on random inputs
    let hrps = ["ex", "lq", "ert", "el", "tex", "tlq", "EX", "TLQ", "a", "bc", "x-y_z", "abcdefghijklmnopqrstuvwxyz0123456789"];
    for i in 0..120 * scale {
        let v = VARIANTS[i % 4];
        let h = hrps[rng.gen_range(0..hrps.len())];
        let n = match rng.gen_range(0..5) { 0 => 0, 1 => rng.gen_range(1..14), 2 => rng.gen_range(14..140), 3 => 1 + rng.gen_range(0..3), _ => rng.gen_range(0..300) };
        let syms: Vec<u8> = (0..n).map(|_| rng.gen_range(0..32u8)).collect();
        k_polymod(out, v, h, &syms);
    }
    // all-zero / single-symbol strings (the rows of the distance table)
    for v in VARIANTS {
        for e in [1u8, 2, 16, 31] {
            for d in [0usize, 1, 5, 6, 11, 12, 13, 100, 1022, 1023] {
                let mut syms = vec![e];
                syms.extend(std::iter::repeat(0).take(d));
                k_polymod(out, v, "ex", &syms);
            }
        }
    }

    // ---- valid addresses and near misses through the decoders (K) and the address parser (S)
    let reps = representative(rng, thorough);
    for (a, label) in &reps {
        let s = a.to_string();
        out.count(&format!("addr.{}", label.split('/').skip(1).take(2).collect::<Vec<_>>().join("/")));
        let blinded = a.blinding_pubkey.is_some();
        out.s("valid_address_parses", Address::from_str(&s).ok().as_ref() == Some(a) && Address::parse_with_params(&s, a.params).ok().as_ref() == Some(a), || s.clone());
        out.s("valid_address_parses_uppercase", Address::from_str(&s.to_uppercase()).ok().as_ref() == Some(a), || s.clone());
        // mixed case ACROSS the separator (whole hrp in one case, whole data part in the other) must be rejected
        // whenever both parts contain a letter: BIP173 forbids mixed case anywhere in the string
        {
            let sep = sep_pos(&s);
            let (h, d) = s.split_at(sep);
            let has_alpha = |x: &str| x.bytes().any(|c| c.is_ascii_alphabetic());
            if has_alpha(h) && has_alpha(&d[1..]) {
                for t in [format!("{}{}", h.to_uppercase(), d), format!("{}{}", h, d.to_uppercase())] {
                    let acc = accepted_anywhere(&t);
                    out.s("mixed_case_across_separator_rejected", acc.is_none(), || format!("orig={} mixed={} accepted: {}", s, t, acc.clone().unwrap_or_default()));
                    for m in 0..3 {
                        k_segwit(out, m, &t);
                    }
                }
            }
        }
        for m in 0..3 {
            k_segwit(out, m, &s);
            k_segwit(out, m, &s.to_uppercase());
        }
        for v in VARIANTS {
            k_chk(out, v, &s);
        }
        // a few corrupted versions through K as well
        let sep = sep_pos(&s);
        for _ in 0..6 {
            let i = sep + 1 + rng.gen_range(0..s.len() - sep - 1);
            let t = substitute(&s, &[(i, CHARSET[rng.gen_range(0..32)])]);
            k_segwit(out, if blinded { 1 } else { 0 }, &t);
            k_chk(out, VARIANTS[rng.gen_range(0..4)], &t);
        }
        // version character replaced by every other symbol: variant switch and >16
        for c in CHARSET.iter() {
            let t = substitute(&s, &[(sep + 1, *c)]);
            k_segwit(out, if blinded { 1 } else { 0 }, &t);
        }
        // the same payload under the wrong checksum variant
        if let Payload::WitnessProgram { version, program } = &a.payload {
            let ver = version.to_u8();
            let mut payload = vec![];
            if let Some(pk) = &a.blinding_pubkey {
                payload.extend_from_slice(&pk.serialize());
            }
            payload.extend_from_slice(program);
            let hrp = if blinded { a.params.blech_hrp } else { a.params.bech_hrp };
            let right = match (blinded, ver == 0) { (false, true) => "bech32", (false, false) => "bech32m", (true, true) => "blech32", (true, false) => "blech32m" };
            let wrong = match right { "bech32" => "bech32m", "bech32m" => "bech32", "blech32" => "blech32m", _ => "blech32" };
            out.s("display_uses_required_variant", enc_variant(right, &hrp, ver, &payload) == s, || s.clone());
            let w = enc_variant(wrong, &hrp, ver, &payload);
            k_segwit(out, if blinded { 1 } else { 0 }, &w);
            let acc = accepted_anywhere(&w);
            out.s("wrong_variant_rejected", acc.is_none(), || format!("{} {} accepted: {}", label, w, acc.clone().unwrap_or_default()));
            // decoder accepts iff the independent polymod hits the target
            let lower: Vec<u8> = hrp.as_str().bytes().collect();
            let syms: Vec<u8> = s.as_bytes()[sep + 1..].iter().map(|c| CHARSET.iter().position(|x| x == c).unwrap() as u8).collect();
            let (g, l, t) = ref_params(right);
            out.s("valid_address_has_target_residue", ref_polymod(g, l, &lower, &syms) == t, || s.clone());
        }
        // the verdict on a string does not depend on what was parsed before it: after every kind of REFUSED input
        // (too short for a checksum, bad checksum, bad character, mixed case, empty data, wrong variant) the valid
        // string still parses to the same address, and a corrupted one is still refused
        {
            let hrp_s = &s[..sep];
            let one_off = substitute(&s, &[(s.len() - 3, if s.as_bytes()[s.len() - 3] == b'q' { b'p' } else { b'q' })]);
            let junk: Vec<String> = vec![
                format!("{}1", hrp_s), format!("{}1q", hrp_s), format!("{}1qqqqq", hrp_s), format!("{}1t2m0zfxptsf", hrp_s),
                format!("{}1{}", hrp_s, &s[sep + 1..sep + 8]), format!("{}1{}", hrp_s, &s[sep + 1..s.len() - 1]),
                one_off.clone(), format!("{}b", s), s[..s.len() - 1].to_string(), format!("{}1{}", hrp_s, s[sep + 1..].to_uppercase()),
                String::new(), "1".into(), format!("{}1{}", hrp_s, "q".repeat(200)),
            ];
            for j in &junk {
                let before = Address::from_str(j).is_ok() || Address::parse_with_params(j, a.params).is_ok();
                out.count(if before { "history.junk_accepted" } else { "history.junk_refused" });
                let ok = Address::from_str(&s).ok().as_ref() == Some(a) && Address::parse_with_params(&s, a.params).ok().as_ref() == Some(a);
                out.s("valid_address_parses_after_refused_input", ok, || format!("{} valid={} parsed right after refused input {:?}", label, s, j));
                let _ = Address::from_str(j);
                let acc = accepted_fast(&one_off, a.params);
                out.s("single_substitution_rejected", acc.is_none(), || format!("{} orig={} corrupted={} (parsed right after {:?}) accepted: {}", label, s, one_off, j, acc.clone().unwrap_or_default()));
            }
        }
        single_subs(out, a, label, false);
        if thorough {
            single_subs(out, a, label, true);
        }
        double_subs_sampled(rng, out, a, label, if thorough { 20000 } else { 1500 });
        hrp_subs(out, a, label, thorough);
    }
    if thorough {
        // complete enumeration of all two-position substitutions for 12 representative addresses
        let mut done = 0;
        for (name, p) in nets() {
            for (blinded, ver, len) in [(false, 0u8, 20usize), (false, 1, 32), (true, 0, 20), (true, 1, 32)] {
                let bl = if blinded { Some(gen::pubkey(rng)) } else { None };
                let a = wit_addr(p, ver, gen::bytes(rng, len), bl);
                double_subs_exhaustive(out, &a, &format!("{}/{}/v{}/{}", name, blinded, ver, len));
                done += 1;
            }
        }
        out.count_n("exhaustive_double.addresses", done);
    }

    // ---- custom networks (`parse_with_params` with caller-supplied parameters): hrps of 1..83 characters, so that the
    // printed address lies on either side of every length limit of the decoders. Whatever the clean decoder does with
    // an over-long VALID string, no string one or two data characters away from a valid one may parse.
    for hl in [1usize, 2, 10, 30, 31, 32, 50, 51, 52, 70, 83] {
        for (blinded, ver, len) in [(false, 0u8, 20usize), (false, 0, 32), (false, 1, 32), (false, 2, 40), (true, 0, 20), (true, 1, 32)] {
            let mk_hrp = |seed: usize| -> String { (0..hl).map(|i| (b'a' + ((i * 7 + seed) % 26) as u8) as char).collect() };
            let params: &'static AddressParams = Box::leak(Box::new(AddressParams {
                p2pkh_prefix: 1, p2sh_prefix: 2, blinded_prefix: 3,
                bech_hrp: Hrp::parse_unchecked(&mk_hrp(0)), blech_hrp: Hrp::parse_unchecked(&mk_hrp(3)),
            }));
            let bl = if blinded { Some(gen::pubkey(rng)) } else { None };
            let a = wit_addr(params, ver, gen::bytes(rng, len), bl);
            let s = a.to_string();
            let sep = sep_pos(&s);
            let valid_parses = Address::parse_with_params(&s, params).is_ok();
            out.count(&format!("custom_hrp.len{}.total{}.valid_{}", hl, if s.len() <= 90 { "le90" } else { "gt90" }, if valid_parses { "parses" } else { "refused" }));
            if valid_parses {
                out.s("valid_address_parses", Address::parse_with_params(&s, params).ok().as_ref() == Some(&a), || s.clone());
            }
            // every single substitution at the version character and at 6 other data positions; sampled doubles
            let mut positions = vec![sep + 1, sep + 2, s.len() - 1, s.len() - 7];
            for _ in 0..3 { positions.push(sep + 1 + rng.gen_range(0..s.len() - sep - 1)); }
            let mut n = 0u64;
            for &i in &positions {
                for &c in CHARSET.iter() {
                    if c == s.as_bytes()[i] { continue; }
                    let t = substitute(&s, &[(i, c)]);
                    n += 1;
                    let r = Address::parse_with_params(&t, params);
                    out.s("single_substitution_rejected", r.is_err(), || format!("custom hrp of {} chars, orig={} corrupted={} accepted: {:?}", hl, s, t, r.as_ref().ok().map(|x| x.to_string())));
                    let j = sep + 1 + rng.gen_range(0..s.len() - sep - 1);
                    if j != i {
                        let c2 = CHARSET[rng.gen_range(0..32)];
                        if c2 != s.as_bytes()[j] {
                            let t2 = substitute(&s, &[(i, c), (j, c2)]);
                            let r2 = Address::parse_with_params(&t2, params);
                            out.s("double_substitution_rejected", r2.is_err(), || format!("custom hrp of {} chars, orig={} corrupted={} accepted: {:?}", hl, s, t2, r2.as_ref().ok().map(|x| x.to_string())));
                        }
                    }
                }
            }
            out.count_n("subst.custom_hrp", n);
        }
    }

    // ---- many random addresses, sampled corruption (breadth over lengths / versions)
    for _ in 0..60 * scale {
        let (_, p) = nets()[rng.gen_range(0..3)];
        let blinded = rng.gen_bool(0.5);
        let ver: u8 = if rng.gen_bool(0.3) { 0 } else { rng.gen_range(1..=16) };
        let len = if ver == 0 { if rng.gen_bool(0.5) { 20 } else { 32 } } else { rng.gen_range(2..=40) };
        let bl = if blinded { Some(gen::pubkey(rng)) } else { None };
        let a = wit_addr(p, ver, gen::bytes(rng, len), bl);
        let label = format!("rand/{}/v{}/{}", blinded, ver, len);
        out.count(&format!("rand.len{}", len / 10 * 10));
        out.s("valid_address_parses", Address::from_str(&a.to_string()).ok().as_ref() == Some(&a), || a.to_string());
        double_subs_sampled(rng, out, &a, &label, 200);
        // sampled single substitutions
        let s = a.to_string();
        let sep = sep_pos(&s);
        for _ in 0..100 {
            let i = sep + 1 + rng.gen_range(0..s.len() - sep - 1);
            let mut c = CHARSET[rng.gen_range(0..32)];
            while c == s.as_bytes()[i] {
                c = CHARSET[rng.gen_range(0..32)];
            }
            let t = substitute(&s, &[(i, c)]);
            let acc = accepted_anywhere(&t);
            out.s("single_substitution_rejected", acc.is_none(), || format!("{} orig={} corrupted={} accepted: {}", label, s, t, acc.clone().unwrap_or_default()));
        }
    }
}
