//! C06 — addresses round-trip through text, are canonical, and name exactly one network
use super::c17::{enc_variant, nets, ref_params, ref_polymod, shex, CHARSET};
use crate::{gen, hex, Out, Rng, R};
use bech32::{Fe32, Hrp};
use elements::address::Payload;
use elements::hashes::{sha256d, Hash};
use elements::bitcoin::hashes::Hash as _;
use elements::secp256k1_zkp::PublicKey;
use elements::{Address, AddressParams, PubkeyHash, ScriptHash};
use std::str::FromStr;

/// model growth: conversions, inspectors and constructors (`EV.Model.AddressOps`)
#[path = "c06_ops.rs"]
mod ops;

fn net_name(p: &AddressParams) -> &'static str {
    for (n, q) in nets() {
        if p == q {
            return n;
        }
    }
    "?"
}

fn blinder_hex(b: &Option<PublicKey>) -> String {
    match b {
        Some(pk) => hex(&pk.serialize()),
        None => "-".into(),
    }
}

fn payload_desc(p: &Payload) -> String {
    match p {
        Payload::PubkeyHash(h) => format!("pkh {}", hex(h.as_ref())),
        Payload::ScriptHash(h) => format!("sh {}", hex(h.as_ref())),
        Payload::WitnessProgram { version, program } => format!("wit {} {}", version.to_u8(), hex(program)),
    }
}

fn addr_desc(a: &Address) -> String {
    format!("{} {} {}", net_name(a.params), payload_desc(&a.payload), blinder_hex(&a.blinding_pubkey))
}

fn k_display(out: &mut Out, a: &Address) {
    let res = Out::guard(|| format!("ok {}", a));
    out.k(format!("addr.display {}", addr_desc(a)), res);
}
fn k_parse(out: &mut Out, s: &str) {
    let res = Out::guard(|| match Address::from_str(s) {
        Ok(a) => format!("ok {}", addr_desc(&a)),
        Err(_) => "err".into(),
    });
    out.count(if res == "err" { "parse.err" } else if res == "panic" { "parse.panic" } else { "parse.ok" });
    out.k(format!("addr.parse {}", shex(s)), res);
}
fn k_parsewith(out: &mut Out, net: &str, p: &'static AddressParams, s: &str) {
    let res = Out::guard(|| match Address::parse_with_params(s, p) {
        Ok(a) => format!("ok {}", addr_desc(&a)),
        Err(_) => "err".into(),
    });
    out.k(format!("addr.parsewith {} {}", net, shex(s)), res);
}

// ---------------------------------------------------------------- independent encoders

const B58: &[u8; 58] = b"123456789ABCDEFGHJKLMNPQRSTUVWXYZabcdefghijkmnopqrstuvwxyz";

/// base58 by schoolbook long division of the big-endian number
pub fn ref_b58(data: &[u8]) -> String {
    let zeros = data.iter().take_while(|b| **b == 0).count();
    let mut num: Vec<u8> = data[zeros..].to_vec();
    let mut digits: Vec<u8> = vec![];
    while !num.is_empty() {
        let mut rem: u32 = 0;
        let mut q: Vec<u8> = vec![];
        for b in &num {
            let cur = rem * 256 + *b as u32;
            let d = cur / 58;
            rem = cur % 58;
            if !q.is_empty() || d != 0 {
                q.push(d as u8);
            }
        }
        digits.push(rem as u8);
        num = q;
    }
    let mut s = String::new();
    for _ in 0..zeros {
        s.push('1');
    }
    for d in digits.iter().rev() {
        s.push(B58[*d as usize] as char);
    }
    s
}
pub fn ref_b58check(payload: &[u8]) -> String {
    let ck = sha256d::Hash::hash(payload).to_byte_array();
    let mut v = payload.to_vec();
    v.extend_from_slice(&ck[..4]);
    ref_b58(&v)
}
/// BIP173 `convertbits(data, 8, 5, pad = true)`
fn ref_convertbits(data: &[u8]) -> Vec<u8> {
    let mut acc: u32 = 0;
    let mut bits = 0;
    let mut ret = vec![];
    for b in data {
        acc = (acc << 8) | *b as u32;
        bits += 8;
        while bits >= 5 {
            bits -= 5;
            ret.push(((acc >> bits) & 31) as u8);
        }
    }
    if bits > 0 {
        ret.push(((acc << (5 - bits)) & 31) as u8);
    }
    ret
}
/// bech32 / bech32m / blech32 / blech32m string from scratch (BIP173 reference algorithm with the
/// variant's generator table, checksum length and constant)
pub fn ref_segwit(variant: &str, hrp: &str, ver: u8, payload: &[u8]) -> String {
    let mut syms = vec![ver];
    syms.extend(ref_convertbits(payload));
    ref_segwit_syms(variant, hrp, &syms)
}
/// the same from data symbols (witness version first), so that non-canonical symbol strings can be built
pub fn ref_segwit_syms(variant: &str, hrp: &str, syms: &[u8]) -> String {
    let (g, l, target) = ref_params(variant);
    let mut padded = syms.to_vec();
    padded.extend(std::iter::repeat(0).take(l as usize));
    let lower: Vec<u8> = hrp.bytes().map(|b| b.to_ascii_lowercase()).collect();
    let pm = ref_polymod(g, l, &lower, &padded) ^ target;
    let mut s = String::from(hrp);
    s.push('1');
    for v in syms {
        s.push(CHARSET[*v as usize] as char);
    }
    for i in 0..l {
        s.push(CHARSET[((pm >> (5 * (l - 1 - i))) & 31) as usize] as char);
    }
    s
}

fn ref_display(a: &Address) -> String {
    match &a.payload {
        Payload::PubkeyHash(_) | Payload::ScriptHash(_) => {
            let (pre, h): (u8, &[u8]) = match &a.payload {
                Payload::PubkeyHash(h) => (a.params.p2pkh_prefix, h.as_ref()),
                Payload::ScriptHash(h) => (a.params.p2sh_prefix, h.as_ref()),
                _ => unreachable!(),
            };
            let mut v = vec![];
            if let Some(pk) = &a.blinding_pubkey {
                v.push(a.params.blinded_prefix);
                v.push(pre);
                v.extend_from_slice(&pk.serialize());
            } else {
                v.push(pre);
            }
            v.extend_from_slice(h);
            ref_b58check(&v)
        }
        Payload::WitnessProgram { version, program } => {
            let ver = version.to_u8();
            match &a.blinding_pubkey {
                Some(pk) => {
                    let mut v = pk.serialize().to_vec();
                    v.extend_from_slice(program);
                    ref_segwit(if ver == 0 { "blech32" } else { "blech32m" }, a.params.blech_hrp.as_str(), ver, &v)
                }
                None => ref_segwit(if ver == 0 { "bech32" } else { "bech32m" }, a.params.bech_hrp.as_str(), ver, program),
            }
        }
    }
}

// ---------------------------------------------------------------- generators

fn mk(params: &'static AddressParams, payload: Payload, blinder: Option<PublicKey>) -> Address {
    Address { params, payload, blinding_pubkey: blinder }
}
fn pkh(rng: &mut R) -> Payload {
    let mut h = [0u8; 20];
    rng.fill(&mut h[..]);
    Payload::PubkeyHash(PubkeyHash::from_byte_array(h))
}
fn sh(rng: &mut R) -> Payload {
    let mut h = [0u8; 20];
    rng.fill(&mut h[..]);
    Payload::ScriptHash(ScriptHash::from_byte_array(h))
}
fn wit(rng: &mut R, ver: u8, len: usize) -> Payload {
    Payload::WitnessProgram { version: Fe32::try_from(ver).unwrap(), program: gen::bytes(rng, len) }
}
fn bytes_edge(rng: &mut R, len: usize) -> Vec<u8> {
    match rng.gen_range(0..6) {
        0 => vec![0; len],
        1 => vec![0xff; len],
        2 => { let mut v = gen::bytes(rng, len); if len > 0 { v[0] = 0; } v }
        _ => gen::bytes(rng, len),
    }
}

fn shape_ok(a: &Address) -> bool {
    match &a.payload {
        Payload::PubkeyHash(_) | Payload::ScriptHash(_) => true, // 20 bytes by type
        Payload::WitnessProgram { version, program } => {
            let v = version.to_u8();
            v <= 16 && program.len() >= 2 && program.len() <= 40 && (v != 0 || program.len() == 20 || program.len() == 32)
        }
    }
}

/// everything the property says about one standard address
fn check_valid(out: &mut Out, a: &Address) {
    let s = a.to_string();
    k_display(out, a);
    k_parse(out, &s);
    let own = a.params;
    let detail = || format!("{} [{}]", s, addr_desc(a));
    out.s("roundtrip_from_str", Address::from_str(&s).ok().as_ref() == Some(a), detail);
    out.s("roundtrip_parse_with_params", Address::parse_with_params(&s, own).ok().as_ref() == Some(a), detail);
    out.s("independent_encoder_agrees", ref_display(a) == s, || format!("real={} ref={}", s, ref_display(a)));
    let is_segwit = matches!(a.payload, Payload::WitnessProgram { .. });
    if is_segwit {
        let up = s.to_uppercase();
        k_parse(out, &up);
        out.s("roundtrip_uppercase", Address::from_str(&up).ok().as_ref() == Some(a) && Address::parse_with_params(&up, own).ok().as_ref() == Some(a), detail);
        out.s("canonical_lowercase", Address::from_str(&up).map(|x| x.to_string()).ok() == Some(s.clone()), detail);
        // the bech32 crate used directly (unblinded only: it knows nothing about blech32)
        if a.blinding_pubkey.is_none() {
            if let Payload::WitnessProgram { version, program } = &a.payload {
                let c = bech32::segwit::encode(a.params.bech_hrp, *version, program).ok();
                out.s("bech32_crate_encoder_agrees", c.as_deref() == Some(s.as_str()), || format!("real={} crate={:?}", s, c));
            }
        }
        // mixed case must be rejected
        let mut mixed = s.clone().into_bytes();
        if let Some(i) = mixed.iter().rposition(|c| c.is_ascii_lowercase()) {
            mixed[i] = mixed[i].to_ascii_uppercase();
        }
        let mixed = String::from_utf8(mixed).unwrap();
        k_parse(out, &mixed);
        out.s("mixed_case_rejected", Address::from_str(&mixed).is_err(), || mixed.clone());
        // the two case patterns that keep each PART in one case: HRP upper + data lower, HRP lower + data upper
        if let Some(sep) = s.rfind('1') {
            for m in [format!("{}{}", s[..sep].to_uppercase(), &s[sep..]), format!("{}{}", &s[..sep], s[sep..].to_uppercase())] {
                if m != s && m != up {
                    k_parse(out, &m);
                    out.count("parse.mixed_case_across_separator");
                    out.s("mixed_case_rejected", Address::from_str(&m).is_err() && Address::parse_with_params(&m, own).is_err(), || m.clone());
                }
            }
        }
    } else {
        out.s("canonical_base58", Address::from_str(&s).map(|x| x.to_string()).ok() == Some(s.clone()), detail);
    }
    // one network
    let mut accepted = vec![];
    for (n, p) in nets() {
        k_parsewith(out, n, p, &s);
        if Address::parse_with_params(&s, p).is_ok() {
            accepted.push(n);
        }
    }
    out.s("exactly_one_network", accepted == vec![net_name(own)], || format!("{} accepted by {:?}", s, accepted));
    out.s("parsed_shape", Address::from_str(&s).map(|x| shape_ok(&x)).unwrap_or(false), detail);
}

/// a string that must not parse anywhere
fn check_invalid(out: &mut Out, what: &str, s: &str) {
    k_parse(out, s);
    let (n, p) = nets()[s.len() % 3];
    k_parsewith(out, n, p, s);
    let acc = super::c17::accepted_anywhere(s);
    out.s(what, acc.is_none(), || format!("{} accepted: {}", s, acc.clone().unwrap_or_default()));
}

/// a string that must not parse anywhere; K through from_str, parse_with_params of EVERY network and both
/// segwit decoders
fn check_invalid_all(out: &mut Out, what: &str, s: &str) {
    k_parse(out, s);
    for (n, p) in nets() {
        k_parsewith(out, n, p, s);
    }
    super::c17::k_segwit(out, 0, s);
    super::c17::k_segwit(out, 1, s);
    let acc = super::c17::accepted_anywhere(s);
    out.s(what, acc.is_none(), || format!("{} accepted: {}", s, acc.clone().unwrap_or_default()));
}

/// non-canonical padding: the payload symbols of a (otherwise standard) witness program with every non-zero
/// pattern in the k padding bits of the last symbol (checksum recomputed by the independent encoder), and,
/// where it cannot be read as a longer program, one extra all-zero symbol
fn dirty_padding(out: &mut Out, params: &'static AddressParams, blinder: Option<PublicKey>, ver: u8, prog: &[u8]) {
    let blinded = blinder.is_some();
    let mut payload = vec![];
    if let Some(pk) = &blinder {
        payload.extend_from_slice(&pk.serialize());
    }
    payload.extend_from_slice(prog);
    let hrp = if blinded { params.blech_hrp } else { params.bech_hrp };
    let variant = right_variant(blinded, ver);
    let mut syms = vec![ver];
    syms.extend(ref_convertbits(&payload));
    let k = (syms.len() - 1) * 5 - payload.len() * 8;
    out.count(&format!("padding.bits{}.{}", k, if blinded { "blinded" } else { "plain" }));
    // the clean string is the displayed one
    let a = mk(params, Payload::WitnessProgram { version: Fe32::try_from(ver).unwrap(), program: prog.to_vec() }, blinder);
    let clean = ref_segwit_syms(variant, hrp.as_str(), &syms);
    out.s("independent_encoder_agrees", clean == a.to_string(), || format!("real={} ref={}", a, clean));
    for pat in 1u8..(1 << k) {
        let mut d = syms.clone();
        *d.last_mut().unwrap() |= pat;
        let t = ref_segwit_syms(variant, hrp.as_str(), &d);
        k_parse(out, &t);
        k_parsewith(out, net_name(params), params, &t);
        super::c17::k_segwit(out, if blinded { 1 } else { 0 }, &t);
        let acc = super::c17::accepted_anywhere(&t);
        out.s("dirty_padding_rejected", acc.is_none(), || format!("padding bits {} pattern {:#b}: {} accepted: {} (canonical string {})", k, pat, t, acc.clone().unwrap_or_default(), clean));
        if pat == (1 << (k - 1)) || pat == 1 {
            let up = t.to_uppercase();
            k_parse(out, &up);
            let acc = super::c17::accepted_anywhere(&up);
            out.s("dirty_padding_rejected", acc.is_none(), || format!("padding bits {} pattern {:#b}: {} accepted: {}", k, pat, up, acc.clone().unwrap_or_default()));
        }
    }
    if k <= 2 {
        // 5 + k < 8 surplus bits: too much padding
        let mut d = syms.clone();
        d.push(0);
        let t = ref_segwit_syms(variant, hrp.as_str(), &d);
        k_parse(out, &t);
        super::c17::k_segwit(out, if blinded { 1 } else { 0 }, &t);
        let acc = super::c17::accepted_anywhere(&t);
        out.s("excess_padding_rejected", acc.is_none(), || format!("{} accepted: {}", t, acc.clone().unwrap_or_default()));
    }
}

/// any string: at most one network, shape, canonical form, consistency of from_str with parse_with_params
fn check_any(out: &mut Out, s: &str) {
    k_parse(out, s);
    let fs = Address::from_str(s).ok();
    let mut oks = vec![];
    for (n, p) in nets() {
        if let Ok(a) = Address::parse_with_params(s, p) {
            oks.push((n, a));
        }
    }
    out.s("at_most_one_network", oks.len() <= 1, || format!("{} accepted by {:?}", s, oks.iter().map(|x| x.0).collect::<Vec<_>>()));
    out.s("from_str_consistent", match (&fs, oks.first()) { (Some(a), Some((_, b))) => a == b, (None, None) => true, _ => false }, || s.to_string());
    if let Some(a) = &fs {
        out.count("any.parsed");
        out.s("parsed_shape", shape_ok(a), || format!("{} -> {}", s, addr_desc(a)));
        let canon = if matches!(a.payload, Payload::WitnessProgram { .. }) { s.to_lowercase() } else { s.to_string() };
        out.s("parse_display_canonical", a.to_string() == canon, || format!("{} -> {}", s, a));
    } else {
        out.count("any.rejected");
    }
}

fn right_variant(blinded: bool, ver: u8) -> &'static str {
    match (blinded, ver == 0) { (false, true) => "bech32", (false, false) => "bech32m", (true, true) => "blech32", (true, false) => "blech32m" }
}
fn wrong_variant(blinded: bool, ver: u8) -> &'static str {
    right_variant(blinded, if ver == 0 { 1 } else { 0 })
}

pub fn run(rng: &mut R, out: &mut Out) {
    let thorough = out.tier_thorough;
    let scale = if thorough { 12 } else { 1 };

    // ---- fixed vectors from the repo's tests and historical failures first
    for s in [
        "2dxmEBXc2qMYcLSKiDBxdEePY3Ytixmnh4E", "XToMocNywBYNSiXUe5xvoa2naAps9Ek1hq", "ert1qew0l0emv7449u7hqgc8utzdzryhse79yhq2sxv",
        "CTEkf75DFff5ReB7juTg2oehrj41aMj21kvvJaQdWsEAQohz1EDhu7Ayh6goxpz3GZRVKidTtaXaXYEJ",
        "el1qqw3e3mk4ng3ks43mh54udznuekaadh9lgwef3mwgzrfzakmdwcvqpe4ppdaa3t44v3zv2u6w56pv6tc666fvgzaclqjnkz0sd",
        "QFq3vvrr6Ub2KAyb3LdoCxEQvKukB4nN7i", "Gq8HQ5vTGwhNQNA9TMTkyPMyLrbJMuvNdP", "ex1q7gkeyjut0mrxc3j0kjlt7rmcnvsh0gt45d3fud",
        "VTpzxkqVGbraaCz18fQ2GxLvZkupCi2CAdL1j7AsR8hnUcYEgiMC3AAUT7MB2aYvk1oDJBxbSuW7nhS7",
        "lq1qqf8er278e6nyvuwtgf39e6ewvdcnjupn9a86rzpx655y5lhkt0walu3djf9cklkxd3ryld97hu8h3xepw7sh2rlu7q45dcew5",
        "FojPFeboBgrd953mXXe72KWthjVwHWozqN", "8slX6xYY7bLlRH3cWSZhCVU4HpxvgVTm6q", "tex1q6rz28mcfaxtmd6v789l9rrlrusdprr9p634wu8",
        "vtS71VhcpFt978sha5d1L2gCzp3UL7fhVDBaFjMAJLU4uwdpWsSATpNaSMMjkTs3FtpSyGNpBp7DdRSm",
        "tlq1qq2xvpcvfup5j8zscjq05u2wxxjcyewk7979f3mmz5l7uw5pqmx6xf5xy50hsn6vhkm5euwt72x878eq6zxx2z58hd7zrsg9qn",
        "el1pq0umk3pez693jrrlxz9ndlkuwne93gdu9g83mhhzuyf46e3mdzfpva0w48gqgzgrklncnm0k5zeyw8my2ypfsmxh4xcjh2rse",
        "ert1pu4lwd5xpfjqdr08za8nsa9hyyhd47nca26pkm2wn79l7kh3zl0nswjfrp8",
    ] {
        if let Ok(a) = Address::from_str(s) {
            out.count("corpus.valid");
            check_valid(out, &a);
        } else {
            out.count("corpus.invalid");
            check_invalid(out, "corpus_invalid_stays_invalid", s);
        }
        check_any(out, s);
    }
    for s in ["", "1", "a1", "ex1", "lq1", "el1", "ert1", "tex1", "tlq1", "ex1q", "EX1Q", "11111111111111111111111", "ex", "1ex",
              "0", "O", "I", "l", "é", "ex1é", "3QJmV3qfvL9SuYo34YihAf3sRCW3qSinyC", "bc1qw508d6qejxtdg4y5r3zarvary0c5xw7kv8f3t4"] {
        check_invalid(out, "junk_rejected", s);
        check_any(out, s);
    }
    let long: String = std::iter::repeat('2').take(151).collect();
    check_invalid(out, "junk_rejected", &long);

    // ---- structured: every payload kind × version × length × blinded × network
    let mut all: Vec<Address> = vec![];
    for (_, p) in nets() {
        for blinded in [false, true] {
            let mut kinds: Vec<Payload> = vec![pkh(rng), sh(rng), wit(rng, 0, 20), wit(rng, 0, 32)];
            for ver in 1..=16u8 {
                if thorough {
                    for len in 2..=40 {
                        kinds.push(wit(rng, ver, len));
                    }
                } else {
                    for len in [2usize, 3, 20, 32, 39, 40, rng.gen_range(4..39)] {
                        kinds.push(wit(rng, ver, len));
                    }
                }
            }
            // edge byte patterns (leading zero bytes exercise base58's '1' handling)
            for _ in 0..(4 * scale) {
                let mut h = [0u8; 20];
                h.copy_from_slice(&bytes_edge(rng, 20));
                kinds.push(Payload::PubkeyHash(PubkeyHash::from_byte_array(h)));
                h.copy_from_slice(&bytes_edge(rng, 20));
                kinds.push(Payload::ScriptHash(ScriptHash::from_byte_array(h)));
                let ver = rng.gen_range(0..=16u8);
                let len = if ver == 0 { [20, 32][rng.gen_range(0..2)] } else { rng.gen_range(2..=40) };
                kinds.push(Payload::WitnessProgram { version: Fe32::try_from(ver).unwrap(), program: bytes_edge(rng, len) });
            }
            for k in kinds {
                let bl = if blinded { Some(gen::pubkey(rng)) } else { None };
                all.push(mk(p, k, bl));
            }
        }
    }
    for a in &all {
        let kind = match &a.payload { Payload::PubkeyHash(_) => "pkh".to_string(), Payload::ScriptHash(_) => "sh".to_string(), Payload::WitnessProgram { version, .. } => format!("wit.v{}", version.to_u8().min(2)) };
        out.count(&format!("valid.{}.{}", kind, if a.blinding_pubkey.is_some() { "blinded" } else { "plain" }));
        check_valid(out, a);
    }

    // ---- near misses
    let sample: Vec<Address> = if thorough { all.clone() } else { all.iter().step_by(3).cloned().collect() };
    for a in &sample {
        let s = a.to_string();
        let blinded = a.blinding_pubkey.is_some();
        match &a.payload {
            Payload::WitnessProgram { version, program } => {
                let ver = version.to_u8();
                let mut payload = vec![];
                if let Some(pk) = &a.blinding_pubkey {
                    payload.extend_from_slice(&pk.serialize());
                }
                payload.extend_from_slice(program);
                let own_hrp = if blinded { a.params.blech_hrp } else { a.params.bech_hrp };
                // other network's hrp: re-encoded it names the other network only
                for (n2, p2) in nets() {
                    if p2 == a.params {
                        continue;
                    }
                    let hrp2 = if blinded { p2.blech_hrp } else { p2.bech_hrp };
                    let t = enc_variant(right_variant(blinded, ver), &hrp2, ver, &payload);
                    k_parse(out, &t);
                    k_parsewith(out, net_name(a.params), a.params, &t);
                    out.s("other_network_hrp_names_other_network", Address::from_str(&t).map(|x| net_name(x.params)).ok() == Some(n2) && Address::parse_with_params(&t, a.params).is_err(), || t.clone());
                    // prefix swapped without re-computing the checksum
                    let swapped = format!("{}{}", hrp2.as_str(), &s[own_hrp.as_str().len()..]);
                    check_invalid(out, "cross_network_prefix_rejected", &swapped);
                    // blinded <-> unblinded hrp of the same network
                    let other_kind = if blinded { a.params.bech_hrp } else { a.params.blech_hrp };
                    let swapped = format!("{}{}", other_kind.as_str(), &s[own_hrp.as_str().len()..]);
                    check_invalid(out, "cross_kind_prefix_rejected", &swapped);
                }
                // wrong checksum variant
                let w = enc_variant(wrong_variant(blinded, ver), &own_hrp, ver, &payload);
                check_invalid(out, "wrong_variant_rejected", &w);
                // blinded payload under the unblinded algorithm and vice versa (same hrp)
                let w = enc_variant(right_variant(!blinded, ver), &own_hrp, ver, &payload);
                check_invalid(out, "wrong_algorithm_rejected", &w);
                // versions above 16
                let v17 = rng.gen_range(17..32u8);
                let w = enc_variant(right_variant(blinded, v17), &own_hrp, v17, &payload);
                check_invalid(out, "version_above_16_rejected", &w);
                k_display(out, &mk(a.params, Payload::WitnessProgram { version: Fe32::try_from(v17).unwrap(), program: program.clone() }, a.blinding_pubkey));
            }
            _ => {
                // base58: other network's version byte, wrong lengths, broken checksum
                let data = elements::bitcoin::base58::decode_check(&s).unwrap();
                for (n2, p2) in nets() {
                    if p2 == a.params {
                        continue;
                    }
                    let mut d2 = data.clone();
                    let is_pkh = matches!(a.payload, Payload::PubkeyHash(_));
                    if blinded {
                        d2[0] = p2.blinded_prefix;
                        d2[1] = if is_pkh { p2.p2pkh_prefix } else { p2.p2sh_prefix };
                    } else {
                        d2[0] = if is_pkh { p2.p2pkh_prefix } else { p2.p2sh_prefix };
                    }
                    let t = ref_b58check(&d2);
                    k_parse(out, &t);
                    k_parsewith(out, net_name(a.params), a.params, &t);
                    out.s("other_network_prefix_names_other_network", Address::from_str(&t).map(|x| net_name(x.params)).ok() == Some(n2) && Address::parse_with_params(&t, a.params).is_err(), || t.clone());
                    if blinded {
                        // blinded prefix of one network, inner prefix of another
                        let mut d3 = data.clone();
                        d3[1] = if is_pkh { p2.p2pkh_prefix } else { p2.p2sh_prefix };
                        check_invalid(out, "mixed_network_prefixes_rejected", &ref_b58check(&d3));
                    }
                }
                let mut d = data.clone();
                d.push(rng.gen());
                check_invalid(out, "base58_wrong_length_rejected", &ref_b58check(&d));
                let mut d = data.clone();
                d.pop();
                check_invalid(out, "base58_wrong_length_rejected", &ref_b58check(&d));
                let mut d = data.clone();
                d[0] = loop { let b: u8 = rng.gen(); if ![57u8, 39, 12, 235, 75, 4, 36, 19, 23].contains(&b) { break b; } };
                check_invalid(out, "base58_unknown_version_rejected", &ref_b58check(&d));
                // checksum broken: change one character
                let mut t = s.clone().into_bytes();
                let i = rng.gen_range(0..t.len());
                let c = B58[rng.gen_range(0..58)];
                if t[i] != c {
                    t[i] = c;
                    check_invalid(out, "base58_broken_checksum_rejected", &String::from_utf8(t).unwrap());
                }
                if blinded {
                    // invalid blinding key
                    let mut d = data.clone();
                    d[2] = [0u8, 1, 4, 5, 6, 7][rng.gen_range(0..6)];
                    check_invalid(out, "invalid_blinding_key_rejected", &ref_b58check(&d));
                    let mut d = data.clone();
                    for b in &mut d[3..35] { *b = 0xff; }
                    check_invalid(out, "invalid_blinding_key_rejected", &ref_b58check(&d));
                }
            }
        }
    }
    // over/under-long programs, all networks, blinded or not
    for (_, p) in nets() {
        for blinded in [false, true] {
            for (ver, len) in [(1u8, 0usize), (1, 1), (1, 41), (1, 42), (16, 0), (2, 1), (0, 19), (0, 21), (0, 31), (0, 33), (0, 0), (0, 1), (0, 2), (0, 40), (0, 41)] {
                let prog = gen::bytes(rng, len);
                let bl = if blinded { Some(gen::pubkey(rng)) } else { None };
                let a = mk(p, Payload::WitnessProgram { version: Fe32::try_from(ver).unwrap(), program: prog }, bl);
                k_display(out, &a);
                let s = a.to_string();
                out.s("independent_encoder_agrees", ref_display(&a) == s, || format!("real={} ref={}", s, ref_display(&a)));
                check_invalid(out, "nonstandard_program_length_rejected", &s);
                k_parse(out, &s.to_uppercase());
            }
            if blinded {
                // invalid blinding key inside a blech32 string
                for bad in [0u8, 4, 5] {
                    let mut payload = gen::pubkey(rng).serialize().to_vec();
                    payload[0] = bad;
                    payload.extend_from_slice(&gen::bytes(rng, 20));
                    check_invalid(out, "invalid_blinding_key_rejected", &enc_variant("blech32", &p.blech_hrp, 0, &payload));
                }
                let mut payload = vec![2u8];
                payload.extend_from_slice(&[0xffu8; 32]);
                payload.extend_from_slice(&gen::bytes(rng, 32));
                check_invalid(out, "invalid_blinding_key_rejected", &enc_variant("blech32m", &p.blech_hrp, 1, &payload));
            }
            // non-zero padding bits / too much padding
            let prog = gen::bytes(rng, 20);
            let bl = if blinded { Some(gen::pubkey(rng)) } else { None };
            let a = mk(p, Payload::WitnessProgram { version: Fe32::Q, program: prog }, bl);
            let s = a.to_string();
            let cklen = if blinded { 12 } else { 6 };
            let mut t = s.clone().into_bytes();
            let pos = t.len() - cklen - 1;
            t[pos] = if t[pos] == b'l' { b'7' } else { b'l' };
            check_invalid(out, "tampered_last_data_char_rejected", &String::from_utf8(t).unwrap());
        }
    }

    // ---- base58 codec on arbitrary byte strings
    for i in 0..(150 * scale) {
        let n = match i % 6 { 0 => 0, 1 => 1, 2 => 21, 3 => 55, 4 => rng.gen_range(0..8), _ => rng.gen_range(0..80) };
        let mut b = bytes_edge(rng, n);
        if i % 7 == 0 && n > 2 { b[1] = 0; }
        let s = elements::bitcoin::base58::encode(&b);
        out.k(format!("b58 {}", hex(&b)), format!("ok {}", s));
        out.s("base58_independent_encoder_agrees", ref_b58(&b) == s, || hex(&b));
        let r = Out::guard(|| match elements::bitcoin::base58::decode(&s) { Ok(v) => format!("ok {}", hex(&v)), Err(_) => "err".into() });
        out.k(format!("unb58 {}", shex(&s)), r);
        out.s("base58_roundtrip", elements::bitcoin::base58::decode(&s).ok().as_deref() == Some(&b[..]), || hex(&b));
        let sc = elements::bitcoin::base58::encode_check(&b);
        let r = Out::guard(|| match elements::bitcoin::base58::decode_check(&sc) { Ok(v) => format!("ok {}", hex(&v)), Err(_) => "err".into() });
        out.k(format!("unb58chk {}", shex(&sc)), r);
        // mutated strings
        let mut t = s.clone().into_bytes();
        if !t.is_empty() {
            let j = rng.gen_range(0..t.len());
            t[j] = [b'0', b'O', b'I', b'l', b'1', b'z', b'2', b' ', 0x80 - 1][rng.gen_range(0..9)];
            let ts = String::from_utf8_lossy(&t).to_string();
            let r = Out::guard(|| match elements::bitcoin::base58::decode(&ts) { Ok(v) => format!("ok {}", hex(&v)), Err(_) => "err".into() });
            out.k(format!("unb58 {}", shex(&ts)), r);
            let r = Out::guard(|| match elements::bitcoin::base58::decode_check(&ts) { Ok(v) => format!("ok {}", hex(&v)), Err(_) => "err".into() });
            out.k(format!("unb58chk {}", shex(&ts)), r);
        }
    }

    // ---- mutated / random strings: at most one network, shape, canonical form
    for a in all.iter().step_by(if thorough { 1 } else { 5 }) {
        let s = a.to_string();
        for _ in 0..3 {
            let mut t = s.clone().into_bytes();
            match rng.gen_range(0..5) {
                0 => { let i = rng.gen_range(0..t.len()); t[i] = CHARSET[rng.gen_range(0..32)]; }
                1 => { let i = rng.gen_range(0..t.len()); t[i] = B58[rng.gen_range(0..58)]; }
                2 => { let i = rng.gen_range(0..t.len()); t.remove(i); }
                3 => { let i = rng.gen_range(0..t.len()); t.insert(i, CHARSET[rng.gen_range(0..32)]); }
                _ => { let i = rng.gen_range(0..t.len()); t[i] = t[i].to_ascii_uppercase(); }
            }
            check_any(out, &String::from_utf8(t).unwrap());
        }
        check_any(out, &s);
        check_any(out, &s.to_uppercase());
    }
    // hrp "a" / separator only strings with valid checksums (F3-style inputs)
    for hrp in ["a", "e", "x", "exx", "lqq"] {
        let h = Hrp::parse(hrp).unwrap();
        for v in ["bech32", "bech32m", "blech32", "blech32m"] {
            check_invalid(out, "unknown_hrp_rejected", &enc_variant(v, &h, 0, &gen::bytes(rng, 20)));
        }
    }

    // ---- non-canonical padding: every program length 2..40, every non-zero padding pattern
    {
        let all_nets = nets();
        let first = rng.gen_range(0..3usize);
        for (ni, (_, p)) in all_nets.iter().enumerate() {
            let full = thorough || ni == first;
            for blinded in [false, true] {
                for len in 2..=40usize {
                    // quick: all lengths for one network; for the others the lengths with 4 padding bits
                    // and a sample of the rest
                    let kbits = { let n = len + if blinded { 33 } else { 0 }; (8 * n + 4) / 5 * 5 - 8 * n };
                    if !full && kbits != 4 && rng.gen_range(0..6) != 0 {
                        continue;
                    }
                    let mut vers: Vec<u8> = vec![1 + (rng.gen_range(0..16u8))];
                    if len == 20 || len == 32 {
                        vers.push(0);
                    }
                    if thorough {
                        vers.push(1);
                        vers.push(16);
                    }
                    for ver in vers {
                        let bl = if blinded { Some(gen::pubkey(rng)) } else { None };
                        dirty_padding(out, p, bl, ver, &bytes_edge(rng, len));
                    }
                }
            }
        }
    }

    // ---- checksum-valid segwit strings over FOREIGN hrps related to the networks' hrps: the decoders split
    // at the LAST '1' and never compare the decoded hrp with the parameters, so only the prefix dispatch
    // keeps these out
    {
        let mut foreign: Vec<String> = vec![];
        for (_, p) in nets() {
            for h in [p.bech_hrp.as_str().to_string(), p.blech_hrp.as_str().to_string()] {
                foreign.push(format!("{}1", h));
                foreign.push(format!("{}1x", h));
                foreign.push(format!("{}1q", h));
                foreign.push(format!("{}11", h));
                foreign.push(format!("{}1test", h));
                foreign.push(format!("1{}", h));
                foreign.push(format!("x{}", h));
                foreign.push(format!("{}q", h));
                foreign.push(format!("{}x", h));
                foreign.push(format!("{}{}", h, h));
                foreign.push(h[..h.len() - 1].to_string());
                foreign.push(h[1..].to_string());
                foreign.push(format!("{}1{}", h, p.bech_hrp.as_str()));
            }
        }
        for h in ["ertnet", "tlqq", "e", "l", "t", "er", "te", "tl", "exlq", "lqex", "ex1lq", "lq1ex", "el1ert", "tex1tlq", "1", "11", "e1x", "bc", "tb"] {
            foreign.push(h.to_string());
        }
        foreign.sort();
        foreign.dedup();
        // strict prefixes / suffixes of one network's hrp may spell another network's hrp ("tex" -> "ex")
        foreign.retain(|h| !nets().iter().any(|(_, p)| p.bech_hrp.as_str() == h || p.blech_hrp.as_str() == h));
        out.count_n("foreign_hrps", foreign.len() as u64);
        for (i, h) in foreign.iter().enumerate() {
            // flavours: bech32 v0/20, bech32m v1/32, blech32 v0/33+20, blech32m v1/33+32 (quick: two of the four
            // per hrp, rotating; hrps of the form <network hrp>1… always get all four)
            let critical = nets().iter().any(|(_, p)| h.starts_with(&format!("{}1", p.bech_hrp.as_str())) || h.starts_with(&format!("{}1", p.blech_hrp.as_str())));
            for (fi, (variant, ver, plen, blinded)) in [("bech32", 0u8, 20usize, false), ("bech32m", 1, 32, false), ("blech32", 0, 20, true), ("blech32m", 1, 32, true)].iter().enumerate() {
                if !thorough && !critical && (fi + i) % 2 == 0 {
                    continue;
                }
                let mut payload = vec![];
                if *blinded {
                    payload.extend_from_slice(&gen::pubkey(rng).serialize());
                }
                payload.extend_from_slice(&gen::bytes(rng, *plen));
                let ver = if *ver == 0 { 0 } else { rng.gen_range(1..=16u8) };
                let t = ref_segwit(variant, h, ver, &payload);
                check_invalid_all(out, "unknown_hrp_rejected", &t);
                let up = t.to_uppercase();
                check_invalid_all(out, "unknown_hrp_rejected", &up);
                check_any(out, &t);
            }
        }
    }

    // ---- separator handling and length limits
    {
        // a '1' written into the data part of a valid address moves the separator
        for a in all.iter().filter(|a| matches!(a.payload, Payload::WitnessProgram { .. })).step_by(if thorough { 7 } else { 61 }) {
            let s = a.to_string();
            let sep = s.rfind('1').unwrap();
            for pos in [sep + 1, sep + 2, (sep + s.len()) / 2, s.len() - 1] {
                let mut t = s.clone().into_bytes();
                t[pos] = b'1';
                check_invalid_all(out, "separator_in_data_rejected", &String::from_utf8(t).unwrap());
            }
            let t = format!("{}1{}", &s[..sep], &s[sep..]);
            check_invalid_all(out, "separator_in_data_rejected", &t);
            let t = format!("1{}", s);
            check_invalid_all(out, "separator_in_data_rejected", &t);
        }
        // empty hrp with a valid checksum
        for v in ["bech32", "bech32m", "blech32", "blech32m"] {
            let mut payload = gen::pubkey(rng).serialize().to_vec();
            payload.extend_from_slice(&gen::bytes(rng, 20));
            let t = ref_segwit(v, "", if v.ends_with('m') { 1 } else { 0 }, if v.starts_with("bl") { &payload } else { &payload[33..] });
            check_invalid_all(out, "empty_hrp_rejected", &t);
        }
        // hrp lengths around the 83-character limit (blech32 has no total length limit) and total lengths
        // around the 90-character limit of the bech32 crate: K only (decoders), S through the address parser
        for l in [30usize, 31, 82, 83, 84] {
            let h: String = (0..l).map(|i| (b'a' + (i % 26) as u8) as char).collect();
            let mut payload = gen::pubkey(rng).serialize().to_vec();
            payload.extend_from_slice(&gen::bytes(rng, 32));
            let t = ref_segwit("bech32m", &h, 1, &payload[33..]);
            out.count(&format!("limits.bech32m.hrp{}.total{}", l, t.len()));
            check_invalid_all(out, "unknown_hrp_rejected", &t);
            let t = ref_segwit("blech32m", &h, 1, &payload);
            check_invalid_all(out, "unknown_hrp_rejected", &t);
        }
        // base58 strings at the 150-character limit
        for n in [149usize, 150, 151] {
            let t: String = (0..n).map(|i| B58[1 + (i * 7) % 57] as char).collect();
            check_invalid(out, "junk_rejected", &t);
        }
    }

    // ---- conversions, inspectors and constructors (EV.Model.AddressOps)
    ops::run(rng, out);
}
