//! C07 — PSET serialization round-trips and re-serialization is a fixpoint
//!
//! K ops (lean/EV/Driver/C07.lean): `psetdec`, `psetenc`, `psetmap.g|i|o`, `pset.tostr`, `pset.fromstr`,
//! `pset.elip.*`, `hash.rmd160`.
//!
//! Streams (in this order): the 34-byte commitment regression (fix d0f55c0) first; RIPEMD-160 ties; the
//! repository's own PSET vectors; one-field-at-a-time and all-fields sweeps; ordering-sensitive maps of
//! sizes 0..4; every tap-tree shape; a table of targeted malformed values; random generated PSETs with
//! the structural raw-pair mutations (duplicates, missing mandatory pairs, counts, version, preimages,
//! key shapes, permutations, unknown pairs) and byte-level mutations; ELIP-100/102 accessors; text form.
#![allow(unused_variables)]
use std::collections::HashSet;

use crate::props::c01;
use crate::props::psetdesc::{self as pd, Add};
use crate::{gen, hex, Out, Rng, R};
use elements::bitcoin;
use elements::bitcoin::key::XOnlyPublicKey;
use elements::confidential::AssetBlindingFactor;
use elements::encode::{deserialize, serialize};
use elements::hashes::{hash160, ripemd160, sha256, sha256d};
use elements::pset::elip100::{AssetMetadata, TokenMetadata};
use elements::pset::raw::ProprietaryKey;
use elements::pset::serialize::Serialize as PsetSer;
use elements::pset::{Global, Input, Output, PartiallySignedTransaction as Pset};
use elements::{AssetId, OutPoint, Transaction, Txid};
use rand::seq::SliceRandom;

pub struct Cx<'a> {
    out: &'a mut Out,
    seen: HashSet<Vec<u8>>,
    nth_ok: u64,
}

// ------------------------------------------------------------------ raw pair layer (independent of the crate)

/// one raw pair; `klen`/`vlen` override the compact-size framing (for malformed framings)
#[derive(Clone, Debug, PartialEq)]
pub struct RP {
    ty: u8,
    key: Vec<u8>,
    val: Vec<u8>,
    klen: Option<Vec<u8>>,
    vlen: Option<Vec<u8>>,
}
fn rp(ty: u8, key: &[u8], val: &[u8]) -> RP {
    RP { ty, key: key.to_vec(), val: val.to_vec(), klen: None, vlen: None }
}
/// minimal compact size
fn cs(n: u64) -> Vec<u8> {
    if n < 0xfd {
        vec![n as u8]
    } else if n <= 0xffff {
        let mut v = vec![0xfd];
        v.extend_from_slice(&(n as u16).to_le_bytes());
        v
    } else if n <= 0xffff_ffff {
        let mut v = vec![0xfe];
        v.extend_from_slice(&(n as u32).to_le_bytes());
        v
    } else {
        let mut v = vec![0xff];
        v.extend_from_slice(&n.to_le_bytes());
        v
    }
}
/// compact size in the given (possibly non-minimal) width: marker 0xfd / 0xfe / 0xff
fn cs_wide(n: u64, marker: u8) -> Vec<u8> {
    let mut v = vec![marker];
    match marker {
        0xfd => v.extend_from_slice(&(n as u16).to_le_bytes()),
        0xfe => v.extend_from_slice(&(n as u32).to_le_bytes()),
        _ => v.extend_from_slice(&n.to_le_bytes()),
    }
    v
}
fn rd_cs(b: &[u8], pos: &mut usize) -> Option<u64> {
    let f = *b.get(*pos)?;
    *pos += 1;
    let w = match f { 0xfd => 2, 0xfe => 4, 0xff => 8, _ => return Some(f as u64) };
    let s = b.get(*pos..*pos + w)?;
    *pos += w;
    let mut a = [0u8; 8];
    a[..w].copy_from_slice(s);
    Some(u64::from_le_bytes(a))
}
/// magic, then maps until the end of the bytes
fn parse_raw(b: &[u8]) -> Option<Vec<Vec<RP>>> {
    if b.len() < 5 || &b[..5] != b"pset\xff" {
        return None;
    }
    let mut pos = 5;
    let mut maps = vec![];
    while pos < b.len() {
        let mut m = vec![];
        loop {
            let kl = rd_cs(b, &mut pos)? as usize;
            if kl == 0 {
                break;
            }
            let ty = *b.get(pos)?;
            let key = b.get(pos + 1..pos + kl)?.to_vec();
            pos += kl;
            let vl = rd_cs(b, &mut pos)? as usize;
            let val = b.get(pos..pos + vl)?.to_vec();
            pos += vl;
            m.push(RP { ty, key, val, klen: None, vlen: None });
        }
        maps.push(m);
    }
    Some(maps)
}
fn ser_pair(p: &RP, v: &mut Vec<u8>) {
    match &p.klen { Some(k) => v.extend_from_slice(k), None => v.extend(cs(p.key.len() as u64 + 1)) }
    v.push(p.ty);
    v.extend_from_slice(&p.key);
    match &p.vlen { Some(k) => v.extend_from_slice(k), None => v.extend(cs(p.val.len() as u64)) }
    v.extend_from_slice(&p.val);
}
fn ser_map(m: &[RP]) -> Vec<u8> {
    let mut v = vec![];
    for p in m {
        ser_pair(p, &mut v);
    }
    v.push(0);
    v
}
fn ser_raw(maps: &[Vec<RP>]) -> Vec<u8> {
    let mut v = b"pset\xff".to_vec();
    for m in maps {
        v.extend(ser_map(m));
    }
    v
}
/// section of each map of a valid encoding: 'g', then 'i' × input count, then 'o'
fn sections(maps: &[Vec<RP>]) -> Vec<char> {
    let nin = maps.first().and_then(|g| g.iter().find(|p| p.ty == 4 && p.key.is_empty())).and_then(|p| rd_cs(&p.val, &mut 0)).unwrap_or(0) as usize;
    (0..maps.len()).map(|i| if i == 0 { 'g' } else if i <= nin { 'i' } else { 'o' }).collect()
}
/// key data of a proprietary (0xFC) pair
fn fc(prefix: &[u8], sub: u8, kd: &[u8]) -> Vec<u8> {
    let mut v = cs(prefix.len() as u64);
    v.extend_from_slice(prefix);
    v.push(sub);
    v.extend_from_slice(kd);
    v
}
fn fc_split(k: &[u8]) -> Option<(Vec<u8>, u8, Vec<u8>)> {
    let mut pos = 0;
    let n = rd_cs(k, &mut pos)? as usize;
    if pos + n + 1 > k.len() {
        return None;
    }
    Some((k[pos..pos + n].to_vec(), k[pos + n], k[pos + n + 1..].to_vec()))
}
fn is_pset(p: &RP, sub: u8) -> bool {
    p.ty == 0xfc && fc_split(&p.key).map_or(false, |(pre, s, _)| pre == b"pset" && s == sub)
}
fn psetp(sub: u8, val: &[u8]) -> RP {
    rp(0xfc, &fc(b"pset", sub, &[]), val)
}
/// `Some(true)`: a known keyed field, `Some(false)`: a known unkeyed field, `None`: unknown / foreign
fn keyed(sec: char, p: &RP) -> Option<bool> {
    if p.ty == 0xfc {
        let (pre, sub, _) = fc_split(&p.key)?;
        if pre != b"pset" {
            return None;
        }
        return match sec {
            'g' => match sub { 0 => Some(true), 1 => Some(false), _ => None },
            'i' => if sub <= 0x15 { Some(false) } else { None },
            _ => if (1..=0x0a).contains(&sub) { Some(false) } else { None },
        };
    }
    match sec {
        'g' => match p.ty { 1 => Some(true), 2 | 3 | 4 | 5 | 6 | 0xfb => Some(false), _ => None },
        'i' => match p.ty {
            2 | 6 | 0x0a..=0x0d | 0x14 | 0x15 | 0x16 => Some(true),
            0 | 1 | 3 | 4 | 5 | 7 | 8 | 0x0e..=0x13 | 0x17 | 0x18 => Some(false),
            _ => None,
        },
        _ => match p.ty { 2 | 7 => Some(true), 0 | 1 | 3 | 4 | 5 | 6 => Some(false), _ => None },
    }
}

// ------------------------------------------------------------------ base64 (independent)

fn b64(b: &[u8]) -> String {
    const A: &[u8; 64] = b"ABCDEFGHIJKLMNOPQRSTUVWXYZabcdefghijklmnopqrstuvwxyz0123456789+/";
    let mut s = String::new();
    for c in b.chunks(3) {
        let n = ((c[0] as u32) << 16) | ((*c.get(1).unwrap_or(&0) as u32) << 8) | (*c.get(2).unwrap_or(&0) as u32);
        s.push(A[(n >> 18) as usize & 63] as char);
        s.push(A[(n >> 12) as usize & 63] as char);
        s.push(if c.len() > 1 { A[(n >> 6) as usize & 63] as char } else { '=' });
        s.push(if c.len() > 2 { A[n as usize & 63] as char } else { '=' });
    }
    s
}

// ------------------------------------------------------------------ K ops and the S checks on bytes

pub fn real_dec(b: &[u8]) -> String {
    Out::guard(|| match deserialize::<Pset>(b) {
        Ok(p) => format!("ok {} {}", hex(&serialize(&p)), pd::dump_pset(&p)),
        Err(_) => "err".into(),
    })
}
fn tag(real: &str) -> &str {
    if real.starts_with("ok") { "ok" } else if real == "err" { "err" } else { "panic" }
}

fn tostr_op(cx: &mut Cx, b: &[u8]) {
    let real = Out::guard(|| match deserialize::<Pset>(b) {
        Ok(p) => format!("ok {}", p.to_string()),
        Err(_) => "err".into(),
    });
    cx.out.count(&format!("tostr.{}", tag(&real)));
    cx.out.k(format!("pset.tostr {}", hex(b)), real);
}
fn fromstr_op(cx: &mut Cx, text: &str, kind: &str) -> bool {
    let real = Out::guard(|| match text.parse::<Pset>() {
        Ok(p) => format!("ok {}", hex(&serialize(&p))),
        Err(_) => "err".into(),
    });
    cx.out.count(&format!("fromstr.{}.{}", kind, tag(&real)));
    cx.out.s("fromstr_no_panic", real != "panic", || text.to_string());
    let ok = real.starts_with("ok");
    cx.out.k(format!("pset.fromstr {}", hex(text.as_bytes())), real);
    ok
}

/// K `psetdec` + the S checks on an arbitrary byte string; the decoded PSET if accepted
fn on_bytes(cx: &mut Cx, b: &[u8], stream: &str) -> Option<Pset> {
    let dec = std::panic::catch_unwind(|| deserialize::<Pset>(b).ok()).unwrap_or(None);
    if !cx.seen.insert(b.to_vec()) {
        cx.out.count("dec.repeated_input_skipped");
        return dec;
    }
    let real = real_dec(b);
    cx.out.k(format!("psetdec {}", hex(b)), real.clone());
    cx.out.count(&format!("dec.{}.{}", stream, tag(&real)));
    cx.out.s("decode_no_panic", real != "panic", || hex(b));
    if let Some(p) = &dec {
        let e1 = serialize(p);
        match deserialize::<Pset>(&e1) {
            Ok(p2) => {
                cx.out.s("reencode_decodes_equal", p2 == *p && pd::dump_pset(&p2) == pd::dump_pset(p), || hex(b));
                let e2 = serialize(&p2);
                cx.out.s("reencode_fixpoint", e2 == e1, || hex(b));
            }
            Err(e) => cx.out.s("reencode_decodes_equal", false, || format!("{} -> re-encoding rejected: {:?}", hex(b), e)),
        }
        let s = p.to_string();
        let back: Result<Pset, _> = s.parse();
        cx.out.s("base64_roundtrip", matches!(&back, Ok(q) if *q == *p && serialize(q) == e1), || hex(b));
        cx.out.s("tostr_is_base64_of_reencoding", s == b64(&e1), || hex(b));
        cx.out.count(&format!("size.{}", match e1.len() { 0..=255 => "lt256", 256..=1023 => "lt1k", 1024..=4095 => "lt4k", _ => "ge4k" }));
        cx.nth_ok += 1;
        if cx.nth_ok % 24 == 0 {
            tostr_op(cx, b);
            fromstr_op(cx, &s, "sampled");
        }
    }
    dec
}
fn expect_err(cx: &mut Cx, check: &str, b: &[u8], stream: &str) {
    let r = on_bytes(cx, b, stream);
    cx.out.s(check, r.is_none(), || hex(b));
}

fn map_op<T: elements::encode::Decodable + elements::encode::Encodable>(cx: &mut Cx, op: &str, b: &[u8], dump: impl Fn(&T) -> String) -> String {
    let real = Out::guard(|| match deserialize::<T>(b) {
        Ok(x) => format!("ok {} {}", hex(&serialize(&x)), dump(&x)),
        Err(_) => "err".into(),
    });
    cx.out.count(&format!("{}.{}", op, tag(&real)));
    cx.out.s("map_decode_no_panic", real != "panic", || format!("{} {}", op, hex(b)));
    cx.out.k(format!("{} {}", op, hex(b)), real.clone());
    real
}
fn dump_global_only(g: &Global) -> String {
    // dump_global reads the counts through the Pset accessors, which read the fields of `global`
    let mut p = Pset::new_v2();
    p.global = g.clone();
    pd::dump_global(&p)
}
fn map_op_sec(cx: &mut Cx, sec: char, b: &[u8]) -> String {
    match sec {
        'g' => map_op::<Global>(cx, "psetmap.g", b, dump_global_only),
        'i' => map_op::<Input>(cx, "psetmap.i", b, pd::dump_input),
        _ => map_op::<Output>(cx, "psetmap.o", b, pd::dump_output),
    }
}

// ------------------------------------------------------------------ the independent well-formedness oracle

/// written from the decoder's acceptance rules; nothing else is needed for `decode(encode(p)) == p`
/// (given that the proprietary / unknown maps do not alias dedicated fields, which the generators ensure)
fn wf(p: &Pset) -> bool {
    let g = &p.global;
    let counts = p.n_inputs() == p.inputs().len() && p.n_outputs() == p.outputs().len();
    let scalars_distinct = (0..g.scalars.len()).all(|i| (0..i).all(|j| g.scalars[i] != g.scalars[j]));
    let outs = p.outputs().iter().all(|o| {
        let five = [o.amount_comm.is_some(), o.asset_comm.is_some(), o.value_rangeproof.is_some(), o.asset_surjection_proof.is_some(), o.ecdh_pubkey.is_some()];
        let any = five.iter().any(|x| *x);
        let all = five.iter().all(|x| *x);
        (o.amount.is_some() || o.amount_comm.is_some())
            && (o.asset.is_some() || o.asset_comm.is_some())
            && (o.blinding_key.is_none() || o.blinder_index.is_some())
            && !(o.blinding_key.is_some() && any && !all)
    });
    let ins = p.inputs().iter().all(|i| {
        i.ripemd160_preimages.iter().all(|(k, v)| ripemd160::Hash::hash(v) == *k)
            && i.sha256_preimages.iter().all(|(k, v)| sha256::Hash::hash(v) == *k)
            && i.hash160_preimages.iter().all(|(k, v)| hash160::Hash::hash(v) == *k)
            && i.hash256_preimages.iter().all(|(k, v)| sha256d::Hash::hash(v) == *k)
    });
    counts && g.version == 2 && scalars_distinct && outs && ins
}

/// preimage maps need key = hash(value) to be decodable
fn fix_preimage(field: &str, key: &mut Vec<u8>, val: &[u8]) {
    match field {
        "ripemd160_preimages" => *key = ripemd160::Hash::hash(val).to_byte_array().to_vec(),
        "sha256_preimages" => *key = sha256::Hash::hash(val).to_byte_array().to_vec(),
        "hash160_preimages" => *key = hash160::Hash::hash(val).to_byte_array().to_vec(),
        "hash256_preimages" => *key = sha256d::Hash::hash(val).to_byte_array().to_vec(),
        _ => {}
    }
}

fn count_fields(cx: &mut Cx, adds: &[Add]) {
    for a in adds {
        let sec = &a.loc[..1];
        cx.out.count(&format!("field.{}.{}", sec, a.field));
    }
}

/// a described in-memory PSET: K `psetenc`, the bytes through `on_bytes`, the oracle checks, the single maps
fn described(cx: &mut Cx, tx: &Transaction, adds: &[Add], stream: &str, maps: bool) -> Option<(Pset, Vec<u8>, bool)> {
    let Some(p) = pd::build(tx, adds) else {
        cx.out.count("desc.build_failed");
        cx.out.s("harness_description_builds", false, || format!("{} {}", hex(&serialize(tx)), pd::adds_text(adds)));
        return None;
    };
    let enc = std::panic::catch_unwind(std::panic::AssertUnwindSafe(|| serialize(&p)));
    cx.out.s("encode_no_panic", enc.is_ok(), || format!("{} {}", hex(&serialize(tx)), pd::adds_text(adds)));
    let Ok(b) = enc else { return None };
    cx.out.k(format!("psetenc {} {}", hex(&serialize(tx)), pd::adds_text(adds)), format!("ok {}", hex(&b)));
    let dec = on_bytes(cx, &b, stream);
    let w = wf(&p);
    cx.out.count(&format!("desc.{}.{}", stream, if w { "wf" } else { "nonwf" }));
    if w {
        cx.out.s("roundtrip_wf", matches!(&dec, Some(q) if *q == p && pd::dump_pset(q) == pd::dump_pset(&p)), || format!("{} {} -> {}", hex(&serialize(tx)), pd::adds_text(adds), hex(&b)));
        count_fields(cx, adds);
    } else {
        cx.out.s("non_wf_rejected", dec.is_none(), || format!("{} {} -> {}", hex(&serialize(tx)), pd::adds_text(adds), hex(&b)));
    }
    if maps {
        map_op::<Global>(cx, "psetmap.g", &serialize(&p.global), dump_global_only);
        for i in p.inputs() {
            map_op::<Input>(cx, "psetmap.i", &serialize(i), pd::dump_input);
        }
        for o in p.outputs() {
            map_op::<Output>(cx, "psetmap.o", &serialize(o), pd::dump_output);
        }
    }
    Some((p, b, w))
}

// ------------------------------------------------------------------ structural mutations of a valid encoding

const UNK_G: [u8; 6] = [0x07, 0x10, 0x99, 0xfa, 0xfd, 0xff];
const UNK_I: [u8; 6] = [0x09, 0x19, 0x7f, 0xfb, 0xfd, 0xff];
const UNK_O: [u8; 6] = [0x08, 0x09, 0x44, 0xfb, 0xfd, 0xff];

fn unknown_type(rng: &mut R, sec: char) -> u8 {
    let l = match sec { 'g' => UNK_G, 'i' => UNK_I, _ => UNK_O };
    l[rng.gen_range(0..l.len())]
}
/// key data of a proprietary key that no section routes to a dedicated field
fn foreign_fc(rng: &mut R, sec: char) -> Vec<u8> {
    let kd = pd::rb(rng, 0, 4);
    let sub_any = |rng: &mut R| -> u8 { if rng.gen_bool(0.3) { [0xfcu8, 0xfd, 0xfe, 0xff, 0][rng.gen_range(0..5)] } else { rng.gen() } };
    match rng.gen_range(0..8) {
        0 => fc(b"", sub_any(rng), &kd),
        1 => fc(b"b", sub_any(rng), &kd),
        2 => fc(b"aa", sub_any(rng), &kd),
        3 => {
            // "pset" with a subtype that the section does not assign
            let sub = match sec { 'g' => rng.gen_range(2..=255u8), 'i' => rng.gen_range(0x16..=255u8), _ => if rng.gen_bool(0.3) { 0 } else { rng.gen_range(0x0b..=255u8) } };
            fc(b"pset", sub, &kd)
        }
        4 => fc(b"pset_hww", rng.gen_range(0..3), &kd),
        5 => fc(b"pset_liquidex", rng.gen_range(1..3), &kd),
        6 => fc(b"PSET", rng.gen_range(0..4), &kd),
        _ => fc(b"psets", rng.gen_range(0..4), &kd),
    }
}
fn flip(rng: &mut R, v: &mut Vec<u8>) {
    if v.is_empty() {
        v.push(rng.gen());
    } else {
        let i = rng.gen_range(0..v.len());
        v[i] ^= 1 << rng.gen_range(0..8);
    }
}
fn pick_map(rng: &mut R, secs: &[char], sec: char) -> Option<usize> {
    let c: Vec<usize> = (0..secs.len()).filter(|i| secs[*i] == sec).collect();
    if c.is_empty() { None } else { Some(c[rng.gen_range(0..c.len())]) }
}
fn has(m: &[RP], f: impl Fn(&RP) -> bool) -> bool {
    m.iter().any(|p| f(p))
}

/// `b` decodes; all the rejection / invariance checks built from its raw pair lists. `n_rand` byte mutations.
fn structural(cx: &mut Cx, rng: &mut R, b: &[u8], n_rand: usize) {
    let Ok(p0) = deserialize::<Pset>(b) else { return };
    let canon = serialize(&p0);
    let Some(maps) = parse_raw(&canon) else {
        cx.out.s("raw_parser_selfcheck", false, || hex(&canon));
        return;
    };
    cx.out.s("raw_parser_selfcheck", ser_raw(&maps) == canon && maps.len() == 1 + p0.inputs().len() + p0.outputs().len(), || hex(&canon));
    let secs = sections(&maps);

    // duplicates
    for _ in 0..3 {
        let m = rng.gen_range(0..maps.len());
        let i = rng.gen_range(0..maps[m].len());
        let mut d = maps[m][i].clone();
        match rng.gen_range(0..4) {
            0 => {}
            1 => flip(rng, &mut d.val),
            2 => d.val = gen::bytes(rng, d.val.len()),
            _ => { if d.val.is_empty() { d.val.push(0) } else { d.val.pop(); } }
        }
        let mut q = maps.clone();
        let at = rng.gen_range(0..=q[m].len());
        q[m].insert(at, d.clone());
        let mb = ser_raw(&q);
        cx.out.count("mut.dup");
        if secs[m] == 'g' && is_pset(&d, 1) {
            dup_flag(cx, &mb, &q[0]);
        } else {
            expect_err(cx, "duplicate_key_rejected", &mb, "mut.dup");
        }
    }

    // missing mandatory pairs: all of the global map, one input, one output
    let mut targets = vec![0usize];
    targets.extend(pick_map(rng, &secs, 'i'));
    targets.extend(pick_map(rng, &secs, 'o'));
    for m in targets {
        let mand: &[u8] = match secs[m] { 'g' => &[0xfb, 2, 4, 5], 'i' => &[0x0e, 0x0f], _ => &[4] };
        for t in mand {
            let mut q = maps.clone();
            q[m].retain(|p| !(p.ty == *t && p.key.is_empty()));
            cx.out.count("mut.missing");
            expect_err(cx, "missing_mandatory_rejected", &ser_raw(&q), "mut.missing");
        }
    }

    // output acceptance rules
    if let Some(m) = pick_map(rng, &secs, 'o') {
        let mut q = maps.clone();
        q[m].retain(|p| !((p.ty == 3 && p.key.is_empty()) || is_pset(p, 1)));
        expect_err(cx, "output_without_amount_rejected", &ser_raw(&q), "mut.outrule");
        let mut q = maps.clone();
        q[m].retain(|p| !(is_pset(p, 2) || is_pset(p, 3)));
        expect_err(cx, "output_without_asset_rejected", &ser_raw(&q), "mut.outrule");
        let has_key = has(&maps[m], |p| is_pset(p, 6));
        let has_idx = has(&maps[m], |p| is_pset(p, 8));
        if has_key {
            let mut q = maps.clone();
            q[m].retain(|p| !is_pset(p, 8));
            expect_err(cx, "blinding_key_without_index_rejected", &ser_raw(&q), "mut.outrule");
        } else if !has_idx {
            let mut q = maps.clone();
            q[m].push(psetp(6, &gen::pubkey(rng).serialize()));
            expect_err(cx, "blinding_key_without_index_rejected", &ser_raw(&q), "mut.outrule");
        }
        let five = [1u8, 3, 4, 5, 7];
        let present: Vec<u8> = five.iter().copied().filter(|s| has(&maps[m], |p| is_pset(p, *s))).collect();
        if has_key && has_idx && present.len() == 5 {
            let drop = five[rng.gen_range(0..5)];
            let mut q = maps.clone();
            q[m].retain(|p| !is_pset(p, drop));
            // dropping the only amount / asset carrier is rejected for another reason: still a rejection
            expect_err(cx, "partially_blinded_rejected", &ser_raw(&q), "mut.outrule");
        } else if has_key && has_idx && present.is_empty() {
            let mut q = maps.clone();
            q[m].push(psetp(7, &gen::pubkey(rng).serialize()));
            expect_err(cx, "partially_blinded_rejected", &ser_raw(&q), "mut.outrule");
        }
    }

    // counts
    for t in [4u8, 5] {
        let Some(i) = maps[0].iter().position(|p| p.ty == t && p.key.is_empty()) else { continue };
        let v = rd_cs(&maps[0][i].val, &mut 0).unwrap_or(0);
        let mut variants = vec![v + 1];
        if v > 0 {
            variants.push(v - 1);
        }
        let nv = variants[rng.gen_range(0..variants.len())];
        let mut q = maps.clone();
        q[0][i].val = cs(nv);
        cx.out.count("mut.count");
        expect_err(cx, "count_mismatch_rejected", &ser_raw(&q), "mut.count");
        if rng.gen_bool(0.3) {
            let mut q = maps.clone();
            q[0][i].val = cs([10_001u64, 65_536, u32::MAX as u64 + 1, u64::MAX][rng.gen_range(0..4)]);
            expect_err(cx, "count_too_large_rejected", &ser_raw(&q), "mut.count");
        }
        if rng.gen_bool(0.5) {
            // the VALUE of a count pair is read with `VarInt::consensus_decode`: trailing bytes are ignored
            let mut q = maps.clone();
            q[0][i].val.extend(pd::rb(rng, 1, 4));
            let mb = ser_raw(&q);
            let r = on_bytes(cx, &mb, "mut.count_trailing");
            // accepted today (trailing bytes of the value are ignored); if accepted it must be the same PSET with the
            // canonical re-encoding — a decoder that refuses them is not in violation
            cx.out.s("count_value_trailing_bytes_decode_equal", match &r { None => true, Some(p) => *p == p0 && serialize(p) == canon }, || hex(&mb));
        }
        if rng.gen_bool(0.3) {
            let mut q = maps.clone();
            q[0][i].val = cs_wide(v, [0xfd, 0xfe, 0xff][rng.gen_range(0..3)]);
            expect_err(cx, "nonminimal_compact_size_rejected", &ser_raw(&q), "mut.count");
        }
    }

    // PSET version
    if let Some(i) = maps[0].iter().position(|p| p.ty == 0xfb && p.key.is_empty()) {
        let mut q = maps.clone();
        q[0][i].val = [0u32, 1, 3, 0x0200_0000, u32::MAX][rng.gen_range(0..5)].to_le_bytes().to_vec();
        expect_err(cx, "bad_version_rejected", &ser_raw(&q), "mut.version");
    }

    // preimages
    let mut pre: Vec<(usize, usize)> = vec![];
    for (m, mp) in maps.iter().enumerate() {
        if secs[m] == 'i' {
            for (i, p) in mp.iter().enumerate() {
                if (0x0a..=0x0d).contains(&p.ty) {
                    pre.push((m, i));
                }
            }
        }
    }
    pre.shuffle(rng);
    for (m, i) in pre.into_iter().take(2) {
        let mut q = maps.clone();
        if rng.gen_bool(0.5) { flip(rng, &mut q[m][i].val) } else { flip(rng, &mut q[m][i].key) }
        cx.out.count("mut.preimage");
        expect_err(cx, "bad_preimage_rejected", &ser_raw(&q), "mut.preimage");
    }

    // key shapes
    let mut unkeyed: Vec<(usize, usize)> = vec![];
    let mut keyd: Vec<(usize, usize)> = vec![];
    for (m, mp) in maps.iter().enumerate() {
        for (i, p) in mp.iter().enumerate() {
            match keyed(secs[m], p) {
                Some(false) => unkeyed.push((m, i)),
                Some(true) => keyd.push((m, i)),
                None => {}
            }
        }
    }
    unkeyed.shuffle(rng);
    keyd.shuffle(rng);
    for (m, i) in unkeyed.into_iter().take(3) {
        let mut q = maps.clone();
        let extra = pd::rb(rng, 1, 3);
        q[m][i].key.extend(extra);
        cx.out.count("mut.keyshape");
        expect_err(cx, "nonempty_key_on_unkeyed_rejected", &ser_raw(&q), "mut.keyshape");
    }
    for (m, i) in keyd.into_iter().take(2) {
        let mut q = maps.clone();
        q[m][i].key = if q[m][i].ty == 0xfc { fc(b"pset", 0, &[]) } else { vec![] };
        cx.out.count("mut.keyshape");
        expect_err(cx, "empty_key_on_keyed_rejected", &ser_raw(&q), "mut.keyshape");
    }

    // permutation of the pairs inside every map (the scalars keep their relative order: `scalars` is a list
    // in wire order)
    for _ in 0..2 {
        let mut q = maps.clone();
        for (m, mp) in q.iter_mut().enumerate() {
            let scal: Vec<RP> = mp.iter().filter(|p| secs[m] == 'g' && is_pset(p, 0)).cloned().collect();
            mp.shuffle(rng);
            let mut it = scal.into_iter();
            for p in mp.iter_mut() {
                if secs[m] == 'g' && is_pset(p, 0) {
                    *p = it.next().unwrap();
                }
            }
        }
        let mb = ser_raw(&q);
        cx.out.count("mut.permute");
        let r = on_bytes(cx, &mb, "mut.permute");
        cx.out.s("key_order_irrelevant", matches!(&r, Some(p) if *p == p0 && serialize(p) == canon && pd::dump_pset(p) == pd::dump_pset(&p0)), || hex(&mb));
    }
    let scal_ix: Vec<usize> = (0..maps[0].len()).filter(|i| is_pset(&maps[0][*i], 0)).collect();
    if scal_ix.len() >= 2 {
        let mut q = maps.clone();
        q[0].swap(scal_ix[0], scal_ix[1]);
        let r = on_bytes(cx, &ser_raw(&q), "mut.scalar_swap");
        cx.out.count(&format!("obs.scalar_order_follows_wire.{}", match &r { Some(p) if p.global.scalars != p0.global.scalars => "yes", Some(_) => "no", None => "rejected" }));
    }

    // unknown types and foreign proprietary pairs are preserved verbatim
    {
        let mut q = maps.clone();
        let mut added: Vec<(usize, RP)> = vec![];
        for _ in 0..rng.gen_range(1..4) {
            let m = rng.gen_range(0..q.len());
            let mut kd = pd::rb(rng, 0, 3);
            let np = if rng.gen_bool(0.5) {
                kd.extend(gen::bytes(rng, 2));
                rp(unknown_type(rng, secs[m]), &kd, &pd::rb(rng, 0, 6))
            } else {
                let mut k = foreign_fc(rng, secs[m]);
                k.extend(gen::bytes(rng, 2));
                rp(0xfc, &k, &pd::rb(rng, 0, 6))
            };
            if has(&q[m], |p| p.ty == np.ty && p.key == np.key) {
                continue;
            }
            let at = rng.gen_range(0..=q[m].len());
            q[m].insert(at, np.clone());
            added.push((m, np));
        }
        let mb = ser_raw(&q);
        cx.out.count("mut.unknown");
        let r = on_bytes(cx, &mb, "mut.unknown");
        let ok = match &r {
            Some(p) => {
                let re = parse_raw(&serialize(p)).unwrap_or_default();
                let d = pd::dump_pset(p);
                re.len() == q.len()
                    && added.iter().all(|(m, np)| {
                        let kb = if np.ty == 0xfc { np.key.clone() } else { let mut v = vec![np.ty]; v.extend_from_slice(&np.key); v };
                        re[*m].iter().any(|x| x == np) && d.contains(&format!("{}:{}", hex(&kb), hex(&np.val)))
                    })
                    // and nothing else changed: removing them again gives the original
                    && {
                        let mut back = re.clone();
                        for (m, np) in &added {
                            if let Some(i) = back[*m].iter().position(|x| x == np) { back[*m].remove(i); }
                        }
                        ser_raw(&back) == canon
                    }
            }
            None => false,
        };
        cx.out.s("unknown_preserved", ok, || hex(&mb));
    }

    // framing: bumped lengths, non-minimal compact sizes, truncations, the terminator
    for _ in 0..2 {
        let m = rng.gen_range(0..maps.len());
        let i = rng.gen_range(0..maps[m].len());
        let mut q = maps.clone();
        let p = &mut q[m][i];
        let kl = p.key.len() as u64 + 1;
        let vl = p.val.len() as u64;
        match rng.gen_range(0..4) {
            0 => p.klen = Some(cs(kl + 1)),
            1 => p.klen = Some(cs(kl - 1)),
            2 => p.vlen = Some(cs(vl + 1)),
            _ => p.vlen = Some(cs(vl.saturating_sub(1))),
        }
        cx.out.count("mut.bump");
        on_bytes(cx, &ser_raw(&q), "mut.bump");
    }
    {
        let m = rng.gen_range(0..maps.len());
        let i = rng.gen_range(0..maps[m].len());
        let mut q = maps.clone();
        let p = &mut q[m][i];
        let marker = [0xfdu8, 0xfe, 0xff][rng.gen_range(0..3)];
        if rng.gen_bool(0.5) { p.klen = Some(cs_wide(p.key.len() as u64 + 1, marker)) } else { p.vlen = Some(cs_wide(p.val.len() as u64, marker)) }
        // lengths < 0xfd in a wider form are non-minimal (all pairs here are shorter than 0xfd or use the
        // minimal wide form already, in which case the wider form is still non-minimal unless equal)
        let mb = ser_raw(&q);
        cx.out.count("mut.nonminimal");
        if mb != canon {
            let r = on_bytes(cx, &mb, "mut.nonminimal");
            let (kl, vl) = (maps[m][i].key.len() as u64 + 1, maps[m][i].val.len() as u64);
            if kl < 0xfd && vl < 0xfd {
                cx.out.s("nonminimal_compact_size_rejected", r.is_none(), || hex(&mb));
            }
        }
    }
    {
        // a non-minimal zero as the terminator of a map
        let m = rng.gen_range(0..maps.len());
        let mut v = b"pset\xff".to_vec();
        for (j, mp) in maps.iter().enumerate() {
            let mut s = ser_map(mp);
            if j == m {
                s.pop();
                s.extend_from_slice(&[0xfd, 0, 0]);
            }
            v.extend(s);
        }
        expect_err(cx, "nonminimal_compact_size_rejected", &v, "mut.nonminimal");
    }
    for _ in 0..2 {
        let n = rng.gen_range(0..canon.len());
        cx.out.count("mut.truncate");
        expect_err(cx, "truncation_rejected", &canon[..n], "mut.truncate");
    }
    {
        let mut v = canon.clone();
        v.extend(pd::rb(rng, 1, 4));
        expect_err(cx, "trailing_bytes_rejected", &v, "mut.trailing");
    }
    for _ in 0..n_rand {
        let mut m = gen::mutate(rng, &canon);
        if rng.gen_bool(0.2) {
            m = gen::mutate(rng, &m);
        }
        cx.out.count("mut.random");
        on_bytes(cx, &m, "mut.random");
    }
}

/// the global `elements_tx_modifiable_flag` pair: its repetition used to be accepted (last value wins) before fix 26c1a9b
fn dup_flag(cx: &mut Cx, mb: &[u8], gmap: &[RP]) {
    let r = on_bytes(cx, mb, "mut.dupflag");
    let last = gmap.iter().filter(|p| is_pset(p, 1)).last().map(|p| p.val.clone()).unwrap_or_default();
    let verdict = match &r {
        None => "rejected",
        Some(p) if last.len() == 1 && p.global.elements_tx_modifiable_flag == Some(last[0]) => "yes",
        Some(_) => "no",
    };
    cx.out.count(&format!("obs.dup_elements_tx_modifiable_flag_last_wins.{}", verdict));
    // a repeated flag pair is a duplicate key like any other (fixed in /repo 26c1a9b; formerly class C07-DUPFLAG)
    cx.out.s("duplicate_key_rejected", r.is_none(), || {
        format!("global map repeats the pair fc 04 'pset' 01 and is accepted: {}", hex(mb))
    });
}

// ------------------------------------------------------------------ targeted malformed values

fn min_global(nin: u64, nout: u64) -> Vec<RP> {
    vec![rp(2, &[], &2u32.to_le_bytes()), rp(4, &[], &cs(nin)), rp(5, &[], &cs(nout)), rp(0xfb, &[], &2u32.to_le_bytes())]
}
fn min_input(rng: &mut R) -> Vec<RP> {
    vec![rp(0x0e, &[], &gen::arr32(rng)), rp(0x0f, &[], &rng.gen_range(0..4u32).to_le_bytes())]
}
fn min_output(rng: &mut R) -> Vec<RP> {
    vec![rp(3, &[], &rng.gen_range(0..1000u64).to_le_bytes()), psetp(2, &gen::arr32(rng)), rp(4, &[], &[0x51])]
}
/// put `extra` into the map: a pair with the same (type, key) is replaced, others are appended
fn with(mut m: Vec<RP>, extra: &[RP]) -> Vec<RP> {
    for e in extra {
        if let Some(i) = m.iter().position(|p| p.ty == e.ty && p.key == e.key) {
            m[i] = e.clone();
        } else {
            m.push(e.clone());
        }
    }
    m
}

struct Case {
    sec: char,
    extra: Vec<RP>,
    /// append the pairs as they are (repetitions kept) instead of replacing pairs with the same key
    raw_append: bool,
    label: String,
    expect: Option<bool>,
}
fn case(sec: char, extra: Vec<RP>, label: &str, expect: Option<bool>) -> Case {
    Case { sec, extra, raw_append: false, label: label.to_string(), expect }
}
fn case_raw(sec: char, extra: Vec<RP>, label: &str, expect: Option<bool>) -> Case {
    Case { sec, extra, raw_append: true, label: label.to_string(), expect }
}

/// one map (K `psetmap.*`) and the same map inside a minimal PSET (K `psetdec`); returns the map bytes and
/// whether the whole PSET was accepted
fn targeted_case(cx: &mut Cx, rng: &mut R, c: &Case) -> (Vec<u8>, bool) {
    let base = match c.sec { 'g' => min_global(0, 0), 'i' => min_input(rng), _ => min_output(rng) };
    let m = if c.raw_append { let mut b = base; b.extend(c.extra.iter().cloned()); b } else { with(base, &c.extra) };
    let mb = ser_map(&m);
    let real = map_op_sec(cx, c.sec, &mb);
    let map_ok = real.starts_with("ok");
    let maps = match c.sec { 'g' => vec![m], 'i' => vec![min_global(1, 0), m], _ => vec![min_global(0, 1), m] };
    let pb = ser_raw(&maps);
    let r = on_bytes(cx, &pb, "targeted");
    let touches_counts = c.sec == 'g' && c.extra.iter().any(|p| p.ty == 4 || p.ty == 5);
    if !touches_counts {
        cx.out.s("map_and_pset_decoders_agree", map_ok == r.is_some(), || format!("{} {}", c.label, hex(&pb)));
    }
    if let Some(e) = c.expect {
        let holds = r.is_some() == e && (touches_counts || map_ok == e);
        let det = || format!("{} expected accept={} {}", c.label, e, hex(&pb));
        // what the property NAMES must be rejected (duplicate keys, inconsistent counts, invalid hash preimages) is a
        // direct check; the rest of the table pins today's accept/reject decisions of the decoder (tied to the model by K)
        let mandated = !e && (c.label.starts_with("preimage") || c.label.starts_with("count") || c.label.starts_with("scalar.order") || c.label.contains("dup"));
        if mandated { cx.out.s("targeted_expectation", holds, det); } else { cx.out.pin("targeted_expectation_pinned", holds, det); }
    }
    cx.out.count(&format!("tgt.{}.{}", c.label, if r.is_some() { "ok" } else { "err" }));
    (mb, r.is_some())
}

fn bad_x(rng: &mut R) -> [u8; 32] {
    loop {
        let x = gen::arr32(rng);
        if XOnlyPublicKey::from_slice(&x).is_err() {
            return x;
        }
    }
}
fn cat(parts: &[&[u8]]) -> Vec<u8> {
    let mut v = vec![];
    for p in parts {
        v.extend_from_slice(p);
    }
    v
}
const GROUP_ORDER: [u8; 32] = [
    0xff, 0xff, 0xff, 0xff, 0xff, 0xff, 0xff, 0xff, 0xff, 0xff, 0xff, 0xff, 0xff, 0xff, 0xff, 0xfe, 0xba, 0xae, 0xdc, 0xe6, 0xaf, 0x48, 0xa0, 0x3b, 0xbf, 0xd2,
    0x5e, 0x8c, 0xd0, 0x36, 0x41, 0x41,
];
fn order_minus_one() -> [u8; 32] {
    let mut a = GROUP_ORDER;
    a[31] -= 1;
    a
}

fn btc_tx(rng: &mut R, nin: usize, nout: usize, wit: bool) -> Vec<u8> {
    use bitcoin::hashes::Hash as _;
    use bitcoin::{absolute, transaction, Amount, OutPoint as BOutPoint, ScriptBuf, Sequence as BSequence, TxIn as BTxIn, TxOut as BTxOut, Witness};
    let input = (0..nin)
        .map(|j| BTxIn {
            previous_output: BOutPoint { txid: bitcoin::Txid::from_byte_array(gen::arr32(rng)), vout: rng.gen_range(0..5) },
            script_sig: ScriptBuf::from_bytes(pd::rb(rng, 0, 5)),
            sequence: BSequence(gen::u32_edge(rng)),
            witness: if wit && (j == 0 || rng.gen_bool(0.5)) { Witness::from_slice(&[pd::rb(rng, 0, 5), pd::rb(rng, 1, 4)]) } else { Witness::new() },
        })
        .collect();
    let output = (0..nout).map(|_| BTxOut { value: Amount::from_sat(rng.gen_range(0..100_000)), script_pubkey: ScriptBuf::from_bytes(pd::rb(rng, 0, 6)) }).collect();
    let t = bitcoin::Transaction { version: transaction::Version(rng.gen_range(1..3)), lock_time: absolute::LockTime::from_consensus(gen::u32_edge(rng)), input, output };
    bitcoin::consensus::encode::serialize(&t)
}
/// an Elements transaction with a script witness on its first input
fn el_tx_wit(rng: &mut R) -> Vec<u8> {
    let mut t = gen::tx_wide(rng, 1, 1);
    t.input[0].witness.script_witness = vec![pd::rb(rng, 0, 5), pd::rb(rng, 1, 4)];
    serialize(&t)
}
fn xpub_raw(rng: &mut R, version: [u8; 4], depth: u8, fp: [u8; 4], child: u32, cc: [u8; 32], pk: &[u8]) -> Vec<u8> {
    let mut v = version.to_vec();
    v.push(depth);
    v.extend_from_slice(&fp);
    v.extend_from_slice(&child.to_be_bytes());
    v.extend_from_slice(&cc);
    v.extend_from_slice(pk);
    v
}
const XPUB_MAIN: [u8; 4] = [0x04, 0x88, 0xb2, 0x1e];
const XPUB_TEST: [u8; 4] = [0x04, 0x35, 0x87, 0xcf];

fn targeted(cx: &mut Cx, rng: &mut R, first_only: bool) {
    let mut cs_: Vec<Case> = vec![];
    let un = |ty: u8, val: &[u8]| rp(ty, &[], val);
    let c33 = gen::point33(rng, 8).to_vec();
    let g33 = gen::point33(rng, 10).to_vec();
    let c34 = cat(&[&c33, &[0]]);
    let g34 = cat(&[&g33, &[0]]);
    // FIRST in the run: 34-byte commitments / generators (fix d0f55c0); no empty commitment value anywhere
    cs_.push(case('o', vec![psetp(1, &c34)], "comm34.o.amount_comm", Some(false)));
    cs_.push(case('o', vec![psetp(3, &g34)], "comm34.o.asset_comm", Some(false)));
    cs_.push(case('i', vec![psetp(1, &c34)], "comm34.i.issuance_value_comm", Some(false)));
    cs_.push(case('i', vec![psetp(0x0b, &c34)], "comm34.i.inflation_keys_comm", Some(false)));
    if first_only {
        for c in &cs_ {
            targeted_case(cx, rng, c);
        }
        return;
    }
    cs_.clear();
    cs_.push(case('o', vec![psetp(1, &c33[..32])], "comm32.o.amount_comm", Some(false)));
    cs_.push(case('o', vec![psetp(3, &g33[..32])], "comm32.o.asset_comm", Some(false)));
    cs_.push(case('i', vec![psetp(1, &c33[..32])], "comm32.i.issuance_value_comm", Some(false)));
    cs_.push(case('i', vec![psetp(0x0b, &c33[..32])], "comm32.i.inflation_keys_comm", Some(false)));
    cs_.push(case('o', vec![psetp(1, &c33)], "comm33.o.amount_comm", Some(true)));
    cs_.push(case('o', vec![psetp(3, &g33)], "comm33.o.asset_comm", Some(true)));
    cs_.push(case('i', vec![psetp(1, &c33)], "comm33.i.issuance_value_comm", Some(true)));
    cs_.push(case('i', vec![psetp(0x0b, &c33)], "comm33.i.inflation_keys_comm", Some(true)));
    for pre in [0x02u8, 0x03, 0x0a, 0x0b, 0x00, 0x04] {
        let mut v = c33.clone();
        v[0] = pre;
        cs_.push(case('o', vec![psetp(1, &v)], "commprefix.o.amount_comm", Some(false)));
        cs_.push(case('i', vec![psetp(1, &v)], "commprefix.i.issuance_value_comm", Some(false)));
    }
    for pre in [0x02u8, 0x03, 0x08, 0x09, 0x00, 0x0c] {
        let mut v = g33.clone();
        v[0] = pre;
        cs_.push(case('o', vec![psetp(3, &v)], "commprefix.o.asset_comm", Some(false)));
    }
    {
        let bx = bad_x(rng);
        cs_.push(case('o', vec![psetp(1, &cat(&[&[8], &bx]))], "commoffcurve.o.amount_comm", None));
        cs_.push(case('o', vec![psetp(3, &cat(&[&[10], &bx]))], "commoffcurve.o.asset_comm", None));
        cs_.push(case('i', vec![psetp(0x0b, &cat(&[&[9], &bx]))], "commoffcurve.i.inflation_keys_comm", None));
        cs_.push(case('o', vec![psetp(1, &cat(&[&[8], &[0xff; 32]]))], "commoverflow.o.amount_comm", None));
    }

    // public keys
    let pk = gen::pubkey(rng);
    let comp = pk.serialize().to_vec();
    let unc = pk.serialize_uncompressed().to_vec();
    let mut hyb = unc.clone();
    hyb[0] = 6 | (unc[64] & 1);
    let mut hyb2 = unc.clone();
    hyb2[0] = 6 | ((unc[64] & 1) ^ 1);
    let mut unc_bad = unc.clone();
    unc_bad[40] ^= 1;
    let comp_bad = cat(&[&[2], &bad_x(rng)]);
    let mut pref5 = comp.clone();
    pref5[0] = 5;
    let mut unc_pref2 = unc.clone();
    unc_pref2[0] = 2;
    let keyvars: Vec<(&str, Vec<u8>, Option<bool>)> = vec![
        ("compressed", comp.clone(), Some(true)),
        ("uncompressed", unc.clone(), Some(true)),
        ("hybrid", hyb.clone(), Some(false)),
        ("hybrid_wrong_parity", hyb2, Some(false)),
        ("uncompressed_off_curve", unc_bad, Some(false)),
        ("compressed_off_curve", comp_bad, Some(false)),
        ("prefix05", pref5, Some(false)),
        ("len65_prefix02", unc_pref2, Some(false)),
        ("len32", comp[..32].to_vec(), Some(false)),
        ("len34", cat(&[&comp, &[0]]), Some(false)),
        ("len64", unc[..64].to_vec(), Some(false)),
        ("len66", cat(&[&unc, &[0]]), Some(false)),
        ("len1", vec![2], Some(false)),
    ];
    let ks8 = gen::bytes(rng, 8);
    for (n, k, e) in &keyvars {
        cs_.push(case('i', vec![rp(2, k, &pd::rb(rng, 0, 10))], &format!("pubkey.{}.i.partial_sigs", n), *e));
        cs_.push(case('i', vec![rp(6, k, &ks8)], &format!("pubkey.{}.i.bip32_derivation", n), *e));
        cs_.push(case('o', vec![rp(2, k, &ks8)], &format!("pubkey.{}.o.bip32_derivation", n), *e));
        cs_.push(case('o', vec![psetp(6, k), psetp(8, &1u32.to_le_bytes())], &format!("pubkey.{}.o.blinding_key", n), *e));
        cs_.push(case('o', vec![psetp(7, k)], &format!("pubkey.{}.o.ecdh_pubkey", n), *e));
    }
    // x-only keys
    let xo = pd::xonly(rng).serialize().to_vec();
    let bx = bad_x(rng).to_vec();
    let lh = gen::arr32(rng).to_vec();
    let sig64 = gen::bytes(rng, 64);
    let ks4 = gen::bytes(rng, 4);
    for (n, k, e) in [("valid", xo.clone(), true), ("off_curve", bx.clone(), false), ("len31", xo[..31].to_vec(), false), ("len33", cat(&[&xo, &[0]]), false)] {
        cs_.push(case('i', vec![un(0x17, &k)], &format!("xonly.{}.i.tap_internal_key", n), Some(e)));
        cs_.push(case('o', vec![un(5, &k)], &format!("xonly.{}.o.tap_internal_key", n), Some(e)));
        cs_.push(case('i', vec![rp(0x16, &k, &cat(&[&[0], &ks4]))], &format!("xonly.{}.i.tap_key_origins", n), Some(e)));
        cs_.push(case('o', vec![rp(7, &k, &cat(&[&[0], &ks4]))], &format!("xonly.{}.o.tap_key_origins", n), Some(e)));
        cs_.push(case('i', vec![rp(0x14, &cat(&[&k, &lh]), &sig64)], &format!("xonly.{}.i.tap_script_sigs", n), Some(e)));
    }
    for (n, k) in [("len63", cat(&[&xo, &lh[..31]])), ("len65", cat(&[&xo, &lh, &[0]])), ("len32", xo.clone()), ("len31", xo[..31].to_vec())] {
        cs_.push(case('i', vec![rp(0x14, &k, &sig64)], &format!("tapscriptsig.key.{}", n), Some(false)));
    }
    for (n, v, e) in [
        ("one_hash", cat(&[&[1], &lh, &ks4]), Some(true)),
        ("two_hashes_path", cat(&[&[2], &lh, &lh, &ks8]), Some(true)),
        ("hash_short", cat(&[&[1], &lh[..31], &ks4]), Some(false)),
        ("count_exceeds", cat(&[&[2], &lh, &ks4]), Some(false)),
        ("keysource3", cat(&[&[0], &ks4[..3]]), Some(false)),
        ("keysource5", cat(&[&[0], &ks4, &[1]]), Some(false)),
        ("no_keysource", vec![0], Some(false)),
        ("empty", vec![], Some(false)),
        ("count_nonminimal", cat(&[&[0xfd, 0, 0], &ks4]), Some(false)),
    ] {
        cs_.push(case('i', vec![rp(0x16, &xo, &v)], &format!("tapkeyorigin.value.{}.i", n), e));
        cs_.push(case('o', vec![rp(7, &xo, &v)], &format!("tapkeyorigin.value.{}.o", n), e));
    }
    // key sources of every length 0..=12
    for l in 0..=12usize {
        let v = gen::bytes(rng, l);
        let e = Some(l >= 4 && l % 4 == 0);
        cs_.push(case('i', vec![rp(6, &comp, &v)], &format!("keysource.len{}.i", l), e));
        if l % 3 == 0 {
            cs_.push(case('o', vec![rp(2, &comp, &v)], &format!("keysource.len{}.o", l), e));
        }
    }
    // xpubs
    {
        let fp = [1, 2, 3, 4];
        let cc = gen::arr32(rng);
        let good = xpub_raw(rng, XPUB_MAIN, 1, fp, 5, cc, &comp);
        let test = xpub_raw(rng, XPUB_TEST, 1, fp, 0x8000_0001, cc, &comp);
        let mut pk04 = comp.clone();
        pk04[0] = 4;
        let vars: Vec<(&str, Vec<u8>, Option<bool>)> = vec![
            ("main", good.clone(), Some(true)),
            ("test", test, Some(true)),
            ("depth255", xpub_raw(rng, XPUB_MAIN, 255, [0; 4], u32::MAX, cc, &comp), Some(true)),
            ("len77", good[..77].to_vec(), Some(false)),
            ("len79", cat(&[&good, &[0]]), Some(false)),
            ("xprv_version", xpub_raw(rng, [0x04, 0x88, 0xad, 0xe4], 1, fp, 5, cc, &comp), Some(false)),
            ("zero_version", xpub_raw(rng, [0; 4], 1, fp, 5, cc, &comp), Some(false)),
            ("key_prefix04", xpub_raw(rng, XPUB_MAIN, 1, fp, 5, cc, &pk04), Some(false)),
            ("key_off_curve", xpub_raw(rng, XPUB_MAIN, 1, fp, 5, cc, &cat(&[&[3], &bx])), Some(false)),
            ("empty_key", vec![], Some(false)),
        ];
        for (n, k, e) in vars {
            cs_.push(case('g', vec![rp(1, &k, &ks8)], &format!("xpub.key.{}", n), e));
        }
        for l in 0..=9usize {
            cs_.push(case('g', vec![rp(1, &good, &gen::bytes(rng, l))], &format!("xpub.value.len{}", l), Some(l >= 4 && l % 4 == 0)));
        }
    }
    // schnorr signatures
    for (n, v, e) in [
        ("len64", sig64.clone(), true),
        ("len63", sig64[..63].to_vec(), false),
        ("len66", cat(&[&sig64, &[1, 1]]), false),
        ("len0", vec![], false),
        ("len1", vec![1], false),
    ] {
        cs_.push(case('i', vec![un(0x13, &v)], &format!("schnorr.{}.tap_key_sig", n), Some(e)));
        cs_.push(case('i', vec![rp(0x14, &cat(&[&xo, &lh]), &v)], &format!("schnorr.{}.tap_script_sigs", n), Some(e)));
    }
    for last in [0x00u8, 0x01, 0x02, 0x03, 0x81, 0x82, 0x83, 0x04, 0x80, 0x84, 0xff] {
        let e = matches!(last, 0 | 1 | 2 | 3 | 0x81 | 0x82 | 0x83);
        let v = cat(&[&sig64, &[last]]);
        cs_.push(case('i', vec![un(0x13, &v)], &format!("schnorr.len65_{:02x}.tap_key_sig", last), Some(e)));
        if last == 0 || last == 4 {
            cs_.push(case('i', vec![rp(0x14, &cat(&[&xo, &lh]), &v)], &format!("schnorr.len65_{:02x}.tap_script_sigs", last), Some(e)));
        }
    }
    // control blocks and versioned scripts
    for first in [0xc4u8, 0xc5, 0xc0, 0xc1, 0xfe, 0xff, 0x00, 0x01, 0x50, 0x51, 0x66] {
        let cb = cat(&[&[first], &xo, &lh]);
        cs_.push(case('i', vec![rp(0x15, &cb, &[0x51, 0xc4])], &format!("controlblock.first_{:02x}", first), Some(first & 0xfe != 0x50)));
    }
    for (n, cb, e) in [
        ("len33", cat(&[&[0xc4], &xo]), true),
        ("len97", cat(&[&[0xc4], &xo, &lh, &lh]), true),
        ("len32", cat(&[&[0xc4], &xo[..31]]), false),
        ("len34", cat(&[&[0xc4], &xo, &[0]]), false),
        ("len64", cat(&[&[0xc4], &xo, &lh[..31]]), false),
        ("off_curve", cat(&[&[0xc4], &bx]), false),
        ("branch128", cat(&[&[0xc4], &xo, &gen::bytes(rng, 32 * 128)]), true),
        ("branch129", cat(&[&[0xc4], &xo, &gen::bytes(rng, 32 * 129)]), false),
        ("empty", vec![], false),
    ] {
        cs_.push(case('i', vec![rp(0x15, &cb, &[0x51, 0xc4])], &format!("controlblock.{}", n), Some(e)));
    }
    for (n, v, e) in [("empty", vec![], false), ("only_version", vec![0xc4], true), ("c5", vec![0x51, 0xc5], false), ("50", vec![0x51, 0x50], false), ("c0", vec![0x51, 0xc0], true), ("00", vec![0x51, 0x00], true), ("fe", vec![0xfe], true), ("01", vec![0x01], false)] {
        cs_.push(case('i', vec![rp(0x15, &cat(&[&[0xc4], &xo]), &v)], &format!("leafscript.{}", n), Some(e)));
    }
    // lock times
    for (v, t, h) in [(0u32, false, true), (1, false, true), (499_999_999, false, true), (500_000_000, true, false), (500_000_001, true, false), (u32::MAX, true, false)] {
        cs_.push(case('i', vec![un(0x11, &v.to_le_bytes())], &format!("locktime.time.{}", v), Some(t)));
        cs_.push(case('i', vec![un(0x12, &v.to_le_bytes())], &format!("locktime.height.{}", v), Some(h)));
    }
    for l in [0usize, 3, 5] {
        cs_.push(case('i', vec![un(0x11, &cat(&[&500_000_000u32.to_le_bytes(), &[0]])[..l])], &format!("locktime.time.len{}", l), Some(false)));
        cs_.push(case('i', vec![un(0x12, &[1, 0, 0, 0, 0][..l])], &format!("locktime.height.len{}", l), Some(false)));
    }
    // peg-in transactions (bitcoin encoding)
    {
        let nw = btc_tx(rng, 1, 1, false);
        let nw2 = btc_tx(rng, 2, 2, false);
        let w = btc_tx(rng, 2, 1, true);
        let z = btc_tx(rng, 0, 1, false);
        let z0 = btc_tx(rng, 0, 0, false);
        // segwit framing with only empty witnesses
        let empty_wit = cat(&[&nw[..4], &[0, 1], &nw[4..nw.len() - 4], &[0], &nw[nw.len() - 4..]]);
        let mut flag2 = w.clone();
        flag2[5] = 2;
        let legacy_zero = cat(&[&[2, 0, 0, 0], &[0], &[1], &[5, 0, 0, 0, 0, 0, 0, 0], &[1, 0x51], &[0, 0, 0, 0]]);
        let vars: Vec<(&str, Vec<u8>, Option<bool>)> = vec![
            ("no_witness", nw.clone(), Some(true)),
            ("no_witness2", nw2, Some(true)),
            ("witness", w.clone(), Some(true)),
            ("zero_inputs", z, Some(true)),
            ("zero_inputs_zero_outputs", z0, Some(true)),
            ("segwit_empty_witnesses", empty_wit, Some(false)),
            ("segwit_flag2", flag2, Some(false)),
            ("legacy_zero_inputs", legacy_zero, None),
            ("trailing", cat(&[&nw, &[0]]), Some(false)),
            ("truncated", nw[..nw.len() - 1].to_vec(), Some(false)),
            ("witness_truncated", w[..w.len() - 5].to_vec(), Some(false)),
            ("four_bytes", vec![2, 0, 0, 0], Some(false)),
            ("huge_input_count", cat(&[&[2, 0, 0, 0], &[0xfe, 0xff, 0xff, 0xff, 0x7f]]), Some(false)),
        ];
        for (n, v, e) in vars {
            cs_.push(case('i', vec![psetp(4, &v)], &format!("pegin_tx.{}", n), e));
        }
    }
    // non-witness utxo (Elements encoding), witness utxo
    {
        let nw = serialize(&gen::tx_wide(rng, 1, 1));
        let w = el_tx_wit(rng);
        let vars: Vec<(&str, Vec<u8>, Option<bool>)> = vec![
            ("no_witness", nw.clone(), Some(true)),
            ("witness", w.clone(), Some(true)),
            ("zero_inputs", serialize(&gen::tx_wide(rng, 0, 1)), None),
            ("empty_tx", serialize(&gen::tx_wide(rng, 0, 0)), None),
            ("trailing", cat(&[&nw, &[0]]), Some(false)),
            ("truncated", nw[..nw.len() - 1].to_vec(), Some(false)),
            ("witness_truncated", w[..w.len() - 2].to_vec(), Some(false)),
            ("bitcoin_encoding", btc_tx(rng, 1, 1, false), None),
        ];
        for (n, v, e) in vars {
            cs_.push(case('i', vec![un(0, &v)], &format!("non_witness_utxo.{}", n), e));
        }
        for j in 0..4 {
            let o = serialize(&gen::txout(rng, false));
            cs_.push(case('i', vec![un(1, &o)], "witness_utxo.valid", Some(true)));
            if j == 0 {
                cs_.push(case('i', vec![un(1, &cat(&[&o, &[0]]))], "witness_utxo.trailing", Some(false)));
                cs_.push(case('i', vec![un(1, &o[..o.len() - 1])], "witness_utxo.truncated", Some(false)));
                cs_.push(case('i', vec![un(1, &[])], "witness_utxo.empty", Some(false)));
            }
        }
    }
    // proofs
    {
        let rpf = pd::small_rangeproof(rng);
        let spf = gen::surjproof_bytes(rng);
        for sub in [0x02u8, 0x03, 0x0e, 0x0f, 0x10, 0x12] {
            cs_.push(case('i', vec![psetp(sub, &rpf)], &format!("rangeproof.valid.i.{:02x}", sub), Some(true)));
        }
        cs_.push(case('o', vec![psetp(4, &rpf)], "rangeproof.valid.o.value_rangeproof", Some(true)));
        cs_.push(case('o', vec![psetp(9, &rpf)], "rangeproof.valid.o.blind_value_proof", Some(true)));
        cs_.push(case('i', vec![psetp(0x14, &spf)], "surjproof.valid.i.blind_asset_proof", Some(true)));
        cs_.push(case('o', vec![psetp(5, &spf)], "surjproof.valid.o.asset_surjection_proof", Some(true)));
        cs_.push(case('o', vec![psetp(0x0a, &spf)], "surjproof.valid.o.blind_asset_proof", Some(true)));
        for (n, v) in [("empty", vec![]), ("one_byte", vec![0x40]), ("random64", gen::bytes(rng, 64)), ("truncated", rpf[..rpf.len() / 2].to_vec())] {
            cs_.push(case('i', vec![psetp(2, &v)], &format!("rangeproof.{}", n), None));
        }
        for (n, v) in [("empty", vec![]), ("one_byte", vec![1]), ("truncated", spf[..spf.len() - 1].to_vec()), ("trailing", cat(&[&spf, &[0]])), ("zero_inputs", vec![0, 0])] {
            cs_.push(case('i', vec![psetp(0x14, &v)], &format!("surjproof.{}", n), None));
        }
    }
    // tweaks: issuance blinding nonce and global scalars
    {
        let t = gen::tweak(rng);
        let tv: Vec<u8> = t.as_ref().to_vec();
        let vars: Vec<(&str, Vec<u8>, Option<bool>)> = vec![
            ("valid", tv.clone(), Some(true)),
            ("zero", vec![0; 32], None),
            ("ff", vec![0xff; 32], Some(false)),
            ("order", GROUP_ORDER.to_vec(), Some(false)),
            ("order_minus_one", order_minus_one().to_vec(), Some(true)),
            ("len31", tv[..31].to_vec(), Some(false)),
            ("len33", cat(&[&tv, &[0]]), Some(false)),
        ];
        for (n, v, e) in &vars {
            cs_.push(case('i', vec![psetp(0x0c, v)], &format!("tweak.{}.issuance_blinding_nonce", n), *e));
            cs_.push(case('g', vec![rp(0xfc, &fc(b"pset", 0, v), &[])], &format!("tweak.{}.scalar", n), *e));
        }
        cs_.push(case('g', vec![rp(0xfc, &fc(b"pset", 0, &tv), &[0])], "scalar.value_nonempty", Some(false)));
        cs_.push(case('g', vec![rp(0xfc, &fc(b"pset", 0, &[]), &[])], "scalar.key_empty", Some(false)));
        let t2: Vec<u8> = gen::tweak(rng).as_ref().to_vec();
        cs_.push(case('g', vec![rp(0xfc, &fc(b"pset", 0, &tv), &[]), rp(0xfc, &fc(b"pset", 0, &t2), &[])], "scalar.two", Some(true)));
        // a repeated scalar key is a duplicate key WHEREVER it stands: all 105 orderings of length 2..4 over three
        // scalars a < b < c that contain a repetition (and the 12 without one, accepted)
        let mut abc: Vec<Vec<u8>> = (0..3).map(|_| gen::tweak(rng).as_ref().to_vec()).collect();
        abc.sort();
        for len in 2..=4usize {
            for code in 0..3usize.pow(len as u32) {
                let idx: Vec<usize> = (0..len).map(|k| (code / 3usize.pow(k as u32)) % 3).collect();
                let repeated = (0..len).any(|i| (0..i).any(|j| idx[i] == idx[j]));
                let pairs: Vec<RP> = idx.iter().map(|&i| rp(0xfc, &fc(b"pset", 0, &abc[i]), &[])).collect();
                let name: String = idx.iter().map(|&i| ["a", "b", "c"][i]).collect();
                cs_.push(case_raw('g', pairs, &format!("scalar.order.{}", name), Some(!repeated)));
            }
        }
    }
    // integer widths
    for l in [0usize, 3, 4, 5] {
        let v = gen::bytes(rng, l);
        let e = Some(l == 4);
        cs_.push(case('i', vec![un(3, &v)], &format!("u32.len{}.i.sighash_type", l), e));
        cs_.push(case('i', vec![un(0x10, &v)], &format!("u32.len{}.i.sequence", l), e));
        cs_.push(case('i', vec![un(0x0f, &v)], &format!("u32.len{}.i.previous_output_index", l), e));
        cs_.push(case('o', vec![psetp(8, &v)], &format!("u32.len{}.o.blinder_index", l), e));
        cs_.push(case('g', vec![un(2, &v)], &format!("u32.len{}.g.tx_version", l), e));
        cs_.push(case('g', vec![un(3, &v)], &format!("u32.len{}.g.fallback_locktime", l), e));
    }
    for l in [0usize, 1, 2] {
        let v = gen::bytes(rng, l);
        let e = Some(l == 1);
        cs_.push(case('g', vec![un(6, &v)], &format!("u8.len{}.g.tx_modifiable", l), e));
        cs_.push(case('g', vec![psetp(1, &v)], &format!("u8.len{}.g.elements_tx_modifiable_flag", l), e));
        cs_.push(case('i', vec![psetp(0x15, &v)], &format!("u8.len{}.i.blinded_issuance", l), e));
    }
    for l in [0usize, 7, 8, 9] {
        let v = gen::bytes(rng, l);
        let e = Some(l == 8);
        cs_.push(case('o', vec![un(3, &v)], &format!("u64.len{}.o.amount", l), e));
        for sub in [0x00u8, 0x08, 0x0a, 0x11] {
            cs_.push(case('i', vec![psetp(sub, &v)], &format!("u64.len{}.i.{:02x}", l, sub), e));
        }
    }
    for (n, v, e) in [("0", 0u32, false), ("1", 1, false), ("2", 2, true), ("3", 3, false), ("max", u32::MAX, false)] {
        cs_.push(case('g', vec![un(0xfb, &v.to_le_bytes())], &format!("psetversion.{}", n), Some(e)));
    }
    for (n, v, e) in [
        ("zero", vec![0], Some(true)),
        ("zero_trailing", vec![0, 0xff], Some(true)),
        ("nonminimal_fd", vec![0xfd, 0, 0], Some(false)),
        ("nonminimal_fe", vec![0xfe, 0, 0, 0, 0], Some(false)),
        ("nonminimal_ff", vec![0xff, 0, 0, 0, 0, 0, 0, 0, 0], Some(false)),
        ("empty", vec![], Some(false)),
        ("truncated_fd", vec![0xfd, 1], Some(false)),
    ] {
        cs_.push(case('g', vec![un(4, &v)], &format!("count.input.{}", n), e));
        cs_.push(case('g', vec![un(5, &v)], &format!("count.output.{}", n), e));
    }
    for v in [vec![0xfd, 0x11, 0x27], vec![0xfd, 0x10, 0x27], vec![0xff, 0, 0, 0, 0, 1, 0, 0, 0], vec![0xff; 9]] {
        // the single map decodes; the PSET is rejected (too large / maps missing)
        cs_.push(case('g', vec![un(4, &v)], "count.input.large", None));
        cs_.push(case('g', vec![un(5, &v)], "count.output.large", None));
    }
    // 32-byte values
    for l in [0usize, 31, 32, 33] {
        let v = gen::bytes(rng, l);
        let e = Some(l == 32);
        cs_.push(case('i', vec![un(0x18, &v)], &format!("h32.len{}.i.tap_merkle_root", l), e));
        cs_.push(case('i', vec![un(0x0e, &v)], &format!("h32.len{}.i.previous_txid", l), e));
        cs_.push(case('i', vec![psetp(6, &v)], &format!("h32.len{}.i.pegin_genesis_hash", l), e));
        cs_.push(case('i', vec![psetp(0x13, &v)], &format!("h32.len{}.i.asset", l), e));
        cs_.push(case('i', vec![psetp(0x0d, &v)], &format!("h32.len{}.i.issuance_asset_entropy", l), e));
        cs_.push(case('o', vec![psetp(2, &v)], &format!("h32.len{}.o.asset", l), e));
    }
    // preimage pairs
    for (ty, name) in [(0x0au8, "ripemd160"), (0x0b, "sha256"), (0x0c, "hash160"), (0x0d, "hash256")] {
        let h = |v: &[u8]| -> Vec<u8> {
            match ty {
                0x0a => ripemd160::Hash::hash(v).to_byte_array().to_vec(),
                0x0b => sha256::Hash::hash(v).to_byte_array().to_vec(),
                0x0c => hash160::Hash::hash(v).to_byte_array().to_vec(),
                _ => sha256d::Hash::hash(v).to_byte_array().to_vec(),
            }
        };
        let v = pd::rb(rng, 1, 70);
        let k = h(&v);
        let mut kw = k.clone();
        kw[3] ^= 0x10;
        let mut vw = v.clone();
        vw[0] ^= 1;
        cs_.push(case('i', vec![rp(ty, &k, &v)], &format!("preimage.{}.correct", name), Some(true)));
        cs_.push(case('i', vec![rp(ty, &h(&[]), &[])], &format!("preimage.{}.empty_value", name), Some(true)));
        cs_.push(case('i', vec![rp(ty, &kw, &v)], &format!("preimage.{}.wrong_key", name), Some(false)));
        cs_.push(case('i', vec![rp(ty, &k, &vw)], &format!("preimage.{}.wrong_value", name), Some(false)));
        cs_.push(case('i', vec![rp(ty, &k[..k.len() - 1], &v)], &format!("preimage.{}.short_key", name), Some(false)));
        cs_.push(case('i', vec![rp(ty, &cat(&[&k, &[0]]), &v)], &format!("preimage.{}.long_key", name), Some(false)));
        cs_.push(case('i', vec![rp(ty, &[], &v)], &format!("preimage.{}.empty_key", name), Some(false)));
        let v2 = pd::rb(rng, 1, 70);
        cs_.push(case('i', vec![rp(ty, &k, &v), rp(ty, &h(&v2), &v2)], &format!("preimage.{}.two", name), Some(true)));
    }
    // witness stacks
    for (n, v, e) in [
        ("empty_stack", vec![0u8], true),
        ("one_empty_item", vec![1, 0], true),
        ("two_items", vec![2, 1, 0xaa, 2, 0xbb, 0xcc], true),
        ("item_truncated", vec![2, 1, 0xaa], false),
        ("trailing", vec![1, 1, 0xaa, 0xbb], false),
        ("huge_count", vec![0xfe, 0xff, 0xff, 0xff, 0x7f], false),
        ("nonminimal_count", vec![0xfd, 1, 0, 0], false),
        ("no_bytes", vec![], false),
    ] {
        cs_.push(case('i', vec![un(8, &v)], &format!("stack.{}.final_script_witness", n), Some(e)));
        cs_.push(case('i', vec![psetp(9, &v)], &format!("stack.{}.pegin_witness", n), Some(e)));
    }
    // type 0x00 in the global map (the PSBTv0 unsigned transaction): `insert_pair` refuses it, the decoder
    // as written keeps it as an unknown pair
    cs_.push(case('g', vec![un(0, &serialize(&gen::tx_wide(rng, 0, 0)))], "global.unsigned_tx", None));
    cs_.push(case('g', vec![rp(0, &[1], &[])], "global.unsigned_tx_keyed", None));
    for sec in ['g', 'i', 'o'] {
        cs_.push(case(sec, vec![rp(0xfc, &[], &[])], &format!("fc.no_key.{}", sec), Some(false)));
        cs_.push(case(sec, vec![rp(0xfc, &[5, 0x61], &[])], &format!("fc.prefix_overruns.{}", sec), Some(false)));
        cs_.push(case(sec, vec![rp(0xfc, &[1, 0x61], &[])], &format!("fc.no_subtype.{}", sec), Some(false)));
        cs_.push(case(sec, vec![rp(0xfc, &[0], &[])], &format!("fc.empty_prefix_no_subtype.{}", sec), Some(false)));
        cs_.push(case(sec, vec![rp(0xfc, &[0, 7], &[1, 2])], &format!("fc.empty_prefix.{}", sec), Some(true)));
        cs_.push(case(sec, vec![rp(0xfc, &[0xfd, 1, 0, 0x61, 0], &[])], &format!("fc.nonminimal_prefix_len.{}", sec), None));
        cs_.push(case(sec, vec![rp(0xfc, &fc(b"PSET", 1, &[9]), &[1, 2, 3])], &format!("fc.uppercase_prefix.{}", sec), Some(true)));
        cs_.push(case(sec, vec![rp(0xfc, &fc(b"pse", 1, &[9]), &[1])], &format!("fc.prefix_pse.{}", sec), Some(true)));
        cs_.push(case(sec, vec![rp(0xfc, &fc(b"pset", 0xf0, &[9]), &[1])], &format!("fc.pset_unassigned.{}", sec), Some(true)));
        let ut = match sec { 'g' => 0x07u8, 'i' => 0x09, _ => 0x08 };
        cs_.push(case(sec, vec![rp(ut, &[], &[])], &format!("unknown.empty.{}", sec), Some(true)));
        cs_.push(case(sec, vec![rp(ut, &[1, 2], &[3]), rp(ut, &[1], &[3])], &format!("unknown.two.{}", sec), Some(true)));
        cs_.push(case(sec, vec![rp(0xff, &gen::bytes(rng, 0xfc), &gen::bytes(rng, 0xfd))], &format!("unknown.len_boundary.{}", sec), Some(true)));
    }
    cs_.push(case('i', vec![rp(0xfc, &fc(b"pset", 0, &[1]), &5u64.to_le_bytes())], "keyshape.i.pset_unkeyed_with_key", Some(false)));
    cs_.push(case('o', vec![rp(0xfc, &fc(b"pset", 1, &[1]), &c33)], "keyshape.o.pset_unkeyed_with_key", Some(false)));
    cs_.push(case('g', vec![rp(0xfc, &fc(b"pset", 1, &[1]), &[0])], "keyshape.g.flag_with_key", Some(false)));
    cs_.push(case('i', vec![rp(3, &[1], &1u32.to_le_bytes())], "keyshape.i.sighash_with_key", Some(false)));
    cs_.push(case('i', vec![rp(2, &[], &[1, 2])], "keyshape.i.partial_sig_no_key", Some(false)));
    cs_.push(case('g', vec![rp(0xfb, &[0], &2u32.to_le_bytes())], "keyshape.g.version_with_key", Some(false)));
    cs_.push(case('o', vec![rp(4, &[7], &[0x51])], "keyshape.o.script_with_key", Some(false)));

    let mut sig65_map: Option<Vec<u8>> = None;
    for c in &cs_ {
        let (mb, ok) = targeted_case(cx, rng, c);
        if c.label == "schnorr.len65_00.tap_key_sig" && ok {
            sig65_map = Some(mb);
        }
    }
    // the 65-byte signature with the default sighash byte is re-encoded as 64 bytes
    let ok = sig65_map.as_ref().and_then(|mb| deserialize::<Input>(mb).ok()).map(|i| {
        let re = parse_raw(&cat(&[b"pset\xff", &serialize(&i)])).unwrap_or_default();
        re.len() == 1 && re[0].iter().any(|p| p.ty == 0x13 && p.val.len() == 64)
    });
    cx.out.pin("schnorr65_default_reencoded_as_64", ok == Some(true), || sig65_map.as_ref().map(|m| hex(m)).unwrap_or_default());
}

// ------------------------------------------------------------------ tap trees

/// DFS depth lists of all full binary trees with `n` leaves whose root is at depth `d`
fn shapes(n: usize, d: u8) -> Vec<Vec<u8>> {
    if n == 1 {
        return vec![vec![d]];
    }
    let mut res = vec![];
    for k in 1..n {
        for l in shapes(k, d + 1) {
            for r in shapes(n - k, d + 1) {
                let mut v = l.clone();
                v.extend_from_slice(&r);
                res.push(v);
            }
        }
    }
    res
}
fn tt_bytes(depths: &[u8], ver: impl Fn(usize) -> u8) -> Vec<u8> {
    let mut v = vec![];
    for (j, d) in depths.iter().enumerate() {
        v.push(*d);
        v.push(ver(j));
        // distinct scripts: the leaf order is observable
        let s: Vec<u8> = if j % 3 == 0 { vec![j as u8] } else { vec![0x51, j as u8, (j >> 8) as u8] };
        v.extend(cs(s.len() as u64));
        v.extend(s);
    }
    v
}
fn taptrees(cx: &mut Cx, rng: &mut R) {
    let max = if cx.out.tier_thorough { 8 } else { 6 };
    for n in 1..=max {
        for sh in shapes(n, 0) {
            let mixed = rng.gen_bool(0.2);
            let tt = tt_bytes(&sh, |j| if mixed { [0xc4u8, 0xc0, 0xc2, 0xfe, 0x00][j % 5] } else { 0xc4 });
            let c = case('o', vec![rp(6, &[], &tt)], &format!("taptree.leaves{}", n), Some(true));
            let (mb, ok) = targeted_case(cx, rng, &c);
            cx.out.count(&format!("taptree.maxdepth.{}", sh.iter().max().unwrap()));
            let re = deserialize::<Output>(&mb).ok().and_then(|o| o.tap_tree.map(|t| t.serialize()));
            cx.out.s("taptree_reencodes_identically", re.as_deref() == Some(&tt[..]), || format!("depths={:?} {}", sh, hex(&mb)));
        }
    }
    // the deepest accepted tree: a chain with leaves at depths 1..=127 and two at 128
    let mut chain: Vec<u8> = (1..=128u8).collect();
    chain.push(128);
    let mut chain129: Vec<u8> = (1..=129u8).collect();
    chain129.push(129);
    let l = |d: &[u8]| tt_bytes(d, |_| 0xc4);
    let bad: Vec<(&str, Vec<u8>, Option<bool>)> = vec![
        ("chain128", l(&chain), Some(true)),
        ("chain129", l(&chain129), Some(false)),
        ("empty", vec![], Some(false)),
        ("incomplete_1", l(&[1]), Some(false)),
        ("incomplete_12", l(&[1, 2]), Some(false)),
        ("incomplete_122", l(&[2, 2]), Some(false)),
        ("incomplete_single_128", l(&[128]), Some(false)),
        ("overcomplete_00", l(&[0, 0]), Some(false)),
        ("overcomplete_111", l(&[1, 1, 1]), Some(false)),
        ("overcomplete_1221", l(&[1, 2, 2, 1]), Some(false)),
        ("not_dfs_21", l(&[2, 1, 1]), Some(false)),
        ("not_dfs_3312", l(&[3, 3, 1, 2]), Some(false)),
        ("depth129", l(&[129]), Some(false)),
        ("depth255", l(&[255]), Some(false)),
        ("version_50", tt_bytes(&[0], |_| 0x50), Some(false)),
        ("version_c5", tt_bytes(&[0], |_| 0xc5), Some(false)),
        ("version_01", tt_bytes(&[1, 1], |j| if j == 1 { 0x01 } else { 0xc4 }), Some(false)),
        ("version_c0", tt_bytes(&[0], |_| 0xc0), Some(true)),
        ("version_00", tt_bytes(&[1, 1], |_| 0x00), Some(true)),
        ("version_fe", tt_bytes(&[1, 1], |j| if j == 0 { 0xfe } else { 0x66 }), Some(true)),
        ("no_version", vec![0], Some(false)),
        ("no_script", vec![0, 0xc4], Some(false)),
        ("script_truncated", vec![0, 0xc4, 5, 0xaa], Some(false)),
        ("script_len_nonminimal", vec![0, 0xc4, 0xfd, 1, 0, 0xaa], Some(false)),
        ("trailing_depth", vec![0, 0xc4, 0, 1], Some(false)),
        ("trailing_leaf", cat(&[&l(&[0]), &l(&[0])]), Some(false)),
        ("empty_script", vec![0, 0xc4, 0], Some(true)),
        ("long_script", cat(&[&[0, 0xc4, 0xfd, 0x00, 0x01], &gen::bytes(rng, 256)]), Some(true)),
    ];
    for (n, v, e) in bad {
        let c = case('o', vec![rp(6, &[], &v)], &format!("taptree.{}", n), e);
        targeted_case(cx, rng, &c);
    }
}

// ------------------------------------------------------------------ generated in-memory PSETs

const BLIND_FIELDS: [&str; 9] = ["amount", "amount_comm", "asset", "asset_comm", "value_rangeproof", "asset_surjection_proof", "blinding_key", "ecdh_pubkey", "blinder_index"];

fn fv(rng: &mut R, loc: &str, f: &str) -> Add {
    let sec = loc.chars().next().unwrap();
    let (mut k, v) = pd::field_value(rng, sec, f);
    fix_preimage(f, &mut k, &v);
    Add::new(loc, f, &k, &v)
}

/// output kinds: 0 as is, 1 marked for blinding, 2 fully blinded (explicit values kept), 3 fully blinded
/// (explicit values removed), 4 partially blinded (not wf), 5 blinding key without index (not wf), 6 no amount
/// (not wf), 7 no asset (not wf)
fn out_kind_adds(rng: &mut R, n: usize, kind: u8) -> Vec<Add> {
    let loc = format!("o{}", n);
    let five = ["amount_comm", "asset_comm", "value_rangeproof", "asset_surjection_proof", "ecdh_pubkey"];
    let mut a = vec![];
    // the transaction's own output may already carry some of these: normalise first
    let clear = |a: &mut Vec<Add>, fs: &[&str]| for f in fs { a.push(Add::unset(&loc, f)); };
    match kind {
        0 => {}
        1 => {
            clear(&mut a, &five);
            a.push(fv(rng, &loc, "amount"));
            a.push(fv(rng, &loc, "asset"));
            a.push(fv(rng, &loc, "blinding_key"));
            a.push(fv(rng, &loc, "blinder_index"));
        }
        2 | 3 => {
            for f in five { a.push(fv(rng, &loc, f)); }
            a.push(fv(rng, &loc, "blinding_key"));
            a.push(fv(rng, &loc, "blinder_index"));
            if kind == 3 {
                clear(&mut a, &["amount", "asset"]);
            } else {
                a.push(fv(rng, &loc, "amount"));
                a.push(fv(rng, &loc, "asset"));
            }
        }
        4 => {
            clear(&mut a, &five);
            a.push(fv(rng, &loc, "amount"));
            a.push(fv(rng, &loc, "asset"));
            a.push(fv(rng, &loc, "blinding_key"));
            a.push(fv(rng, &loc, "blinder_index"));
            let mask = rng.gen_range(1..31u8);
            for (j, f) in five.iter().enumerate() {
                if mask & (1 << j) != 0 { a.push(fv(rng, &loc, f)); }
            }
        }
        5 => {
            a.push(fv(rng, &loc, "amount"));
            a.push(fv(rng, &loc, "asset"));
            a.push(fv(rng, &loc, "blinding_key"));
            a.push(Add::unset(&loc, "blinder_index"));
        }
        6 => {
            clear(&mut a, &["amount", "amount_comm"]);
            a.push(fv(rng, &loc, "asset"));
        }
        _ => {
            clear(&mut a, &["asset", "asset_comm"]);
            a.push(fv(rng, &loc, "amount"));
        }
    }
    a
}

fn random_adds(rng: &mut R, tx: &Transaction, density: f64, kinds: Option<&[u8]>) -> Vec<Add> {
    let mut adds = vec![];
    // a wrong declared count (only reachable through serde) goes first
    if rng.gen_bool(0.04) {
        let f = if rng.gen_bool(0.5) { "input_count" } else { "output_count" };
        let cur = if f == "input_count" { tx.input.len() } else { tx.output.len() } as u64;
        let nv = if cur > 0 && rng.gen_bool(0.5) { cur - 1 } else { cur + 1 };
        adds.push(Add::new("g", f, &[], &nv.to_le_bytes()));
    }
    for (f, _, is_map) in pd::GLOBAL_FIELDS {
        let p = match *f { "version" => 0.04, "tx_version" => density * 0.5, _ => density };
        if rng.gen_bool(p) {
            for _ in 0..(if *is_map { rng.gen_range(1..4) } else { 1 }) {
                adds.push(fv(rng, "g", f));
            }
            if *f == "scalars" && rng.gen_bool(0.1) {
                // a repeated scalar: not well-formed
                let last = adds.last().unwrap().clone();
                adds.push(last);
            }
        }
    }
    for n in 0..tx.input.len() {
        let loc = format!("i{}", n);
        for (f, _, is_map) in pd::INPUT_FIELDS {
            let p = if *f == "previous_txid" || *f == "previous_output_index" { density * 0.3 } else { density };
            if rng.gen_bool(p) {
                for _ in 0..(if *is_map { rng.gen_range(1..4) } else { 1 }) {
                    let mut a = fv(rng, &loc, f);
                    if f.ends_with("_preimages") && rng.gen_bool(0.05) {
                        // key is not the hash of the value: not well-formed
                        flip(rng, &mut a.key);
                    }
                    adds.push(a);
                }
            }
        }
    }
    for n in 0..tx.output.len() {
        let loc = format!("o{}", n);
        if let Some(ks) = kinds {
            let kind = ks[rng.gen_range(0..ks.len())];
            adds.extend(out_kind_adds(rng, n, kind));
        }
        for (f, _, is_map) in pd::OUTPUT_FIELDS {
            if kinds.is_some() && BLIND_FIELDS.contains(f) {
                continue;
            }
            let p = if *f == "script_pubkey" { density * 0.3 } else { density };
            if rng.gen_bool(p) {
                for _ in 0..(if *is_map { rng.gen_range(1..4) } else { 1 }) {
                    adds.push(fv(rng, &loc, f));
                }
            }
        }
    }
    adds
}

/// one field at a time, then all fields at once
fn sweeps(cx: &mut Cx, rng: &mut R) {
    let reps = if cx.out.tier_thorough { 12 } else { 2 };
    for _ in 0..reps {
        let tx = gen::tx_wide(rng, 1, 1);
        for (f, _, is_map) in pd::GLOBAL_FIELDS {
            let n = if *is_map { rng.gen_range(1..4) } else { 1 };
            let adds: Vec<Add> = (0..n).map(|_| fv(rng, "g", f)).collect();
            described(cx, &tx, &adds, "sweep.g", true);
            if *f == "version" {
                described(cx, &tx, &[Add::new("g", "version", &[], &2u32.to_le_bytes())], "sweep.g", false);
            }
        }
        for (f, _, is_map) in pd::INPUT_FIELDS {
            let n = if *is_map { rng.gen_range(1..4) } else { 1 };
            let adds: Vec<Add> = (0..n).map(|_| fv(rng, "i0", f)).collect();
            described(cx, &tx, &adds, "sweep.i", true);
        }
        for (f, _, is_map) in pd::OUTPUT_FIELDS {
            let n = if *is_map { rng.gen_range(1..4) } else { 1 };
            let adds: Vec<Add> = (0..n).map(|_| fv(rng, "o0", f)).collect();
            let r = described(cx, &tx, &adds, "sweep.o", true);
            if matches!(r, Some((_, _, false))) {
                // the field alone is not acceptable (blinding key): add what makes it well-formed
                let mut a2 = adds.clone();
                a2.push(fv(rng, "o0", "blinder_index"));
                described(cx, &tx, &a2, "sweep.o", true);
            }
        }
        // every field at once (a fully blinded output)
        let mut adds = vec![];
        for (f, _, is_map) in pd::GLOBAL_FIELDS {
            if *f == "version" { continue; }
            for _ in 0..(if *is_map { 2 } else { 1 }) { adds.push(fv(rng, "g", f)); }
        }
        for (f, _, is_map) in pd::INPUT_FIELDS {
            for _ in 0..(if *is_map { 2 } else { 1 }) { adds.push(fv(rng, "i0", f)); }
        }
        for (f, _, is_map) in pd::OUTPUT_FIELDS {
            for _ in 0..(if *is_map { 2 } else { 1 }) { adds.push(fv(rng, "o0", f)); }
        }
        if let Some((_, b, true)) = described(cx, &tx, &adds, "sweep.all", true) {
            structural(cx, rng, &b, 4);
        }
        // each output kind once
        for kind in 0..8u8 {
            let tx = gen::tx_wide(rng, 1, 1);
            let adds = out_kind_adds(rng, 0, kind);
            let r = described(cx, &tx, &adds, &format!("outkind.{}", kind), true);
            cx.out.s("outkind_oracle_as_intended", matches!(&r, Some((_, _, w)) if *w == (kind < 4)), || format!("kind {}", kind));
            if let Some((_, b, true)) = r {
                structural(cx, rng, &b, 2);
            }
        }
    }
}

/// the one repetition the decoder accepts: the global `elements_tx_modifiable_flag` pair (recorded, not judged)
fn flag_dups(cx: &mut Cx, rng: &mut R) {
    let reps = if cx.out.tier_thorough { 20 } else { 4 };
    for rep in 0..reps {
        let tx = gen::tx_wide(rng, rep % 2, 1);
        let v0: u8 = rng.gen_range(0..4);
        let Some((_, b, true)) = described(cx, &tx, &[Add::new("g", "elements_tx_modifiable_flag", &[], &[v0])], "flagdup.base", false) else { continue };
        let Some(maps) = parse_raw(&b) else { continue };
        let Some(i) = maps[0].iter().position(|p| is_pset(p, 1)) else { continue };
        for (where_, val) in [(0usize, vec![v0]), (0, vec![v0 ^ 1]), (maps[0].len(), vec![v0 ^ 1]), (i + 1, vec![v0 ^ 0x80]), (i, vec![v0 ^ 2]), (i + 1, vec![]), (i + 1, vec![1, 2])] {
            let mut q = maps.clone();
            let mut d = q[0][i].clone();
            d.val = val;
            q[0].insert(where_, d);
            map_op_sec(cx, 'g', &ser_map(&q[0]));
            dup_flag(cx, &ser_raw(&q), &q[0]);
        }
    }
}

// ------------------------------------------------------------------ maps whose emission order matters

fn alt_pubkey(rng: &mut R, j: usize) -> Vec<u8> {
    let pk = gen::pubkey(rng);
    if j % 2 == 0 { pk.serialize_uncompressed().to_vec() } else { pk.serialize().to_vec() }
}
fn mem_prop_key(rng: &mut R, sec: char, j: usize) -> Vec<u8> {
    let kd = pd::rb(rng, 0, 3);
    match j % 6 {
        0 => fc(b"b", 1, &kd),
        1 => fc(b"aa", 0, &kd),
        2 => fc(b"", 2, &kd),
        3 => fc(b"pset", match sec { 'g' => 0x02 + (j as u8 % 7), 'i' => 0x16 + (j as u8 % 7), _ => 0x0b + (j as u8 % 7) }, &kd),
        4 => fc(b"pset_hww", 2, &kd),
        _ => fc(b"b", 0, &cat(&[&kd, &[1]])),
    }
}
fn mem_unknown_key(rng: &mut R, sec: char, j: usize) -> Vec<u8> {
    let l = match sec { 'g' => UNK_G, 'i' => UNK_I, _ => UNK_O };
    let mut v = vec![l[j % l.len()]];
    v.extend(gen::bytes(rng, [0usize, 2, 1, 3][j % 4]));
    v
}
fn ordered_entry(rng: &mut R, loc: &str, f: &str, j: usize, shared: &[u8]) -> Add {
    let sec = loc.chars().next().unwrap();
    let mut a = fv(rng, loc, f);
    match f {
        "partial_sigs" | "bip32_derivation" => a.key = alt_pubkey(rng, j),
        "xpub" => {
            // same depth / fingerprint / child number: the order is decided by the network, then the key, then the chain code
            let ver = if j % 2 == 0 { XPUB_TEST } else { XPUB_MAIN };
            let pk = gen::pubkey(rng).serialize();
            let cc = gen::arr32(rng);
            a.key = xpub_raw(rng, ver, 1, [9, 9, 9, 9], if j % 3 == 0 { 0x8000_0000 } else { 7 }, cc, &pk);
        }
        "proprietary" => a.key = mem_prop_key(rng, sec, j),
        "unknown" => a.key = mem_unknown_key(rng, sec, j),
        "tap_script_sigs" if j % 2 == 1 => a.key = cat(&[&shared[..32], &gen::arr32(rng)]),
        "tap_scripts" => {
            let first = [0xc5u8, 0xc4, 0xc1, 0xfe, 0xc0][j % 5];
            let mut k = vec![first];
            k.extend_from_slice(&shared[..32]);
            for _ in 0..(j % 3) { k.extend(gen::arr32(rng)); }
            a.key = k;
        }
        _ => {}
    }
    a
}
fn ordered_maps(cx: &mut Cx, rng: &mut R) {
    let reps = if cx.out.tier_thorough { 6 } else { 2 };
    for size in 0..=4usize {
        for rep in 0..reps {
            let tx = gen::tx_wide(rng, 1, 1);
            let shared = pd::xonly(rng).serialize().to_vec();
            let mut adds = vec![];
            for (loc, fields) in [("g", pd::GLOBAL_FIELDS), ("i0", pd::INPUT_FIELDS), ("o0", pd::OUTPUT_FIELDS)] {
                for (f, _, is_map) in fields {
                    if !*is_map { continue; }
                    let n = if rep == 0 { size } else { rng.gen_range(0..=size) };
                    cx.out.count(&format!("mapsize.{}.{}.{}", &loc[..1], f, n));
                    for j in 0..n {
                        adds.push(ordered_entry(rng, loc, f, j, &shared));
                    }
                }
            }
            adds.shuffle(rng);
            if let Some((_, b, true)) = described(cx, &tx, &adds, "ordered", true) {
                if rep == 0 {
                    structural(cx, rng, &b, 2);
                }
            }
        }
    }
}

// ------------------------------------------------------------------ random PSETs, the repository's vectors

fn generated(cx: &mut Cx, rng: &mut R) {
    let n = if cx.out.tier_thorough { 900 } else { 90 };
    let wf_kinds: [u8; 6] = [0, 0, 1, 2, 3, 2];
    let all_kinds: [u8; 8] = [0, 1, 2, 3, 4, 5, 6, 7];
    for j in 0..n {
        let tx = match j % 4 {
            0 => gen::tx(rng),
            _ => { let a = rng.gen_range(0..3); let b = rng.gen_range(0..3); gen::tx_wide(rng, a, b) }
        };
        let density = [0.0, 0.08, 0.2, 0.5, 0.12][j % 5];
        let adds = match j % 3 {
            0 => random_adds(rng, &tx, density, None),
            1 => random_adds(rng, &tx, density, Some(&wf_kinds[..])),
            _ => random_adds(rng, &tx, density, Some(if j % 6 == 2 { &all_kinds[..] } else { &wf_kinds[..] })),
        };
        cx.out.count(&format!("gen.inputs.{}", tx.input.len().min(4)));
        cx.out.count(&format!("gen.outputs.{}", tx.output.len().min(4)));
        if let Some((p, b, w)) = described(cx, &tx, &adds, "gen", true) {
            // byte-level mutations of the single maps
            for _ in 0..2 {
                let (sec, mb) = match rng.gen_range(0..3) {
                    0 => ('g', serialize(&p.global)),
                    1 if !p.inputs().is_empty() => ('i', serialize(&p.inputs()[rng.gen_range(0..p.inputs().len())])),
                    _ if !p.outputs().is_empty() => ('o', serialize(&p.outputs()[rng.gen_range(0..p.outputs().len())])),
                    _ => ('g', serialize(&p.global)),
                };
                let m = gen::mutate(rng, &mb);
                cx.out.count("mut.map_random");
                map_op_sec(cx, sec, &m);
            }
            if w {
                let n_rand = if b.len() > 6000 { 1 } else if b.len() > 2500 { 4 } else { 10 };
                structural(cx, rng, &b, n_rand);
            } else {
                for _ in 0..2 {
                    let m = gen::mutate(rng, &b);
                    on_bytes(cx, &m, "mut.random_nonwf");
                }
            }
        }
    }
}

/// base64 strings starting with the encoded magic, from the sources
fn harvest_base64() -> Vec<String> {
    let mut res = vec![];
    let mut files = vec![];
    fn walk(d: &std::path::Path, files: &mut Vec<std::path::PathBuf>) {
        if let Ok(rd) = std::fs::read_dir(d) {
            let mut es: Vec<_> = rd.flatten().map(|e| e.path()).collect();
            es.sort();
            for p in es {
                if p.is_dir() { walk(&p, files); } else { files.push(p); }
            }
        }
    }
    walk(std::path::Path::new("/repo/src"), &mut files);
    walk(std::path::Path::new("/repo/tests"), &mut files);
    for f in files {
        let Ok(s) = std::fs::read_to_string(&f) else { continue };
        let mut cur = String::new();
        for c in s.chars().chain(std::iter::once(' ')) {
            if c.is_ascii_alphanumeric() || c == '+' || c == '/' || c == '=' {
                cur.push(c);
            } else {
                if cur.starts_with("cHNldP8") && cur.len() <= 400_000 {
                    res.push(cur.clone());
                }
                cur.clear();
            }
        }
    }
    res.sort();
    res.dedup();
    res
}

fn vectors(cx: &mut Cx, rng: &mut R) {
    let mut n_vec = 0;
    for v in c01::harvest_hex() {
        if v.starts_with(b"pset\xff") {
            n_vec += 1;
            let r = on_bytes(cx, &v, "vector");
            if let Some(p) = r {
                cx.out.s("vector_is_canonical", serialize(&p) == v, || hex(&v));
                tostr_op(cx, &v);
                if v.len() < 8000 {
                    structural(cx, rng, &v, 3);
                }
            } else {
                for _ in 0..2 {
                    let m = gen::mutate(rng, &v);
                    on_bytes(cx, &m, "vector.mutated");
                }
            }
        }
    }
    cx.out.count_n("vectors.hex", n_vec);
    let b64s = harvest_base64();
    cx.out.count_n("vectors.base64", b64s.len() as u64);
    for s in b64s {
        if fromstr_op(cx, &s, "vector") {
            if let Ok(p) = s.parse::<Pset>() {
                on_bytes(cx, &serialize(&p), "vector.base64");
            }
        }
    }
}

// ------------------------------------------------------------------ ELIP-100 / ELIP-102

fn hww_key(sub: u8, id: &AssetId) -> ProprietaryKey {
    ProprietaryKey { prefix: b"pset_hww".to_vec(), subtype: sub, key: serialize(id) }
}
fn abf_key() -> ProprietaryKey {
    ProprietaryKey { prefix: b"pset_liquidex".to_vec(), subtype: 0, key: vec![] }
}
fn old_str(o: &Option<Vec<u8>>) -> String {
    match o { None => "none".into(), Some(b) => format!("some:{}", hex(b)) }
}
fn got_asset(g: Option<Result<AssetMetadata, elements::encode::Error>>) -> String {
    match g {
        None => "none".into(),
        Some(Err(_)) => "err".into(),
        Some(Ok(m)) => format!("ok:{}:{}:{}", hex(m.contract().as_bytes()), hex(&serialize(&m.issuance_prevout().txid)), m.issuance_prevout().vout),
    }
}
fn got_token(g: Option<Result<TokenMetadata, elements::encode::Error>>) -> String {
    match g {
        None => "none".into(),
        Some(Err(_)) => "err".into(),
        Some(Ok(m)) => format!("ok:{}:{}", hex(&serialize(m.asset_id())), if m.issuance_blinded() { 1 } else { 0 }),
    }
}
fn got_abf(g: Option<Result<AssetBlindingFactor, elements::encode::Error>>) -> String {
    match g {
        None => "none".into(),
        Some(Err(_)) => "err".into(),
        Some(Ok(a)) => format!("ok:{}", hex(&PsetSer::serialize(&a))),
    }
}

fn elip_asset_op(cx: &mut Cx, pb: &[u8], aid: AssetId, contract: &str, txid: Txid, vout: u32) {
    let op = format!("pset.elip.asset {} {} {} {} {}", hex(pb), hex(&serialize(&aid)), hex(contract.as_bytes()), hex(&serialize(&txid)), vout);
    let real = Out::guard(|| match deserialize::<Pset>(pb) {
        Err(_) => "err".into(),
        Ok(mut p) => {
            let old = p.global.proprietary.get(&hww_key(0, &aid)).cloned();
            p.add_asset_metadata(aid, &AssetMetadata::new(contract.to_string(), OutPoint { txid, vout }));
            format!("ok {} {} {}", hex(&serialize(&p)), old_str(&old), got_asset(p.get_asset_metadata(aid)))
        }
    });
    cx.out.count(&format!("elip.asset.{}", tag(&real)));
    cx.out.k(op, real);
    // the property on the real code: what was set comes back, also through bytes
    if let Ok(mut p) = deserialize::<Pset>(pb) {
        let old = p.global.proprietary.get(&hww_key(0, &aid)).cloned();
        let meta = AssetMetadata::new(contract.to_string(), OutPoint { txid, vout });
        let ret = p.add_asset_metadata(aid, &meta);
        let ret_ok = match (&old, &ret) {
            (None, None) => true,
            (Some(o), Some(r)) => match (AssetMetadata::deserialize(o), r) { (Ok(a), Ok(b)) => a == *b, (Err(_), Err(_)) => true, _ => false },
            _ => false,
        };
        cx.out.s("elip_add_returns_old", ret_ok, || format!("asset {} {}", hex(pb), hex(&serialize(&aid))));
        let direct = matches!(p.get_asset_metadata(aid), Some(Ok(m)) if m == meta);
        let b = serialize(&p);
        let through = match deserialize::<Pset>(&b) {
            Ok(q) => q == p && matches!(q.get_asset_metadata(aid), Some(Ok(m)) if m == meta) && serialize(&q) == b,
            Err(_) => false,
        };
        cx.out.s("elip_roundtrip_through_bytes", direct && through, || format!("asset {} {} {}", hex(pb), hex(&serialize(&aid)), hex(contract.as_bytes())));
    }
}
fn elip_token_op(cx: &mut Cx, pb: &[u8], tid: AssetId, aid: AssetId, blinded: bool) {
    let op = format!("pset.elip.token {} {} {} {}", hex(pb), hex(&serialize(&tid)), hex(&serialize(&aid)), if blinded { 1 } else { 0 });
    let real = Out::guard(|| match deserialize::<Pset>(pb) {
        Err(_) => "err".into(),
        Ok(mut p) => {
            let old = p.global.proprietary.get(&hww_key(1, &tid)).cloned();
            p.add_token_metadata(tid, &TokenMetadata::new(aid, blinded));
            format!("ok {} {} {}", hex(&serialize(&p)), old_str(&old), got_token(p.get_token_metadata(tid)))
        }
    });
    cx.out.count(&format!("elip.token.{}", tag(&real)));
    cx.out.k(op, real);
    if let Ok(mut p) = deserialize::<Pset>(pb) {
        let meta = TokenMetadata::new(aid, blinded);
        p.add_token_metadata(tid, &meta);
        let b = serialize(&p);
        let through = match deserialize::<Pset>(&b) {
            Ok(q) => q == p && matches!(q.get_token_metadata(tid), Some(Ok(m)) if m == meta) && serialize(&q) == b,
            Err(_) => false,
        };
        cx.out.s("elip_roundtrip_through_bytes", through, || format!("token {} {}", hex(pb), hex(&serialize(&tid))));
    }
}
fn elip_get_ops(cx: &mut Cx, pb: &[u8], id: AssetId) {
    let real = Out::guard(|| match deserialize::<Pset>(pb) {
        Err(_) => "err".into(),
        Ok(p) => format!("ok {}", got_asset(p.get_asset_metadata(id))),
    });
    cx.out.count(&format!("elip.getasset.{}", real.replace("ok ", "").split(':').next().unwrap_or("")));
    cx.out.k(format!("pset.elip.getasset {} {}", hex(pb), hex(&serialize(&id))), real);
    let real = Out::guard(|| match deserialize::<Pset>(pb) {
        Err(_) => "err".into(),
        Ok(p) => format!("ok {}", got_token(p.get_token_metadata(id))),
    });
    cx.out.count(&format!("elip.gettoken.{}", real.replace("ok ", "").split(':').next().unwrap_or("")));
    cx.out.k(format!("pset.elip.gettoken {} {}", hex(pb), hex(&serialize(&id))), real);
}
fn elip_abf_op(cx: &mut Cx, pb: &[u8], io: char, idx: usize, abf: AssetBlindingFactor) {
    let abf_b = PsetSer::serialize(&abf);
    let real = Out::guard(|| match deserialize::<Pset>(pb) {
        Err(_) => "err".into(),
        Ok(mut p) => {
            let got = if io == 'i' {
                p.inputs_mut()[idx].set_abf(abf);
                p.inputs()[idx].get_abf()
            } else {
                p.outputs_mut()[idx].set_abf(abf);
                p.outputs()[idx].get_abf()
            };
            format!("ok {} {}", hex(&serialize(&p)), got_abf(got))
        }
    });
    cx.out.count(&format!("elip.abf.{}.{}", io, tag(&real)));
    cx.out.k(format!("pset.elip.abf {} {} {} {}", hex(pb), io, idx, hex(&abf_b)), real);
    if let Ok(mut p) = deserialize::<Pset>(pb) {
        if io == 'i' { p.inputs_mut()[idx].set_abf(abf) } else { p.outputs_mut()[idx].set_abf(abf) }
        let b = serialize(&p);
        let through = match deserialize::<Pset>(&b) {
            Ok(q) => {
                let g = if io == 'i' { q.inputs()[idx].get_abf() } else { q.outputs()[idx].get_abf() };
                q == p && matches!(g, Some(Ok(a)) if a == abf) && serialize(&q) == b
            }
            Err(_) => false,
        };
        cx.out.s("elip_roundtrip_through_bytes", through, || format!("abf {} {} {} {}", hex(pb), io, idx, hex(&abf_b)));
    }
}
fn elip_getabf_op(cx: &mut Cx, pb: &[u8], io: char, idx: usize) {
    let real = Out::guard(|| match deserialize::<Pset>(pb) {
        Err(_) => "err".into(),
        Ok(p) => {
            let g = if io == 'i' { p.inputs().get(idx).and_then(|x| x.get_abf()) } else { p.outputs().get(idx).and_then(|x| x.get_abf()) };
            format!("ok {}", got_abf(g))
        }
    });
    cx.out.count(&format!("elip.getabf.{}", real.replace("ok ", "").split(':').next().unwrap_or("")));
    cx.out.k(format!("pset.elip.getabf {} {} {}", hex(pb), io, idx), real);
}

const CONTRACTS: [&str; 7] = [
    "",
    "{}",
    r#"{"entity":{"domain":"example.com"},"issuer_pubkey":"03455ee7cedc97b0ba435b80066fc92c963a34c600317981d135330c4ee43ac7a3","name":"Testcoin","precision":2,"ticker":"TEST","version":0}"#,
    "caf\u{e9} \u{20ac} \u{1f600}",
    "\u{0}\u{7f}\u{80}\u{7ff}\u{800}\u{ffff}\u{10000}\u{10ffff}",
    "line\nbreak\ttab \"quoted\"",
    "\u{d7ff}\u{e000}\u{fffd}",
];

fn elip(cx: &mut Cx, rng: &mut R) {
    let reps = if cx.out.tier_thorough { 12 } else { 2 };
    for rep in 0..reps {
        let tx = { let a = rng.gen_range(1..3); let b = rng.gen_range(1..3); gen::tx_wide(rng, a, b) };
        let aid = gen::asset_id(rng);
        let tid = gen::asset_id(rng);
        let other = gen::asset_id(rng);
        let txid = Txid::from_byte_array(gen::arr32(rng));
        let akey = pd::prop_key_bytes(&hww_key(0, &aid));
        let tkey = pd::prop_key_bytes(&hww_key(1, &tid));
        let lkey = pd::prop_key_bytes(&abf_key());
        let outp = cat(&[&serialize(&txid), &7u32.to_le_bytes()]);
        let valid_asset = AssetMetadata::new(CONTRACTS[2].to_string(), OutPoint { txid, vout: 7 }).serialize();
        let valid_token = TokenMetadata::new(aid, true).serialize();
        let raw_contract = |c: &[u8]| cat(&[&cs(c.len() as u64), c, &outp]);
        // planted raw values under the ELIP keys
        let asset_vals: Vec<(&str, Vec<u8>)> = vec![
            ("valid", valid_asset.clone()),
            ("valid_empty_contract", raw_contract(b"")),
            ("valid_multibyte", raw_contract(CONTRACTS[3].as_bytes())),
            ("truncated_1", valid_asset[..valid_asset.len() - 1].to_vec()),
            ("truncated_outpoint", valid_asset[..valid_asset.len() - 36].to_vec()),
            ("truncated_contract", valid_asset[..20].to_vec()),
            ("trailing", cat(&[&valid_asset, &[1, 2, 3]])),
            ("empty", vec![]),
            ("utf8_ff", raw_contract(&[0xff])),
            ("utf8_overlong_c080", raw_contract(&[0x61, 0xc0, 0x80])),
            ("utf8_surrogate_eda080", raw_contract(&[0xed, 0xa0, 0x80])),
            ("utf8_above_max_f4908080", raw_contract(&[0xf4, 0x90, 0x80, 0x80])),
            ("utf8_truncated_e282", raw_contract(&[0xe2, 0x82])),
            ("utf8_lone_continuation", raw_contract(&[0x80])),
            ("utf8_overlong_e08080", raw_contract(&[0xe0, 0x80, 0x80])),
            ("utf8_overlong_f0808080", raw_contract(&[0xf0, 0x80, 0x80, 0x80])),
            ("utf8_f5", raw_contract(&[0xf5, 0x80, 0x80, 0x80])),
            ("utf8_max_f48fbfbf", raw_contract(&[0xf4, 0x8f, 0xbf, 0xbf])),
            ("utf8_edge_ed9fbf", raw_contract(&[0xed, 0x9f, 0xbf])),
            ("len_nonminimal", cat(&[&[0xfd, 2, 0], b"{}", &outp])),
            ("len_exceeds", cat(&[&[0x30], b"{}", &outp])),
        ];
        let token_vals: Vec<(&str, Vec<u8>)> = vec![
            ("valid_1", valid_token.clone()),
            ("valid_0", TokenMetadata::new(other, false).serialize()),
            ("flag_2", cat(&[&[2], &serialize(&aid)])),
            ("flag_ff", cat(&[&[0xff], &serialize(&aid)])),
            ("truncated", valid_token[..32].to_vec()),
            ("trailing", cat(&[&valid_token, &[9]])),
            ("empty", vec![]),
            ("one_byte", vec![1]),
        ];
        let abf = AssetBlindingFactor::from_slice(&gen::tweak(rng).as_ref()[..]).unwrap();
        let abf_b = PsetSer::serialize(&abf);
        let abf_vals: Vec<(&str, Vec<u8>)> = vec![
            ("valid", abf_b.clone()),
            ("len31", abf_b[..31].to_vec()),
            ("len33", cat(&[&abf_b, &[0]])),
            ("ff", vec![0xff; 32]),
            ("order", GROUP_ORDER.to_vec()),
            ("order_minus_one", order_minus_one().to_vec()),
            ("zero", vec![0; 32]),
            ("empty", vec![]),
        ];
        // a clean PSET: add, overwrite, read
        let base = serialize(&Pset::from_tx(tx.clone()));
        for (j, c) in CONTRACTS.iter().enumerate() {
            if rep > 0 && j != rep % CONTRACTS.len() { continue; }
            elip_asset_op(cx, &base, aid, c, txid, rng.gen_range(0..3) * 0x7fff_ffff);
        }
        elip_token_op(cx, &base, tid, aid, rep % 2 == 0);
        elip_get_ops(cx, &base, aid);
        elip_abf_op(cx, &base, 'i', tx.input.len() - 1, abf);
        elip_abf_op(cx, &base, 'o', tx.output.len() - 1, abf);
        elip_getabf_op(cx, &base, 'i', 0);
        elip_getabf_op(cx, &base, 'o', 0);
        elip_getabf_op(cx, &base, 'i', 5);
        // planted values
        for (n, v) in &asset_vals {
            if rep > 0 && rng.gen_bool(0.6) { continue; }
            let adds = vec![Add::new("g", "proprietary", &akey, v), Add::new("g", "proprietary", &pd::prop_key_bytes(&hww_key(0, &other)), &valid_asset)];
            let Some((_, pb, _)) = described(cx, &tx, &adds, "elip.planted", false) else { continue };
            cx.out.count(&format!("elip.planted.asset.{}", n));
            elip_get_ops(cx, &pb, aid);
            if rep == 0 || rng.gen_bool(0.3) {
                elip_asset_op(cx, &pb, aid, CONTRACTS[rng.gen_range(0..CONTRACTS.len())], txid, 1);
            }
        }
        for (n, v) in &token_vals {
            if rep > 0 && rng.gen_bool(0.5) { continue; }
            let adds = vec![Add::new("g", "proprietary", &tkey, v)];
            let Some((_, pb, _)) = described(cx, &tx, &adds, "elip.planted", false) else { continue };
            cx.out.count(&format!("elip.planted.token.{}", n));
            elip_get_ops(cx, &pb, tid);
            if rep == 0 || rng.gen_bool(0.3) {
                elip_token_op(cx, &pb, tid, other, rng.gen_bool(0.5));
            }
        }
        for (n, v) in &abf_vals {
            if rep > 0 && rng.gen_bool(0.5) { continue; }
            let adds = vec![Add::new("i0", "proprietary", &lkey, v), Add::new("o0", "proprietary", &lkey, v)];
            let Some((_, pb, _)) = described(cx, &tx, &adds, "elip.planted", false) else { continue };
            cx.out.count(&format!("elip.planted.abf.{}", n));
            elip_getabf_op(cx, &pb, 'i', 0);
            elip_getabf_op(cx, &pb, 'o', 0);
            if rep == 0 {
                elip_abf_op(cx, &pb, 'i', 0, abf);
                elip_abf_op(cx, &pb, 'o', 0, abf);
            }
        }
        // an undecodable PSET
        elip_get_ops(cx, &base[..base.len() - 1], aid);
    }
}

// ------------------------------------------------------------------ text form

fn text(cx: &mut Cx, rng: &mut R) {
    let reps = if cx.out.tier_thorough { 30 } else { 6 };
    for rep in 0..reps {
        // lengths in every residue class mod 3: pad with an unknown global pair
        let tx = gen::tx_wide(rng, rep % 2, 1);
        let pad = gen::bytes(rng, rep % 3 + if rep >= 3 { 40 } else { 0 });
        let adds = vec![Add::new("g", "unknown", &[0x99, 1], &pad)];
        let Some((p, b, _)) = described(cx, &tx, &adds, "text", false) else { continue };
        cx.out.count(&format!("text.len_mod3.{}", b.len() % 3));
        tostr_op(cx, &b);
        let s = p.to_string();
        cx.out.s("text_roundtrip", matches!(s.parse::<Pset>(), Ok(q) if q == p), || s.clone());
        fromstr_op(cx, &s, "valid");
        let stripped = s.trim_end_matches('=').to_string();
        let mut variants: Vec<(&str, String)> = vec![
            ("extra_padding", format!("{}=", s)),
            ("extra_padding4", format!("{}====", s)),
            ("no_padding", stripped.clone()),
            ("newline_end", format!("{}\n", s)),
            ("space_inside", format!("{} {}", &s[..8], &s[8..])),
            ("newline_inside", format!("{}\n{}", &s[..76.min(s.len())], &s[76.min(s.len())..])),
            ("leading_space", format!(" {}", s)),
            ("urlsafe", s.replace('+', "-").replace('/', "_")),
            ("lowercase", s.to_lowercase()),
            ("padding_inside", format!("{}={}", &s[..4], &s[4..])),
            ("truncated_1", s[..s.len() - 1].to_string()),
            ("truncated_4", s[..s.len() - 4].to_string()),
            ("non_ascii", format!("{}\u{e9}", s)),
            ("nul", format!("{}\u{0}", s)),
        ];
        // non-zero trailing bits in the last symbol before the padding
        if stripped.len() < s.len() {
            let mut cs_: Vec<char> = stripped.chars().collect();
            let last = *cs_.last().unwrap();
            const A: &str = "ABCDEFGHIJKLMNOPQRSTUVWXYZabcdefghijklmnopqrstuvwxyz0123456789+/";
            let v = A.find(last).unwrap();
            *cs_.last_mut().unwrap() = A.as_bytes()[v | 1] as char;
            let t: String = cs_.into_iter().collect::<String>() + &s[stripped.len()..];
            if t != s { variants.push(("trailing_bits", t)); }
        }
        // a changed symbol inside
        {
            let mut cs_: Vec<char> = s.chars().collect();
            let i = rng.gen_range(8..cs_.len().saturating_sub(4).max(9));
            cs_[i] = if cs_[i] == 'A' { 'B' } else { 'A' };
            variants.push(("changed_symbol", cs_.into_iter().collect()));
        }
        for (n, t) in variants {
            if rep >= 3 && rng.gen_bool(0.5) { continue; }
            fromstr_op(cx, &t, n);
        }
    }
    for t in ["", "=", "====", "cHNldP8", "cHNldP8=", "cHNldP8A", "cHNldA==", "cHNl", "A", "AA", "AAA", "AAAA", "AA==", "AB==", "AAA=", "AAB=", "!!!!", "cHNldP8\n"] {
        fromstr_op(cx, t, "fixed");
    }
}

// ------------------------------------------------------------------ run

fn rmd(cx: &mut Cx, rng: &mut R) {
    for m in [&b""[..], b"a", b"abc", b"message digest", b"The quick brown fox jumps over the lazy dog", &[0u8; 55][..], &[0u8; 56][..], &[0u8; 64][..], &[0x61u8; 119][..], &[0x61u8; 120][..]] {
        cx.out.k(format!("hash.rmd160 {}", hex(m)), format!("ok {}", hex(&ripemd160::Hash::hash(m).to_byte_array())));
    }
    for _ in 0..20 {
        let m = pd::rb(rng, 0, 200);
        cx.out.k(format!("hash.rmd160 {}", hex(&m)), format!("ok {}", hex(&ripemd160::Hash::hash(&m).to_byte_array())));
    }
}

pub fn run(rng: &mut R, out: &mut Out) {
    c01::cfg_line(out);
    let mut cx = Cx { out, seen: HashSet::new(), nth_ok: 0 };
    // the 34-byte commitment values come before anything else (fix d0f55c0)
    targeted(&mut cx, rng, true);
    rmd(&mut cx, rng);
    vectors(&mut cx, rng);
    sweeps(&mut cx, rng);
    flag_dups(&mut cx, rng);
    ordered_maps(&mut cx, rng);
    taptrees(&mut cx, rng);
    targeted(&mut cx, rng, false);
    generated(&mut cx, rng);
    elip(&mut cx, rng);
    text(&mut cx, rng);
    bridge::run(&mut cx, rng);
}

/// C07 × C08 × C14 bridge checks (separate file, shares the helpers of this module)
#[path = "c07_bridge.rs"]
mod bridge;
