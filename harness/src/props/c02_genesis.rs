//! C02 extension — genesis blocks and chain hashes (src/genesis.rs) against EV.Model.Genesis.
//! K: `genesis`, `gcommit`, `gbuiltin`, `gcustom`, `btcmerkle`.  S: the ids of the genesis block are
//! the consensus hashes of its contents (merkle root over the txids, chain hash = block hash, chain
//! hash moves with every single parameter), the asset transaction is a self-consistent issuance, the
//! block survives a consensus round trip, the pinned `ChainHash` constants are reproduced.
use crate::{gen, hex, Out, Rng, R};
use elements::bitcoin::hashes::{sha256d as bsha256d, Hash as BHash};
use elements::bitcoin::merkle_tree;
use elements::encode::{deserialize, serialize};
use elements::genesis::{commit_to_custom_network_parameters, genesis_block, ChainHash, NetworkParams};
use elements::hashes::sha256d;
use elements::{confidential, Block, BlockExtData, Script};

fn params_str(p: &NetworkParams) -> String {
    format!("{} {} {} {}", hex(p.network_id.as_bytes()), hex(&p.fedpeg_script[..]), hex(&p.sign_block_script[..]), p.initial_free_coins)
}

fn chain_bytes(c: &ChainHash) -> [u8; 32] {
    let mut b = [0u8; 32];
    b.copy_from_slice(&c[..]);
    b
}

/// the bitcoin merkle root, written independently of `bitcoin::merkle_tree` (oracle for the S check)
fn merkle_oracle(mut level: Vec<[u8; 32]>) -> Option<[u8; 32]> {
    if level.is_empty() { return None; }
    while level.len() > 1 {
        let mut next = vec![];
        for pair in level.chunks(2) {
            let l = pair[0];
            let r = if pair.len() == 2 { pair[1] } else { pair[0] };
            let mut cat = l.to_vec();
            cat.extend_from_slice(&r);
            next.push(sha256d::Hash::hash(&cat).to_byte_array());
        }
        level = next;
    }
    Some(level[0])
}

fn network_id(rng: &mut R) -> String {
    const POOL: &[&str] = &[
        "", "liquidv1", "liquidtestnet", "elementsregtest", "liquidregtest", "a", "ab", "0", "51", "liquidv151",
        "main net", "r\u{e9}seau", "\u{7f51}\u{7edc}", "\u{1f4a7}liquid", "\u{0}", "tab\there", "\u{7f}\u{80}\u{7ff}\u{800}\u{ffff}\u{10000}\u{10ffff}",
    ];
    match rng.gen_range(0..10) {
        0..=4 => POOL[rng.gen_range(0..POOL.len())].to_string(),
        5 | 6 => { let n = rng.gen_range(1..24); (0..n).map(|_| rng.gen_range(0x20u8..0x7f) as char).collect() }
        7 => { let n = rng.gen_range(1..10); (0..n).map(|_| loop { if let Some(c) = char::from_u32(rng.gen_range(0..0x11_0000)) { break c; } }).collect() }
        8 => { let n = [55usize, 56, 63, 64, 65, 119, 120, 200][rng.gen_range(0..8)]; (0..n).map(|_| b"0123456789abcdef"[rng.gen_range(0..16)] as char).collect() }
        _ => { let n = rng.gen_range(0..300); (0..n).map(|_| rng.gen_range(0x61u8..0x7b) as char).collect() }
    }
}

fn net_script(rng: &mut R, thorough: bool) -> Script {
    match rng.gen_range(0..12) {
        0 => Script::new(),
        1 => Script::from(vec![0x51]),
        2 => Script::from(vec![rng.gen()]),
        3 => NetworkParams::liquidv1().fedpeg_script,
        4 => NetworkParams::liquidtestnet().sign_block_script,
        5 => { let n = [252usize, 253, 254, 1000][rng.gen_range(0..4)]; Script::from(gen::bytes(rng, n)) }
        6 if thorough => { let n = [65_535usize, 65_536, 70_000][rng.gen_range(0..3)]; Script::from(gen::bytes(rng, n)) }
        // every byte value: both hex digits of every byte
        7 => Script::from((0..=255u8).collect::<Vec<u8>>()),
        _ => gen::script(rng),
    }
}

fn coins(rng: &mut R) -> u64 {
    match rng.gen_range(0..8) {
        0 | 1 => 0,
        2 => 1,
        3 => u64::MAX,
        4 => 1u64 << 63,
        _ => gen::u64_edge(rng),
    }
}

/// everything about one parameter set: the K record and the S checks on the real code
fn one_params(out: &mut Out, p: &NetworkParams, tag: &str) {
    out.count(&format!("genesis.{}", tag));
    out.count(if p.initial_free_coins == 0 { "genesis.coins_zero" } else { "genesis.coins_nonzero" });
    if !p.network_id.is_ascii() { out.count("genesis.network_id_non_ascii"); }
    if p.fedpeg_script.is_empty() || p.sign_block_script.is_empty() { out.count("genesis.empty_script"); }
    if p.fedpeg_script.len() > 252 || p.sign_block_script.len() > 252 { out.count("genesis.long_script"); }
    let ps = params_str(p);
    let res = Out::guard(|| {
        let b = genesis_block(p);
        let ch = ChainHash::for_params(p);
        let txids: Vec<String> = b.txdata.iter().map(|t| hex(&t.txid().to_byte_array())).collect();
        format!("ok {} {} {} {} {}", hex(&serialize(&b)), hex(&b.block_hash().to_byte_array()), hex(&chain_bytes(&ch)),
            txids.join(","), hex(&commit_to_custom_network_parameters(p).to_byte_array()))
    });
    out.k(format!("genesis {}", ps), res);

    let b: Block = match std::panic::catch_unwind(std::panic::AssertUnwindSafe(|| genesis_block(p))) {
        Ok(b) => b,
        Err(_) => { out.s("genesis_block_does_not_panic", false, || ps.clone()); return; }
    };
    out.s("genesis_block_does_not_panic", true, || ps.clone());
    let commit = commit_to_custom_network_parameters(p).to_byte_array();
    // chain hash = block hash of the genesis block = header hash
    let ch = chain_bytes(&ChainHash::for_params(p));
    out.s("chainhash_is_genesis_block_hash", ch == b.block_hash().to_byte_array() && ch == b.header.block_hash().to_byte_array(), || ps.clone());
    // 1 or 2 transactions exactly according to the free coins
    out.s("genesis_tx_count", b.txdata.len() == if p.initial_free_coins == 0 { 1 } else { 2 }, || ps.clone());
    // the header commits to the transactions: bitcoin merkle root over the txids (independent oracle)
    let root = merkle_oracle(b.txdata.iter().map(|t| t.txid().to_byte_array()).collect());
    out.s("genesis_merkle_root_commits_to_txdata", root == Some(b.header.merkle_root.to_byte_array()), || ps.clone());
    // header: challenge is the sign-block script, no solution, height 0, no previous block
    let hdr_ok = match &b.header.ext {
        BlockExtData::Proof { challenge, solution } => *challenge == p.sign_block_script && solution.is_empty(),
        _ => false,
    } && b.header.height == 0 && b.header.prev_blockhash.to_byte_array() == [0u8; 32];
    out.s("genesis_header_shape", hdr_ok, || ps.clone());
    // coinbase-like first transaction: null outpoint, scriptSig = 32-byte push of the commitment
    let t0 = &b.txdata[0];
    let mut want_sig = vec![0x20u8];
    want_sig.extend_from_slice(&commit);
    out.s("genesis_tx_is_coinbase_with_commitment",
        t0.input.len() == 1 && t0.is_coinbase() && t0.input[0].script_sig.as_bytes() == &want_sig[..] && !t0.has_witness(),
        || ps.clone());
    // the asset transaction is a self-consistent issuance (ids via the C11 code path `TxIn::issuance_ids`)
    if let Some(t1) = b.txdata.get(1) {
        let ok = t1.input.len() == 1 && t1.output.len() == 1 && {
            let i = &t1.input[0];
            let o = &t1.output[0];
            i.has_issuance()
                && o.asset == confidential::Asset::Explicit(i.issuance_ids().0)
                && i.asset_issuance.amount == o.value
                && o.value == confidential::Value::Explicit(p.initial_free_coins)
                && i.previous_output.txid.to_byte_array() == commit
        };
        out.s("genesis_asset_tx_is_self_consistent_issuance", ok, || ps.clone());
    }
    // C01 on this instance: the block survives a consensus round trip (sizes within MAX_VEC_SIZE here)
    let ser = serialize(&b);
    out.s("genesis_block_roundtrip", deserialize::<Block>(&ser).map(|d| d == b).unwrap_or(false), || ps.clone());
    // every single parameter moves the chain hash
    let mods: Vec<(&str, NetworkParams)> = vec![
        ("network_id", NetworkParams::new(format!("{}x", p.network_id), p.fedpeg_script.clone(), p.sign_block_script.clone(), p.initial_free_coins)),
        ("fedpeg_script", { let mut s = p.fedpeg_script.to_bytes(); s.push(0x51); NetworkParams::new(p.network_id.clone(), s.into(), p.sign_block_script.clone(), p.initial_free_coins) }),
        ("sign_block_script", { let mut s = p.sign_block_script.to_bytes(); s.push(0x51); NetworkParams::new(p.network_id.clone(), p.fedpeg_script.clone(), s.into(), p.initial_free_coins) }),
        ("initial_free_coins", NetworkParams::new(p.network_id.clone(), p.fedpeg_script.clone(), p.sign_block_script.clone(), p.initial_free_coins ^ 1)),
    ];
    for (name, q) in mods {
        out.s("genesis_param_change_changes_chainhash", chain_bytes(&ChainHash::for_params(&q)) != ch, || format!("{} {} -> {}", name, ps, params_str(&q)));
    }
}

fn builtin(out: &mut Out, name: &str, p: &NetworkParams, c: &ChainHash) {
    let res = Out::guard(|| format!("ok {} {} {}", params_str(p), hex(&chain_bytes(&ChainHash::for_params(p))), hex(&chain_bytes(c))));
    out.k(format!("gbuiltin {}", name), res);
    out.s("chainhash_constant_is_reproduced", chain_bytes(&ChainHash::for_params(p)) == chain_bytes(c), || name.to_string());
    // `new` is the plain constructor: the same block as the built-in
    let q = NetworkParams::new(p.network_id.clone(), p.fedpeg_script.clone(), p.sign_block_script.clone(), p.initial_free_coins);
    out.s("new_is_plain_constructor", genesis_block(&q) == genesis_block(p), || name.to_string());
    one_params(out, p, "builtin");
}

fn opt_hex(s: &Option<Script>) -> String {
    match s { None => "none".to_string(), Some(s) => hex(&s[..]) }
}

fn btc_merkle(out: &mut Out, hashes: &[[u8; 32]]) {
    let cat: Vec<u8> = hashes.iter().flat_map(|h| h.iter().copied()).collect();
    let res = Out::guard(|| {
        match merkle_tree::calculate_root(hashes.iter().map(|h| bsha256d::Hash::from_byte_array(*h))) {
            Some(r) => format!("ok {}", hex(&r.to_byte_array())),
            None => "none".to_string(),
        }
    });
    out.k(format!("btcmerkle {} {}", hashes.len(), hex(&cat)), res);
    out.count("btcmerkle");
}

/// the kernel-evaluable SHA-256 of the model (EV.Model.Sha256K, used by the `decide +kernel` chain-hash
/// theorems) against bitcoin_hashes: every length across three blocks, padding boundaries, the midstate
fn shak_selftest(out: &mut Out, rng: &mut R) {
    use elements::hashes::{sha256, HashEngine};
    for n in (0..200).chain([255, 256, 257, 1000, 4096]) {
        let b = gen::bytes(rng, n);
        let mid = if n == 64 {
            let mut e = sha256::Hash::engine();
            e.input(&b);
            hex(&e.midstate().expect("64").to_parts().0)
        } else { "-".to_string() };
        out.k(format!("shak {}", hex(&b)), format!("ok {} {} {}", hex(&sha256::Hash::hash(&b).to_byte_array()), hex(&sha256d::Hash::hash(&b).to_byte_array()), mid));
    }
    for _ in 0..20 {
        let b = gen::bytes(rng, 64);
        let mut e = sha256::Hash::engine();
        e.input(&b);
        out.k(format!("shak {}", hex(&b)), format!("ok {} {} {}", hex(&sha256::Hash::hash(&b).to_byte_array()), hex(&sha256d::Hash::hash(&b).to_byte_array()), hex(&e.midstate().expect("64").to_parts().0)));
    }
    out.count_n("shak", 225);
}

pub fn run(rng: &mut R, out: &mut Out) {
    let thorough = out.tier_thorough;
    shak_selftest(out, rng);
    // the two built-in networks
    builtin(out, "liquidv1", &NetworkParams::liquidv1(), &ChainHash::LIQUIDV1);
    builtin(out, "liquidtestnet", &NetworkParams::liquidtestnet(), &ChainHash::LIQUIDTESTNET);

    // hand-picked custom networks: empty everything, coins at the u64 boundaries, defaults of custom_network
    for (id, f, s, c) in [
        ("", vec![], vec![], 0u64), ("", vec![], vec![], 1), ("", vec![], vec![], u64::MAX),
        ("elementsregtest", vec![0x51], vec![0x51], 0), ("elementsregtest", vec![0x51], vec![0x51], 2_100_000_000_000_000),
        ("liquidv1", vec![0xab], vec![], 0), ("liquidv1ab", vec![], vec![], 0), ("liquidv1", vec![], vec![0xab], 0),
        ("x", vec![0u8; 253], vec![0xffu8; 253], 1u64 << 63),
    ] {
        let p = NetworkParams::new(id.to_string(), f.into(), s.into(), c);
        one_params(out, &p, "handpicked");
    }

    // random custom networks
    let n = if thorough { 1500 } else { 110 };
    for _ in 0..n {
        let p = NetworkParams::new(network_id(rng), net_script(rng, thorough), net_script(rng, thorough), coins(rng));
        one_params(out, &p, "random");
        // a second parameter set with the same commitment preimage, split differently between the network id
        // and the fedpeg script (the commitment has no separators): K only — the model must agree that the
        // two genesis blocks coincide
        if rng.gen_range(0..4) == 0 && !p.fedpeg_script.is_empty() {
            let fb = p.fedpeg_script.to_bytes();
            let j = rng.gen_range(1..=fb.len().min(4));
            let moved: String = fb[..j].iter().map(|x| format!("{:02x}", x)).collect();
            let q = NetworkParams::new(format!("{}{}", p.network_id, moved), fb[j..].to_vec().into(), p.sign_block_script.clone(), p.initial_free_coins);
            one_params(out, &q, "same_preimage_other_split");
        }
    }

    // commit alone, on more parameters
    for _ in 0..(if thorough { 3000 } else { 250 }) {
        let p = NetworkParams::new(network_id(rng), net_script(rng, thorough), net_script(rng, thorough), 0);
        let res = Out::guard(|| format!("ok {}", hex(&commit_to_custom_network_parameters(&p).to_byte_array())));
        out.k(format!("gcommit {} {} {}", hex(p.network_id.as_bytes()), hex(&p.fedpeg_script[..]), hex(&p.sign_block_script[..])), res);
        out.count("gcommit");
    }

    // custom_network: every None/Some combination
    for k in 0..(if thorough { 400 } else { 48 }) {
        let id = network_id(rng);
        let f = if k & 1 == 0 { None } else { Some(net_script(rng, false)) };
        let s = if k & 2 == 0 { None } else { Some(net_script(rng, false)) };
        let c = if k & 4 == 0 { None } else { Some(coins(rng)) };
        let line = format!("gcustom {} {} {} {}", hex(id.as_bytes()), opt_hex(&f), opt_hex(&s), c.map(|x| x.to_string()).unwrap_or("none".to_string()));
        let res = Out::guard(|| format!("ok {}", params_str(&NetworkParams::custom_network(id.clone(), f.clone(), s.clone(), c))));
        out.k(line, res);
        out.count("gcustom");
    }

    // bitcoin merkle root: every count 0..=17, powers of two ± 1, duplicated tails
    let mut counts: Vec<usize> = (0..=17).collect();
    counts.extend([31, 32, 33, 63, 64, 65]);
    if thorough { counts.extend([127, 128, 129, 255, 256, 257, 1000]); }
    for n in counts {
        let hs: Vec<[u8; 32]> = (0..n).map(|_| gen::arr32(rng)).collect();
        btc_merkle(out, &hs);
        if n >= 1 {
            // the same list with its last element repeated (odd → even: same root, the well-known malleability)
            let mut d = hs.clone();
            d.push(hs[n - 1]);
            btc_merkle(out, &d);
            // all equal
            btc_merkle(out, &vec![hs[0]; n]);
        }
    }
}
