//! C08 — PSET and transaction views agree; unique id and lock time follow BIP370
use crate::props::c01;
use crate::props::psetdesc::{self as pd, Add, IdRole};
use crate::{gen, hex, Out, Rng, R};
use elements::confidential::{Asset, Nonce, Value};
use elements::encode::serialize;
use elements::hashes::{sha256d, Hash};
use elements::pset::{Input, PartiallySignedTransaction as Pset};
use elements::{locktime, AssetIssuance, LockTime, OutPoint, Transaction, TxInWitness, TxOutWitness};

type Req = (Option<u32>, Option<u32>);

/// lock times and sequence numbers as types (model growth: EV.Model.LockTime)
#[path = "c08_locktime.rs"]
mod locktime_ext;

// ------------------------------------------------------------------ lock time

/// independent oracle written from the BIP370 text
fn bip370(fallback: Option<u32>, reqs: &[Req]) -> Result<u32, ()> {
    let constraining: Vec<&Req> = reqs.iter().filter(|r| r.0.is_some() || r.1.is_some()).collect();
    if constraining.is_empty() {
        return Ok(fallback.unwrap_or(0));
    }
    if constraining.iter().all(|r| r.1.is_some()) {
        return Ok(reqs.iter().filter_map(|r| r.1).max().unwrap());
    }
    if constraining.iter().all(|r| r.0.is_some()) {
        return Ok(reqs.iter().filter_map(|r| r.0).max().unwrap());
    }
    Err(())
}

fn lock_pset(fallback: Option<u32>, reqs: &[Req]) -> Pset {
    let mut p = Pset::new_v2();
    p.global.tx_data.fallback_locktime = fallback.map(LockTime::from_consensus);
    for r in reqs {
        let mut i = Input::default();
        i.required_time_locktime = r.0.map(|t| locktime::Time::from_consensus(t).expect("time"));
        i.required_height_locktime = r.1.map(|h| locktime::Height::from_consensus(h).expect("height"));
        p.add_input(i);
    }
    p
}

fn real_locktime(fallback: Option<u32>, reqs: &[Req]) -> String {
    Out::guard(|| match lock_pset(fallback, reqs).locktime() {
        Ok(l) => format!("ok {}", l.to_consensus_u32()),
        Err(_) => "err".into(),
    })
}

fn opt_s(x: Option<u32>) -> String {
    x.map(|v| v.to_string()).unwrap_or_else(|| "-".into())
}
fn reqs_s(reqs: &[Req]) -> String {
    if reqs.is_empty() {
        "-".into()
    } else {
        reqs.iter().map(|r| format!("{}:{}", opt_s(r.0), opt_s(r.1))).collect::<Vec<_>>().join(",")
    }
}

fn lock_case(out: &mut Out, fallback: Option<u32>, reqs: &[Req], k: bool) {
    let real = real_locktime(fallback, reqs);
    if k {
        out.k(format!("pset.locktime {} {}", opt_s(fallback), reqs_s(reqs)), real.clone());
    }
    let exp = match bip370(fallback, reqs) {
        Ok(v) => format!("ok {}", v),
        Err(()) => "err".into(),
    };
    out.s("locktime_spec", real == exp, || format!("fallback={} reqs={} real={} bip370={}", opt_s(fallback), reqs_s(reqs), real, exp));
    out.s("locktime_no_panic", real != "panic", || format!("fallback={} reqs={}", opt_s(fallback), reqs_s(reqs)));
    let kinds: String = reqs.iter().map(|r| match r { (None, None) => 'n', (Some(_), None) => 't', (None, Some(_)) => 'h', _ => 'b' }).collect::<std::collections::BTreeSet<char>>().into_iter().collect();
    out.count(&format!("locktime.kinds.{}.{}", if kinds.is_empty() { "-" } else { &kinds }, &exp[..2]));
}

const TH: u32 = 500_000_000;
fn time_val(rng: &mut R) -> u32 {
    match rng.gen_range(0..5) { 0 => TH, 1 => TH + 1, 2 => u32::MAX, 3 => rng.gen_range(TH..TH + 4), _ => rng.gen_range(TH..=u32::MAX) }
}
fn height_val(rng: &mut R) -> u32 {
    match rng.gen_range(0..5) { 0 => 0, 1 => TH - 1, 2 => 1, 3 => rng.gen_range(0..4), _ => rng.gen_range(0..TH) }
}
fn fallback_val(rng: &mut R) -> Option<u32> {
    match rng.gen_range(0..5) { 0 => None, 1 => Some(0), _ => Some(gen::u32_edge(rng)) }
}

fn locktimes(out: &mut Out, rng: &mut R) {
    // regression corpus: the F5' shapes (both kinds possible), edges
    lock_case(out, Some(77), &[(Some(TH + 5), Some(7))], true);
    lock_case(out, Some(77), &[(Some(TH + 5), Some(7)), (Some(TH + 9), Some(3))], true);
    lock_case(out, None, &[], true);
    lock_case(out, Some(TH), &[(None, None)], true);
    lock_case(out, None, &[(Some(TH), None), (None, Some(0))], true);
    lock_case(out, None, &[(Some(TH), None), (Some(u32::MAX), Some(TH - 1))], true);
    lock_case(out, None, &[(None, Some(5)), (Some(TH), Some(5)), (None, Some(5))], true);
    // every kind assignment {none,time,height,both}^n for n <= 5 with arbitrary values
    let maxn = 5;
    for n in 0..=maxn {
        let total = 4usize.pow(n as u32);
        for code in 0..total {
            let reps = if out.tier_thorough { 3 } else { 1 };
            for rep in 0..reps {
                let mut c = code;
                let equal_vals = rng.gen_bool(0.2);
                let (et, eh) = (time_val(rng), height_val(rng));
                let reqs: Vec<Req> = (0..n).map(|_| {
                    let k = c % 4;
                    c /= 4;
                    let t = if equal_vals { et } else { time_val(rng) };
                    let h = if equal_vals { eh } else { height_val(rng) };
                    match k { 0 => (None, None), 1 => (Some(t), None), 2 => (None, Some(h)), _ => (Some(t), Some(h)) }
                }).collect();
                let fb = fallback_val(rng);
                // K for all small shapes, a sample of the large ones
                let k = n <= 3 || (rep == 0 && (code % 3 == 0 || out.tier_thorough));
                lock_case(out, fb, &reqs, k);
            }
        }
    }
    // exhaustive over a 4-value domain (2 times, 2 heights -> 9 states per input)
    let dom_t = [TH, TH + 1];
    let dom_h = [TH - 1, 3];
    let states: Vec<Req> = {
        let mut v = vec![(None, None)];
        for t in dom_t { v.push((Some(t), None)); }
        for h in dom_h { v.push((None, Some(h))); }
        for t in dom_t { for h in dom_h { v.push((Some(t), Some(h))); } }
        v
    };
    let maxn = if out.tier_thorough { 6 } else { 4 };
    for n in 0..=maxn {
        let total = states.len().pow(n as u32);
        for code in 0..total {
            let mut c = code;
            let reqs: Vec<Req> = (0..n).map(|_| { let s = states[c % states.len()]; c /= states.len(); s }).collect();
            let fb = if code % 2 == 0 { Some(9) } else { None };
            let k = n <= 2 || code % (if out.tier_thorough { 97 } else { 23 }) == 0;
            lock_case(out, fb, &reqs, k);
        }
    }
}

// ------------------------------------------------------------------ from_tx / extract_tx

/// exactly the transactions that survive `from_tx` then `extract_tx` (Lean: `RoundTrips`)
fn in_round_trips(i: &elements::TxIn) -> bool {
    let v = i.previous_output.vout;
    let idx_ok = (v == 0xffff_ffff && !i.is_pegin) || (v < (1 << 30) && !(v == (1 << 30) - 1 && i.is_pegin && i.has_issuance()));
    let pegin_ok = i.is_pegin || i.witness.pegin_witness.is_empty();
    let iss_ok = i.has_issuance()
        || (i.asset_issuance == AssetIssuance::null() && i.witness.amount_rangeproof.is_none() && i.witness.inflation_keys_rangeproof.is_none());
    idx_ok && pegin_ok && iss_ok
}
/// the flag/coinbase index clash, everything else about the input being fine
fn idx_clash(i: &elements::TxIn) -> bool {
    let clash = i.previous_output.vout == (1 << 30) - 1 && i.is_pegin && i.has_issuance();
    let mut j = i.clone();
    j.previous_output.vout = 0;
    clash && in_round_trips(&j)
}
fn nonce_round_trips(o: &elements::TxOut) -> bool {
    match o.nonce {
        Nonce::Null => true,
        Nonce::Explicit(_) => false,
        Nonce::Confidential(_) => o.is_partially_blinded(),
    }
}
fn out_non_null(o: &elements::TxOut) -> bool {
    !o.asset.is_null() && !o.value.is_null()
}

/// in-memory facts the serialization does not show (see `flagsOf` in the driver)
fn flags_of(t: &Transaction) -> String {
    if t.input.is_empty() {
        return "-".into();
    }
    t.input.iter().map(|i| format!("{}{}", if i.is_pegin { "p" } else { "-" }, if i.has_issuance() { "i" } else { "-" })).collect::<Vec<_>>().join(".")
}

fn from_tx_case(out: &mut Out, t: &Transaction, k: bool) {
    let b = serialize(t);
    let res = Out::guard(|| {
        let p = Pset::from_tx(t.clone());
        match (p.extract_tx(), p.unique_id()) {
            (Ok(x), Ok(u)) => format!("ok {} {} {}", hex(&serialize(&x)), flags_of(&x), hex(&u.to_byte_array())),
            (Err(e), _) => format!("err {}", pd::err_name(&e)),
            (_, Err(e)) => format!("err {}", pd::err_name(&e)),
        }
    });
    if k {
        out.k(format!("pset.fromtx {}", hex(&b)), res.clone());
    }
    out.s("from_tx_no_panic", res != "panic", || hex(&b));
    if res == "panic" {
        return;
    }
    let p = Pset::from_tx(t.clone());
    let back = p.extract_tx();
    let same = matches!(&back, Ok(x) if x == t);
    let ins_ok = t.input.iter().all(in_round_trips);
    let outs_nn = t.output.iter().all(out_non_null);
    let nonces_ok = t.output.iter().all(nonce_round_trips);
    let detail = || format!("tx={} back={}", hex(&b), match &back { Ok(x) => hex(&serialize(x)), Err(e) => pd::err_name(e) });
    // what the property demands is one direction only: inside the class the round trip holds. The converse (outside
    // the class it fails) describes today's known defect classes; a repair of those must not raise an alarm here, so
    // it is only counted (the K comparison with the model, which transcribes the code as it is, is what notices a
    // change of behaviour there)
    out.s("extract_from_tx_class_exact", !(ins_ok && outs_nn && nonces_ok) || same, detail);
    if !(ins_ok && outs_nn && nonces_ok) && same {
        out.count("fromtx.outside_class_yet_round_trips");
    }
    if ins_ok && outs_nn {
        if nonces_ok {
            out.count("fromtx.class.wellformed");
            out.s("extract_from_tx", same, detail);
        } else if !same {
            // recorded finding: the nonce of an output has no carrier (explicit nonce, or a
            // confidential nonce on an output that is not partially blinded). The class is exactly: extraction
            // SUCCEEDS and the result differs from the original in output nonces only — anything else is not it
            let only_nonces = matches!(&back, Ok(x) if x.version == t.version && x.lock_time == t.lock_time && x.input == t.input && x.output.len() == t.output.len()
                && x.output.iter().zip(t.output.iter()).all(|(a, b)| a.asset == b.asset && a.value == b.value && a.script_pubkey == b.script_pubkey && a.witness == b.witness));
            if only_nonces {
                out.count("fromtx.class.F12bc");
                out.s_known("extract_from_tx", "F12bc", detail);
            } else {
                out.s("extract_from_tx", false, detail);
            }
        }
    } else if outs_nn && nonces_ok && !same && t.input.iter().all(|i| in_round_trips(i) || idx_clash(i)) {
        // recorded finding: index 2^30-1 with both flags is stored as 0xffffffff, the flag-less
        // coinbase index (format-level collision; excluded from the theorem by `TxIn.wfBody` / `RtIn`)
        out.count("fromtx.class.IDX-3FFFFFFF");
        out.s_known("extract_from_tx", "IDX-3FFFFFFF", || format!("in-memory input with previous_output.vout=0x3fffffff, is_pegin=true, has_issuance=true (not expressible in the hex below, which shows index 0xffffffff): from_tx then extract_tx returns vout=0xffffffff, is_pegin=false; {}", detail()));
    } else {
        out.count("fromtx.class.outside_quantifier");
    }
    // counts and n_inputs / n_outputs
    out.s("from_tx_counts", p.n_inputs() == t.input.len() && p.n_outputs() == t.output.len() && p.sanity_check().is_ok(), || hex(&b));
    // determinism
    let again = Pset::from_tx(t.clone()).extract_tx();
    out.s("extract_deterministic", format!("{:?}", again.as_ref().map(serialize).map_err(pd::err_name)) == format!("{:?}", back.as_ref().map(serialize).map_err(pd::err_name)) && p.extract_tx().ok() == back.as_ref().ok().cloned(), || hex(&b));
}

/// in-memory shapes that the transaction encoding cannot express or that leave the quantifier
fn odd_tx(rng: &mut R) -> Transaction {
    let mut t = gen::tx(rng);
    let ni = t.input.len();
    let no = t.output.len();
    match rng.gen_range(0..10) {
        0 if ni > 0 => { let i = rng.gen_range(0..ni); t.input[i].previous_output.vout = [1u32 << 30, (1 << 31) | 5, 0xffff_fffe, (1 << 30) - 1, 0x7fff_ffff][rng.gen_range(0..5)]; }
        1 if ni > 0 => { let i = rng.gen_range(0..ni); t.input[i].previous_output = OutPoint::default(); t.input[i].is_pegin = rng.gen_bool(0.7); }
        2 if ni > 0 => { let i = rng.gen_range(0..ni); t.input[i].witness.pegin_witness = vec![vec![1, 2]]; }
        3 if ni > 0 => { let i = rng.gen_range(0..ni); t.input[i].witness.amount_rangeproof = Some(gen::rangeproof(rng)); }
        4 if ni > 0 => { let i = rng.gen_range(0..ni); t.input[i].witness.inflation_keys_rangeproof = Some(gen::rangeproof(rng)); }
        5 if ni > 0 => { let i = rng.gen_range(0..ni); if !t.input[i].has_issuance() { if rng.gen_bool(0.5) { t.input[i].asset_issuance.asset_entropy = [7; 32]; } else { t.input[i].asset_issuance.asset_blinding_nonce = gen::tweak(rng); } } }
        6 if no > 0 => { let i = rng.gen_range(0..no); t.output[i].asset = Asset::Null; }
        7 if no > 0 => { let i = rng.gen_range(0..no); t.output[i].value = Value::Null; }
        8 if ni > 0 => { let i = rng.gen_range(0..ni); t.input[i].previous_output.vout = (1 << 30) - 1; t.input[i].is_pegin = true; if !t.input[i].has_issuance() { t.input[i].asset_issuance = gen::issuance(rng, false); } }
        _ if ni > 0 => { let i = rng.gen_range(0..ni); t.input[i].previous_output = OutPoint::default(); t.input[i].is_pegin = false; t.input[i].asset_issuance = gen::issuance(rng, false); }
        _ => {}
    }
    t
}

/// a transaction of the property's quantifier: pegin witnesses only on pegins, issuance proofs only
/// on issuances, non-null outputs; the nonce placement is left free (known class F12bc)
fn quantifier_tx(rng: &mut R, fix_nonce: bool) -> Transaction {
    let mut t = gen::tx(rng);
    for i in t.input.iter_mut() {
        if !i.is_pegin { i.witness.pegin_witness = vec![]; }
        if !i.has_issuance() { i.witness.amount_rangeproof = None; i.witness.inflation_keys_rangeproof = None; }
    }
    for o in t.output.iter_mut() {
        if o.asset.is_null() { o.asset = Asset::Explicit(gen::asset_id(rng)); }
        if o.value.is_null() { o.value = Value::Explicit(gen::u64_edge(rng)); }
        if fix_nonce && !nonce_round_trips(o) { o.nonce = Nonce::Null; }
    }
    t
}

// ------------------------------------------------------------------ unique id / extract on updated PSETs

fn le32(x: u32) -> [u8; 4] { x.to_le_bytes() }
fn varint(v: &mut Vec<u8>, n: usize) {
    if n < 0xfd { v.push(n as u8); } else if n <= 0xffff { v.push(0xfd); v.extend_from_slice(&(n as u16).to_le_bytes()); } else { v.push(0xfe); v.extend_from_slice(&(n as u32).to_le_bytes()); }
}

/// independent oracle: the serialization of the unsigned transaction, written from the PSET fields
/// (BIP370 "unique identification" + the Elements transaction format); `Err(variant)` as `extract_tx`
fn unsigned_preimage(p: &Pset) -> Result<Vec<u8>, String> {
    if p.n_inputs() != p.inputs().len() { return Err("InputCountMismatch".into()); }
    if p.n_outputs() != p.outputs().len() { return Err("OutputCountMismatch".into()); }
    let reqs: Vec<Req> = p.inputs().iter().map(|i| (i.required_time_locktime.map(|t| t.to_consensus_u32()), i.required_height_locktime.map(|h| h.to_consensus_u32()))).collect();
    let lt = bip370(p.global.tx_data.fallback_locktime.map(|l| l.to_consensus_u32()), &reqs).map_err(|_| "LocktimeConflict".to_string())?;
    let mut v = vec![];
    v.extend_from_slice(&le32(p.global.tx_data.version));
    v.push(0);
    varint(&mut v, p.inputs().len());
    for i in p.inputs() {
        let amt = (i.issuance_value_amount, i.issuance_value_comm);
        let keys = (i.issuance_inflation_keys, i.issuance_inflation_keys_comm);
        let has_iss = amt != (None, None) || keys != (None, None);
        let raw = i.previous_output_index;
        let word = if raw == 0xffff_ffff { raw } else { (raw & 0x7fff_ffff) | if has_iss { 1 << 31 } else { 0 } };
        v.extend_from_slice(&i.previous_txid.to_byte_array());
        v.extend_from_slice(&le32(word));
        v.push(0); // empty scriptSig
        v.extend_from_slice(&le32(0)); // sequence 0
        if has_iss {
            v.extend_from_slice(&i.issuance_blinding_nonce.map(|t| { let mut a = [0u8; 32]; a.copy_from_slice(t.as_ref()); a }).unwrap_or([0; 32]));
            v.extend_from_slice(&i.issuance_asset_entropy.unwrap_or([0; 32]));
            for (x, c) in [amt, keys] {
                match (x, c) {
                    (_, Some(c)) => v.extend_from_slice(&c.serialize()),
                    (Some(x), None) => { v.push(1); v.extend_from_slice(&x.to_be_bytes()); }
                    (None, None) => v.push(0),
                }
            }
        }
    }
    // outputs are visited after the inputs; first failing output decides the error
    let mut outs = vec![];
    for o in p.outputs() {
        match (o.asset_comm, o.asset) {
            (Some(g), _) => outs.extend_from_slice(&g.serialize()),
            (None, Some(a)) => { outs.push(1); outs.extend_from_slice(&serialize(&a)); }
            (None, None) => return Err("MissingOutputValue".into()),
        }
        match (o.amount_comm, o.amount) {
            (Some(c), _) => outs.extend_from_slice(&c.serialize()),
            (None, Some(x)) => { outs.push(1); outs.extend_from_slice(&x.to_be_bytes()); }
            (None, None) => return Err("MissingOutputAsset".into()),
        }
        match o.ecdh_pubkey {
            Some(pk) => outs.extend_from_slice(&pk.inner.serialize()),
            None => outs.push(0),
        }
        varint(&mut outs, o.script_pubkey.len());
        outs.extend_from_slice(o.script_pubkey.as_bytes());
    }
    varint(&mut v, p.outputs().len());
    v.extend_from_slice(&outs);
    v.extend_from_slice(&le32(lt));
    Ok(v)
}

fn uid_str(p: &Pset) -> String {
    Out::guard(|| match p.unique_id() {
        Ok(u) => format!("ok {}", hex(&u.to_byte_array())),
        Err(e) => format!("err {}", pd::err_name(&e)),
    })
}
fn extract_str(p: &Pset) -> String {
    Out::guard(|| match p.extract_tx() {
        Ok(t) => format!("ok {} {}", hex(&serialize(&t)), flags_of(&t)),
        Err(e) => format!("err {}", pd::err_name(&e)),
    })
}

/// expected `extract_tx` result, field by field from the PSET (independent of `extract_tx`)
fn expected_extract(p: &Pset) -> Result<Transaction, String> {
    let pre = unsigned_preimage(p)?; // for the error order and the lock time
    let lt = u32::from_le_bytes([pre[pre.len() - 4], pre[pre.len() - 3], pre[pre.len() - 2], pre[pre.len() - 1]]);
    let val = |x: Option<u64>, c: Option<elements::secp256k1_zkp::PedersenCommitment>| match (x, c) {
        (_, Some(c)) => Value::Confidential(c),
        (Some(x), None) => Value::Explicit(x),
        (None, None) => Value::Null,
    };
    let input = p.inputs().iter().map(|i| {
        let raw = i.previous_output_index;
        elements::TxIn {
            previous_output: OutPoint::new(i.previous_txid, if raw == 0xffff_ffff { raw } else { raw & 0x3fff_ffff }),
            is_pegin: raw != 0xffff_ffff && (raw >> 30) & 1 == 1,
            script_sig: i.final_script_sig.clone().unwrap_or_default(),
            sequence: i.sequence.unwrap_or(elements::Sequence::MAX),
            asset_issuance: AssetIssuance {
                asset_blinding_nonce: i.issuance_blinding_nonce.unwrap_or(elements::secp256k1_zkp::ZERO_TWEAK),
                asset_entropy: i.issuance_asset_entropy.unwrap_or([0; 32]),
                amount: val(i.issuance_value_amount, i.issuance_value_comm),
                inflation_keys: val(i.issuance_inflation_keys, i.issuance_inflation_keys_comm),
            },
            witness: TxInWitness {
                amount_rangeproof: i.issuance_value_rangeproof.clone(),
                inflation_keys_rangeproof: i.issuance_keys_rangeproof.clone(),
                script_witness: i.final_script_witness.clone().unwrap_or_default(),
                pegin_witness: i.pegin_witness.clone().unwrap_or_default(),
            },
        }
    }).collect();
    let output = p.outputs().iter().map(|o| elements::TxOut {
        asset: match (o.asset_comm, o.asset) { (Some(g), _) => Asset::Confidential(g), (None, Some(a)) => Asset::Explicit(a), _ => Asset::Null },
        value: val(o.amount, o.amount_comm),
        nonce: match o.ecdh_pubkey { Some(pk) => Nonce::Confidential(pk.inner), None => Nonce::Null },
        script_pubkey: o.script_pubkey.clone(),
        witness: TxOutWitness { surjection_proof: o.asset_surjection_proof.clone(), rangeproof: o.value_rangeproof.clone() },
    }).collect();
    Ok(Transaction { version: p.global.tx_data.version, lock_time: LockTime::from_consensus(lt), input, output })
}

/// `Output::to_txout` of every output and the derived predicates of inputs/outputs (K op `pset.totxout`)
fn totxout_str(p: &Pset) -> String {
    let outs = if p.outputs().is_empty() { "-".to_string() } else {
        p.outputs().iter().map(|o| { let t = o.to_txout(); format!("{}/{}/{}{}{}", hex(&serialize(&t)), hex(&serialize(&t.witness)), if o.is_partially_blinded() { "p" } else { "-" }, if o.is_fully_blinded() { "f" } else { "-" }, if o.is_marked_for_blinding() { "m" } else { "-" }) }).collect::<Vec<_>>().join(",")
    };
    let ins = if p.inputs().is_empty() { "-".to_string() } else {
        p.inputs().iter().map(|i| format!("{}{}:{}", if i.is_pegin() { "p" } else { "-" }, if i.has_issuance() { "i" } else { "-" }, hex(&serialize(&i.asset_issuance())))).collect::<Vec<_>>().join(".")
    };
    format!("ok {} {}", outs, ins)
}

/// the same, written from the fields: a commitment always wins over the explicit form; the nonce
/// is the ecdh key of a partially blinded output, the blinding key otherwise; the issuance of an
/// input is a function of its six issuance fields only
fn expected_totxout(p: &Pset) -> String {
    let val = |x: Option<u64>, c: Option<elements::secp256k1_zkp::PedersenCommitment>| match (x, c) {
        (_, Some(c)) => Value::Confidential(c),
        (Some(x), None) => Value::Explicit(x),
        (None, None) => Value::Null,
    };
    let outs = if p.outputs().is_empty() { "-".to_string() } else {
        p.outputs().iter().map(|o| {
            let pb = o.blinding_key.is_some() && (o.amount_comm.is_some() || o.asset_comm.is_some() || o.value_rangeproof.is_some() || o.asset_surjection_proof.is_some() || o.ecdh_pubkey.is_some());
            let key = if pb { o.ecdh_pubkey } else { o.blinding_key };
            let t = elements::TxOut {
                asset: match (o.asset_comm, o.asset) { (Some(g), _) => Asset::Confidential(g), (None, Some(a)) => Asset::Explicit(a), _ => Asset::Null },
                value: val(o.amount, o.amount_comm),
                nonce: match key { Some(pk) => Nonce::Confidential(pk.inner), None => Nonce::Null },
                script_pubkey: o.script_pubkey.clone(),
                witness: TxOutWitness { surjection_proof: o.asset_surjection_proof.clone(), rangeproof: o.value_rangeproof.clone() },
            };
            let fb = o.blinding_key.is_some() && o.amount_comm.is_some() && o.asset_comm.is_some() && o.value_rangeproof.is_some() && o.asset_surjection_proof.is_some() && o.ecdh_pubkey.is_some();
            format!("{}/{}/{}{}{}", hex(&serialize(&t)), hex(&serialize(&t.witness)), if pb { "p" } else { "-" }, if fb { "f" } else { "-" }, if o.blinding_key.is_some() { "m" } else { "-" })
        }).collect::<Vec<_>>().join(",")
    };
    let ins = if p.inputs().is_empty() { "-".to_string() } else {
        p.inputs().iter().map(|i| {
            let raw = i.previous_output_index;
            let iss = AssetIssuance {
                asset_blinding_nonce: i.issuance_blinding_nonce.unwrap_or(elements::secp256k1_zkp::ZERO_TWEAK),
                asset_entropy: i.issuance_asset_entropy.unwrap_or([0; 32]),
                amount: val(i.issuance_value_amount, i.issuance_value_comm),
                inflation_keys: val(i.issuance_inflation_keys, i.issuance_inflation_keys_comm),
            };
            let has = !(iss.amount.is_null() && iss.inflation_keys.is_null());
            format!("{}{}:{}", if raw != 0xffff_ffff && (raw >> 30) & 1 == 1 { "p" } else { "-" }, if has { "i" } else { "-" }, hex(&serialize(&iss)))
        }).collect::<Vec<_>>().join(".")
    };
    format!("ok {} {}", outs, ins)
}

fn check_pset(out: &mut Out, t: &Transaction, adds: &[Add], k: bool) -> Option<Pset> {
    let p = match pd::build(t, adds) {
        Some(p) => p,
        None => { out.s("harness_description_applies", false, || format!("{} {}", hex(&serialize(t)), pd::adds_text(adds))); return None; }
    };
    let desc = format!("{} {}", hex(&serialize(t)), pd::adds_text(adds));
    let uid = uid_str(&p);
    let ext = extract_str(&p);
    if k {
        out.k(format!("pset.uid {}", desc), uid.clone());
        out.k(format!("pset.extract {}", desc), ext.clone());
        out.k(format!("pset.dump {}", desc), format!("ok {}", pd::dump_pset(&p)));
        out.k(format!("pset.totxout {}", desc), Out::guard(|| totxout_str(&p)));
    }
    out.s("to_txout_reflects_fields", Out::guard(|| totxout_str(&p)) == expected_totxout(&p), || format!("{} real={} oracle={}", desc, Out::guard(|| totxout_str(&p)), expected_totxout(&p)));
    // unique id = double-SHA256 of the unsigned transaction written from the fields
    let exp_uid = match unsigned_preimage(&p) {
        Ok(b) => format!("ok {}", hex(&sha256d::Hash::hash(&b).to_byte_array())),
        Err(e) => format!("err {}", e),
    };
    // where no unsigned transaction can be written from the fields the property asks for an error; WHICH error is
    // today's behaviour (pinned; the K comparison with the model covers it too)
    let agrees = if exp_uid.starts_with("err") { uid.starts_with("err") } else { uid == exp_uid };
    out.s("unique_id_is_txid_of_unsigned_tx", agrees, || format!("{} real={} oracle={}", desc, uid, exp_uid));
    out.pin("unique_id_error_variant", !exp_uid.starts_with("err") || uid == exp_uid, || format!("{} real={} oracle={}", desc, uid, exp_uid));
    // extract reflects the fields
    let exp_ext = match expected_extract(&p) {
        Ok(x) => format!("ok {} {}", hex(&serialize(&x)), flags_of(&x)),
        Err(e) => format!("err {}", e),
    };
    let structural = match (p.extract_tx(), expected_extract(&p)) { (Ok(a), Ok(b)) => a == b, (Err(_), Err(_)) => true, _ => false };
    out.s("extract_reflects_fields", ext == exp_ext && structural, || format!("{} real={} oracle={}", desc, ext, exp_ext));
    out.s("extract_deterministic", extract_str(&p.clone()) == ext, || desc.clone());
    out.count(if uid.starts_with("ok") { "uid.ok" } else { "uid.err" });
    Some(p)
}

fn random_adds(rng: &mut R, t: &Transaction, n: usize, only_ignored: bool) -> Vec<Add> {
    let mut v = vec![];
    for _ in 0..n {
        let sec = match rng.gen_range(0..5) { 0 => 'g', 1 | 2 if !t.input.is_empty() => 'i', 3 | 4 if !t.output.is_empty() => 'o', _ => 'g' };
        let table = match sec { 'g' => pd::GLOBAL_FIELDS, 'i' => pd::INPUT_FIELDS, _ => pd::OUTPUT_FIELDS };
        let (name, role, _) = table[rng.gen_range(0..table.len())];
        if only_ignored && role == IdRole::Committed { continue; }
        let loc = match sec { 'g' => "g".to_string(), 'i' => format!("i{}", rng.gen_range(0..t.input.len())), _ => format!("o{}", rng.gen_range(0..t.output.len())) };
        if rng.gen_bool(0.08) && !table.iter().any(|(n, _, m)| *n == name && *m) && !["previous_txid", "previous_output_index", "script_pubkey", "tx_version", "version"].contains(&name) {
            v.push(Add::unset(&loc, name));
        } else {
            let (k, val) = pd::field_value(rng, sec, name);
            v.push(Add::new(&loc, name, &k, &val));
        }
    }
    v
}

/// table-driven: every field of every section at every position, "ignored" or "committed"
fn uid_table(out: &mut Out, rng: &mut R, t: &Transaction, base_adds: &[Add]) {
    let base = match pd::build(t, base_adds) { Some(p) => p, None => return };
    let base_uid = uid_str(&base);
    let base_pre = unsigned_preimage(&base);
    let mut positions: Vec<(char, String)> = vec![('g', "g".into())];
    for j in 0..t.input.len() { positions.push(('i', format!("i{}", j))); }
    for j in 0..t.output.len() { positions.push(('o', format!("o{}", j))); }
    for (sec, loc) in positions {
        let table = match sec { 'g' => pd::GLOBAL_FIELDS, 'i' => pd::INPUT_FIELDS, _ => pd::OUTPUT_FIELDS };
        for (name, role, _) in table {
            let (k, val) = pd::field_value(rng, sec, name);
            let mut adds = base_adds.to_vec();
            adds.push(Add::new(&loc, name, &k, &val));
            let p = match pd::build(t, &adds) { Some(p) => p, None => { out.s("harness_description_applies", false, || format!("{} {}", loc, name)); continue; } };
            let uid = uid_str(&p);
            let desc = || format!("{} {} base_uid={} uid={}", hex(&serialize(t)), pd::adds_text(&adds), base_uid, uid);
            match role {
                IdRole::Ignored => {
                    out.count("uid.table.ignored");
                    out.s("unique_id_ignores", uid == base_uid, desc);
                }
                IdRole::Committed => {
                    out.count("uid.table.committed");
                    // committed: the id moves exactly when the identifying data moves
                    let pre = unsigned_preimage(&p);
                    out.s("unique_id_commits", (uid == base_uid) == (pre == base_pre), desc);
                    if pre != base_pre { out.count("uid.table.committed.changed"); }
                }
            }
            if rng.gen_bool(0.04) {
                out.k(format!("pset.uid {} {}", hex(&serialize(t)), pd::adds_text(&adds)), uid);
            }
        }
    }
}

/// additions that put an (explicit, commitment) pair of fields at `loc` into one of its four
/// shapes: 0 neither, 1 explicit only, 2 commitment only, 3 both
fn pair_adds(loc: &str, f_explicit: &str, f_comm: &str, shape: usize, explicit: &[u8], comm: &[u8]) -> Vec<Add> {
    let mut v = vec![];
    if shape & 1 != 0 { v.push(Add::new(loc, f_explicit, &[], explicit)); } else { v.push(Add::unset(loc, f_explicit)); }
    if shape & 2 != 0 { v.push(Add::new(loc, f_comm, &[], comm)); } else { v.push(Add::unset(loc, f_comm)); }
    v
}

/// issuance inputs over the full product {amount: none/explicit/comm/both} x {keys: …} x
/// {blinded_issuance: None, 0, 1, 2} x {nonce zero/non-zero}: extraction and the unique id are
/// functions of the six issuance fields (the commitment wins), the marker is not looked at
/// (found missing by seeded change C08-w2m2)
fn issuance_product(out: &mut Out, rng: &mut R, k: bool) {
    let kind = [gen::InKind::Plain, gen::InKind::Pegin, gen::InKind::Issuance, gen::InKind::Reissuance][rng.gen_range(0..4)];
    let mut t = gen::tx_wide(rng, 0, 1);
    t.input.push(gen::txin(rng, kind, true));
    if rng.gen_bool(0.5) { t.input.push(gen::txin(rng, gen::InKind::Plain, false)); }
    let j = 0;
    let loc = format!("i{}", j);
    let amt = gen::u64_edge(rng).to_le_bytes();
    let keys = gen::u64_edge(rng).to_le_bytes();
    let amt_c = gen::point33(rng, 8);
    let keys_c = gen::point33(rng, 8);
    let entropy = gen::arr32(rng);
    let nonce_nz = pd::se(&gen::tweak(rng));
    for nonce in 0..2 {
        let mut uids: std::collections::BTreeMap<(usize, usize, usize), (String, String)> = Default::default();
        for a in 0..4 {
            for kshape in 0..4 {
                for (mi, marker) in [None, Some(0u8), Some(1), Some(2)].iter().enumerate() {
                    let mut adds = pair_adds(&loc, "issuance_value_amount", "issuance_value_comm", a, &amt, &amt_c);
                    adds.extend(pair_adds(&loc, "issuance_inflation_keys", "issuance_inflation_keys_comm", kshape, &keys, &keys_c));
                    adds.push(if nonce == 0 { Add::unset(&loc, "issuance_blinding_nonce") } else { Add::new(&loc, "issuance_blinding_nonce", &[], &nonce_nz) });
                    adds.push(Add::new(&loc, "issuance_asset_entropy", &[], &entropy));
                    adds.push(match marker { None => Add::unset(&loc, "blinded_issuance"), Some(m) => Add::new(&loc, "blinded_issuance", &[], &[*m]) });
                    if let Some(p) = check_pset(out, &t, &adds, k) {
                        uids.insert((a, kshape, mi), (uid_str(&p), extract_str(&p)));
                        out.count(&format!("issuance.amount{}.keys{}.marker{}", a, kshape, mi));
                    }
                }
            }
        }
        let desc = |x: &(usize, usize, usize), y: &(usize, usize, usize)| format!("tx={} input {} nonce_nonzero={} (amount shape, keys shape, marker index) {:?} vs {:?}: {:?} vs {:?}", hex(&serialize(&t)), loc, nonce, x, y, uids.get(x), uids.get(y));
        for a in 0..4 {
            for kshape in 0..4 {
                for mi in 1..4 {
                    // the marker is ignored by the id and by extraction
                    out.s("unique_id_ignores", uids.get(&(a, kshape, mi)) == uids.get(&(a, kshape, 0)), || desc(&(a, kshape, mi), &(a, kshape, 0)));
                }
            }
        }
        for other in 0..4 {
            for mi in 0..4 {
                for mj in 0..4 {
                    // adding the explicit amount next to an existing commitment changes nothing: the commitment wins
                    out.s("unique_id_ignores", uids.get(&(2, other, mi)) == uids.get(&(3, other, mj)), || desc(&(2, other, mi), &(3, other, mj)));
                    out.s("unique_id_ignores", uids.get(&(other, 2, mi)) == uids.get(&(other, 3, mj)), || desc(&(other, 2, mi), &(other, 3, mj)));
                }
            }
        }
    }
}

/// outputs over {amount: none/explicit/comm/both} x {asset: none/explicit/comm/both} x blinding
/// fields {none, blinding key only, ecdh key only, everything}: `extract_tx` and `to_txout` prefer the commitment
fn output_product(out: &mut Out, rng: &mut R, k: bool) {
    let mut t = gen::tx_wide(rng, 1, 0);
    { let w = rng.gen_bool(0.5); t.output.push(gen::txout(rng, w)); }
    if rng.gen_bool(0.5) { t.output.push(gen::txout(rng, false)); }
    let loc = "o0";
    let amt = gen::u64_edge(rng).to_le_bytes();
    let amt_c = gen::point33(rng, 8);
    let asset = gen::arr32(rng);
    let asset_c = gen::point33(rng, 10);
    let bkey = pd::se(&pd::btc_pubkey(rng));
    let ekey = pd::se(&pd::btc_pubkey(rng));
    let rp = pd::small_rangeproof(rng);
    let sp = gen::surjproof_bytes(rng);
    let mut uids: std::collections::BTreeMap<(usize, usize, usize), (String, String)> = Default::default();
    for a in 0..4 {
        for s in 0..4 {
            for b in 0..4 {
                let mut adds = pair_adds(loc, "amount", "amount_comm", a, &amt, &amt_c);
                adds.extend(pair_adds(loc, "asset", "asset_comm", s, &asset, &asset_c));
                for f in ["blinding_key", "ecdh_pubkey", "value_rangeproof", "asset_surjection_proof", "blinder_index", "blind_value_proof", "blind_asset_proof"] { adds.push(Add::unset(loc, f)); }
                if b == 1 || b == 3 { adds.push(Add::new(loc, "blinding_key", &[], &bkey)); }
                if b == 2 || b == 3 { adds.push(Add::new(loc, "ecdh_pubkey", &[], &ekey)); }
                if b == 3 {
                    adds.push(Add::new(loc, "value_rangeproof", &[], &rp));
                    adds.push(Add::new(loc, "asset_surjection_proof", &[], &sp));
                    adds.push(Add::new(loc, "blinder_index", &[], &le32(0)));
                    adds.push(Add::new(loc, "blind_value_proof", &[], &rp));
                    adds.push(Add::new(loc, "blind_asset_proof", &[], &sp));
                }
                if let Some(p) = check_pset(out, &t, &adds, k) {
                    uids.insert((a, s, b), (uid_str(&p), extract_str(&p)));
                    out.count(&format!("outpair.amount{}.asset{}.blind{}", a, s, b));
                }
            }
        }
    }
    let desc = |x: &(usize, usize, usize), y: &(usize, usize, usize)| format!("tx={} output o0 (amount shape, asset shape, blinding variant) {:?} vs {:?}: {:?} vs {:?}", hex(&serialize(&t)), x, y, uids.get(x), uids.get(y));
    for other in 0..4 {
        for b in 0..4 {
            // the explicit form next to a commitment changes neither the id nor (witness aside) the transaction
            out.s("unique_id_ignores", uids.get(&(2, other, b)).map(|u| &u.0) == uids.get(&(3, other, b)).map(|u| &u.0), || desc(&(2, other, b), &(3, other, b)));
            out.s("unique_id_ignores", uids.get(&(other, 2, b)).map(|u| &u.0) == uids.get(&(other, 3, b)).map(|u| &u.0), || desc(&(other, 2, b), &(other, 3, b)));
            out.s("extract_reflects_fields", uids.get(&(2, other, b)).map(|u| &u.1) == uids.get(&(3, other, b)).map(|u| &u.1) && uids.get(&(other, 2, b)).map(|u| &u.1) == uids.get(&(other, 3, b)).map(|u| &u.1), || desc(&(2, other, b), &(3, other, b)));
        }
    }
    // blinding key without ecdh key is not part of the id (variants 0 and 1 agree)
    for a in 0..4 { for s in 0..4 {
        out.s("unique_id_ignores", uids.get(&(a, s, 0)).map(|u| &u.0) == uids.get(&(a, s, 1)).map(|u| &u.0), || desc(&(a, s, 0), &(a, s, 1)));
    } }
}

/// on generated issuance inputs as `from_tx` stores them: the marker and the explicit amount next
/// to an existing commitment, at every issuance input
fn issuance_updates(out: &mut Out, rng: &mut R) {
    let t = loop { let t = quantifier_tx(rng, true); if t.input.iter().any(|i| i.has_issuance()) { break t; } };
    let base = match pd::build(&t, &[]) { Some(p) => p, None => return };
    let base_uid = uid_str(&base);
    let base_ext = extract_str(&base);
    for (j, i) in t.input.iter().enumerate() {
        if !i.has_issuance() { continue; }
        let loc = format!("i{}", j);
        let mut variants: Vec<Vec<Add>> = vec![];
        for m in [0u8, 1, 2, 0xff] { variants.push(vec![Add::new(&loc, "blinded_issuance", &[], &[m])]); }
        let mut explicit = vec![];
        if i.asset_issuance.amount.is_confidential() { explicit.push(Add::new(&loc, "issuance_value_amount", &[], &gen::u64_edge(rng).to_le_bytes())); }
        if i.asset_issuance.inflation_keys.is_confidential() { explicit.push(Add::new(&loc, "issuance_inflation_keys", &[], &gen::u64_edge(rng).to_le_bytes())); }
        if !explicit.is_empty() {
            variants.push(explicit.clone());
            for m in [0u8, 1] { let mut v = explicit.clone(); v.push(Add::new(&loc, "blinded_issuance", &[], &[m])); variants.push(v.clone()); v.reverse(); variants.push(v); }
            out.count("issuance.update.explicit_next_to_commitment");
        }
        for adds in variants {
            if let Some(p) = check_pset(out, &t, &adds, true) {
                out.s("unique_id_ignores", uid_str(&p) == base_uid, || format!("{} {} base_uid={} uid={}", hex(&serialize(&t)), pd::adds_text(&adds), base_uid, uid_str(&p)));
                out.s("extract_reflects_fields", extract_str(&p) == base_ext, || format!("{} {} : extraction changed by fields it must not read", hex(&serialize(&t)), pd::adds_text(&adds)));
            }
        }
    }
}

pub fn run(rng: &mut R, out: &mut Out) {
    c01::cfg_line(out);
    let scale = if out.tier_thorough { 12 } else { 1 };
    locktimes(out, rng);

    // from_tx / extract_tx: regression corpus first (coinbase F12a, flag clash, nonce classes)
    let cb = gen::txin(rng, gen::InKind::Coinbase, false);
    let mut t0 = gen::tx_wide(rng, 0, 2);
    t0.input.push(cb);
    from_tx_case(out, &t0, true);
    t0.output[0].nonce = Nonce::Explicit([9; 32]);
    from_tx_case(out, &t0, true);
    t0.output[0].nonce = Nonce::Confidential(gen::pubkey(rng));
    from_tx_case(out, &t0, true);
    t0.output[0].value = Value::Confidential(gen::commitment(rng));
    from_tx_case(out, &t0, true);
    for _ in 0..150 * scale {
        from_tx_case(out, &quantifier_tx(rng, true), true);
        from_tx_case(out, &quantifier_tx(rng, false), true);
        from_tx_case(out, &gen::tx(rng), true);
    }
    for _ in 0..200 * scale {
        from_tx_case(out, &odd_tx(rng), false);
    }

    // pairs of representations (explicit next to commitment) and the blinded-issuance marker
    issuance_product(out, rng, true);
    output_product(out, rng, true);
    for _ in 0..(3 * scale - 1) { issuance_product(out, rng, false); output_product(out, rng, false); }
    for _ in 0..6 * scale { issuance_updates(out, rng); }

    // updated PSETs: extract / unique id / dump
    for _ in 0..60 * scale {
        let t = quantifier_tx(rng, true);
        let n = rng.gen_range(0..8);
        let adds = random_adds(rng, &t, n, false);
        check_pset(out, &t, &adds, true);
        let mut a2 = adds.clone();
        a2.extend(random_adds(rng, &t, 4, true));
        if let (Some(p), Some(q)) = (pd::build(&t, &adds), pd::build(&t, &a2)) {
            out.s("unique_id_ignores_histories", uid_str(&p) == uid_str(&q), || format!("{} | {} | {}", hex(&serialize(&t)), pd::adds_text(&adds), pd::adds_text(&a2)));
        }
    }
    // count mismatches (reachable through serde only) and error precedence
    for _ in 0..10 * scale {
        let t = quantifier_tx(rng, true);
        let mut adds = vec![];
        match rng.gen_range(0..4) {
            0 => adds.push(Add::new("g", "input_count", &[], &((t.input.len() as u64 + 1).to_le_bytes()))),
            1 => adds.push(Add::new("g", "output_count", &[], &((t.output.len() as u64 + 2).to_le_bytes()))),
            2 => { adds.push(Add::new("g", "input_count", &[], &(7u64.to_le_bytes()))); adds.push(Add::new("g", "output_count", &[], &(9u64.to_le_bytes()))); }
            _ => { if !t.output.is_empty() { adds.push(Add::unset("o0", "amount")); adds.push(Add::unset("o0", "amount_comm")); adds.push(Add::unset("o0", "asset")); adds.push(Add::unset("o0", "asset_comm")); } }
        }
        if !t.input.is_empty() && rng.gen_bool(0.5) {
            adds.push(Add::new("i0", "required_time_locktime", &[], &le32(TH + 1)));
            if t.input.len() > 1 { adds.push(Add::new("i1", "required_height_locktime", &[], &le32(5))); }
        }
        check_pset(out, &t, &adds, true);
    }
    // the table: every field at every position
    for r in 0..4 * scale {
        let t = loop { let t = quantifier_tx(rng, true); if t.input.len() + t.output.len() > 0 && t.input.len() <= 3 && t.output.len() <= 3 { break t; } };
        let base = if r % 2 == 0 { vec![] } else { random_adds(rng, &t, 3, true) };
        uid_table(out, rng, &t, &base);
    }
    // lock times and sequence numbers (last: the random stream of everything above is unchanged)
    locktime_ext::run(rng, out);
}
