//! C12 (model growth) — transaction-level accessors and classifiers of src/transaction.rs and the
//! deprecated size aliases (model: lean/EV/Model/TxAccessors.lean, driver: lean/EV/Driver/TxAcc.lean).
//!
//! K ops (real result compared with the Lean model on the same line):
//!   txacc.out <txout> <witness>      is_fee, is_null_data, is_pegout, is_partially_blinded, pegout_data
//!   txacc.newfee <amount> <asset>    TxOut::new_fee serialized, is_fee, is_partially_blinded
//!   txacc.in <txin> <witness>        is_coinbase, is_pegin, has_issuance, outpoint_flag, pegin_prevout,
//!                                    from_pegin_witness verdict, pegin_data, to_pegin_witness
//!   txacc.tx <tx>                    is_coinbase, has_witness, get_size, get_weight, #fee outputs, all_fees (sorted) | panic
//!   txacc.feein <tx> <asset>         fee_in | panic (u64 sum overflow under overflow checks)
//!   txacc.block <block>              get_size, get_weight
//!   txacc.seq <u32>                  the six Sequence predicates
//!   txacc.seqfrom <kind> <n>         from_height / from_512_second_intervals / from_seconds_floor / from_seconds_ceil
//!   txacc.pegouttpl <g> <spk> <e>*   the documented pegout template written by script::Builder
//! S checks evaluate the documented contracts with independent oracles (own script parser, u128 sums,
//! the serialized bytes); see each `out.s` below.
//!
//! Break-it drills (each is seen by the named check):
//!   * `is_fee`: drop `&& self.asset.is_explicit()`            -> K txacc.out/txacc.tx, S is_fee_as_documented
//!   * `pegout_data`: accept an empty destination script       -> K txacc.out, S pegout_data_matches_independent_parser
//!   * `from_pegin_witness`: read the claim script from [4]    -> K txacc.in, S pegin_fields_are_witness_items
//!   * `fee_in`: compare the asset of non-fee outputs too       -> K txacc.feein, S fee_in_is_sum_of_fee_outputs
//!   * `get_weight`: return `self.size()`                       -> K txacc.tx, S get_weight_is_weight
#![allow(deprecated)]
use crate::{gen, hex, Out, Rng, R};
use elements::confidential::{Asset, Nonce, Value};
use elements::encode::{deserialize, serialize};
use elements::hashes::{sha256d, Hash};
use elements::opcodes::all::OP_RETURN;
use elements::script::Builder;
use elements::{AssetId, Block, OutPoint, PeginData, Script, Sequence, Transaction, TxIn, TxInWitness, TxOut, TxOutWitness};
use std::collections::BTreeMap;
use std::panic::{catch_unwind, AssertUnwindSafe};

fn b01(b: bool) -> &'static str { if b { "1" } else { "0" } }
fn hexlist(l: &[Vec<u8>]) -> String { l.iter().map(|x| hex(x)).collect::<Vec<_>>().join(",") }
fn quiet<T>(f: impl FnOnce() -> T) -> Option<T> { catch_unwind(AssertUnwindSafe(f)).ok() }

// ------------------------------------------------------------------------------------------------ outputs

/// independent reading of a script as `OP_RETURN` followed by items.
/// `None`: not null data (first byte, an opcode above OP_16, or a truncated push);
/// `Some((pushes, all_pushes))`: the data pushes in order, and whether every item was a data push.
fn nulldata_oracle(s: &[u8]) -> Option<(Vec<Vec<u8>>, bool)> {
    if s.first() != Some(&0x6a) { return None; }
    let mut p = 1usize;
    let mut pushes = vec![];
    let mut all = true;
    while p < s.len() {
        let op = s[p];
        let (hdr, n): (usize, usize) = match op {
            0..=0x4b => (1, op as usize),
            0x4c => { if p + 2 > s.len() { return None; } (2, s[p + 1] as usize) }
            0x4d => { if p + 3 > s.len() { return None; } (3, u16::from_le_bytes([s[p + 1], s[p + 2]]) as usize) }
            0x4e => { if p + 5 > s.len() { return None; } (5, u32::from_le_bytes([s[p + 1], s[p + 2], s[p + 3], s[p + 4]]) as usize) }
            0x4f..=0x60 => { all = false; p += 1; continue; }
            _ => return None,
        };
        if p + hdr + n > s.len() { return None; }
        pushes.push(s[p + hdr..p + hdr + n].to_vec());
        p += hdr + n;
    }
    Some((pushes, all))
}

/// the pegout the doc comment of `is_pegout` describes, read by the oracle above
fn pegout_oracle(o: &TxOut) -> Option<(u64, Vec<u8>, Vec<u8>, Vec<Vec<u8>>)> {
    let (pushes, all) = nulldata_oracle(o.script_pubkey.as_bytes())?;
    let v = match o.value { Value::Explicit(v) => v, _ => return None };
    if !all || pushes.len() < 2 || pushes[0].len() != 32 || pushes[1].is_empty() { return None; }
    Some((v, pushes[0].clone(), pushes[1].clone(), pushes[2..].to_vec()))
}

pub fn k_out(out: &mut Out, o: &TxOut) {
    let ser = format!("{} {}", hex(&serialize(o)), hex(&serialize(&o.witness)));
    let r = Out::guard(|| {
        let pd = match o.pegout_data() {
            None => "none".to_string(),
            Some(d) => format!(
                "some {} {} {} {} {} [{}]",
                d.value, hex(&serialize(&d.asset)), hex(AsRef::<[u8]>::as_ref(&d.genesis_hash)), hex(d.script_pubkey.as_bytes()),
                d.extra_data.len(), d.extra_data.iter().map(|x| hex(x)).collect::<Vec<_>>().join(",")
            ),
        };
        format!("ok fee={} nd={} pegout={} pb={} {}", b01(o.is_fee()), b01(o.is_null_data()), b01(o.is_pegout()), b01(o.is_partially_blinded()), pd)
    });
    out.k(format!("txacc.out {}", ser), r.clone());
    out.s("txout_classifiers_never_panic", r != "panic", || ser.clone());
    if r == "panic" { return; }
    let (fee, nd, po, pb) = (o.is_fee(), o.is_null_data(), o.is_pegout(), o.is_partially_blinded());
    let pd = o.pegout_data();
    // the documented contracts
    out.s("is_pegout_iff_pegout_data_some", po == pd.is_some(), || ser.clone());
    out.s("pegout_is_subset_of_null_data", !po || nd, || ser.clone());
    out.s("null_data_is_subset_of_op_return", !nd || o.script_pubkey.is_op_return(), || ser.clone());
    out.s("fee_excludes_null_data_and_pegout", !fee || (!nd && !po), || ser.clone());
    let fee_oracle = o.script_pubkey.as_bytes().is_empty() && matches!(o.value, Value::Explicit(_)) && matches!(o.asset, Asset::Explicit(_));
    out.s("is_fee_as_documented", fee == fee_oracle, || ser.clone());
    let pb_oracle = matches!(o.asset, Asset::Confidential(_)) || matches!(o.value, Value::Confidential(_)) || serialize(&o.witness) != vec![0u8, 0u8];
    out.s("is_partially_blinded_as_documented", pb == pb_oracle, || ser.clone());
    out.s("is_null_data_matches_independent_parser", nd == nulldata_oracle(o.script_pubkey.as_bytes()).is_some(), || ser.clone());
    let exp = pegout_oracle(o);
    let got = pd.as_ref().map(|d| (d.value, AsRef::<[u8]>::as_ref(&d.genesis_hash).to_vec(), d.script_pubkey.as_bytes().to_vec(), d.extra_data.iter().map(|x| x.to_vec()).collect::<Vec<_>>()));
    out.s("pegout_data_matches_independent_parser", got == exp && pd.as_ref().map_or(true, |d| d.asset == o.asset), || ser.clone());
    out.count(&format!("out.fee{}.nd{}.pegout{}.pb{}", b01(fee), b01(nd), b01(po), b01(pb)));
}

pub fn k_newfee(out: &mut Out, rng: &mut R, amount: u64, asset: AssetId) {
    let o = TxOut::new_fee(amount, asset);
    let r = Out::guard(|| format!("ok {} {} fee={} pb={}", hex(&serialize(&o)), hex(&serialize(&o.witness)), b01(o.is_fee()), b01(o.is_partially_blinded())));
    out.k(format!("txacc.newfee {} {}", amount, hex(&serialize(&asset))), r);
    let det = || format!("{} {}", amount, hex(&serialize(&asset)));
    out.s("new_fee_is_fee", quiet(|| o.is_fee() && !o.is_partially_blinded() && !o.is_null_data() && !o.is_pegout()).unwrap_or(false), det);
    out.s("new_fee_fields", o.asset == Asset::Explicit(asset) && o.value == Value::Explicit(amount) && o.nonce == Nonce::Null && o.script_pubkey.is_empty() && o.witness.is_empty(), det);
    out.s("new_fee_serialized_length_is_44", serialize(&o).len() == 44, det);
    // appending a fee output to any transaction costs a fixed weight (plus the growth of the output counter)
    let t = gen::tx(rng);
    let mut t2 = t.clone();
    t2.output.push(o.clone());
    let vi = |n: usize| elements::encode::VarInt(n as u64).size();
    let exp = quiet(|| t.weight() + 4 * 44 + if t.has_witness() { 2 } else { 0 } + 4 * (vi(t.output.len() + 1) - vi(t.output.len()))).unwrap_or(0);
    out.s("fee_output_adds_constant_weight", quiet(|| t2.weight() == exp && t2.size() == serialize(&t2).len() && t2.discount_weight() + (t.weight() - t.discount_weight()) == t2.weight()).unwrap_or(false),
        || format!("{} + fee {}", hex(&serialize(&t)), det()));
    k_out(out, &o);
}

// ------------------------------------------------------------------------------------------------ inputs

fn btc_prevout(i: &TxIn) -> elements::bitcoin::OutPoint {
    elements::bitcoin::OutPoint { txid: <elements::bitcoin::Txid as elements::bitcoin::hashes::Hash>::from_byte_array(i.previous_output.txid.to_byte_array()), vout: i.previous_output.vout }
}

pub fn k_in(out: &mut Out, i: &TxIn) {
    let ser = format!("{} {}", hex(&serialize(i)), hex(&serialize(&i.witness)));
    let w = &i.witness.pegin_witness;
    let wok = w.len() == 6 && w[5].len() >= 80 && w[0].len() == 8 && w[1].len() == 32 && w[2].len() == 32;
    let r = Out::guard(|| {
        let fw = match PeginData::from_pegin_witness(w, btc_prevout(i)) {
            Ok(_) => "ok".to_string(),
            Err(e) => format!("err:{}", e.replace(' ', "_")),
        };
        let pd = match i.pegin_data() {
            None => "none tw=-".to_string(),
            Some(d) => {
                let tw = d.to_pegin_witness();
                format!(
                    "some {} {} {} {} {} {} {} {}:{} tw={}:[{}]",
                    d.value, hex(&serialize(&d.asset)), hex(AsRef::<[u8]>::as_ref(&d.genesis_hash)), hex(d.claim_script), hex(d.tx),
                    hex(d.merkle_proof), hex(AsRef::<[u8]>::as_ref(&d.referenced_block)), hex(AsRef::<[u8]>::as_ref(&d.outpoint.txid)), d.outpoint.vout,
                    tw.len(), hexlist(&tw)
                )
            }
        };
        let prev = match i.pegin_prevout() {
            None => "none".to_string(),
            Some(p) => format!("{}:{}", hex(AsRef::<[u8]>::as_ref(&p.txid)), p.vout),
        };
        format!("ok cb={} pegin={} iss={} flag={} prev={} wok={} fw={} {}", b01(i.is_coinbase()), b01(i.is_pegin()), b01(i.has_issuance()), i.outpoint_flag(), prev, b01(wok), fw, pd)
    });
    out.k(format!("txacc.in {}", ser), r.clone());
    out.s("txin_accessors_never_panic", r != "panic", || ser.clone());
    if r == "panic" { return; }
    let pd = i.pegin_data();
    // `pegin_data` is documented to return None exactly when the input is no pegin or the data cannot be parsed
    out.s("pegin_data_some_iff_pegin_and_well_formed_witness", pd.is_some() == (i.is_pegin && wok), || ser.clone());
    out.s("from_pegin_witness_ok_iff_well_formed", quiet(|| PeginData::from_pegin_witness(w, btc_prevout(i)).is_ok() == wok).unwrap_or(false), || ser.clone());
    if let Some(d) = &pd {
        let items_ok = quiet(|| d.value == u64::from_le_bytes(<[u8; 8]>::try_from(&w[0][..]).unwrap())
            && serialize(&d.asset) == w[1]
            && AsRef::<[u8]>::as_ref(&d.genesis_hash) == &w[2][..]
            && d.claim_script == &w[3][..] && d.tx == &w[4][..] && d.merkle_proof == &w[5][..]
            && AsRef::<[u8]>::as_ref(&d.referenced_block) == &sha256d::Hash::hash(&w[5][..80]).to_byte_array()[..]
            && d.outpoint == btc_prevout(i)).unwrap_or(false);
        out.s("pegin_fields_are_witness_items", items_ok, || ser.clone());
        out.s("to_pegin_witness_inverts_from_pegin_witness", quiet(|| { let tw = d.to_pegin_witness(); &tw == w && PeginData::from_pegin_witness(&tw, d.outpoint).as_ref() == Ok(d) }).unwrap_or(false), || ser.clone());
    }
    out.s("is_coinbase_iff_null_prevout", i.is_coinbase() == (i.previous_output.txid.to_byte_array() == [0u8; 32] && i.previous_output.vout == u32::MAX), || ser.clone());
    out.s("pegin_prevout_some_iff_pegin", i.pegin_prevout() == if i.is_pegin { Some(btc_prevout(i)) } else { None }, || ser.clone());
    out.s("has_issuance_iff_issuance_not_null", i.has_issuance() == !(i.asset_issuance.amount.is_null() && i.asset_issuance.inflation_keys.is_null()), || ser.clone());
    if i.previous_output.vout < (1 << 30) {
        // the flag byte is the top byte of the serialized index word
        let b = serialize(i);
        out.s("outpoint_flag_is_top_byte_of_serialized_index", b[35] & 0xc0 == i.outpoint_flag() && b[35] & 0x3f == (i.previous_output.vout >> 24) as u8, || ser.clone());
    }
    out.count(&format!("in.pegin{}.items{}.data{}", b01(i.is_pegin), w.len().min(8), b01(pd.is_some())));
}

// ------------------------------------------------------------------------------------------------ transactions

fn fees_oracle(outs: &[TxOut]) -> BTreeMap<Vec<u8>, u128> {
    let mut m = BTreeMap::new();
    for o in outs {
        if let (true, Asset::Explicit(a), Value::Explicit(v)) = (o.script_pubkey.as_bytes().is_empty(), o.asset, o.value) {
            *m.entry(serialize(&a)).or_insert(0u128) += v as u128;
        }
    }
    m
}

fn fees_real(t: &Transaction) -> Option<BTreeMap<Vec<u8>, u128>> {
    quiet(|| t.all_fees().into_iter().map(|(a, v)| (serialize(&a), v as u128)).collect())
}

fn fees_str(m: &Option<BTreeMap<Vec<u8>, u128>>) -> String {
    match m {
        None => "panic".into(),
        Some(m) => format!("[{}]", m.iter().map(|(a, v)| format!("{}:{}", hex(a), v)).collect::<Vec<_>>().join(",")),
    }
}

pub fn k_tx(out: &mut Out, rng: &mut R, t: &Transaction) {
    let b = serialize(t);
    let real = fees_real(t);
    let r = Out::guard(|| {
        format!(
            "ok cb={} wit={} gs={} gw={} nfee={} fees={}",
            b01(t.is_coinbase()), b01(t.has_witness()), t.get_size(), t.get_weight(), t.output.iter().filter(|o| o.is_fee()).count(), fees_str(&real)
        )
    });
    out.k(format!("txacc.tx {}", hex(&b)), r.clone());
    out.s("tx_accessors_never_panic", r != "panic", || hex(&b));
    if r == "panic" { return; }
    out.s("get_size_is_size", t.get_size() == t.size() && t.get_size() == b.len(), || hex(&b));
    out.s("get_weight_is_weight", t.get_weight() == t.weight(), || hex(&b));
    out.s("is_coinbase_iff_single_null_prevout_input", t.is_coinbase() == (t.input.len() == 1 && t.input[0].previous_output == OutPoint::default()), || hex(&b));
    out.s("has_witness_is_serialized_flag", t.has_witness() == (b[4] == 1), || hex(&b));
    // fees against u128 sums over the outputs with an empty script and explicit asset and value
    let exp = fees_oracle(&t.output);
    let overflow = exp.values().any(|v| *v > u64::MAX as u128);
    match &real {
        Some(m) => out.s("all_fees_is_per_asset_sum_of_fee_outputs", !overflow && *m == exp, || hex(&b)),
        None => {
            // `u64` addition under overflow checks: recorded, not flagged (DESIGN, "observed, outside the properties' scope")
            out.count("observed.all_fees.overflow_panic");
            out.s("all_fees_panics_only_on_u64_overflow", overflow, || hex(&b));
        }
    }
    let mut assets: Vec<Vec<u8>> = exp.keys().cloned().collect();
    assets.push(gen::arr32(rng).to_vec());
    for o in &t.output { if let Asset::Explicit(a) = o.asset { let k = serialize(&a); if !assets.contains(&k) { assets.push(k); } } }
    for a in assets.iter().take(6) {
        let id = AssetId::from_byte_array(<[u8; 32]>::try_from(&a[..]).unwrap());
        let fi = quiet(|| t.fee_in(id));
        out.k(format!("txacc.feein {} {}", hex(&b), hex(a)), match fi { Some(v) => format!("ok {}", v), None => "panic".into() });
        let e = exp.get(a).copied().unwrap_or(0);
        match fi {
            Some(v) => {
                out.s("fee_in_is_sum_of_fee_outputs", v as u128 == e, || format!("{} asset {}", hex(&b), hex(a)));
                if let Some(m) = &real { out.s("fee_in_is_all_fees_lookup", m.get(a).copied().unwrap_or(0) == v as u128, || format!("{} asset {}", hex(&b), hex(a))); }
            }
            None => { out.count("observed.fee_in.overflow_panic"); out.s("fee_in_panics_only_on_u64_overflow", e > u64::MAX as u128, || format!("{} asset {}", hex(&b), hex(a))); }
        }
    }
    // permutation of the outputs
    if t.output.len() >= 2 {
        let mut p = t.clone();
        for k in (1..p.output.len()).rev() { let j = rng.gen_range(0..=k); p.output.swap(k, j); }
        out.s("all_fees_invariant_under_output_permutation", fees_real(&p) == real, || hex(&b));
    }
    // additivity under splitting the output list
    if !overflow && !t.output.is_empty() {
        let k = rng.gen_range(0..=t.output.len());
        let (mut l, mut rr) = (t.clone(), t.clone());
        l.output.truncate(k);
        rr.output = t.output[k..].to_vec();
        let ok = quiet(|| assets.iter().take(6).all(|a| { let id = AssetId::from_byte_array(<[u8; 32]>::try_from(&a[..]).unwrap()); t.fee_in(id) as u128 == l.fee_in(id) as u128 + rr.fee_in(id) as u128 })).unwrap_or(false);
        out.s("fee_in_additive_under_appending_outputs", ok, || format!("{} split {}", hex(&b), k));
    }
    out.count(&format!("tx.fee_assets{}.overflow{}", exp.len().min(4), b01(overflow)));
}

pub fn k_block(out: &mut Out, bk: &Block) {
    let b = serialize(bk);
    let r = Out::guard(|| format!("ok {} {}", bk.get_size(), bk.get_weight()));
    out.k(format!("txacc.block {}", hex(&b)), r);
    out.s("block_get_size_is_size", bk.get_size() == bk.size() && bk.get_size() == b.len(), || hex(&b));
    out.s("block_get_weight_is_weight", bk.get_weight() == bk.weight(), || hex(&b));
}

// ------------------------------------------------------------------------------------------------ sequence

pub fn k_seq(out: &mut Out, n: u32) {
    let s = Sequence(n);
    let r = Out::guard(|| format!("ok {} {} {} {} {} {}", b01(s.is_final()), b01(s.is_rbf()), b01(s.is_relative_lock_time()), b01(s.is_height_locked()), b01(s.is_time_locked()), b01(s.enables_absolute_lock_time())));
    out.k(format!("txacc.seq {}", n), r);
    // BIP68 / BIP125 as documented on the methods
    out.s("sequence_final_iff_max", s.is_final() == (n == 0xffff_ffff) && s.enables_absolute_lock_time() == (n != 0xffff_ffff), || n.to_string());
    out.s("sequence_rbf_iff_below_fffffffe", s.is_rbf() == (n < 0xffff_fffe), || n.to_string());
    out.s("sequence_relative_lock_iff_bit31_clear", s.is_relative_lock_time() == (n >> 31 == 0), || n.to_string());
    out.s("sequence_height_xor_time", s.is_height_locked() == (n >> 31 == 0 && (n >> 22) & 1 == 0) && s.is_time_locked() == (n >> 31 == 0 && (n >> 22) & 1 == 1), || n.to_string());
}

pub fn k_seqfrom(out: &mut Out, n: u32) {
    let h = (n & 0xffff) as u16;
    out.k(format!("txacc.seqfrom height {}", h), format!("ok {}", Sequence::from_height(h).to_consensus_u32()));
    out.k(format!("txacc.seqfrom iv512 {}", h), format!("ok {}", Sequence::from_512_second_intervals(h).to_consensus_u32()));
    out.s("from_height_is_height_locked", Sequence::from_height(h).is_height_locked() && Sequence::from_height(h).0 == h as u32, || h.to_string());
    out.s("from_512_second_intervals_is_time_locked", Sequence::from_512_second_intervals(h).is_time_locked() && Sequence::from_512_second_intervals(h).0 & 0xffff == h as u32, || h.to_string());
    let fl = Sequence::from_seconds_floor(n);
    let ce = Sequence::from_seconds_ceil(n);
    out.k(format!("txacc.seqfrom floor {}", n), match &fl { Ok(s) => format!("ok {}", s.0), Err(_) => "err".into() });
    out.k(format!("txacc.seqfrom ceil {}", n), match &ce { Ok(s) => format!("ok {}", s.0), Err(_) => "err".into() });
    let (f, c) = (n as u64 / 512, (n as u64 + 511) / 512);
    out.s("from_seconds_floor_as_documented", match &fl { Ok(s) => f <= 0xffff && s.0 as u64 == (f | (1 << 22)), Err(_) => f > 0xffff }, || n.to_string());
    out.s("from_seconds_ceil_as_documented", match &ce { Ok(s) => c <= 0xffff && s.0 as u64 == (c | (1 << 22)), Err(_) => c > 0xffff }, || n.to_string());
}

// ------------------------------------------------------------------------------------------------ pegout template

/// one data push in a chosen form: 0 = shortest (what `Builder::push_slice` writes), 1/2/3 = PUSHDATA1/2/4
fn push(d: &[u8], form: u8) -> Vec<u8> {
    let n = d.len();
    let mut v = vec![];
    match form {
        1 if n < 0x100 => { v.push(0x4c); v.push(n as u8); }
        2 if n < 0x10000 => { v.push(0x4d); v.extend_from_slice(&(n as u16).to_le_bytes()); }
        3 => { v.push(0x4e); v.extend_from_slice(&(n as u32).to_le_bytes()); }
        _ => {
            if n < 0x4c { v.push(n as u8); }
            else if n < 0x100 { v.push(0x4c); v.push(n as u8); }
            else if n < 0x10000 { v.push(0x4d); v.extend_from_slice(&(n as u16).to_le_bytes()); }
            else { v.push(0x4e); v.extend_from_slice(&(n as u32).to_le_bytes()); }
        }
    }
    v.extend_from_slice(d);
    v
}

pub fn k_pegout_template(out: &mut Out, rng: &mut R, g: &[u8], spk: &[u8], extra: &[Vec<u8>]) {
    let mut b = Builder::new().push_opcode(OP_RETURN).push_slice(g).push_slice(spk);
    for e in extra { b = b.push_slice(e); }
    let script = b.into_script();
    let mut line = format!("txacc.pegouttpl {} {}", hex(g), hex(spk));
    for e in extra { line.push(' '); line.push_str(&hex(e)); }
    out.k(line.clone(), format!("ok {} 1", hex(script.as_bytes())));
    let mut by_hand = vec![0x6au8];
    by_hand.extend(push(g, 0)); by_hand.extend(push(spk, 0));
    for e in extra { by_hand.extend(push(e, 0)); }
    out.s("builder_writes_the_pegout_template", script.as_bytes() == &by_hand[..], || line.clone());
    let v = gen::u64_edge(rng);
    let o = TxOut { asset: gen::asset(rng), value: Value::Explicit(v), nonce: gen::nonce(rng), script_pubkey: script, witness: TxOutWitness::empty() };
    let pd = quiet(|| o.pegout_data()).unwrap_or(None);
    let ok = if g.len() == 32 && !spk.is_empty() {
        pd.as_ref().map_or(false, |d| d.value == v && d.asset == o.asset && AsRef::<[u8]>::as_ref(&d.genesis_hash) == g && d.script_pubkey.as_bytes() == spk
            && d.extra_data.len() == extra.len() && d.extra_data.iter().zip(extra).all(|(a, b)| *a == &b[..]))
    } else { pd.is_none() };
    out.s("pegout_template_parses_back_to_its_components", ok, || line.clone());
    k_out(out, &o);
}

/// scripts around the pegout template, one deviation at a time
fn pegout_shaped_script(rng: &mut R, dev: u32) -> Vec<u8> {
    let f = |rng: &mut R| -> u8 { if rng.gen_bool(0.6) { 0 } else { rng.gen_range(1..4) } };
    let g = gen::bytes(rng, match dev { 1 => 31, 2 => 33, 3 => 0, _ => 32 });
    let spk_len = match dev { 6 => 0, _ => [1usize, 2, 22, 25, 75, 76, 255, 256][rng.gen_range(0..8)] };
    let spk = gen::bytes(rng, spk_len);
    let mut s = vec![0x6au8];
    if dev == 14 { s[0] = [0x6b, 0x00, 0x51, 0x69][rng.gen_range(0..4)]; }
    if dev == 15 { return vec![]; }
    if dev == 16 { s.push([0x51, 0x4f, 0x50, 0x60][rng.gen_range(0..4)]); }
    if dev == 5 { return s; }
    let fm = f(rng); s.extend(push(&g, fm));
    if dev == 4 { return s; }
    if dev == 12 { s.push([0x51, 0x60, 0x50, 0x61, 0xff][rng.gen_range(0..5)]); }
    let fm = f(rng); s.extend(push(&spk, fm));
    for _ in 0..rng.gen_range(0..4) {
        let n = [0usize, 1, 1, 33, 75, 76, 80][rng.gen_range(0..7)];
        let e = gen::bytes(rng, n);
        let fm = f(rng); s.extend(push(&e, fm));
    }
    match dev {
        7 => s.push(0x51),
        8 => s.push([0x61, 0x6a, 0xac, 0xff][rng.gen_range(0..4)]),
        9 => s.push(0x50),
        10 => s.push(0x4f),
        11 => s.push(0x60),
        13 => { let cut = rng.gen_range(1..=3.min(s.len() - 1)); s.truncate(s.len() - cut); }
        17 => { s.push([0x4c, 0x4d, 0x4e][rng.gen_range(0..3)]); if rng.gen_bool(0.5) { s.push(1); } }
        18 => { let n = rng.gen_range(1..0x4c) as u8; s.push(n); s.extend(gen::bytes(rng, n as usize - 1)); }
        _ => {}
    }
    s
}

fn pegin_shaped_witness(rng: &mut R, dev: u32) -> Vec<Vec<u8>> {
    let l = |rng: &mut R, good: usize, which: u32| -> usize {
        if dev == which { [good - 1, good + 1, 0][rng.gen_range(0..3)] } else { good }
    };
    let proof_len = if dev == 6 { [79usize, 0, 1][rng.gen_range(0..3)] } else { [80usize, 81, 120, 300][rng.gen_range(0..4)] };
    let mut w = vec![
        { let n = l(rng, 8, 1); gen::bytes(rng, n) },
        { let n = l(rng, 32, 2); gen::bytes(rng, n) },
        { let n = l(rng, 32, 3); gen::bytes(rng, n) },
        { let n = gen::small_len(rng); gen::bytes(rng, n) },
        { let n = gen::small_len(rng); gen::bytes(rng, n) },
        gen::bytes(rng, proof_len),
    ];
    match dev {
        7 => { w.pop(); }
        8 => { w.push(gen::bytes(rng, 3)); }
        9 => { w.remove(rng.gen_range(0..5)); }
        10 => { w.clear(); }
        11 => { w.swap(0, 1); }
        12 => { w.swap(3, 5); }
        _ => {}
    }
    w
}

fn fee_tx(rng: &mut R, near_max: bool) -> Transaction {
    let pool: Vec<AssetId> = (0..rng.gen_range(1..4)).map(|_| gen::asset_id(rng)).collect();
    let nin = rng.gen_range(0..3);
    let mut t = gen::tx_wide(rng, nin, 0);
    if rng.gen_bool(0.3) { t.input.push(gen::txin(rng, gen::InKind::Plain, true)); }
    let n = rng.gen_range(0..9);
    for _ in 0..n {
        let a = pool[rng.gen_range(0..pool.len())];
        let amount = if near_max {
            match rng.gen_range(0..7) { 0 => u64::MAX, 1 => u64::MAX - 1, 2 => u64::MAX / 2, 3 => u64::MAX / 2 + 1, 4 => 1, 5 => 0, _ => 1u64 << 63 }
        } else { gen::u64_edge(rng) >> rng.gen_range(0..40) };
        let mut o = TxOut::new_fee(amount, a);
        match rng.gen_range(0..12) {
            0 => o.value = Value::Confidential(gen::commitment(rng)),
            1 => o.asset = Asset::Confidential(gen::generator(rng)),
            2 => o.value = Value::Null,
            3 => o.asset = Asset::Null,
            4 => o.script_pubkey = Script::from(vec![0x6a]),
            5 => o.script_pubkey = Script::from(vec![0x00]),
            6 => o.nonce = gen::nonce(rng),
            7 => o.witness = gen::txout_witness(rng),
            _ => {}
        }
        t.output.push(o);
    }
    t
}

pub fn run(rng: &mut R, out: &mut Out) {
    let scale = if out.tier_thorough { 12 } else { 1 };
    // ---- hand-picked cases
    let zero = AssetId::from_byte_array([0u8; 32]);
    k_newfee(out, rng, 0, zero);
    k_newfee(out, rng, u64::MAX, AssetId::from_byte_array([0xffu8; 32]));
    k_out(out, &TxOut::default());
    k_in(out, &TxIn::default());
    {
        // the documented template and its smallest neighbours
        let g = [7u8; 32];
        k_pegout_template(out, rng, &g, &[0x51], &[]);
        k_pegout_template(out, rng, &g, &[], &[]);
        k_pegout_template(out, rng, &g[..31], &[0x51], &[]);
        k_pegout_template(out, rng, &g, &[1, 2, 3], &[vec![], vec![0x05], vec![0x81], vec![9; 75], vec![9; 76], vec![9; 255], vec![9; 256]]);
        // two fee outputs of one asset whose sum is exactly u64::MAX / exactly 2^64
        for last in [0u64, 1] {
            let mut t = gen::tx_wide(rng, 1, 0);
            t.output.push(TxOut::new_fee(u64::MAX - 1, zero));
            t.output.push(TxOut::new_fee(1, zero));
            t.output.push(TxOut::new_fee(last, zero));
            k_tx(out, rng, &t);
        }
        // a coinbase transaction, and a transaction with two inputs the first of which is a coinbase input
        let mut t = gen::tx_wide(rng, 1, 1);
        t.input[0].previous_output = OutPoint::default();
        k_tx(out, rng, &t);
        t.input.push(TxIn::default());
        k_tx(out, rng, &t);
    }
    for n in [0u32, 1, 0xffff, 0x10000, 1 << 22, (1 << 22) | 0xffff, (1 << 22) - 1, 1 << 31, (1 << 31) - 1, (1 << 31) | (1 << 22), 0xffff_fffd, 0xffff_fffe, 0xffff_ffff,
              511, 512, 513, 65535 * 512 - 1, 65535 * 512, 65535 * 512 + 1, 65536 * 512 - 1, 65536 * 512, 65536 * 512 + 1] {
        k_seq(out, n);
        k_seqfrom(out, n);
    }
    // ---- the repository's own vectors
    for v in crate::props::c01::harvest_hex() {
        if let Ok(t) = deserialize::<Transaction>(&v) {
            k_tx(out, rng, &t);
            for o in &t.output { k_out(out, o); }
            for i in &t.input { k_in(out, i); }
            out.count("txacc.repo_vector_tx");
        }
    }
    // ---- shared generators
    for _ in 0..120 * scale {
        let t = gen::tx(rng);
        k_tx(out, rng, &t);
        for o in &t.output { k_out(out, o); }
        for i in &t.input { k_in(out, i); }
    }
    // ---- outputs around the pegout template: every deviation x value/asset kinds
    for round in 0..6 * scale {
        for dev in 0..19u32 {
            let s = pegout_shaped_script(rng, dev);
            let o = TxOut {
                asset: if round % 3 == 0 { Asset::Explicit(gen::asset_id(rng)) } else { gen::asset(rng) },
                value: if round % 2 == 0 { Value::Explicit(gen::u64_edge(rng)) } else { gen::value(rng) },
                nonce: gen::nonce(rng),
                script_pubkey: Script::from(s),
                witness: if rng.gen_bool(0.15) { gen::txout_witness(rng) } else { TxOutWitness::empty() },
            };
            k_out(out, &o);
            out.count(&format!("pegout_shape.dev{}", dev));
        }
    }
    for _ in 0..25 * scale {
        let gl = if rng.gen_bool(0.85) { 32 } else { [0usize, 20, 31, 33][rng.gen_range(0..4)] };
        let g = gen::bytes(rng, gl);
        let n = gen::small_len(rng);
        let spk = gen::bytes(rng, n);
        let extra: Vec<Vec<u8>> = (0..rng.gen_range(0..4)).map(|_| { let n = gen::small_len(rng); gen::bytes(rng, n) }).collect();
        k_pegout_template(out, rng, &g, &spk, &extra);
    }
    if out.tier_thorough {
        // PUSHDATA2 / PUSHDATA4 headers written by the builder
        let g = gen::bytes(rng, 32);
        for n in [0xffffusize, 0x10000, 0x10001] {
            let spk = gen::bytes(rng, n);
            let e = gen::bytes(rng, 0x100);
            k_pegout_template(out, rng, &g, &spk, &[e]);
        }
    }
    // ---- fee outputs: several assets, confidential / null value or asset, sums near u64::MAX
    for k in 0..60 * scale {
        let t = fee_tx(rng, k % 2 == 1);
        k_tx(out, rng, &t);
        if k % 4 == 0 { for o in &t.output { k_out(out, o); } }
    }
    for _ in 0..10 * scale {
        let (a, v) = (gen::asset_id(rng), gen::u64_edge(rng));
        k_newfee(out, rng, v, a);
    }
    // ---- pegin witnesses with 5/6/7 items and item lengths on both sides of the required ones
    for round in 0..8 * scale {
        for dev in 0..13u32 {
            let kind = if round % 4 == 3 { gen::InKind::Plain } else if round % 4 == 2 { gen::InKind::PeginIssuance } else { gen::InKind::Pegin };
            let mut i = gen::txin(rng, kind, false);
            i.witness = TxInWitness { amount_rangeproof: None, inflation_keys_rangeproof: None, script_witness: if rng.gen_bool(0.3) { gen::stack(rng) } else { vec![] }, pegin_witness: pegin_shaped_witness(rng, dev) };
            k_in(out, &i);
            out.count(&format!("pegin_shape.dev{}", dev));
        }
    }
    for k in [gen::InKind::Coinbase, gen::InKind::Plain, gen::InKind::Issuance, gen::InKind::Reissuance, gen::InKind::Pegin, gen::InKind::PeginIssuance] {
        for _ in 0..4 * scale { let i = gen::txin(rng, k, true); k_in(out, &i); }
    }
    // ---- sequences and blocks
    for _ in 0..40 * scale {
        let n = gen::u32_edge(rng);
        k_seq(out, n);
        k_seqfrom(out, n);
    }
    for _ in 0..8 * scale {
        k_block(out, &gen::block(rng));
    }
}
