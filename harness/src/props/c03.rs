//! C03 — signature hashes follow the Elements legacy, segwit-v0 and taproot algorithms.
//! Also hosts the query language shared with C13 (`Q`, `run_q`, scenario strings).
use crate::props::c01;
use crate::{gen, hex, Out, Rng, R};
use elements::confidential::Value;
use elements::encode::{deserialize, serialize};
use elements::hashes::{sha256, sha256d};
use elements::sighash::{Annex, Prevouts, ScriptPath, SighashCache};
use elements::taproot::{LeafVersion, TapLeafHash};
use elements::{BlockHash, EcdsaSighashType, SchnorrSighashType, Script, Sequence, Transaction, TxIn, TxOut, TxOutWitness};
use std::ops::DerefMut;

pub const ECDSA_TYPES: [EcdsaSighashType; 6] = [
    EcdsaSighashType::All,
    EcdsaSighashType::None,
    EcdsaSighashType::Single,
    EcdsaSighashType::AllPlusAnyoneCanPay,
    EcdsaSighashType::NonePlusAnyoneCanPay,
    EcdsaSighashType::SinglePlusAnyoneCanPay,
];
pub const SCHNORR_TYPES: [SchnorrSighashType; 7] = [
    SchnorrSighashType::Default,
    SchnorrSighashType::All,
    SchnorrSighashType::None,
    SchnorrSighashType::Single,
    SchnorrSighashType::AllPlusAnyoneCanPay,
    SchnorrSighashType::NonePlusAnyoneCanPay,
    SchnorrSighashType::SinglePlusAnyoneCanPay,
];

#[derive(Clone, Debug, PartialEq)]
pub enum Pv {
    All,
    One(usize),
}
#[derive(Clone, Debug, PartialEq)]
pub enum Leaf {
    None,
    Hash([u8; 32]),
    Script(u8, Script),
}
#[derive(Clone, Debug, PartialEq)]
pub enum Q {
    L { idx: usize, ty: EcdsaSighashType, script: Script },
    S { idx: usize, ty: EcdsaSighashType, script: Script, value: Value },
    TG { idx: usize, ty: SchnorrSighashType, pv: Pv, annex: Option<Vec<u8>>, leaf: Leaf, codesep: u32 },
    TK { idx: usize, ty: SchnorrSighashType, pv: Pv },
    TS { idx: usize, ty: SchnorrSighashType, pv: Pv, leaf: Leaf },
    W { idx: usize, stack: Vec<Vec<u8>> },
}

fn hx(b: &[u8]) -> String {
    // hex without the "-" convention (used inside prefixed fields)
    b.iter().map(|x| format!("{:02x}", x)).collect()
}
fn pv_str(p: &Pv) -> String {
    match p {
        Pv::All => "A".into(),
        Pv::One(j) => format!("O{}", j),
    }
}
fn leaf_str(l: &Leaf) -> String {
    match l {
        Leaf::None => "-".into(),
        Leaf::Hash(h) => format!("h{}", hx(h)),
        Leaf::Script(v, s) => format!("s{:02x}{}", v, hx(s.as_bytes())),
    }
}
pub fn q_str(q: &Q) -> String {
    match q {
        Q::L { idx, ty, script } => format!("L:{}:{}:{}", idx, ty.as_u32(), hex(script.as_bytes())),
        Q::S { idx, ty, script, value } => format!("S:{}:{}:{}:{}", idx, ty.as_u32(), hex(script.as_bytes()), hex(&serialize(value))),
        Q::TG { idx, ty, pv, annex, leaf, codesep } => format!(
            "TG:{}:{}:{}:{}:{}:{}",
            idx,
            *ty as u8,
            pv_str(pv),
            match annex {
                None => "-".to_string(),
                Some(a) => format!("a{}", hx(a)),
            },
            leaf_str(leaf),
            codesep
        ),
        Q::TK { idx, ty, pv } => format!("TK:{}:{}:{}", idx, *ty as u8, pv_str(pv)),
        Q::TS { idx, ty, pv, leaf } => format!("TS:{}:{}:{}:{}", idx, *ty as u8, pv_str(pv), leaf_str(leaf)),
        Q::W { idx, stack } => format!("W:{}:{}", idx, hex(&serialize(stack))),
    }
}
pub fn prevouts_str(ps: &[TxOut]) -> String {
    if ps.is_empty() {
        return "-".into();
    }
    ps.iter().map(|p| hx(&serialize(p))).collect::<Vec<_>>().join(",")
}

fn leaf_hash(l: &Leaf) -> Option<TapLeafHash> {
    match l {
        Leaf::None => None,
        Leaf::Hash(h) => Some(TapLeafHash::from_byte_array(*h)),
        Leaf::Script(v, s) => Some(ScriptPath::new(s, 0, LeafVersion::from_u8(*v).expect("generated leaf versions are valid")).leaf_hash()),
    }
}

fn err_tok(e: &elements::sighash::Error) -> &'static str {
    match e {
        elements::sighash::Error::PrevoutKind => "errPrevoutKind",
        _ => "err",
    }
}

/// the prevouts argument of a taproot query; `One(j)` takes `ps[j]` (`TxOut::default()` when out of range)
fn with_prevouts<X>(ps: &[TxOut], pv: &Pv, f: impl FnOnce(&Prevouts<TxOut>) -> X) -> X {
    match pv {
        Pv::All => f(&Prevouts::All(ps)),
        Pv::One(j) => f(&Prevouts::One(*j, ps.get(*j).cloned().unwrap_or_default())),
    }
}

/// run one query on a cache: digest hex, `err`, `errPrevoutKind`, `panic`, `some`, `none`
pub fn run_q<T: DerefMut<Target = Transaction>>(cache: &mut SighashCache<T>, ps: &[TxOut], genesis: BlockHash, q: &Q) -> String {
    Out::guard(|| match q {
        Q::L { idx, ty, script } => hx(&cache.legacy_sighash(*idx, script, *ty).to_byte_array()),
        Q::S { idx, ty, script, value } => hx(&cache.segwitv0_sighash(*idx, script, *value, *ty).to_byte_array()),
        Q::TG { idx, ty, pv, annex, leaf, codesep } => {
            let ann = match annex {
                None => None,
                Some(a) => match Annex::new(a) {
                    Ok(x) => Some(x),
                    Err(_) => return "err".to_string(),
                },
            };
            let lh = leaf_hash(leaf).map(|h| (h, *codesep));
            with_prevouts(ps, pv, |p| match cache.taproot_sighash(*idx, p, ann, lh, *ty, genesis) {
                Ok(h) => hx(&h.to_byte_array()),
                Err(e) => err_tok(&e).to_string(),
            })
        }
        Q::TK { idx, ty, pv } => with_prevouts(ps, pv, |p| match cache.taproot_key_spend_signature_hash(*idx, p, *ty, genesis) {
            Ok(h) => hx(&h.to_byte_array()),
            Err(e) => err_tok(&e).to_string(),
        }),
        Q::TS { idx, ty, pv, leaf } => with_prevouts(ps, pv, |p| {
            let r = match leaf {
                Leaf::Script(v, s) => cache.taproot_script_spend_signature_hash(*idx, p, ScriptPath::new(s, 7, LeafVersion::from_u8(*v).unwrap()), *ty, genesis),
                _ => cache.taproot_script_spend_signature_hash(*idx, p, leaf_hash(leaf).expect("TS needs a leaf"), *ty, genesis),
            };
            match r {
                Ok(h) => hx(&h.to_byte_array()),
                Err(e) => err_tok(&e).to_string(),
            }
        }),
        Q::W { idx, stack } => match cache.witness_mut(*idx) {
            Some(w) => {
                *w = stack.clone();
                "some".to_string()
            }
            None => "none".to_string(),
        },
    })
}

/// digest of one query on a fresh cache (the observation point of C03)
pub fn fresh(tx: &Transaction, ps: &[TxOut], genesis: BlockHash, q: &Q) -> String {
    let mut t = tx.clone();
    let mut cache = SighashCache::new(&mut t);
    run_q(&mut cache, ps, genesis, q)
}

/// the bytes written by the `*_encode_signing_data_to` function behind a query
fn message(tx: &Transaction, ps: &[TxOut], genesis: BlockHash, q: &Q) -> String {
    Out::guard(|| {
        let mut cache = SighashCache::new(tx);
        let mut buf = Vec::new();
        let r: Result<(), String> = match q {
            Q::L { idx, ty, script } => cache.encode_legacy_signing_data_to(&mut buf, *idx, script, *ty).map_err(|_| "err".to_string()),
            Q::S { idx, ty, script, value } => cache.encode_segwitv0_signing_data_to(&mut buf, *idx, script, *value, *ty).map_err(|_| "err".to_string()),
            Q::TG { idx, ty, pv, annex, leaf, codesep } => {
                let ann = match annex {
                    None => None,
                    Some(a) => match Annex::new(a) {
                        Ok(x) => Some(x),
                        Err(_) => return "err".to_string(),
                    },
                };
                let lh = leaf_hash(leaf).map(|h| (h, *codesep));
                with_prevouts(ps, pv, |p| cache.taproot_encode_signing_data_to(&mut buf, *idx, p, ann, lh, *ty, genesis).map_err(|e| err_tok(&e).to_string()))
            }
            Q::TK { idx, ty, pv } => with_prevouts(ps, pv, |p| cache.taproot_encode_signing_data_to(&mut buf, *idx, p, None, None, *ty, genesis).map_err(|e| err_tok(&e).to_string())),
            Q::TS { idx, ty, pv, leaf } => {
                let lh = leaf_hash(leaf).map(|h| (h, 0xFFFF_FFFFu32));
                with_prevouts(ps, pv, |p| cache.taproot_encode_signing_data_to(&mut buf, *idx, p, None, lh, *ty, genesis).map_err(|e| err_tok(&e).to_string()))
            }
            Q::W { .. } => Err("bad".into()),
        };
        match r {
            Ok(()) => hex(&buf),
            Err(e) => e,
        }
    })
}

/// does the consensus encoding carry this in-memory value?
fn transportable(tx: &Transaction) -> bool {
    matches!(elements::encode::deserialize::<Transaction>(&serialize(tx)), Ok(ref t) if t == tx)
}

fn sighash_line(tx: &Transaction, ps: &[TxOut], genesis: &[u8; 32], q: &Q) -> String {
    // values the consensus encoding cannot carry (a null outpoint holding a pegin flag or an issuance) travel
    // field by field (`m:` transport, proved faithful in EV.Proofs.MemTx)
    let t = if transportable(tx) { hex(&serialize(tx)) } else { gen::memtx_hex(tx) };
    format!("sighash {} {} {} {}", t, prevouts_str(ps), hx(genesis), q_str(q))
}

/// K: `sighash …` with digest and message of the real code
fn k_sighash(out: &mut Out, tx: &Transaction, ps: &[TxOut], genesis: &[u8; 32], q: &Q) -> String {
    let g = BlockHash::from_byte_array(*genesis);
    let d = fresh(tx, ps, g, q);
    let m = message(tx, ps, g, q);
    let res = match d.as_str() {
        "err" => "err".to_string(),
        "errPrevoutKind" => "err PrevoutKind".to_string(),
        "panic" => "panic".to_string(),
        _ => format!("ok {} {}", d, m),
    };
    if !transportable(tx) {
        out.count("sighash.memtx_transport");
    }
    out.k(sighash_line(tx, ps, genesis, q), res);
    // the message and the digest must fail together
    let d_ok = d.len() == 64;
    let m_ok = !(m == "err" || m == "errPrevoutKind" || m == "panic");
    out.s("message_and_digest_fail_together", d_ok == m_ok, || sighash_line(tx, ps, genesis, q));
    d
}

// ------------------------------------------------------------------ generators

pub fn scenario_tx(rng: &mut R) -> (Transaction, Vec<TxOut>) {
    let nin = match rng.gen_range(0..12) {
        0 => 0,
        1 | 2 | 3 => 1,
        4 | 5 => 2,
        6 | 7 => 3,
        _ => rng.gen_range(1..6),
    };
    let nout = match rng.gen_range(0..10) {
        0 | 1 => 0,
        2 | 3 => 1,
        4 => 2,
        _ => rng.gen_range(0..6),
    };
    let wm = rng.gen_range(0..4);
    let input: Vec<TxIn> = (0..nin)
        .map(|_| {
            let k = gen::in_kind(rng);
            let w = (wm & 1) != 0 && rng.gen_bool(0.7);
            gen::txin(rng, k, w)
        })
        .collect();
    let output: Vec<TxOut> = (0..nout).map(|_| { let w = (wm & 2) != 0 && rng.gen_bool(0.7); gen::txout(rng, w) }).collect();
    let tx = Transaction {
        version: match rng.gen_range(0..4) { 0 => 2, 1 => 1, _ => rng.gen() },
        lock_time: elements::LockTime::from_consensus(gen::u32_edge(rng)),
        input,
        output,
    };
    let ps: Vec<TxOut> = (0..nin).map(|_| gen::txout(rng, false)).collect();
    (tx, ps)
}

pub fn leaf_version(rng: &mut R) -> u8 {
    match rng.gen_range(0..4) {
        0 | 1 => 0xc4,
        2 => 0xc0,
        _ => loop {
            let v = rng.gen::<u8>() & 0xfe;
            if v != 0x50 {
                break v;
            }
        },
    }
}
pub fn gen_leaf(rng: &mut R, allow_none: bool) -> Leaf {
    match rng.gen_range(0..3) {
        0 if allow_none => Leaf::None,
        1 => Leaf::Hash(gen::arr32(rng)),
        _ => Leaf::Script(leaf_version(rng), gen::script(rng)),
    }
}
pub fn gen_annex(rng: &mut R) -> Option<Vec<u8>> {
    match rng.gen_range(0..8) {
        0 | 1 | 2 | 3 => None,
        4 => Some(vec![0x50]),
        5 => { let n = gen::small_len(rng); let mut v = gen::bytes(rng, n + 1); v[0] = 0x50; Some(v) }
        6 => Some(vec![]),                 // rejected by Annex::new
        _ => Some(vec![0x51, 1, 2]),       // rejected by Annex::new
    }
}
pub fn gen_idx(rng: &mut R, tx: &Transaction) -> usize {
    let nin = tx.input.len();
    match rng.gen_range(0..12) {
        0 => nin,
        1 => nin + rng.gen_range(1..3),
        2 => (1usize << 32) + rng.gen_range(0..2),
        _ if nin > 0 => rng.gen_range(0..nin),
        _ => 0,
    }
}
pub fn gen_pv(rng: &mut R, idx: usize, nin: usize) -> Pv {
    match rng.gen_range(0..8) {
        0 | 1 | 2 | 3 => Pv::All,
        4 | 5 | 6 => Pv::One(idx),
        _ => Pv::One(rng.gen_range(0..nin + 2)),
    }
}
pub fn gen_query(rng: &mut R, tx: &Transaction) -> Q {
    let idx = gen_idx(rng, tx);
    let nin = tx.input.len();
    match rng.gen_range(0..10) {
        0 | 1 => Q::L { idx, ty: ECDSA_TYPES[rng.gen_range(0..6)], script: gen::script(rng) },
        2 | 3 => Q::S { idx, ty: ECDSA_TYPES[rng.gen_range(0..6)], script: gen::script(rng), value: gen::value(rng) },
        4 | 5 | 6 => Q::TG {
            idx,
            ty: if rng.gen_range(0..30) == 0 { SchnorrSighashType::Reserved } else { SCHNORR_TYPES[rng.gen_range(0..7)] },
            pv: gen_pv(rng, idx, nin),
            annex: gen_annex(rng),
            leaf: gen_leaf(rng, true),
            codesep: match rng.gen_range(0..3) { 0 => 0xFFFF_FFFF, 1 => 0, _ => rng.gen() },
        },
        7 | 8 => Q::TK { idx, ty: SCHNORR_TYPES[rng.gen_range(0..7)], pv: gen_pv(rng, idx, nin) },
        _ => Q::TS { idx, ty: SCHNORR_TYPES[rng.gen_range(0..7)], pv: gen_pv(rng, idx, nin), leaf: gen_leaf(rng, false) },
    }
}

// ------------------------------------------------------------------ independent oracle (third transcription, in Rust)

fn sha(b: &[u8]) -> [u8; 32] {
    sha256::Hash::hash(b).to_byte_array()
}
fn dsha(b: &[u8]) -> [u8; 32] {
    sha256d::Hash::hash(b).to_byte_array()
}
fn tagged(tag: &str, msg: &[u8]) -> [u8; 32] {
    let t = sha(tag.as_bytes());
    let mut v = t.to_vec();
    v.extend_from_slice(&t);
    v.extend_from_slice(msg);
    sha(&v)
}
fn ser_issuance_or_zero(i: &TxIn) -> Vec<u8> {
    if i.asset_issuance.amount.is_null() && i.asset_issuance.inflation_keys.is_null() {
        vec![0]
    } else {
        serialize(&i.asset_issuance)
    }
}
fn has_iss(i: &TxIn) -> bool {
    !(i.asset_issuance.amount.is_null() && i.asset_issuance.inflation_keys.is_null())
}
fn ser_outpoint(i: &TxIn) -> Vec<u8> {
    let mut v = i.previous_output.txid.to_byte_array().to_vec();
    v.extend_from_slice(&i.previous_output.vout.to_le_bytes());
    v
}
fn ser_proofs(i: &TxIn) -> Vec<u8> {
    let mut v = serialize(&i.witness.amount_rangeproof);
    v.extend(serialize(&i.witness.inflation_keys_rangeproof));
    v
}
fn ser_out_wit(w: &TxOutWitness) -> Vec<u8> {
    let mut v = serialize(&w.surjection_proof);
    v.extend(serialize(&w.rangeproof));
    v
}

/// BIP143 + issuance extension, written against the numeric hash type
fn oracle_segwit(tx: &Transaction, n_in: usize, script: &Script, value: &Value, ht: u32) -> Option<[u8; 32]> {
    let txin = tx.input.get(n_in)?;
    let acp = ht & 0x80 != 0;
    let single = ht & 0x1f == 3;
    let none = ht & 0x1f == 2;
    let mut m = tx.version.to_le_bytes().to_vec();
    let zero = [0u8; 32];
    m.extend_from_slice(&if !acp { dsha(&tx.input.iter().flat_map(ser_outpoint).collect::<Vec<u8>>()) } else { zero });
    m.extend_from_slice(&if !acp && !single && !none { dsha(&tx.input.iter().flat_map(|i| i.sequence.0.to_le_bytes().to_vec()).collect::<Vec<u8>>()) } else { zero });
    m.extend_from_slice(&if !acp { dsha(&tx.input.iter().flat_map(ser_issuance_or_zero).collect::<Vec<u8>>()) } else { zero });
    m.extend(ser_outpoint(txin));
    m.extend(serialize(script));
    m.extend(serialize(value));
    m.extend_from_slice(&txin.sequence.0.to_le_bytes());
    if has_iss(txin) {
        m.extend(serialize(&txin.asset_issuance));
    }
    m.extend_from_slice(&if !single && !none {
        dsha(&tx.output.iter().flat_map(|o| serialize(o)).collect::<Vec<u8>>())
    } else if single && n_in < tx.output.len() {
        dsha(&serialize(&tx.output[n_in]))
    } else {
        zero
    });
    m.extend_from_slice(&tx.lock_time.to_consensus_u32().to_le_bytes());
    m.extend_from_slice(&ht.to_le_bytes());
    Some(dsha(&m))
}

/// Elements Core `SignatureHash` for SigVersion::BASE (index-driven serializer)
fn oracle_legacy(tx: &Transaction, n_in: usize, script: &Script, ht: u32) -> Option<[u8; 32]> {
    if n_in >= tx.input.len() {
        return None;
    }
    let acp = ht & 0x80 != 0;
    let single = ht & 0x1f == 3;
    let none = ht & 0x1f == 2;
    if single && n_in >= tx.output.len() {
        let mut one = [0u8; 32];
        one[0] = 1;
        return Some(one);
    }
    let mut m = tx.version.to_le_bytes().to_vec();
    let n_inputs = if acp { 1 } else { tx.input.len() };
    m.extend(serialize(&elements::encode::VarInt(n_inputs as u64)));
    for mut k in 0..n_inputs {
        if acp {
            k = n_in;
        }
        let i = &tx.input[k];
        m.extend_from_slice(&i.previous_output.txid.to_byte_array());
        let mut vout = i.previous_output.vout;
        if i.is_pegin { vout |= 1 << 30; }
        if has_iss(i) { vout |= 1 << 31; }
        m.extend_from_slice(&vout.to_le_bytes());
        if k != n_in { m.push(0); } else { m.extend(serialize(script)); }
        if k != n_in && (single || none) { m.extend_from_slice(&[0u8; 4]); } else { m.extend_from_slice(&i.sequence.0.to_le_bytes()); }
        if has_iss(i) { m.extend(serialize(&i.asset_issuance)); }
    }
    let n_outputs = if none { 0 } else if single { n_in + 1 } else { tx.output.len() };
    m.extend(serialize(&elements::encode::VarInt(n_outputs as u64)));
    for k in 0..n_outputs {
        if single && k != n_in { m.extend_from_slice(&[0u8; 4]); } else { m.extend(serialize(&tx.output[k])); }
    }
    m.extend_from_slice(&tx.lock_time.to_consensus_u32().to_le_bytes());
    m.extend_from_slice(&ht.to_le_bytes());
    Some(dsha(&m))
}

/// Elements taproot sighash (BIP341 + extensions); None = validation failure
fn oracle_taproot(tx: &Transaction, n_in: usize, spent: &[TxOut], spent_one: Option<&TxOut>, annex: Option<&[u8]>, leaf: Option<([u8; 32], u32)>, ht: u8, genesis: &[u8; 32]) -> Option<[u8; 32]> {
    if !(ht <= 3 || (0x81..=0x83).contains(&ht)) {
        return None;
    }
    let out_type = if ht == 0 { 1 } else { ht & 3 };
    let acp = ht & 0x80 == 0x80;
    let mut m = genesis.to_vec();
    m.extend_from_slice(genesis);
    m.push(ht);
    m.extend_from_slice(&tx.version.to_le_bytes());
    m.extend_from_slice(&tx.lock_time.to_consensus_u32().to_le_bytes());
    if !acp {
        if spent.len() != tx.input.len() { return None; }
        m.extend_from_slice(&sha(&tx.input.iter().map(|i| ((i.is_pegin as u8) << 6) | ((has_iss(i) as u8) << 7)).collect::<Vec<u8>>()));
        m.extend_from_slice(&sha(&tx.input.iter().flat_map(ser_outpoint).collect::<Vec<u8>>()));
        m.extend_from_slice(&sha(&spent.iter().flat_map(|p| { let mut v = serialize(&p.asset); v.extend(serialize(&p.value)); v }).collect::<Vec<u8>>()));
        m.extend_from_slice(&sha(&spent.iter().flat_map(|p| serialize(&p.script_pubkey)).collect::<Vec<u8>>()));
        m.extend_from_slice(&sha(&tx.input.iter().flat_map(|i| i.sequence.0.to_le_bytes().to_vec()).collect::<Vec<u8>>()));
        m.extend_from_slice(&sha(&tx.input.iter().flat_map(ser_issuance_or_zero).collect::<Vec<u8>>()));
        m.extend_from_slice(&sha(&tx.input.iter().flat_map(ser_proofs).collect::<Vec<u8>>()));
    }
    if out_type == 1 {
        m.extend_from_slice(&sha(&tx.output.iter().flat_map(|o| serialize(o)).collect::<Vec<u8>>()));
        m.extend_from_slice(&sha(&tx.output.iter().flat_map(|o| ser_out_wit(&o.witness)).collect::<Vec<u8>>()));
    }
    m.push((leaf.is_some() as u8) * 2 + annex.is_some() as u8);
    if acp {
        let i = tx.input.get(n_in)?;
        let p = spent_one?;
        m.push(((i.is_pegin as u8) << 6) | ((has_iss(i) as u8) << 7));
        m.extend(ser_outpoint(i));
        m.extend(serialize(&p.asset));
        m.extend(serialize(&p.value));
        m.extend(serialize(&p.script_pubkey));
        m.extend_from_slice(&i.sequence.0.to_le_bytes());
        if has_iss(i) {
            m.extend(serialize(&i.asset_issuance));
            m.extend_from_slice(&sha(&ser_proofs(i)));
        } else {
            m.push(0);
        }
    } else {
        m.extend_from_slice(&(n_in as u32).to_le_bytes());
    }
    if let Some(a) = annex {
        m.extend_from_slice(&sha(&serialize(&a.to_vec())));
    }
    if out_type == 3 {
        let o = tx.output.get(n_in)?;
        m.extend_from_slice(&sha(&serialize(o)));
        m.extend_from_slice(&sha(&ser_out_wit(&o.witness)));
    }
    if let Some((h, pos)) = leaf {
        m.extend_from_slice(&h);
        m.push(0);
        m.extend_from_slice(&pos.to_le_bytes());
    }
    Some(tagged("TapSighash/elements", &m))
}

/// compare the library with the Rust oracle for one query; legacy out-of-range SINGLE is a recorded finding
fn s_oracle(out: &mut Out, tx: &Transaction, ps: &[TxOut], genesis: &[u8; 32], q: &Q, got: &str) {
    s_oracle_named(out, tx, ps, genesis, q, got, None, &|| sighash_line(tx, ps, genesis, q))
}

/// `name`: one check name for every clause (the used-cache stream), `ctx`: the replay line
fn s_oracle_named(out: &mut Out, tx: &Transaction, ps: &[TxOut], genesis: &[u8; 32], q: &Q, got: &str, name: Option<&str>, ctx: &dyn Fn() -> String) {
    let line = || ctx();
    match q {
        Q::L { idx, ty, script } => {
            let exp = oracle_legacy(tx, *idx, script, ty.as_u32());
            let oob = matches!(ty, EcdsaSighashType::Single | EcdsaSighashType::SinglePlusAnyoneCanPay) && *idx >= tx.output.len() && *idx < tx.input.len();
            if oob {
                let mut one = [0u8; 32];
                one[0] = 1;
                out.count("legacy.single_oob");
                out.s(name.unwrap_or("legacy_single_out_of_range_is_uint256_one"), got == hx(&one), || format!("got {} (sha256d of the constant would be {}): {}", got, hx(&dsha(&one)), line()));
            } else {
                out.s(name.unwrap_or("legacy_equals_spec_oracle"), exp.map(|d| hx(&d)).unwrap_or("panic".into()) == got, line);
            }
        }
        Q::S { idx, ty, script, value } => {
            let exp = oracle_segwit(tx, *idx, script, value, ty.as_u32());
            out.s(name.unwrap_or("segwit_equals_spec_oracle"), exp.map(|d| hx(&d)).unwrap_or("panic".into()) == got, line);
        }
        Q::TG { .. } | Q::TK { .. } | Q::TS { .. } => {
            let (idx, ty, pv, annex, leaf) = match q {
                Q::TG { idx, ty, pv, annex, leaf, codesep } => (*idx, *ty, pv.clone(), annex.clone(), leaf_hash(leaf).map(|h| (h.to_byte_array(), *codesep))),
                Q::TK { idx, ty, pv } => (*idx, *ty, pv.clone(), None, None),
                Q::TS { idx, ty, pv, leaf } => (*idx, *ty, pv.clone(), None, leaf_hash(leaf).map(|h| (h.to_byte_array(), 0xFFFF_FFFFu32))),
                _ => unreachable!(),
            };
            if ty == SchnorrSighashType::Reserved {
                out.count("taproot.reserved_type_accepted");
                return;
            }
            if let Some(a) = &annex {
                if a.first() != Some(&0x50) {
                    out.s(name.unwrap_or("taproot_bad_annex_is_error"), got == "err", line);
                    return;
                }
            }
            let one_def = TxOut::default();
            let (spent, one): (&[TxOut], Option<&TxOut>) = match &pv {
                Pv::All => (ps, ps.get(idx)),
                Pv::One(j) => (&[], if *j == idx { Some(ps.get(*j).unwrap_or(&one_def)) } else { None }),
            };
            // a list of the wrong size is an error whatever the type
            let size_ok = match &pv { Pv::All => ps.len() == tx.input.len(), _ => true };
            let need_all = (ty as u8) & 0x80 == 0;
            let exp = if !size_ok || (need_all && pv != Pv::All) { None } else { oracle_taproot(tx, idx, spent, one, annex.as_deref(), leaf, ty as u8, genesis) };
            match exp {
                Some(d) => out.s(name.unwrap_or("taproot_equals_spec_oracle"), hx(&d) == got, line),
                None => out.s(name.unwrap_or("taproot_spec_failure_is_error"), got == "err" || got == "errPrevoutKind", line),
            }
        }
        Q::W { .. } => {}
    }
}

// ------------------------------------------------------------------ single-field modification tables

#[derive(Clone, Copy, Debug, PartialEq)]
enum Alg {
    Legacy,
    Segwit,
    Taproot,
}
/// what a modification touched
#[derive(Clone, Copy, Debug, PartialEq)]
enum Field {
    Version,
    LockTime,
    ScriptSig(usize),
    ScriptWitness(usize),
    PeginWitness(usize),
    Sequence(usize),
    Outpoint(usize),
    IsPegin(usize),
    Issuance(usize),
    IssuanceProof(usize),
    InputAppended,
    OutputBody(usize),
    OutputNonce(usize),
    OutputWitness(usize),
    OutputAppended,
    OutputRemoved,
    PrevoutAssetValueScript(usize),
    PrevoutNonce(usize),
}

/// is `f` committed by algorithm `a` with (base, acp) when signing input `idx` of a tx with `nout` outputs
/// (`nin` inputs)?  base: 1 ALL (or DEFAULT), 2 NONE, 3 SINGLE.  `has_iss(j)`: input j has an issuance.
fn committed(a: Alg, base: u8, acp: bool, idx: usize, nout: usize, f: Field, has_iss_idx: bool) -> bool {
    let other_inputs = !acp;
    let out_committed = |k: usize| match base {
        1 => true,
        3 => k == idx && idx < nout,
        _ => false,
    };
    match f {
        Field::Version | Field::LockTime => true,
        Field::ScriptSig(_) | Field::ScriptWitness(_) | Field::PeginWitness(_) => false,
        Field::Sequence(j) => j == idx || (other_inputs && (base == 1 || a == Alg::Taproot)),
        Field::Outpoint(j) | Field::Issuance(j) => j == idx || other_inputs,
        Field::IsPegin(j) => a != Alg::Segwit && (j == idx || other_inputs),
        Field::IssuanceProof(j) => a == Alg::Taproot && (if acp { j == idx && has_iss_idx } else { true }),
        Field::InputAppended => other_inputs,
        Field::OutputBody(k) | Field::OutputNonce(k) => out_committed(k),
        Field::OutputWitness(k) => a == Alg::Taproot && out_committed(k),
        Field::OutputAppended => base == 1 || (base == 3 && idx == nout),
        Field::OutputRemoved => base == 1 || (base == 3 && idx + 1 == nout),
        Field::PrevoutAssetValueScript(j) => a == Alg::Taproot && (j == idx || other_inputs),
        Field::PrevoutNonce(_) => false,
    }
}

fn flip_value(v: &Value, rng: &mut R) -> Value {
    loop {
        let n = gen::value(rng);
        if n != *v {
            return n;
        }
    }
}

/// all single-field modifications of (tx, prevouts); every one really changes the data
fn modifications(rng: &mut R, tx: &Transaction, ps: &[TxOut]) -> Vec<(Field, &'static str, Transaction, Vec<TxOut>)> {
    let mut v: Vec<(Field, &'static str, Transaction, Vec<TxOut>)> = vec![];
    let mut push = |f: Field, name: &'static str, t: Transaction, p: Vec<TxOut>| {
        if t != *tx || p != ps {
            v.push((f, name, t, p));
        }
    };
    let mut t = tx.clone();
    t.version = t.version.wrapping_add(1);
    push(Field::Version, "version", t, ps.to_vec());
    let mut t = tx.clone();
    t.lock_time = elements::LockTime::from_consensus(t.lock_time.to_consensus_u32() ^ 0x100);
    push(Field::LockTime, "lock_time", t, ps.to_vec());
    for j in 0..tx.input.len() {
        let mut t = tx.clone();
        let mut b = t.input[j].script_sig.to_bytes();
        b.push(0x51);
        t.input[j].script_sig = b.into();
        push(Field::ScriptSig(j), "script_sig", t, ps.to_vec());
        let mut t = tx.clone();
        t.input[j].witness.script_witness.push(gen::bytes(rng, 3));
        push(Field::ScriptWitness(j), "script_witness", t, ps.to_vec());
        let mut t = tx.clone();
        t.input[j].witness.pegin_witness.push(gen::bytes(rng, 4));
        push(Field::PeginWitness(j), "pegin_witness", t, ps.to_vec());
        let mut t = tx.clone();
        t.input[j].sequence = Sequence(t.input[j].sequence.0 ^ (1 << rng.gen_range(0..32)));
        push(Field::Sequence(j), "sequence", t, ps.to_vec());
        let mut t = tx.clone();
        t.input[j].previous_output.vout ^= 1 << rng.gen_range(0..30);
        push(Field::Outpoint(j), "prevout.vout", t, ps.to_vec());
        let mut t = tx.clone();
        let mut b = t.input[j].previous_output.txid.to_byte_array();
        b[rng.gen_range(0..32)] ^= 1 << rng.gen_range(0..8);
        t.input[j].previous_output.txid = elements::Txid::from_byte_array(b);
        push(Field::Outpoint(j), "prevout.txid", t, ps.to_vec());
        if tx.input[j].previous_output.vout & (1 << 30) == 0 {
            let mut t = tx.clone();
            t.input[j].is_pegin = !t.input[j].is_pegin;
            push(Field::IsPegin(j), "is_pegin", t, ps.to_vec());
        }
        if tx.input[j].has_issuance() {
            let mut t = tx.clone();
            t.input[j].asset_issuance.asset_entropy[rng.gen_range(0..32)] ^= 0x20;
            push(Field::Issuance(j), "issuance.entropy", t, ps.to_vec());
            let mut t = tx.clone();
            t.input[j].asset_issuance.asset_blinding_nonce = gen::tweak(rng);
            push(Field::Issuance(j), "issuance.nonce", t, ps.to_vec());
            let mut t = tx.clone();
            t.input[j].asset_issuance.amount = loop { let n = gen::value(rng); if n != t.input[j].asset_issuance.amount && !(n.is_null() && t.input[j].asset_issuance.inflation_keys.is_null()) { break n; } };
            push(Field::Issuance(j), "issuance.amount", t, ps.to_vec());
            let mut t = tx.clone();
            t.input[j].asset_issuance.inflation_keys = loop { let n = gen::value(rng); if n != t.input[j].asset_issuance.inflation_keys && !(n.is_null() && t.input[j].asset_issuance.amount.is_null()) { break n; } };
            push(Field::Issuance(j), "issuance.inflation_keys", t, ps.to_vec());
            let mut t = tx.clone();
            t.input[j].asset_issuance = elements::AssetIssuance::null();
            push(Field::Issuance(j), "issuance removed", t, ps.to_vec());
        } else if tx.input[j].previous_output.vout & (1 << 31) == 0 {
            let mut t = tx.clone();
            let re = rng.gen_bool(0.5);
            t.input[j].asset_issuance = gen::issuance(rng, re);
            push(Field::Issuance(j), "issuance added", t, ps.to_vec());
        }
        let mut t = tx.clone();
        t.input[j].witness.amount_rangeproof = match t.input[j].witness.amount_rangeproof { Some(_) => None, None => Some(gen::rangeproof(rng)) };
        push(Field::IssuanceProof(j), "amount_rangeproof", t, ps.to_vec());
        let mut t = tx.clone();
        t.input[j].witness.inflation_keys_rangeproof = match t.input[j].witness.inflation_keys_rangeproof { Some(_) => None, None => Some(gen::rangeproof(rng)) };
        push(Field::IssuanceProof(j), "inflation_keys_rangeproof", t, ps.to_vec());
    }
    {
        let mut t = tx.clone();
        t.input.push(gen::txin(rng, gen::InKind::Plain, false));
        let mut p = ps.to_vec();
        p.push(gen::txout(rng, false));
        push(Field::InputAppended, "input appended", t, p);
    }
    for k in 0..tx.output.len() {
        let mut t = tx.clone();
        t.output[k].value = flip_value(&t.output[k].value, rng);
        push(Field::OutputBody(k), "output.value", t, ps.to_vec());
        let mut t = tx.clone();
        t.output[k].asset = loop { let n = gen::asset(rng); if n != t.output[k].asset { break n; } };
        push(Field::OutputBody(k), "output.asset", t, ps.to_vec());
        let mut t = tx.clone();
        t.output[k].nonce = loop { let n = gen::nonce(rng); if n != t.output[k].nonce { break n; } };
        push(Field::OutputNonce(k), "output.nonce", t, ps.to_vec());
        let mut t = tx.clone();
        let mut b = t.output[k].script_pubkey.to_bytes();
        b.push(0x6a);
        t.output[k].script_pubkey = b.into();
        push(Field::OutputBody(k), "output.script_pubkey", t, ps.to_vec());
        let mut t = tx.clone();
        t.output[k].witness.rangeproof = match t.output[k].witness.rangeproof { Some(_) => None, None => Some(gen::rangeproof(rng)) };
        push(Field::OutputWitness(k), "output.rangeproof", t, ps.to_vec());
        let mut t = tx.clone();
        t.output[k].witness.surjection_proof = match t.output[k].witness.surjection_proof { Some(_) => None, None => Some(gen::surjproof(rng)) };
        push(Field::OutputWitness(k), "output.surjection_proof", t, ps.to_vec());
    }
    {
        let mut t = tx.clone();
        let w = rng.gen_bool(0.5);
        t.output.push(gen::txout(rng, w));
        push(Field::OutputAppended, "output appended", t, ps.to_vec());
        if !tx.output.is_empty() {
            let mut t = tx.clone();
            t.output.pop();
            push(Field::OutputRemoved, "output removed", t, ps.to_vec());
        }
    }
    for j in 0..ps.len() {
        let mut p = ps.to_vec();
        p[j].value = flip_value(&p[j].value, rng);
        push(Field::PrevoutAssetValueScript(j), "spent.value", tx.clone(), p);
        let mut p = ps.to_vec();
        p[j].asset = loop { let n = gen::asset(rng); if n != p[j].asset { break n; } };
        push(Field::PrevoutAssetValueScript(j), "spent.asset", tx.clone(), p);
        let mut p = ps.to_vec();
        let mut b = p[j].script_pubkey.to_bytes();
        b.push(0x51);
        p[j].script_pubkey = b.into();
        push(Field::PrevoutAssetValueScript(j), "spent.script_pubkey", tx.clone(), p);
        let mut p = ps.to_vec();
        p[j].nonce = loop { let n = gen::nonce(rng); if n != p[j].nonce { break n; } };
        push(Field::PrevoutNonce(j), "spent.nonce", tx.clone(), p);
    }
    v
}

fn base_of_ecdsa(t: EcdsaSighashType) -> (u8, bool) {
    let u = t.as_u32();
    ((u & 3) as u8, u & 0x80 != 0)
}
fn base_of_schnorr(t: SchnorrSighashType) -> (u8, bool) {
    let u = t as u8;
    (if u == 0 { 1 } else { u & 3 }, u & 0x80 != 0)
}

/// the table applied at every position, for every type and every input index, on the real code
fn modification_tables(out: &mut Out, rng: &mut R, tx: &Transaction, ps: &[TxOut]) {
    let genesis = gen::arr32(rng);
    let g = BlockHash::from_byte_array(genesis);
    let mods = modifications(rng, tx, ps);
    let nin = tx.input.len();
    let nout = tx.output.len();
    let script = gen::script(rng);
    let value = gen::value(rng);
    let annex = if rng.gen_bool(0.3) { Some(vec![0x50, 7]) } else { None };
    let leaf = if rng.gen_bool(0.4) { Leaf::Hash(gen::arr32(rng)) } else { Leaf::None };
    let mut queries: Vec<(Alg, u8, bool, Q)> = vec![];
    for idx in 0..nin {
        for ty in ECDSA_TYPES {
            let (b, a) = base_of_ecdsa(ty);
            queries.push((Alg::Legacy, b, a, Q::L { idx, ty, script: script.clone() }));
            queries.push((Alg::Segwit, b, a, Q::S { idx, ty, script: script.clone(), value }));
        }
        for ty in SCHNORR_TYPES {
            let (b, a) = base_of_schnorr(ty);
            let pv = if a && rng.gen_bool(0.5) { Pv::One(idx) } else { Pv::All };
            queries.push((Alg::Taproot, b, a, Q::TG { idx, ty, pv, annex: annex.clone(), leaf: leaf.clone(), codesep: 0xFFFF_FFFF }));
        }
    }
    for (alg, base, acp, q) in queries {
        let idx = match &q { Q::L { idx, .. } | Q::S { idx, .. } | Q::TG { idx, .. } => *idx, _ => 0 };
        let d0 = fresh(tx, ps, g, &q);
        let legacy_oob = alg == Alg::Legacy && base == 3 && idx >= nout;
        let is_digest = d0.len() == 64;
        out.count(&format!("table.{:?}.base{}.acp{}.{}", alg, base, acp, if is_digest { "digest" } else { "err" }));
        for (f, name, t2, p2) in &mods {
            // Prevouts::One users only ever see their own spent output
            if let (Q::TG { pv: Pv::One(_), .. }, Field::PrevoutAssetValueScript(j) | Field::PrevoutNonce(j)) = (&q, f) {
                if *j != idx { continue; }
            }
            if alg != Alg::Taproot && matches!(f, Field::PrevoutAssetValueScript(_) | Field::PrevoutNonce(_)) {
                continue;
            }
            let d1 = fresh(t2, p2, g, &q);
            let mut exp = committed(alg, base, acp, idx, nout, *f, tx.input[idx].has_issuance());
            if legacy_oob || !is_digest {
                // the constant (legacy) / the error (taproot SINGLE without output): nothing is committed,
                // unless the modification brings the index in range
                exp = matches!(f, Field::OutputAppended) && idx == nout;
            }
            // toggling the issuance of the signed input also changes whether its proofs are committed; still "changes"
            let changed = d1 != d0;
            let detail = || format!("{} [{}] expected {}: {} -> {} ; modified tx {} prevouts {}", sighash_line(tx, ps, &genesis, &q), name, if exp { "CHANGE" } else { "NO change" }, d0, d1, hex(&serialize(t2)), prevouts_str(p2));
            if exp {
                out.s(&format!("{}_committed_field_changes_digest", format!("{:?}", alg).to_lowercase()), changed, detail);
            } else {
                out.s(&format!("{}_uncommitted_field_keeps_digest", format!("{:?}", alg).to_lowercase()), !changed, detail);
            }
        }
        // parameters of the call
        match &q {
            Q::L { idx, ty, script } => {
                let mut s2 = script.to_bytes(); s2.push(0xac);
                let d1 = fresh(tx, ps, g, &Q::L { idx: *idx, ty: *ty, script: s2.into() });
                out.s("legacy_script_code_committed", (d1 != d0) != legacy_oob, || sighash_line(tx, ps, &genesis, &q));
            }
            Q::S { idx, ty, script, value } => {
                let mut s2 = script.to_bytes(); s2.push(0xac);
                let d1 = fresh(tx, ps, g, &Q::S { idx: *idx, ty: *ty, script: s2.into(), value: *value });
                out.s("segwit_script_code_committed", d1 != d0, || sighash_line(tx, ps, &genesis, &q));
                let d2 = fresh(tx, ps, g, &Q::S { idx: *idx, ty: *ty, script: script.clone(), value: flip_value(value, rng) });
                out.s("segwit_value_committed", d2 != d0, || sighash_line(tx, ps, &genesis, &q));
            }
            Q::TG { idx, ty, pv, annex, leaf, codesep } if is_digest => {
                let mut g2 = genesis; g2[5] ^= 1;
                let d1 = fresh(tx, ps, BlockHash::from_byte_array(g2), &q);
                out.s("taproot_genesis_committed", d1 != d0, || sighash_line(tx, ps, &genesis, &q));
                let a2 = match annex { None => Some(vec![0x50]), Some(a) => { let mut a = a.clone(); a.push(1); Some(a) } };
                let d2 = fresh(tx, ps, g, &Q::TG { idx: *idx, ty: *ty, pv: pv.clone(), annex: a2, leaf: leaf.clone(), codesep: *codesep });
                out.s("taproot_annex_committed", d2 != d0, || sighash_line(tx, ps, &genesis, &q));
                let l2 = match leaf { Leaf::Hash(h) => { let mut h = *h; h[0] ^= 1; Leaf::Hash(h) } _ => Leaf::Hash([3u8; 32]) };
                let d3 = fresh(tx, ps, g, &Q::TG { idx: *idx, ty: *ty, pv: pv.clone(), annex: annex.clone(), leaf: l2, codesep: *codesep });
                out.s("taproot_leaf_committed", d3 != d0, || sighash_line(tx, ps, &genesis, &q));
                if *leaf != Leaf::None {
                    let d4 = fresh(tx, ps, g, &Q::TG { idx: *idx, ty: *ty, pv: pv.clone(), annex: annex.clone(), leaf: leaf.clone(), codesep: codesep ^ 1 });
                    out.s("taproot_codesep_committed", d4 != d0, || sighash_line(tx, ps, &genesis, &q));
                }
            }
            _ => {}
        }
    }
    // distinct hash types give distinct digests (except legacy SINGLE out of range: the constant)
    for idx in 0..nin {
        let ld: Vec<String> = ECDSA_TYPES.iter().map(|ty| fresh(tx, ps, g, &Q::L { idx, ty: *ty, script: script.clone() })).collect();
        let sd: Vec<String> = ECDSA_TYPES.iter().map(|ty| fresh(tx, ps, g, &Q::S { idx, ty: *ty, script: script.clone(), value })).collect();
        let td: Vec<String> = SCHNORR_TYPES.iter().map(|ty| fresh(tx, ps, g, &Q::TG { idx, ty: *ty, pv: Pv::All, annex: None, leaf: Leaf::None, codesep: 0 })).collect();
        for a in 0..6 {
            for b in a + 1..6 {
                let both_oob = idx >= nout && base_of_ecdsa(ECDSA_TYPES[a]).0 == 3 && base_of_ecdsa(ECDSA_TYPES[b]).0 == 3;
                out.s("legacy_hash_type_committed", (ld[a] != ld[b]) != both_oob, || format!("idx {} types {} {} tx {}", idx, a, b, hex(&serialize(tx))));
                out.s("segwit_hash_type_committed", sd[a] != sd[b], || format!("idx {} types {} {} tx {}", idx, a, b, hex(&serialize(tx))));
            }
        }
        for a in 0..7 {
            for b in a + 1..7 {
                if td[a].len() == 64 && td[b].len() == 64 {
                    out.s("taproot_hash_type_committed", td[a] != td[b], || format!("idx {} types {} {} tx {}", idx, a, b, hex(&serialize(tx))));
                }
            }
        }
    }
}

// ------------------------------------------------------------------ the repo's own vectors

/// `test_segwit_sighash("tx", "script", idx, "value", EcdsaSighashType::X, "expected")` and
/// `test_legacy_sighash("tx", "script", idx, EcdsaSighashType::X, "expected")` lines of src/sighash.rs
fn repo_vectors() -> Vec<(bool, String, String, usize, String, EcdsaSighashType, String)> {
    let src = std::fs::read_to_string("/repo/src/sighash.rs").unwrap_or_default();
    let mut v = vec![];
    for line in src.lines() {
        let l = line.trim();
        let (segwit, rest) = if let Some(r) = l.strip_prefix("test_segwit_sighash(") { (true, r) } else if let Some(r) = l.strip_prefix("test_legacy_sighash(") { (false, r) } else { continue };
        let rest = match rest.strip_suffix(");") { Some(r) => r, None => continue };
        let parts: Vec<String> = rest.split(',').map(|p| p.trim().trim_matches('"').to_string()).collect();
        let ty_of = |s: &str| ECDSA_TYPES.iter().copied().find(|t| format!("EcdsaSighashType::{:?}", t) == s);
        if segwit && parts.len() == 6 {
            if let (Ok(i), Some(t)) = (parts[2].parse::<usize>(), ty_of(&parts[4])) {
                v.push((true, parts[0].clone(), parts[1].clone(), i, parts[3].clone(), t, parts[5].clone()));
            }
        } else if !segwit && parts.len() == 5 {
            if let (Ok(i), Some(t)) = (parts[2].parse::<usize>(), ty_of(&parts[3])) {
                v.push((false, parts[0].clone(), parts[1].clone(), i, "-".to_string(), t, parts[4].clone()));
            }
        }
    }
    v
}

fn vectors(out: &mut Out) {
    let vs = repo_vectors();
    out.pin("repo_vectors_found", vs.len() >= 14, || format!("found {} vectors in /repo/src/sighash.rs", vs.len()));
    for (segwit, txh, sch, idx, valh, ty, exp) in vs {
        let tx: Transaction = match deserialize(&crate::unhex(&txh)) { Ok(t) => t, Err(_) => { out.s("repo_vector_parses", false, || txh.clone()); continue; } };
        let script = Script::from(crate::unhex(&sch));
        let q = if segwit {
            let value: Value = deserialize(&crate::unhex(&valh)).unwrap();
            Q::S { idx, ty, script, value }
        } else {
            Q::L { idx, ty, script }
        };
        let got = fresh(&tx, &[], BlockHash::from_byte_array([0u8; 32]), &q);
        out.count(if segwit { "vector.segwit" } else { "vector.legacy" });
        out.s("repo_vector_reproduced", got == exp, || format!("{} expected {} got {}", q_str(&q), exp, got));
        out.k(format!("sigvec {} {} {} {} {} {} {}", if segwit { "S" } else { "L" }, txh, sch, idx, valh, ty.as_u32(), exp), format!("ok {}", got == exp));
        k_sighash(out, &tx, &[], &[0u8; 32], &q);
    }
}

// ------------------------------------------------------------------ used-cache stream

fn history_line(tx: &Transaction, ps: &[TxOut], genesis: &[u8; 32], qs: &[Q]) -> String {
    format!("cacheseq {} {} {} {}", hex(&serialize(tx)), prevouts_str(ps), hx(genesis), qs.iter().map(q_str).collect::<Vec<_>>().join(";"))
}

/// a query likely to leave something in the cache that a later query reads
fn gen_prefix_query(rng: &mut R, tx: &Transaction) -> Q {
    let nin = tx.input.len();
    let idx = if nin > 0 { rng.gen_range(0..nin) } else { 0 };
    let acp = [SchnorrSighashType::AllPlusAnyoneCanPay, SchnorrSighashType::NonePlusAnyoneCanPay, SchnorrSighashType::SinglePlusAnyoneCanPay];
    match rng.gen_range(0..12) {
        // ANYONECANPAY with only the signed input's spent output, ALL|ANYONECANPAY most often
        0 | 1 | 2 | 3 => Q::TK { idx, ty: SchnorrSighashType::AllPlusAnyoneCanPay, pv: Pv::One(idx) },
        4 => Q::TG { idx, ty: acp[rng.gen_range(0..3)], pv: Pv::One(idx), annex: gen_annex(rng).filter(|a| a.first() == Some(&0x50)), leaf: gen_leaf(rng, true), codesep: rng.gen() },
        5 => Q::TK { idx, ty: acp[rng.gen_range(0..3)], pv: Pv::All },
        6 => Q::TK { idx, ty: SCHNORR_TYPES[rng.gen_range(0..4)], pv: Pv::All },
        7 => Q::L { idx, ty: ECDSA_TYPES[rng.gen_range(0..6)], script: gen::script(rng) },
        8 | 9 => Q::S { idx, ty: ECDSA_TYPES[rng.gen_range(0..6)], script: gen::script(rng), value: gen::value(rng) },
        _ => gen_query(rng, tx),
    }
}

/// the query under test: mostly one that needs all spent outputs
fn gen_final_query(rng: &mut R, tx: &Transaction) -> Q {
    let nin = tx.input.len();
    let idx = if nin > 0 { rng.gen_range(0..nin) } else { 0 };
    match rng.gen_range(0..10) {
        0 | 1 | 2 | 3 => Q::TK { idx, ty: SCHNORR_TYPES[rng.gen_range(0..4)], pv: Pv::All },
        4 | 5 => Q::TG { idx, ty: SCHNORR_TYPES[rng.gen_range(0..7)], pv: Pv::All, annex: gen_annex(rng), leaf: gen_leaf(rng, true), codesep: rng.gen() },
        6 => Q::TS { idx, ty: SCHNORR_TYPES[rng.gen_range(0..7)], pv: Pv::All, leaf: gen_leaf(rng, false) },
        _ => gen_query(rng, tx),
    }
}

/// C03 on a cache that has already served other queries: every digest of the history — in
/// particular the last one — must be the digest of the specification; K: the whole history on one
/// cache (`cacheseq`, same language as C13) against the model's cache state machine
fn used_cache_history(out: &mut Out, tx: &Transaction, ps: &[TxOut], genesis: &[u8; 32], qs: &[Q]) {
    let g = BlockHash::from_byte_array(*genesis);
    let mut t = tx.clone();
    let got: Vec<String> = {
        let mut cache = SighashCache::new(&mut t);
        qs.iter().map(|q| run_q(&mut cache, ps, g, q)).collect()
    };
    out.k(history_line(tx, ps, genesis, qs), format!("ok {}", got.join("|")));
    for (i, (q, r)) in qs.iter().zip(got.iter()).enumerate() {
        let ctx = || format!("op #{} ({}) got {} in history: {}", i, q_str(q), r, history_line(tx, ps, genesis, qs));
        s_oracle_named(out, tx, ps, genesis, q, r, Some("digest_equals_spec_on_used_cache"), &ctx);
        // and equals what a fresh cache says
        let f = fresh(tx, ps, g, q);
        out.s("used_cache_equals_fresh_cache", *r == f, || format!("fresh {} ; {}", f, ctx()));
    }
    out.count(&format!("used_cache.history.len{}", qs.len()));
}

fn used_cache_stream(out: &mut Out, rng: &mut R, n: usize) {
    // regression (seeded change C03-w2m1): ALL|ANYONECANPAY with One first, then every type needing All
    {
        let mut tx = gen::tx_wide(rng, 3, 2);
        tx.input[1] = gen::txin(rng, gen::InKind::Issuance, true);
        tx.output[1] = gen::txout(rng, true);
        let ps: Vec<TxOut> = (0..3).map(|_| gen::txout(rng, false)).collect();
        let genesis = gen::arr32(rng);
        for first in [SchnorrSighashType::AllPlusAnyoneCanPay, SchnorrSighashType::NonePlusAnyoneCanPay, SchnorrSighashType::SinglePlusAnyoneCanPay] {
            for later in [SchnorrSighashType::Default, SchnorrSighashType::All, SchnorrSighashType::None, SchnorrSighashType::Single, SchnorrSighashType::AllPlusAnyoneCanPay] {
                for idx in 0..2 {
                    let qs = vec![Q::TK { idx, ty: first, pv: Pv::One(idx) }, Q::TK { idx: 1 - idx, ty: later, pv: Pv::All }];
                    used_cache_history(out, &tx, &ps, &genesis, &qs);
                }
            }
        }
        let qs = vec![
            Q::S { idx: 0, ty: ECDSA_TYPES[0], script: gen::script(rng), value: gen::value(rng) },
            Q::L { idx: 1, ty: ECDSA_TYPES[2], script: gen::script(rng) },
            Q::TK { idx: 2, ty: SchnorrSighashType::AllPlusAnyoneCanPay, pv: Pv::One(2) },
            Q::TG { idx: 0, ty: SchnorrSighashType::Default, pv: Pv::All, annex: Some(vec![0x50, 1]), leaf: Leaf::Hash([5u8; 32]), codesep: 9 },
        ];
        used_cache_history(out, &tx, &ps, &genesis, &qs);
    }
    for _ in 0..n {
        let (tx, ps) = loop {
            let (tx, ps) = scenario_tx(rng);
            // the cache matters most with several inputs
            if tx.input.len() >= 2 || rng.gen_range(0..5) == 0 { break (tx, ps); }
        };
        let genesis = gen::arr32(rng);
        let np = rng.gen_range(1..4);
        let mut qs: Vec<Q> = (0..np).map(|_| gen_prefix_query(rng, &tx)).collect();
        qs.push(gen_final_query(rng, &tx));
        used_cache_history(out, &tx, &ps, &genesis, &qs);
    }
}

// ------------------------------------------------------------------ run

fn one_scenario(out: &mut Out, rng: &mut R, tx: &Transaction, ps: &[TxOut], nq: usize) {
    let genesis = gen::arr32(rng);
    for _ in 0..nq {
        let q = gen_query(rng, tx);
        // sometimes a prevout list of the wrong size
        let ps2: Vec<TxOut> = match rng.gen_range(0..14) {
            0 => { let mut p = ps.to_vec(); p.push(gen::txout(rng, false)); p }
            1 if !ps.is_empty() => ps[..ps.len() - 1].to_vec(),
            _ => ps.to_vec(),
        };
        let got = k_sighash(out, tx, &ps2, &genesis, &q);
        s_oracle(out, tx, &ps2, &genesis, &q, &got);
        let kind = match &q { Q::L { .. } => "legacy", Q::S { .. } => "segwit", Q::TG { .. } => "taproot", Q::TK { .. } => "taproot_key", Q::TS { .. } => "taproot_script", _ => "w" };
        out.count(&format!("query.{}.{}", kind, match got.as_str() { "err" => "err", "errPrevoutKind" => "errPrevoutKind", "panic" => "panic", _ => "digest" }));
    }
}

/// every type × every index (incl. out of range) on one transaction, K + oracle
fn exhaustive_types(out: &mut Out, rng: &mut R, tx: &Transaction, ps: &[TxOut]) {
    let genesis = gen::arr32(rng);
    let script = gen::script(rng);
    let value = gen::value(rng);
    let nin = tx.input.len();
    for idx in 0..nin + 2 {
        for ty in ECDSA_TYPES {
            for q in [Q::L { idx, ty, script: script.clone() }, Q::S { idx, ty, script: script.clone(), value }] {
                let got = k_sighash(out, tx, ps, &genesis, &q);
                s_oracle(out, tx, ps, &genesis, &q, &got);
            }
        }
        for ty in SCHNORR_TYPES {
            for pv in [Pv::All, Pv::One(idx)] {
                let q = Q::TG { idx, ty, pv, annex: gen_annex(rng).filter(|a| a.first() == Some(&0x50)), leaf: gen_leaf(rng, true), codesep: rng.gen() };
                let got = k_sighash(out, tx, ps, &genesis, &q);
                s_oracle(out, tx, ps, &genesis, &q, &got);
                // the named error clauses of the property
                let acp = (ty as u8) & 0x80 != 0;
                let single = (ty as u8) & 3 == 3;
                let all_ok = !matches!(&q, Q::TG { pv: Pv::All, .. }) || ps.len() == nin;
                if all_ok {
                    if acp && idx >= nin {
                        out.s("taproot_index_err", got == "err", || sighash_line(tx, ps, &genesis, &q));
                    } else if !acp && matches!(&q, Q::TG { pv: Pv::One(_), .. }) {
                        out.s("one_insufficient_err", got == "errPrevoutKind", || sighash_line(tx, ps, &genesis, &q));
                    } else if single && idx >= tx.output.len() {
                        out.s("single_oob_taproot_err", got == "err", || sighash_line(tx, ps, &genesis, &q));
                    } else if idx < nin {
                        out.s("taproot_valid_query_gives_digest", got.len() == 64, || sighash_line(tx, ps, &genesis, &q));
                    }
                }
            }
        }
    }
}

pub fn run(rng: &mut R, out: &mut Out) {
    c01::cfg_line(out);
    let thorough = out.tier_thorough;
    vectors(out);
    // hand-picked shapes first: more inputs than outputs (SINGLE out of range), no outputs, one of each kind
    for (nin, nout) in [(1usize, 0usize), (2, 1), (3, 3), (1, 2)] {
        let mut tx = gen::tx_wide(rng, nin, nout);
        if nin >= 2 {
            tx.input[1] = gen::txin(rng, gen::InKind::Issuance, true);
        }
        if nin >= 3 {
            tx.input[2] = gen::txin(rng, gen::InKind::Pegin, true);
        }
        let ps: Vec<TxOut> = (0..nin).map(|_| gen::txout(rng, false)).collect();
        exhaustive_types(out, rng, &tx, &ps);
        modification_tables(out, rng, &tx, &ps);
    }
    // inputs that are exact copies of each other (the signed one is identified by POSITION, not by value), and null
    // outpoints that carry a pegin flag and/or an issuance in memory (the taproot outpoint flag comes from the
    // fields, not from the serialized index) — K + independent oracle only
    for variant in 0..(if thorough { 240 } else { 16 }) {
        let (mut tx, mut ps) = scenario_tx(rng);
        if tx.input.is_empty() {
            let k = gen::in_kind(rng);
            tx.input.push(gen::txin(rng, k, false));
            ps.push(gen::txout(rng, false));
        }
        let i = rng.gen_range(0..tx.input.len());
        match variant % 4 {
            0 | 2 => {
                let c = tx.input[i].clone();
                let p = ps[i].clone();
                let at = rng.gen_range(0..=tx.input.len());
                tx.input.insert(at, c);
                ps.insert(at, p);
                out.count("tx.duplicated_input");
            }
            1 => {
                tx.input[i].previous_output = elements::OutPoint::null();
                tx.input[i].is_pegin = true;
                out.count("tx.null_outpoint_with_pegin_flag");
            }
            _ => {
                let mut n = gen::txin(rng, gen::InKind::Issuance, variant % 8 == 3);
                n.previous_output = elements::OutPoint::null();
                n.is_pegin = variant % 16 == 3;
                tx.input[i] = n;
                out.count("tx.null_outpoint_with_issuance");
            }
        }
        if tx.input.len() <= 4 {
            exhaustive_types(out, rng, &tx, &ps);
        }
        one_scenario(out, rng, &tx, &ps, 8);
    }
    // inputs WITHOUT an issuance (both amounts null) whose entropy / blinding-nonce fields are nevertheless non-zero
    // in memory: they have no issuance (flag clear, nothing hashed), whatever the stray bytes say
    for variant in 0..(if thorough { 120 } else { 9 }) {
        let (mut tx, mut ps) = scenario_tx(rng);
        if tx.input.is_empty() {
            tx.input.push(gen::txin(rng, gen::InKind::Plain, false));
            ps.push(gen::txout(rng, false));
        }
        let i = rng.gen_range(0..tx.input.len());
        if tx.input[i].has_issuance() { continue; }
        match variant % 3 {
            0 => tx.input[i].asset_issuance.asset_entropy = gen::arr32(rng),
            1 => tx.input[i].asset_issuance.asset_blinding_nonce = gen::tweak(rng),
            _ => { tx.input[i].asset_issuance.asset_entropy = [0x11; 32]; tx.input[i].asset_issuance.asset_blinding_nonce = gen::tweak(rng); }
        }
        out.count("tx.stray_issuance_fields_without_issuance");
        out.s("null_amounts_mean_no_issuance", !tx.input[i].has_issuance(), || format!("input {} of {}", i, hex(&serialize(&tx))));
        if tx.input.len() <= 3 {
            exhaustive_types(out, rng, &tx, &ps);
        }
        one_scenario(out, rng, &tx, &ps, 6);
    }
    // variable-length items hashed into the digests (annex, tapscript leaf, script code) on both sides of each
    // compact-size boundary: the messages use the consensus length prefix
    {
        let mut tx = gen::tx_wide(rng, 2, 2);
        tx.input[1] = gen::txin(rng, gen::InKind::Issuance, true);
        let ps: Vec<TxOut> = (0..2).map(|_| gen::txout(rng, false)).collect();
        let genesis = gen::arr32(rng);
        for l in [0xfcusize, 0xfd, 0xfe, 0xffff, 0x10000] {
            out.count("boundary.compact_size");
            let mut annex = gen::bytes(rng, l);
            annex[0] = 0x50;
            let script = elements::Script::from(gen::bytes(rng, l));
            let qs = vec![
                Q::TG { idx: 0, ty: SchnorrSighashType::Default, pv: Pv::All, annex: Some(annex), leaf: Leaf::None, codesep: 0xffff_ffff },
                Q::TS { idx: 1, ty: SchnorrSighashType::All, pv: Pv::All, leaf: Leaf::Script(0xc4, script.clone()) },
                Q::S { idx: 0, ty: ECDSA_TYPES[0], script: script.clone(), value: gen::value(rng) },
                Q::L { idx: 1, ty: ECDSA_TYPES[0], script },
            ];
            for q in qs {
                let got = k_sighash(out, &tx, &ps, &genesis, &q);
                s_oracle(out, &tx, &ps, &genesis, &q, &got);
            }
        }
    }
    let (n_ex, n_rand, n_tab) = if thorough { (150, 6000, 600) } else { (8, 200, 20) };
    for _ in 0..n_ex {
        let (tx, ps) = scenario_tx(rng);
        exhaustive_types(out, rng, &tx, &ps);
    }
    for _ in 0..n_rand {
        let (tx, ps) = scenario_tx(rng);
        out.count(&format!("tx.shape.in{}.out{}", tx.input.len(), tx.output.len()));
        for i in &tx.input {
            out.count(&format!("input.pegin{}.issuance{}.proofs{}", i.is_pegin, i.has_issuance(), i.witness.amount_rangeproof.is_some() || i.witness.inflation_keys_rangeproof.is_some()));
        }
        one_scenario(out, rng, &tx, &ps, 6);
    }
    for _ in 0..n_tab {
        let (tx, ps) = scenario_tx(rng);
        modification_tables(out, rng, &tx, &ps);
    }
    used_cache_stream(out, rng, if thorough { 5000 } else { 350 });
}
