use crate::{Out, R};
pub mod c01;
pub mod c02;
pub mod c12;
pub mod c19;
pub mod c18;
pub mod c11;
pub mod c16;
pub mod c15;
pub mod c03;
pub mod c13;
pub mod c20;
pub mod c20tok;
pub mod psetdesc;
pub mod c08;
pub mod c14;
pub mod c09;
pub mod c10;
pub mod c04;
pub mod c05;
pub mod c17;
pub mod c06;
pub mod c07;

pub fn run(prop: &str, rng: &mut R, out: &mut Out, extra: &[String]) -> bool {
    let _ = extra;
    match prop {
        "C01" => c01::run(rng, out),
        "C02" => c02::run(rng, out),
        "C12" => c12::run(rng, out),
        "C19" => c19::run(rng, out),
        "C18" => c18::run(rng, out),
        "C11" => c11::run(rng, out),
        "C16" => c16::run(rng, out),
        "C15" => c15::run(rng, out),
        "C03" => c03::run(rng, out),
        "C13" => c13::run(rng, out),
        "C20" => c20::run(rng, out),
        "C08" => c08::run(rng, out),
        "C14" => c14::run(rng, out),
        "C09" => c09::run(rng, out),
        "C10" => c10::run(rng, out),
        "C04" => c04::run(rng, out),
        "C05" => c05::run(rng, out),
        "C17" => c17::run(rng, out),
        "C06" => c06::run(rng, out),
        "C07" => c07::run(rng, out),
        _ => return false,
    }
    true
}

pub fn sizes() {
    use elements::*;
    println!("usize {}", std::mem::size_of::<usize>());
    println!("TxIn {}", std::mem::size_of::<TxIn>());
    println!("TxOut {}", std::mem::size_of::<TxOut>());
    println!("Transaction {}", std::mem::size_of::<Transaction>());
    println!("VecU8 {}", std::mem::size_of::<Vec<u8>>());
}

pub fn probe(args: &[String]) {
    use elements::encode::deserialize;
    use elements::pset::PartiallySignedTransaction as Pset;
    match args.get(0).map(|s| s.as_str()) {
        Some("pset-serde") => {
            let b = crate::unhex(&args[1]);
            let p: Pset = deserialize(&b).unwrap();
            let j = serde_json::to_string(&p).unwrap();
            let r: Result<Pset, _> = serde_json::from_str(&j);
            println!("json roundtrip: {:?}", r.as_ref().map(|x| *x == p).map_err(|e| e.to_string()));
            let c = serde_cbor::to_vec(&p).unwrap();
            let r: Result<Pset, _> = serde_cbor::from_slice(&c);
            println!("cbor roundtrip: {:?}", r.as_ref().map(|x| *x == p).map_err(|e| e.to_string()));
        }
        Some("c20-short-commitment") => c20::probe_short_commitment(&args[1..]),
        Some("c10-decode-pset") => c10::crash_probe(&args[1..]),
        _ => println!("unknown probe"),
    }
}
