use crate::{Out, R};
pub mod c01;
pub mod c02;
pub mod c12;
pub mod c19;
pub mod c18;

pub fn run(prop: &str, rng: &mut R, out: &mut Out, extra: &[String]) -> bool {
    let _ = extra;
    match prop {
        "C01" => c01::run(rng, out),
        "C02" => c02::run(rng, out),
        "C12" => c12::run(rng, out),
        "C19" => c19::run(rng, out),
        "C18" => c18::run(rng, out),
        _ => return false,
    }
    true
}

pub fn sizes() {
    use elements::*;
    println!("usize {}", std::mem::size_of::<usize>());
    println!("TxIn {}", std::mem::size_of::<TxIn>());
    println!("TxOut {}", std::mem::size_of::<TxOut>());
    println!("Transaction {}", std::mem::size_of::<Transaction>());
    println!("VecU8 {}", std::mem::size_of::<Vec<u8>>());
}
