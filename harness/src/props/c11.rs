//! C11 — asset and token ids follow the issuance derivation in every representation;
//! the contract hash of a JSON contract ignores key order and insignificant whitespace.
use crate::gen::{self, InKind};
use crate::props::c01;
use crate::{hex, Out, Rng, R};
use elements::confidential::Value;
use elements::encode::{deserialize, serialize};
use elements::hashes::{sha256, sha256d, HashEngine};
use elements::pset::{Input as PsetInput, PartiallySignedTransaction as Pset};
use elements::secp256k1_zkp::{Tweak, ZERO_TWEAK};
use elements::{
    AssetEntropy, AssetId, AssetIssuance, ContractHash, LockTime, OutPoint, Script, Sequence, Transaction, TxIn,
    TxInWitness, Txid,
};
use std::str::FromStr;

/// the pegged-asset id of a network, `AssetId` text forms, contracts with numbers in several spellings
/// (EV.Model.PeggedAsset) — runs after everything else so that the random stream of the ops above is unchanged
#[path = "c11_pegged.rs"]
mod pegged_ext;

// ------------------------------------------------------------------ independent oracle
fn comb(l: &[u8; 32], r: &[u8; 32]) -> [u8; 32] {
    let mut e = sha256::Hash::engine();
    e.input(l);
    e.input(r);
    e.midstate().expect("64").to_parts().0
}
fn leaf(first: u8) -> [u8; 32] {
    let mut l = [0u8; 32];
    l[0] = first;
    l
}
fn o_entropy(txid: &[u8; 32], vout: u32, contract: &[u8; 32]) -> [u8; 32] {
    let mut pre = txid.to_vec();
    pre.extend_from_slice(&vout.to_le_bytes());
    comb(&sha256d::Hash::hash(&pre).to_byte_array(), contract)
}
fn o_asset(e: &[u8; 32]) -> [u8; 32] {
    comb(e, &leaf(0))
}
fn o_token(e: &[u8; 32], conf: bool) -> [u8; 32] {
    comb(e, &leaf(if conf { 2 } else { 1 }))
}
/// (asset id, token id) from the plain outpoint and the issuance, recomputed from primitives
fn o_ids(txid: &[u8; 32], vout: u32, iss: &AssetIssuance) -> ([u8; 32], [u8; 32]) {
    let e = if iss.asset_blinding_nonce == ZERO_TWEAK { o_entropy(txid, vout, &iss.asset_entropy) } else { iss.asset_entropy };
    (o_asset(&e), o_token(&e, matches!(iss.amount, Value::Confidential(_))))
}

fn ids_str(p: (AssetId, AssetId)) -> String {
    format!("{} {}", hex(&p.0.to_byte_array()), hex(&p.1.to_byte_array()))
}
fn b01(b: bool) -> &'static str {
    if b { "1" } else { "0" }
}

/// a transaction that contains `txin` at a random position
fn tx_around(rng: &mut R, txin: &TxIn) -> (Transaction, usize) {
    let before = rng.gen_range(0..3);
    let after = rng.gen_range(0..2);
    let mut input = vec![];
    for _ in 0..before {
        let k = gen::in_kind(rng);
        input.push(gen::txin(rng, k, false));
    }
    input.push(txin.clone());
    for _ in 0..after {
        let k = gen::in_kind(rng);
        input.push(gen::txin(rng, k, false));
    }
    (Transaction { version: 2, lock_time: LockTime::ZERO, input, output: vec![] }, before)
}

struct Rep {
    line: String,
    txin_ids: (AssetId, AssetId),
    pset_ids: (AssetId, AssetId),
    ext_ids: (AssetId, AssetId),
    ext: TxIn,
    pset_in: PsetInput,
}

/// the three representations, through the real code
fn represent(rng: &mut R, txin: &TxIn) -> Rep {
    let a = txin.issuance_ids();
    let p = PsetInput::from_txin(txin.clone());
    let b = p.issuance_ids();
    let (tx, j) = tx_around(rng, txin);
    let pset = Pset::from_tx(tx);
    let ext_tx = pset.extract_tx().expect("extract_tx of from_tx");
    let x = ext_tx.input[j].clone();
    let c = x.issuance_ids();
    let line = format!(
        "ok {} {} {} {} {} {} {} {} {}",
        ids_str(a), ids_str(b), ids_str(c), x.previous_output.vout, b01(x.is_pegin), b01(x.has_issuance()),
        p.previous_output_index, b01(p.is_pegin()), b01(p.has_issuance())
    );
    Rep { line, txin_ids: a, pset_ids: b, ext_ids: c, ext: x, pset_in: pset.inputs()[j].clone() }
}

fn value_enc(v: &Value) -> String {
    hex(&serialize(v))
}

fn canonical(t: &TxIn) -> (bool, bool) {
    let v = t.previous_output.vout;
    let idx_ok = (v < (1 << 30) && !(v == (1 << 30) - 1 && t.is_pegin && t.has_issuance())) || v == 0xffff_ffff;
    let iss_ok = t.has_issuance() || (t.asset_issuance.asset_blinding_nonce == ZERO_TWEAK && t.asset_issuance.asset_entropy == [0u8; 32]);
    (idx_ok, iss_ok)
}

fn describe(t: &TxIn) -> String {
    format!(
        "txid={} vout={} pegin={} nonce={} entropy={} amount={} keys={}",
        hex(&t.previous_output.txid.to_byte_array()), t.previous_output.vout, t.is_pegin,
        hex(t.asset_issuance.asset_blinding_nonce.as_ref()), hex(&t.asset_issuance.asset_entropy),
        value_enc(&t.asset_issuance.amount), value_enc(&t.asset_issuance.inflation_keys)
    )
}

/// one input: K ops (wire and in-memory) and the S checks
fn one_txin(rng: &mut R, out: &mut Out, t: &TxIn, tag: &str) {
    out.count(&format!("in.{}", tag));
    let (idx_ok, iss_ok) = canonical(t);
    let canon = idx_ok && iss_ok;
    let txid = t.previous_output.txid.to_byte_array();
    // in-memory op
    let mem = format!(
        "issuanceidsmem {} {} {} {} {} {} {}",
        hex(&txid), t.previous_output.vout, b01(t.is_pegin), hex(t.asset_issuance.asset_blinding_nonce.as_ref()),
        hex(&t.asset_issuance.asset_entropy), value_enc(&t.asset_issuance.amount), value_enc(&t.asset_issuance.inflation_keys)
    );
    let mut rep = None;
    let res = Out::guard(|| {
        let r = represent(rng, t);
        let l = r.line.clone();
        rep = Some(r);
        l
    });
    out.k(mem, res);
    let rep = match rep {
        Some(r) => r,
        None => {
            out.s("no_panic", false, || describe(t));
            return;
        }
    };
    // formula, against the oracle (holds for every input, canonical or not)
    let exp = o_ids(&txid, t.previous_output.vout, &t.asset_issuance);
    out.s("txin_ids_formula", (rep.txin_ids.0.to_byte_array(), rep.txin_ids.1.to_byte_array()) == exp, || describe(t));
    out.s("pset_in_tx_eq_from_txin", rep.pset_in.issuance_ids() == rep.pset_ids, || describe(t));
    if canon {
        out.count("canonical");
        out.count(match (t.asset_issuance.asset_blinding_nonce == ZERO_TWEAK, t.has_issuance()) {
            (_, false) => "canonical.no_issuance",
            (true, true) => "canonical.new_issuance",
            (false, true) => "canonical.reissuance",
        });
        out.count(match t.asset_issuance.amount {
            Value::Null => "canonical.amount_null",
            Value::Explicit(_) => "canonical.amount_explicit",
            Value::Confidential(_) => "canonical.amount_confidential",
        });
        out.s("ids_agree_pset", rep.pset_ids == rep.txin_ids, || describe(t));
        out.s("ids_agree_extract", rep.ext_ids == rep.txin_ids, || describe(t));
        out.s("extract_keeps_outpoint_issuance", rep.ext.previous_output == t.previous_output && rep.ext.asset_issuance == t.asset_issuance, || describe(t));
        if t.previous_output.vout != 0xffff_ffff || !t.is_pegin {
            out.s("extract_keeps_pegin", rep.ext.is_pegin == t.is_pegin, || describe(t));
        }
        // the PSET ids are those of the plain outpoint: no flag bit leaks into the hash
        out.s("pset_ids_formula", (rep.pset_ids.0.to_byte_array(), rep.pset_ids.1.to_byte_array()) == exp, || describe(t));
        // through the PSET wire format
        let (tx, j) = tx_around(rng, t);
        let pset = Pset::from_tx(tx);
        match deserialize::<Pset>(&serialize(&pset)) {
            Ok(p2) => {
                out.count("pset_wire.ok");
                out.s("ids_agree_pset_wire", p2.inputs()[j].issuance_ids() == rep.txin_ids, || describe(t));
            }
            Err(_) => out.count("pset_wire.err"),
        }
        // wire op: the consensus encoding of the input
        let mut t0 = t.clone();
        t0.witness = TxInWitness::empty();
        let b = serialize(&t0);
        let res = Out::guard(|| match deserialize::<TxIn>(&b) {
            Ok(d) => represent(rng, &d).line,
            Err(_) => "err".to_string(),
        });
        out.k(format!("issuanceids {}", hex(&b)), res);
        if let Ok(d) = deserialize::<TxIn>(&b) {
            out.s("wire_roundtrip_ids", d.issuance_ids() == rep.txin_ids, || describe(t));
        }
    } else {
        // excluded points: record what the real code does there (K still compares it with the model)
        let which = if !idx_ok {
            if t.previous_output.vout == (1 << 30) - 1 { "excluded.index_3fffffff_both_flags" } else { "excluded.index_ge_2pow30" }
        } else {
            "excluded.no_issuance_stray_fields"
        };
        out.count(which);
        out.count(&format!("{}.{}", which, if rep.pset_ids == rep.txin_ids { "agree" } else { "disagree" }));
        if which == "excluded.index_3fffffff_both_flags" && rep.pset_ids != rep.txin_ids {
            // recorded finding (known_findings.jsonl, class IDX-3FFFFFFF): format-level collision with the coinbase index
            out.s_known("ids_agree_pset", "IDX-3FFFFFFF", || describe(t));
        }
        if !idx_ok && iss_ok && t.previous_output.vout == (1 << 30) - 1 {
            // theorem ids_at_excluded_index: the PSET computes the ids of index 0xffffffff
            let e = o_ids(&txid, 0xffff_ffff, &t.asset_issuance);
            // today's behaviour of the known class (counted, not demanded: a repair must not raise an alarm)
            out.count(if (rep.pset_ids.0.to_byte_array(), rep.pset_ids.1.to_byte_array()) == e { "excluded_index.ids_of_coinbase_index" } else { "excluded_index.other_ids" });
        }
    }
}

fn gen_tweak_nz(rng: &mut R) -> Tweak {
    loop {
        let t = gen::tweak(rng);
        if t != ZERO_TWEAK {
            return t;
        }
    }
}

/// direct PSET input with arbitrary flag bits
fn one_pset(rng: &mut R, out: &mut Out, txid: [u8; 32], idx: u32, nonce: Option<Tweak>, entropy: Option<[u8; 32]>, amount: Option<u64>, comm: Option<elements::secp256k1_zkp::PedersenCommitment>) {
    let _ = rng;
    let mk = |idx: u32| {
        let mut p = PsetInput::default();
        p.previous_txid = Txid::from_byte_array(txid);
        p.previous_output_index = idx;
        p.issuance_blinding_nonce = nonce;
        p.issuance_asset_entropy = entropy;
        p.issuance_value_amount = amount;
        p.issuance_value_comm = comm;
        p
    };
    let p = mk(idx);
    let opt = |o: Option<String>| o.unwrap_or_else(|| "none".to_string());
    let op = format!(
        "psetids {} {} {} {} {} {}",
        hex(&txid), idx, opt(nonce.map(|n| hex(n.as_ref()))), opt(entropy.map(|e| hex(&e))),
        opt(amount.map(|a| a.to_string())), opt(comm.map(|c| hex(&c.serialize())))
    );
    let res = Out::guard(|| {
        let a = p.issuance_ids();
        let mut ps = Pset::new_v2();
        ps.add_input(p.clone());
        let x = ps.extract_tx().expect("extract").input[0].clone();
        format!("ok {} {} {} {} {}", ids_str(a), ids_str(x.issuance_ids()), x.previous_output.vout, b01(p.is_pegin()), b01(p.has_issuance()))
    });
    out.k(op, res);
    out.count("pset.direct");
    if idx != 0xffff_ffff {
        // flag bits never reach the hash
        let plain = idx & 0x3fff_ffff;
        let base = mk(plain).issuance_ids();
        let mut ok = true;
        for f in [0u32, 1 << 30, 1 << 31, 3 << 30] {
            let w = plain | f;
            if w == 0xffff_ffff {
                continue;
            }
            ok &= mk(w).issuance_ids() == base;
        }
        out.s("flag_bits_irrelevant", ok, || format!("txid={} idx={}", hex(&txid), idx));
        let iss = p.asset_issuance();
        let exp = o_ids(&txid, plain, &iss);
        out.s("pset_direct_formula", (p.issuance_ids().0.to_byte_array(), p.issuance_ids().1.to_byte_array()) == exp, || format!("txid={} idx={}", hex(&txid), idx));
    }
}

fn prim_ops(out: &mut Out, txid: [u8; 32], vout: u32, contract: [u8; 32]) {
    let op = OutPoint::new(Txid::from_byte_array(txid), vout);
    let ch = ContractHash::from_byte_array(contract);
    let res = Out::guard(|| {
        let e = AssetId::generate_asset_entropy(op, ch);
        format!(
            "ok {} {} {} {}",
            hex(&e.to_byte_array()), hex(&AssetId::new_issuance(op, ch).to_byte_array()),
            hex(&AssetId::new_reissuance_token(op, ch, false).to_byte_array()), hex(&AssetId::new_reissuance_token(op, ch, true).to_byte_array())
        )
    });
    out.k(format!("entropy {} {}", hex(&serialize(&op)), hex(&contract)), res);
    let e = AssetId::generate_asset_entropy(op, ch);
    let oe = o_entropy(&txid, vout, &contract);
    out.s("formula_entropy", e.to_byte_array() == oe, || format!("{}:{} {}", hex(&txid), vout, hex(&contract)));
    out.s("formula_new_issuance", AssetId::new_issuance(op, ch).to_byte_array() == o_asset(&oe), || format!("{}:{} {}", hex(&txid), vout, hex(&contract)));
    out.s("formula_new_token", AssetId::new_reissuance_token(op, ch, false).to_byte_array() == o_token(&oe, false)
        && AssetId::new_reissuance_token(op, ch, true).to_byte_array() == o_token(&oe, true), || format!("{}:{} {}", hex(&txid), vout, hex(&contract)));
    // entropy given directly
    let ent = AssetEntropy::from_byte_array(contract);
    out.k(format!("assetid {}", hex(&contract)), Out::guard(|| format!("ok {}", hex(&AssetId::from_entropy(ent).to_byte_array()))));
    for c in [false, true] {
        out.k(format!("tokenid {} {}", hex(&contract), b01(c)), Out::guard(|| format!("ok {}", hex(&AssetId::reissuance_token_from_entropy(ent, c).to_byte_array()))));
        out.s("formula_token", AssetId::reissuance_token_from_entropy(ent, c).to_byte_array() == o_token(&contract, c), || hex(&contract));
    }
    out.s("formula_asset", AssetId::from_entropy(ent).to_byte_array() == o_asset(&contract), || hex(&contract));
    out.s("asset_token_distinct", AssetId::from_entropy(ent) != AssetId::reissuance_token_from_entropy(ent, false)
        && AssetId::reissuance_token_from_entropy(ent, false) != AssetId::reissuance_token_from_entropy(ent, true), || hex(&contract));
}

/// the vectors of src/issuance.rs (`example_elements_core`): display strings are byte-reversed
fn core_vectors(out: &mut Out) {
    let zero = "0000000000000000000000000000000000000000000000000000000000000000";
    let v: [(&str, &str, &str, &str, &str, bool); 4] = [
        ("05a047c98e82a848dee94efcf32462b065198bebf2404d201ba2e06db30b28f4:0", zero, "746f447f691323502cad2ef646f932613d37a83aeaa2133185b316648df4b70a",
         "dcd60818d863b5c026c40b2bc3ba6fdaf5018bcc8606c18adf7db4da0bcd8533", "c1adb114f4f87d33bf9ce90dd4f9ca523dd414d6cd010a7917903e2009689530", false),
        ("c76664aa4be760056dcc39b59637eeea8f3c3c3b2aeefb9f23a7b99945a2931e:1", zero, "bc67a13736341d8ad19e558433483a38cae48a44a5a8b5598ca0b01b5f9f9f41",
         "2ec6c1a06e895b06fffb8dc36084255f890467fb906565b0c048d4c807b4a129", "d09d205ff7c626ca98c91fed24787ff747fec62194ed1b7e6ef6cc775a1a1fdc", true),
        ("ee45365ddb62e8822182fbdd132fb156b4991e0b7411cff4aab576fd964f2edb:0", "e06e6d4933e76afd7b9cc6a013e0855aa60bbe6d2fca1c27ec6951ff5f1a20c9", "1922da340705eef526640b49d28b08928630d1ad52db0f945f3c389267e292c9",
         "8eebf6109bca0331fe559f0cbd1ef846a2bbb6812f3ae3d8b0b610170cc21a4e", "eb02cbc591c9ede071625c129f0a1fab386202cb27a894a45be0d564e961d6bc", false),
        ("8903ee739b52859877fbfedc58194c2d59d0f5a4ea3c2774dc3cba3031cec757:0", zero, "b9789de8589dc1b664e4f2bda4d04af9d4d2180394a8c47b1f889acfb5e0acc4",
         "bdab916e8cda17781bcdb84505452e44d0ab2f080e9e5dd7765ffd5ce0c07cd9", "f144868169dfc7afc024c4d8f55607ac8dfe925e67688650a9cdc54c3cfa5b1c", true),
    ];
    let rev = |s: &str| {
        let mut b = crate::unhex(s);
        b.reverse();
        let mut a = [0u8; 32];
        a.copy_from_slice(&b);
        a
    };
    for (prevout, contract, entropy, asset, token, conf) in v {
        let op = OutPoint::from_str(prevout).unwrap();
        let txid = op.txid.to_byte_array();
        let c = rev(contract);
        let ok = o_entropy(&txid, op.vout, &c) == rev(entropy) && o_asset(&rev(entropy)) == rev(asset) && o_token(&rev(entropy), conf) == rev(token)
            && AssetId::generate_asset_entropy(op, ContractHash::from_byte_array(c)).to_byte_array() == rev(entropy)
            && AssetId::from_str(asset).unwrap().to_byte_array() == rev(asset)
            && AssetId::from_entropy(AssetEntropy::from_str(entropy).unwrap()) == AssetId::from_str(asset).unwrap();
        out.s("core_vectors", ok, || prevout.to_string());
        prim_ops(out, txid, op.vout, c);
        // the same vector as an issuing input, through all representations
        let t = TxIn {
            previous_output: op,
            is_pegin: false,
            script_sig: Script::new(),
            sequence: Sequence::MAX,
            asset_issuance: AssetIssuance {
                asset_blinding_nonce: ZERO_TWEAK,
                asset_entropy: c,
                amount: if conf { Value::Confidential(vector_commitment()) } else { Value::Explicit(1000) },
                inflation_keys: Value::Explicit(1),
            },
            witness: TxInWitness::empty(),
        };
        let ids = t.issuance_ids();
        out.s("core_vectors_txin", ids.0.to_byte_array() == rev(asset) && ids.1.to_byte_array() == rev(token), || prevout.to_string());
        let p = PsetInput::from_txin(t.clone());
        out.s("core_vectors_pset", p.issuance_ids().0.to_byte_array() == rev(asset) && p.issuance_ids().1.to_byte_array() == rev(token), || prevout.to_string());
    }
    out.s("liquid_btc_display", AssetId::LIQUID_BTC.to_string() == "6f0279e9ed041c3d710a9f57d0c02928416460c4b722ae3457a11eec381c526d"
        && AssetId::LIQUID_BTC.to_byte_array()[0] == 0x6d, || "LIQUID_BTC".into());
}

fn vector_commitment() -> elements::secp256k1_zkp::PedersenCommitment {
    let mut r = <R as crate::SeedableRng>::seed_from_u64(7);
    gen::commitment(&mut r)
}

// ------------------------------------------------------------------ JSON contracts
#[derive(Clone, Debug, PartialEq)]
enum J {
    Null,
    Bool(bool),
    Num(String),
    Str(String),
    Arr(Vec<J>),
    Obj(Vec<(String, J)>),
}

const CHARS: &[char] = &[
    'a', 'b', 'z', 'A', 'Z', '0', '9', ' ', '_', '-', '.', ':', ',', '{', '}', '[', ']', '"', '\\', '/', '\u{0}', '\u{1}', '\u{8}', '\u{9}',
    '\u{a}', '\u{c}', '\u{d}', '\u{1f}', '\u{7f}', '\u{80}', '\u{e9}', '\u{7ff}', '\u{800}', '\u{20ac}', '\u{2028}', '\u{d7ff}', '\u{e000}',
    '\u{fffd}', '\u{ffff}', '\u{10000}', '\u{1f600}', '\u{10ffff}',
];

fn gen_string(rng: &mut R) -> String {
    let n = match rng.gen_range(0..6) { 0 => 0, 1 => 1, _ => rng.gen_range(1..10) };
    (0..n).map(|_| if rng.gen_bool(0.5) { (b'a' + rng.gen_range(0..26u8)) as char } else { CHARS[rng.gen_range(0..CHARS.len())] }).collect()
}
fn gen_num(rng: &mut R) -> String {
    match rng.gen_range(0..10) {
        0 => "0".into(),
        1 => "-0".into(),
        2 => u64::MAX.to_string(),
        3 => i64::MIN.to_string(),
        4 => i64::MAX.to_string(),
        5 => "-1".into(),
        6 => (rng.gen::<i64>()).to_string(),
        7 => (rng.gen::<u64>()).to_string(),
        _ => rng.gen_range(0..100_000u32).to_string(),
    }
}
fn gen_keys(rng: &mut R, n: usize) -> Vec<String> {
    let mut keys: Vec<String> = vec![];
    while keys.len() < n {
        let k = match rng.gen_range(0..8) {
            0 => ["name", "ticker", "precision", "version", "entity", "issuer_pubkey", "domain"][rng.gen_range(0..7)].to_string(),
            1 if !keys.is_empty() => {
                // a key that shares a prefix with an existing one
                let mut k = keys[rng.gen_range(0..keys.len())].clone();
                k.push(CHARS[rng.gen_range(0..CHARS.len())]);
                k
            }
            _ => gen_string(rng),
        };
        if !keys.contains(&k) {
            keys.push(k);
        }
    }
    keys
}
fn gen_j(rng: &mut R, depth: usize) -> J {
    let leaf = depth == 0 || rng.gen_bool(0.55);
    if leaf {
        match rng.gen_range(0..6) {
            0 => J::Null,
            1 => J::Bool(rng.gen()),
            2 | 3 => J::Num(gen_num(rng)),
            _ => J::Str(gen_string(rng)),
        }
    } else if rng.gen_bool(0.4) {
        let n = rng.gen_range(0..4);
        J::Arr((0..n).map(|_| gen_j(rng, depth - 1)).collect())
    } else {
        gen_obj(rng, depth - 1)
    }
}
fn gen_obj(rng: &mut R, depth: usize) -> J {
    let n = match rng.gen_range(0..6) { 0 => 0, 1 => 1, _ => rng.gen_range(2..7) };
    let keys = gen_keys(rng, n);
    J::Obj(keys.into_iter().map(|k| { let v = gen_j(rng, depth); (k, v) }).collect())
}

/// `style`: 0 = compact, raw characters where allowed; otherwise random whitespace and random escapes
fn ws(rng: &mut R, style: u8, s: &mut String) {
    if style == 0 {
        return;
    }
    for _ in 0..rng.gen_range(0..3) {
        s.push([' ', '\n', '\t', '\r'][rng.gen_range(0..4)]);
    }
}
fn render_str(rng: &mut R, style: u8, x: &str, s: &mut String) {
    s.push('"');
    for c in x.chars() {
        let must = c == '"' || c == '\\' || (c as u32) < 0x20;
        let esc = must || (style != 0 && rng.gen_bool(0.2));
        if !esc {
            s.push(c);
            continue;
        }
        let short = match c { '"' => Some('"'), '\\' => Some('\\'), '/' => Some('/'), '\u{8}' => Some('b'), '\u{c}' => Some('f'), '\n' => Some('n'), '\r' => Some('r'), '\t' => Some('t'), _ => None };
        if short.is_some() && (style == 0 || rng.gen_bool(0.6)) {
            s.push('\\');
            s.push(short.unwrap());
        } else {
            let mut buf = [0u16; 2];
            for u in c.encode_utf16(&mut buf) {
                if style != 0 && rng.gen_bool(0.5) { s.push_str(&format!("\\u{:04X}", u)); } else { s.push_str(&format!("\\u{:04x}", u)); }
            }
        }
    }
    s.push('"');
}
fn render(rng: &mut R, style: u8, j: &J, s: &mut String) {
    match j {
        J::Null => s.push_str("null"),
        J::Bool(b) => s.push_str(if *b { "true" } else { "false" }),
        J::Num(n) => s.push_str(n),
        J::Str(x) => render_str(rng, style, x, s),
        J::Arr(l) => {
            s.push('[');
            ws(rng, style, s);
            for (i, v) in l.iter().enumerate() {
                if i > 0 { s.push(','); ws(rng, style, s); }
                render(rng, style, v, s);
                ws(rng, style, s);
            }
            s.push(']');
        }
        J::Obj(l) => {
            s.push('{');
            ws(rng, style, s);
            for (i, (k, v)) in l.iter().enumerate() {
                if i > 0 { s.push(','); ws(rng, style, s); }
                render_str(rng, style, k, s);
                ws(rng, style, s);
                s.push(':');
                ws(rng, style, s);
                render(rng, style, v, s);
                ws(rng, style, s);
            }
            s.push('}');
        }
    }
}
fn text(rng: &mut R, style: u8, j: &J) -> String {
    let mut s = String::new();
    ws(rng, style, &mut s);
    render(rng, style, j, &mut s);
    ws(rng, style, &mut s);
    s
}
fn shuffle(rng: &mut R, j: &J) -> J {
    match j {
        J::Arr(l) => J::Arr(l.iter().map(|v| shuffle(rng, v)).collect()),
        J::Obj(l) => {
            let mut m: Vec<(String, J)> = l.iter().map(|(k, v)| (k.clone(), shuffle(rng, v))).collect();
            for i in (1..m.len()).rev() {
                let k = rng.gen_range(0..=i);
                m.swap(i, k);
            }
            J::Obj(m)
        }
        x => x.clone(),
    }
}
/// independent canonical printer: keys in byte order, serde_json's escaping rules, written by hand
fn oracle_canon(j: &J, s: &mut Vec<u8>) {
    fn st(x: &str, s: &mut Vec<u8>) {
        s.push(b'"');
        for &b in x.as_bytes() {
            match b {
                b'"' => s.extend_from_slice(b"\\\""),
                b'\\' => s.extend_from_slice(b"\\\\"),
                8 => s.extend_from_slice(b"\\b"),
                12 => s.extend_from_slice(b"\\f"),
                b'\n' => s.extend_from_slice(b"\\n"),
                b'\r' => s.extend_from_slice(b"\\r"),
                b'\t' => s.extend_from_slice(b"\\t"),
                0..=0x1f => s.extend_from_slice(format!("\\u{:04x}", b).as_bytes()),
                _ => s.push(b),
            }
        }
        s.push(b'"');
    }
    match j {
        J::Null => s.extend_from_slice(b"null"),
        J::Bool(b) => s.extend_from_slice(if *b { b"true" } else { b"false" }),
        J::Num(n) => s.extend_from_slice(if n == "-0" { b"-0.0" } else { n.as_bytes() }),
        J::Str(x) => st(x, s),
        J::Arr(l) => {
            s.push(b'[');
            for (i, v) in l.iter().enumerate() {
                if i > 0 { s.push(b','); }
                oracle_canon(v, s);
            }
            s.push(b']');
        }
        J::Obj(l) => {
            // last duplicate wins, then byte order
            let mut m: Vec<(&String, &J)> = vec![];
            for (k, v) in l {
                if let Some(e) = m.iter_mut().find(|e| e.0 == k) { e.1 = v; } else { m.push((k, v)); }
            }
            m.sort_by(|a, b| a.0.as_bytes().cmp(b.0.as_bytes()));
            s.push(b'{');
            for (i, (k, v)) in m.iter().enumerate() {
                if i > 0 { s.push(b','); }
                st(k, s);
                s.push(b':');
                oracle_canon(v, s);
            }
            s.push(b'}');
        }
    }
}
/// change one leaf (or add a member) so that the document denotes a different value
fn alter(rng: &mut R, j: &J) -> J {
    match j {
        J::Null => J::Bool(false),
        J::Bool(b) => J::Bool(!b),
        J::Num(n) => J::Num(if n == "7" { "8".into() } else { "7".into() }),
        J::Str(x) => J::Str(format!("{}x", x)),
        J::Arr(l) if l.is_empty() => J::Arr(vec![J::Null]),
        J::Arr(l) => {
            let i = rng.gen_range(0..l.len());
            let mut l = l.clone();
            l[i] = alter(rng, &l[i]);
            J::Arr(l)
        }
        J::Obj(l) if l.is_empty() => J::Obj(vec![("k".into(), J::Null)]),
        J::Obj(l) => {
            let i = rng.gen_range(0..l.len());
            let mut l = l.clone();
            l[i].1 = alter(rng, &l[i].1);
            J::Obj(l)
        }
    }
}

fn contract_op(out: &mut Out, t: &str) -> Option<[u8; 32]> {
    let mut h = None;
    let res = Out::guard(|| match ContractHash::from_json_contract(t) {
        Ok(c) => {
            h = Some(c.to_byte_array());
            format!("ok {}", hex(&c.to_byte_array()))
        }
        Err(_) => "err".to_string(),
    });
    out.k(format!("contracthash {}", hex(t.as_bytes())), res);
    h
}

fn one_contract(rng: &mut R, out: &mut Out, j: &J) {
    let compact = text(rng, 0, j);
    let h0 = contract_op(out, &compact);
    let mut oc = vec![];
    oracle_canon(j, &mut oc);
    let exp = sha256::Hash::hash(&oc).to_byte_array();
    out.s("contract_hash_is_sha256_of_canonical_text", h0 == Some(exp), || compact.clone());
    // permuted at every level, other whitespace, other escapes
    let p = shuffle(rng, j);
    let pt = text(rng, 1, &p);
    let h1 = contract_op(out, &pt);
    out.s("contract_hash_perm_ws", h1 == h0 && h0.is_some(), || format!("{} VS {}", compact, pt));
    // whitespace / escapes only
    let wt = text(rng, 1, j);
    let h2 = contract_op(out, &wt);
    out.s("contract_hash_whitespace", h2 == h0, || format!("{} VS {}", compact, wt));
    // a different value
    let a = alter(rng, j);
    let st = rng.gen_range(0..2);
    let at = text(rng, st, &a);
    let h3 = contract_op(out, &at);
    out.s("contract_hash_value_change", h3.is_some() && h3 != h0, || format!("{} VS {}", compact, at));
    if let J::Obj(l) = j {
        out.count(&format!("json.members{}", l.len().min(4)));
        // duplicates: the member written last wins
        if !l.is_empty() {
            let i = rng.gen_range(0..l.len());
            let mut d = l.clone();
            let pos = rng.gen_range(0..=i);
            d.insert(pos, (l[i].0.clone(), alter(rng, &l[i].1)));
            let st = rng.gen_range(0..2);
            let dt = text(rng, st, &J::Obj(d));
            let h4 = contract_op(out, &dt);
            out.s("contract_hash_duplicate_last_wins", h4 == h0, || format!("{} VS {}", compact, dt));
        }
    }
    // damaged texts
    for _ in 0..2 {
        let src = if rng.gen_bool(0.5) { compact.clone() } else { wt.clone() };
        mutated_contract(rng, out, &src);
    }
    // malformed: truncation, trailing garbage
    if rng.gen_bool(0.3) {
        let cut = rng.gen_range(0..compact.len());
        if compact.is_char_boundary(cut) {
            let tr = &compact[..cut];
            let h = contract_op(out, tr);
            out.s("contract_truncated_rejected", h.is_none(), || tr.to_string());
            out.count("json.truncated");
        }
        let tg = format!("{}{}", compact, ["x", "{}", ",", "]", "0"][rng.gen_range(0..5)]);
        let h = contract_op(out, &tg);
        out.s("contract_trailing_rejected", h.is_none(), || tg.clone());
    }
}

fn has_float(v: &serde_json::Value) -> bool {
    match v {
        serde_json::Value::Number(n) => n.is_f64(),
        serde_json::Value::Array(l) => l.iter().any(has_float),
        serde_json::Value::Object(m) => m.values().any(has_float),
        _ => false,
    }
}

/// a damaged text: the model must classify it (accepted with which hash / rejected) like serde_json.
/// Texts that are valid but contain a float are outside the model (see `rule`) and skipped.
fn mutated_contract(rng: &mut R, out: &mut Out, t: &str) {
    const INS: &[char] = &[' ', '\t', '\n', '{', '}', '[', ']', ':', ',', '"', '\\', '/', 'n', 't', 'f', 'u', 'l', 'a', '0', '1', '9', '-', '.', '+', 'x', '\u{e9}', '\u{1}'];
    let mut c: Vec<char> = t.chars().collect();
    for _ in 0..rng.gen_range(1..3) {
        match rng.gen_range(0..5) {
            0 if !c.is_empty() => { let i = rng.gen_range(0..c.len()); c.remove(i); }
            1 => { let i = rng.gen_range(0..=c.len()); c.insert(i, INS[rng.gen_range(0..INS.len())]); }
            2 if !c.is_empty() => { let i = rng.gen_range(0..c.len()); c[i] = INS[rng.gen_range(0..INS.len())]; }
            3 if c.len() >= 2 => { let i = rng.gen_range(0..c.len() - 1); c.swap(i, i + 1); }
            _ if c.len() >= 2 => { let i = rng.gen_range(0..c.len() - 1); let n = rng.gen_range(1..=(c.len() - i).min(6)); let sl: Vec<char> = c[i..i + n].to_vec(); for (k, x) in sl.into_iter().enumerate() { c.insert(i + n + k, x); } }
            _ => {}
        }
    }
    let m: String = c.into_iter().collect();
    if let Ok(v) = serde_json::from_str::<serde_json::Value>(&m) {
        if has_float(&v) {
            out.count("json.mutated.float_skipped");
            return;
        }
    }
    let h = contract_op(out, &m);
    out.count(if h.is_some() { "json.mutated.accepted" } else { "json.mutated.rejected" });
}

fn json_fixed(rng: &mut R, out: &mut Out) {
    // src/issuance.rs test_json_contract
    let correct = r#"{"entity":{"domain":"tether.to"},"issuer_pubkey":"0337cceec0beea0232ebe14cba0197a9fbd45fcf2ec946749de920e71434c2b904","name":"Tether USD","precision":8,"ticker":"USDt","version":0}"#;
    let tether = ContractHash::from_str("3c7f0a53c2ff5b99590620d7f6604a7a3a7bfbaaa6aa61f7bfc7833ca03cde82").unwrap().to_byte_array();
    let docs = [
        correct,
        r#"{"precision":8,"ticker":"USDt","entity":{"domain":"tether.to"},"issuer_pubkey":"0337cceec0beea0232ebe14cba0197a9fbd45fcf2ec946749de920e71434c2b904","name":"Tether USD","version":0}"#,
        r#"{"precision":8, "name" : "Tether USD", "ticker":"USDt",  "entity":{"domain":"tether.to" }, "issuer_pubkey" :"0337cceec0beea0232ebe14cba0197a9fbd45fcf2ec946749de920e71434c2b904","version":0} "#,
    ];
    for d in docs {
        let h = contract_op(out, d);
        out.s("contract_repo_vector", h == Some(tether), || d.to_string());
    }
    let h = contract_op(out, r#"{"entity":{"domain":"tether.to"},"issuer_pubkey:"#);
    out.s("contract_repo_vector_invalid", h.is_none(), || "invalid".into());
    // hand-picked: empty object, non-objects, syntax edge cases, surrogates, depth limit
    let fixed: Vec<String> = vec![
        "{}".into(), " { } ".into(), "[]".into(), "null".into(), "1".into(), "\"s\"".into(), "".into(), " ".into(),
        r#"{"a":1,}"#.into(), r#"{"a":[1,]}"#.into(), r#"{,}"#.into(), r#"{"a" 1}"#.into(), r#"{"a":01}"#.into(), r#"{"a":-}"#.into(),
        r#"{"a":+1}"#.into(), r#"{"a":tru}"#.into(), r#"{"a":nul}"#.into(), r#"{'a':1}"#.into(), r#"{"a":"\x"}"#.into(),
        r#"{"a":"\ud800"}"#.into(), r#"{"a":"\udc00"}"#.into(), r#"{"a":"😀"}"#.into(), r#"{"a":"\ud83dA"}"#.into(),
        r#"{"a":"\ud83dx"}"#.into(), r#"{"a":"\u12"}"#.into(), r#"{"a":"éé"}"#.into(), "{\"a\":\"\u{1}\"}".into(), "{\"a\":\"\t\"}".into(),
        r#"{"a":"\/"}"#.into(), r#"{"":0}"#.into(), r#"{"a":0,"a":1}"#.into(), r#"{"a":{"b":0,"b":1},"a":{"b":2,"b":3}}"#.into(),
        r#"{"a":-0}"#.into(), r#"{"a":18446744073709551615}"#.into(), r#"{"a":-9223372036854775808}"#.into(), r#"{"a":0}x"#.into(),
        r#"{"a":0}{}"#.into(), r#"{"a":[[],{},[{}]]}"#.into(), "{\"\u{ffff}\":1,\"\u{10000}\":2,\"\u{e000}\":3}".into(),
        r#"{"b":1,"a":2,"B":3,"aa":4,"":5,"a ":6}"#.into(), "\u{feff}{}".into(), "{\"a\":1}\u{a0}".into(),
    ];
    for d in &fixed {
        contract_op(out, d);
        out.count("json.fixed");
    }
    // recursion limit of serde_json (128)
    for depth in [1usize, 2, 125, 126, 127, 128, 129, 200] {
        let d = format!("{{\"a\":{}0{}}}", "[".repeat(depth), "]".repeat(depth));
        let h = contract_op(out, &d);
        out.count(&format!("json.depth.{}", if h.is_some() { "ok" } else { "err" }));
        let d = format!("{}0{}", "{\"a\":".repeat(depth), "}".repeat(depth));
        contract_op(out, &d);
    }
    let _ = rng;
}

// ------------------------------------------------------------------ run
pub fn run(rng: &mut R, out: &mut Out) {
    c01::cfg_line(out);
    let scale = if out.tier_thorough { 60 } else { 1 };
    core_vectors(out);

    // hand-picked inputs: every kind at the index boundaries
    let kinds = [InKind::Plain, InKind::Coinbase, InKind::Pegin, InKind::Issuance, InKind::Reissuance, InKind::PeginIssuance];
    for k in kinds {
        for v in [0u32, 1, (1 << 30) - 2, (1 << 30) - 1] {
            let mut t = gen::txin(rng, k, true);
            if k != InKind::Coinbase {
                t.previous_output.vout = v;
            }
            one_txin(rng, out, &t, &format!("{:?}", k));
        }
    }
    // generated canonical inputs
    for _ in 0..250 * scale {
        let k = match rng.gen_range(0..7) { 0 => InKind::Plain, 1 => InKind::Coinbase, 2 => InKind::Pegin, 3 => InKind::Issuance, 4 => InKind::Reissuance, 5 => InKind::PeginIssuance, _ => InKind::Issuance };
        let ww = rng.gen_bool(0.5);
        let mut t = gen::txin(rng, k, ww);
        if matches!(k, InKind::Issuance | InKind::PeginIssuance) && rng.gen_bool(0.3) {
            // an issuance with the all-zero contract hash, or a reissuance that is also a pegin
            if rng.gen_bool(0.5) { t.asset_issuance.asset_entropy = [0u8; 32]; } else { t.asset_issuance.asset_blinding_nonce = gen_tweak_nz(rng); }
        }
        one_txin(rng, out, &t, &format!("{:?}", k));
    }
    // excluded points (in-memory values that no consensus encoding yields)
    for _ in 0..40 * scale {
        let k = kinds[rng.gen_range(0..kinds.len())];
        let mut t = gen::txin(rng, k, false);
        match rng.gen_range(0..4) {
            0 => { t.previous_output.vout = (1 << 30) - 1; t.is_pegin = true; if !t.has_issuance() { let re = rng.gen_bool(0.3); t.asset_issuance = gen::issuance(rng, re); } }
            1 => { t.previous_output.vout = match rng.gen_range(0..4) { 0 => 1 << 30, 1 => 1 << 31, 2 => 0xffff_fffe, _ => rng.gen_range((1u32 << 30)..0xffff_ffff) }; }
            2 => { t.asset_issuance = AssetIssuance { asset_blinding_nonce: if rng.gen_bool(0.5) { gen_tweak_nz(rng) } else { ZERO_TWEAK }, asset_entropy: gen::arr32(rng), amount: Value::Null, inflation_keys: Value::Null }; }
            _ => { t.previous_output = OutPoint::default(); t.is_pegin = rng.gen_bool(0.5); if rng.gen_bool(0.5) { t.asset_issuance = gen::issuance(rng, false); } }
        }
        one_txin(rng, out, &t, "noncanonical");
    }
    // wire inputs with damaged bytes: whatever still decodes goes through all representations
    for _ in 0..60 * scale {
        let k = kinds[rng.gen_range(0..kinds.len())];
        let t = gen::txin(rng, k, false);
        let b = gen::mutate(rng, &serialize(&t));
        let res = Out::guard(|| match deserialize::<TxIn>(&b) {
            Ok(d) => represent(rng, &d).line,
            Err(_) => "err".to_string(),
        });
        out.count(if res == "err" { "wire_mutated.err" } else { "wire_mutated.ok" });
        out.k(format!("issuanceids {}", hex(&b)), res);
        if let Ok(d) = deserialize::<TxIn>(&b) {
            // every decoded input is canonical
            let (a, c) = canonical(&d);
            out.s("decoded_is_canonical", a && c, || hex(&b));
            let p = PsetInput::from_txin(d.clone());
            out.s("ids_agree_pset", p.issuance_ids() == d.issuance_ids(), || hex(&b));
        }
    }
    // PSET inputs built directly, arbitrary flag bits
    for _ in 0..150 * scale {
        let idx = match rng.gen_range(0..8) { 0 => 0xffff_ffff, 1 => 0xffff_fffe, 2 => 0x3fff_ffff, 3 => 0x7fff_ffff, 4 => 0xbfff_ffff, 5 => rng.gen_range(0..8) | (rng.gen_range(0..4u32) << 30), _ => rng.gen() };
        let nonce = match rng.gen_range(0..3) { 0 => None, 1 => Some(ZERO_TWEAK), _ => Some(gen_tweak_nz(rng)) };
        let entropy = if rng.gen_bool(0.25) { None } else { Some(gen::arr32(rng)) };
        let amount = if rng.gen_bool(0.5) { Some(gen::u64_edge(rng)) } else { None };
        let comm = if rng.gen_bool(0.4) { Some(gen::commitment(rng)) } else { None };
        let txid = if rng.gen_bool(0.1) { [0u8; 32] } else { gen::arr32(rng) };
        one_pset(rng, out, txid, idx, nonce, entropy, amount, comm);
    }
    // primitives
    for _ in 0..100 * scale {
        let txid = if rng.gen_bool(0.1) { [0u8; 32] } else { gen::arr32(rng) };
        let contract = match rng.gen_range(0..6) { 0 => [0u8; 32], 1 => leaf(1), 2 => leaf(2), _ => gen::arr32(rng) };
        prim_ops(out, txid, gen::u32_edge(rng), contract);
    }
    // JSON contracts
    json_fixed(rng, out);
    for _ in 0..120 * scale {
        let depth = rng.gen_range(0..5);
        let j = gen_obj(rng, depth);
        one_contract(rng, out, &j);
    }
    pegged_ext::run(rng, out);
}
