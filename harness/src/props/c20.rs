//! C20 — serde and textual forms round-trip in self-describing formats.
//!
//! K (correspondence with the Lean model):
//!   `text.* / parse.*`      every Display/FromStr pair: the real `to_string()` and `from_str()` on valid strings
//!                           and near-misses (case, prefixes, whitespace, leading zeros, `+`, overflow, lengths);
//!   `b64 / unb64`           base64 of PSET serializations and decoding of valid / damaged base64;
//!   `serde.tokens`          the token tree the real hand-written `Serialize` impl emits into a RECORDING
//!                           serializer (human readable and not) = the model's `toS`;
//!   `serde.lossy`           what JSON / CBOR keep of that tree = the model's `lossy` (the harness side of `lossy`
//!                           is itself compared with the real serde_json / serde_cbor output, S `lossy_matches_*`);
//!   `serde.of`              the real `Deserialize` impl driven by a self-describing deserializer over a token
//!                           tree (valid trees and structurally mutated ones: dropped / duplicated / unknown /
//!                           reordered fields, wrong kinds, out-of-range numbers, damaged hex) = the model's `ofS`.
//! S (the property on the real code): serde_json (`to_string/from_str`, `to_value/from_value`) and serde_cbor
//!   (`to_vec/from_slice`) round trips for every listed type incl. the derived impls (PSETs, TxOutSecrets, …),
//!   Display/FromStr round trips, PSET base64 round trip.
use super::c01;
use super::c20tok::{self as tk, Tok};
use crate::{gen, hex, unhex, Out, Rng, R};
use elements::bitcoin;
use elements::confidential::{Asset, AssetBlindingFactor, Nonce, Value, ValueBlindingFactor};
use elements::dynafed::{ElidedRoot, Params, ParamsRoot};
use elements::encode::{deserialize, serialize};
use elements::hashes::Hash;
use elements::pset::{self, PartiallySignedTransaction as Pset};
use elements::secp256k1_zkp::{self as zkp, SECP256K1};
use elements::{
    Address, AddressParams, AssetEntropy, AssetId, AssetIssuance, Block, BlockHash, BlockHeader, ContractHash, DynafedRoot,
    EcdsaSighashType, LockTime, OutPoint, SchnorrSighashType, Script, ScriptHash, Sequence, Transaction, TxIn, TxInWitness,
    TxMerkleNode, TxOut, TxOutSecrets, TxOutWitness, Txid, WScriptHash, Wtxid,
};
use serde::de::DeserializeOwned;
use serde::Serialize;
use std::fmt::Debug;
use std::str::FromStr;

fn shex(s: &str) -> String {
    hex(s.as_bytes())
}

// ------------------------------------------------------------------------------------------ typed K values

/// a type whose hand-written serde impl is modelled: wire name, wire arguments (also the canonical form)
pub trait ST: Serialize + DeserializeOwned + PartialEq + Debug + Clone {
    fn name() -> String;
    fn args(&self) -> String;
}
macro_rules! st_consensus {
    ($t:ty, $n:expr) => {
        impl ST for $t {
            fn name() -> String {
                $n.to_string()
            }
            fn args(&self) -> String {
                hex(&serialize(self))
            }
        }
    };
}
st_consensus!(Value, "value");
st_consensus!(Asset, "asset");
st_consensus!(Nonce, "nonce");
st_consensus!(AssetIssuance, "issuance");
st_consensus!(OutPoint, "outpoint");
st_consensus!(TxInWitness, "txinwit");
st_consensus!(TxOutWitness, "txoutwit");
st_consensus!(Transaction, "tx");
st_consensus!(Params, "params");
st_consensus!(BlockHeader, "header");
st_consensus!(Block, "block");
impl ST for Script {
    fn name() -> String {
        "script".into()
    }
    fn args(&self) -> String {
        hex(self.as_bytes())
    }
}
impl ST for AssetBlindingFactor {
    fn name() -> String {
        "abf".into()
    }
    fn args(&self) -> String {
        hex(self.into_inner().as_ref())
    }
}
impl ST for ValueBlindingFactor {
    fn name() -> String {
        "vbf".into()
    }
    fn args(&self) -> String {
        hex(self.into_inner().as_ref())
    }
}
impl ST for LockTime {
    fn name() -> String {
        "locktime".into()
    }
    fn args(&self) -> String {
        self.to_consensus_u32().to_string()
    }
}
impl ST for Sequence {
    fn name() -> String {
        "sequence".into()
    }
    fn args(&self) -> String {
        self.0.to_string()
    }
}
impl ST for EcdsaSighashType {
    fn name() -> String {
        "ecdsa".into()
    }
    fn args(&self) -> String {
        self.as_u32().to_string()
    }
}
impl ST for SchnorrSighashType {
    fn name() -> String {
        "schnorr".into()
    }
    fn args(&self) -> String {
        (*self as u8).to_string()
    }
}
impl ST for pset::PsbtSighashType {
    fn name() -> String {
        "psbtsh".into()
    }
    fn args(&self) -> String {
        self.to_u32().to_string()
    }
}

/// hash newtypes and midstate wrappers: name of the kind on the wire, raw bytes
pub trait HK: ST + FromStr + std::fmt::Display {
    const KIND: &'static str;
    fn raw(&self) -> Vec<u8>;
    fn from_raw(b: &[u8]) -> Self;
}
macro_rules! hash_kind {
    ($t:ty, $n:expr, $len:expr) => {
        impl ST for $t {
            fn name() -> String {
                format!("hash.{}", $n)
            }
            fn args(&self) -> String {
                hex(&self.raw())
            }
        }
        impl HK for $t {
            const KIND: &'static str = $n;
            fn raw(&self) -> Vec<u8> {
                self.to_byte_array().to_vec()
            }
            fn from_raw(b: &[u8]) -> Self {
                let mut a = [0u8; $len];
                a.copy_from_slice(b);
                <$t>::from_byte_array(a)
            }
        }
    };
}
hash_kind!(Txid, "txid", 32);
hash_kind!(Wtxid, "wtxid", 32);
hash_kind!(BlockHash, "blockhash", 32);
hash_kind!(TxMerkleNode, "txmerklenode", 32);
hash_kind!(ContractHash, "contracthash", 32);
hash_kind!(AssetId, "assetid", 32);
hash_kind!(AssetEntropy, "assetentropy", 32);
hash_kind!(DynafedRoot, "dynafedroot", 32);
hash_kind!(ParamsRoot, "paramsroot", 32);
hash_kind!(ElidedRoot, "elidedroot", 32);
hash_kind!(WScriptHash, "wscripthash", 32);
hash_kind!(ScriptHash, "scripthash", 20);
hash_kind!(elements::taproot::TapLeafHash, "tapleafhash", 32);
hash_kind!(elements::taproot::TapNodeHash, "tapnodehash", 32);
hash_kind!(elements::taproot::TapTweakHash, "taptweakhash", 32);
macro_rules! hash_kind_btc {
    ($t:ty, $n:expr, $len:expr) => {
        impl ST for $t {
            fn name() -> String {
                format!("hash.{}", $n)
            }
            fn args(&self) -> String {
                hex(&self.raw())
            }
        }
        impl HK for $t {
            const KIND: &'static str = $n;
            fn raw(&self) -> Vec<u8> {
                <$t as bitcoin::hashes::Hash>::to_byte_array(*self).to_vec()
            }
            fn from_raw(b: &[u8]) -> Self {
                let mut a = [0u8; $len];
                a.copy_from_slice(b);
                <$t as bitcoin::hashes::Hash>::from_byte_array(a)
            }
        }
    };
}
hash_kind_btc!(elements::PubkeyHash, "pubkeyhash", 20);
hash_kind_btc!(elements::WPubkeyHash, "wpubkeyhash", 20);

#[path = "c20_derive.rs"]
mod derive;

// ------------------------------------------------------------------------------------------ tree mutation

fn count_nodes(t: &Tok) -> usize {
    1 + match t {
        Tok::Seq(v) => v.iter().map(count_nodes).sum(),
        Tok::Map(v) => v.iter().map(|(k, x)| count_nodes(k) + count_nodes(x)).sum(),
        _ => 0,
    }
}

fn mut_str(rng: &mut R, s: &str) -> String {
    let cs: Vec<char> = s.chars().collect();
    const INS: &[char] = &[' ', '+', '-', '0', 'x', ':', 'g', 'é', '=', '\n', 'A', 'f', '9', 'G', '|', '_', '１'];
    match rng.gen_range(0..16) {
        0 => s.to_uppercase(),
        1 if !cs.is_empty() => {
            let i = rng.gen_range(0..cs.len());
            let mut c = cs.clone();
            c[i] = c[i].to_ascii_uppercase();
            c.into_iter().collect()
        }
        2 if !cs.is_empty() => {
            let i = rng.gen_range(0..cs.len());
            let mut c = cs.clone();
            c.remove(i);
            c.into_iter().collect()
        }
        3 => {
            let i = rng.gen_range(0..=cs.len());
            let mut c = cs.clone();
            c.insert(i, INS[rng.gen_range(0..INS.len())]);
            c.into_iter().collect()
        }
        4 if !cs.is_empty() => {
            let i = rng.gen_range(0..cs.len());
            let mut c = cs.clone();
            c[i] = INS[rng.gen_range(0..INS.len())];
            c.into_iter().collect()
        }
        5 => format!("{}{}", s, s),
        6 => format!("0x{}", s),
        7 => format!("+{}", s),
        8 => format!("0{}", s),
        9 => format!("[elements]{}", s),
        10 if !cs.is_empty() => cs[..rng.gen_range(0..cs.len())].iter().collect(),
        11 => format!("{}0", s),
        12 => format!("{}00", s),
        13 => format!(" {}", s),
        14 => format!("{} ", s),
        _ => s.to_lowercase(),
    }
}

fn mutate_leaf(rng: &mut R, t: &Tok) -> Tok {
    match t {
        Tok::U(_, n) => match rng.gen_range(0..14) {
            0 => Tok::U(0, 0),
            1 => Tok::U(0, 1),
            2 => Tok::U(0, 2),
            3 => Tok::U(0, 3),
            4 => Tok::U(0, 255),
            5 => Tok::U(0, 256),
            6 => Tok::U(0, u32::MAX as u64),
            7 => Tok::U(0, 1 << 32),
            8 => Tok::U(0, u64::MAX),
            9 => Tok::U(0, n.wrapping_add(1)),
            10 => Tok::U(0, n ^ (1 << rng.gen_range(0..64))),
            11 => Tok::Str(n.to_string()),
            12 => Tok::Unit,
            _ => Tok::Seq(vec![Tok::U(0, *n)]),
        },
        Tok::Str(s) => match rng.gen_range(0..8) {
            0 => Tok::Bytes(s.as_bytes().to_vec()),
            1 => Tok::Seq(s.bytes().map(|b| Tok::U(0, b as u64)).collect()),
            2 => Tok::Unit,
            3 => Tok::Str(String::new()),
            4 => match hexdec(s) {
                Some(b) => Tok::Bytes(b),
                None => Tok::U(0, 7),
            },
            _ => Tok::Str(mut_str(rng, s)),
        },
        Tok::Bytes(b) => match rng.gen_range(0..8) {
            0 if !b.is_empty() => {
                let mut c = b.clone();
                let i = rng.gen_range(0..c.len());
                c[i] ^= 1 << rng.gen_range(0..8);
                Tok::Bytes(c)
            }
            1 => {
                let mut c = b.clone();
                c.push(rng.gen());
                Tok::Bytes(c)
            }
            2 if !b.is_empty() => Tok::Bytes(b[..b.len() - 1].to_vec()),
            3 => Tok::Str(hex_plain(b)),
            4 => Tok::Seq(b.iter().map(|x| Tok::U(0, *x as u64)).collect()),
            5 => Tok::Unit,
            6 => Tok::Bytes(vec![]),
            _ => {
                let mut c = b.clone();
                c.reverse();
                Tok::Bytes(c)
            }
        },
        Tok::Unit => match rng.gen_range(0..3) {
            0 => Tok::U(0, 0),
            1 => Tok::Str(String::new()),
            _ => Tok::Seq(vec![]),
        },
        Tok::Bool(b) => match rng.gen_range(0..3) {
            0 => Tok::Bool(!b),
            1 => Tok::U(0, *b as u64),
            _ => Tok::Str(b.to_string()),
        },
        Tok::Seq(v) => {
            let mut c = v.clone();
            match rng.gen_range(0..8) {
                0 if !c.is_empty() => {
                    c.pop();
                }
                1 if !c.is_empty() => {
                    c.remove(0);
                }
                2 if !c.is_empty() => {
                    let i = rng.gen_range(0..c.len());
                    let x = c[i].clone();
                    c.insert(i, x);
                }
                3 => c.push(Tok::U(0, rng.gen_range(0..300))),
                4 if c.len() >= 2 => {
                    let i = rng.gen_range(0..c.len() - 1);
                    c.swap(i, i + 1);
                }
                5 => c.clear(),
                6 => c.push(Tok::Unit),
                _ => return Tok::Map(c.into_iter().enumerate().map(|(i, x)| (Tok::Str(i.to_string()), x)).collect()),
            }
            Tok::Seq(c)
        }
        Tok::Map(v) => {
            let mut c = v.clone();
            match rng.gen_range(0..10) {
                0 if !c.is_empty() => {
                    let i = rng.gen_range(0..c.len());
                    c.remove(i);
                }
                1 if !c.is_empty() => {
                    // duplicate an entry at the end (last wins / duplicate error)
                    let i = rng.gen_range(0..c.len());
                    let e = c[i].clone();
                    c.push(e);
                }
                2 if !c.is_empty() => {
                    // duplicate with a damaged FIRST occurrence
                    let i = rng.gen_range(0..c.len());
                    let (k, x) = c[i].clone();
                    c.insert(i, (k, mutate_leaf(rng, &x)));
                }
                3 if !c.is_empty() => {
                    let i = rng.gen_range(0..c.len());
                    if let Tok::Str(k) = &c[i].0 {
                        c[i].0 = Tok::Str(format!("{}x", k));
                    }
                }
                4 => c.push((Tok::Str("zzz_unknown".into()), Tok::Seq(vec![Tok::Unit, Tok::Map(vec![(Tok::Str("a".into()), Tok::U(0, 1))])]))),
                5 if c.len() >= 2 => {
                    let i = rng.gen_range(0..c.len() - 1);
                    c.swap(i, i + 1);
                }
                6 if !c.is_empty() => {
                    let i = rng.gen_range(0..c.len());
                    c[i].0 = Tok::U(0, i as u64);
                }
                7 => c.reverse(),
                8 => return Tok::Seq(c.into_iter().map(|(_, x)| x).collect()),
                _ => c.clear(),
            }
            Tok::Map(c)
        }
        other => other.clone(),
    }
}

fn hex_plain(b: &[u8]) -> String {
    b.iter().map(|x| format!("{:02x}", x)).collect()
}
fn hexdec(s: &str) -> Option<Vec<u8>> {
    if s.len() % 2 != 0 || !s.bytes().all(|c| c.is_ascii_hexdigit()) {
        return None;
    }
    Some(unhex(&s.to_lowercase()))
}

/// apply `mutate_leaf` at the `idx`-th node (pre-order)
fn mutate_at(rng: &mut R, t: &Tok, idx: &mut usize) -> Tok {
    if *idx == 0 {
        *idx = usize::MAX;
        return mutate_leaf(rng, t);
    }
    *idx -= 1;
    match t {
        Tok::Seq(v) => Tok::Seq(v.iter().map(|x| if *idx == usize::MAX { x.clone() } else { mutate_at(rng, x, idx) }).collect()),
        Tok::Map(v) => Tok::Map(
            v.iter()
                .map(|(k, x)| {
                    let k2 = if *idx == usize::MAX { k.clone() } else { mutate_at(rng, k, idx) };
                    let x2 = if *idx == usize::MAX { x.clone() } else { mutate_at(rng, x, idx) };
                    (k2, x2)
                })
                .collect(),
        ),
        other => other.clone(),
    }
}
fn mutate_tree(rng: &mut R, t: &Tok) -> Tok {
    let n = count_nodes(t);
    // bias towards the top of the tree (struct-level edits) half of the time
    let mut idx = if rng.gen_bool(0.4) { rng.gen_range(0..n.min(12)) } else { rng.gen_range(0..n) };
    mutate_at(rng, t, &mut idx)
}

// ------------------------------------------------------------------------------------------ K: serde ops

fn of_result<T: ST>(t: &Tok, human: bool) -> String {
    Out::guard(|| match tk::from_tok::<T>(t, human) {
        Ok(v) => format!("ok {}", v.args()),
        Err(_) => "err".into(),
    })
}

/// all K ops for one value of a modelled type
fn k_serde<T: ST>(out: &mut Out, rng: &mut R, v: &T, mutations: usize) {
    let name = T::name();
    out.count(&format!("serde.k.{}", name.split('.').next().unwrap()));
    for human in [true, false] {
        let h = human as u8;
        let rec = match tk::record(v, human) {
            Ok(t) => t,
            Err(e) => {
                out.s("recording_serializer_accepts", false, || format!("{} {} {}", name, v.args(), e));
                continue;
            }
        };
        out.k(format!("serde.tokens {} {} {}", name, h, v.args()), format!("ok {}", rec.show()));
        for json in [true, false] {
            if json && !human {
                continue; // JSON is always human readable
            }
            let lossy = rec.lossy(json);
            out.k(format!("serde.lossy {} {} {} {}", if json { "json" } else { "cbor" }, name, h, v.args()), format!("ok {}", lossy.show()));
            // the valid tree through the real Deserialize impl
            let r = of_result::<T>(&lossy, human);
            out.k(format!("serde.of {} {} {}", name, h, lossy.show()), r.clone());
            out.s("tokde_roundtrip", r == format!("ok {}", v.args()), || format!("{} human={} json={} value={} got={}", name, human, json, v.args(), r));
            for _ in 0..mutations {
                let m = mutate_tree(rng, &lossy);
                let r = of_result::<T>(&m, human);
                out.count(&format!("serde.of.mutated.{}", if r.starts_with("ok") { "ok" } else if r == "err" { "err" } else { "panic" }));
                out.s("deserialize_never_panics", r != "panic", || format!("{} human={} tree={}", name, human, m.show()));
                out.k(format!("serde.of {} {} {}", name, h, m.show()), r);
            }
        }
    }
}

// ------------------------------------------------------------------------------------------ K: serde_utils helpers

fn entries_or_none(v: Vec<String>) -> String {
    if v.is_empty() {
        "none".into()
    } else {
        v.join(",")
    }
}
/// wire form (also the canonical result) of the serde_utils-backed map fields of `pset::Input` that are modelled
fn input_field_enc(i: &pset::Input, field: &str) -> String {
    match field {
        "ripemd160_preimages" => entries_or_none(i.ripemd160_preimages.iter().map(|(k, v)| format!("{}:{}", hex(k.as_byte_array()), hex(v))).collect()),
        "sha256_preimages" => entries_or_none(i.sha256_preimages.iter().map(|(k, v)| format!("{}:{}", hex(k.as_byte_array()), hex(v))).collect()),
        "hash160_preimages" => entries_or_none(i.hash160_preimages.iter().map(|(k, v)| format!("{}:{}", hex(k.as_byte_array()), hex(v))).collect()),
        "hash256_preimages" => entries_or_none(i.hash256_preimages.iter().map(|(k, v)| format!("{}:{}", hex(k.as_byte_array()), hex(v))).collect()),
        "unknown" => entries_or_none(i.unknown.iter().map(|(k, v)| format!("{}:{}:{}", k.type_value, hex(&k.key), hex(v))).collect()),
        "proprietary" => entries_or_none(i.proprietary.iter().map(|(k, v)| format!("{}:{}:{}:{}", hex(&k.prefix), k.subtype, hex(&k.key), hex(v))).collect()),
        "tap_script_sigs" => {
            // sorted by the printed key here and in the driver (no reliance on the key type's `Ord`)
            let mut v: Vec<String> = i.tap_script_sigs.iter().map(|((x, l), s)| format!("{}:{}:{}:{}", hex(&x.serialize()), hex(l.as_byte_array()), hex(s.sig.as_ref()), s.hash_ty as u8)).collect();
            v.sort();
            entries_or_none(v)
        }
        _ => unreachable!(),
    }
}
const INPUT_FIELDS: &[&str] = &["ripemd160_preimages", "sha256_preimages", "hash160_preimages", "hash256_preimages", "unknown", "proprietary", "tap_script_sigs"];

fn struct_field<'a>(t: &'a Tok, field: &str) -> Option<&'a Tok> {
    match t {
        Tok::Struct(_, fs) => fs.iter().find(|(k, _)| k == field).map(|(_, v)| v),
        _ => None,
    }
}
fn splice(base: &Tok, field: &str, v: &Tok) -> Tok {
    match base {
        Tok::Map(es) => Tok::Map(es.iter().map(|(k, x)| if *k == Tok::Str(field.to_string()) { (k.clone(), v.clone()) } else { (k.clone(), x.clone()) }).collect()),
        other => other.clone(),
    }
}
/// the real `serde_utils::*::deserialize` reached through the derived `Deserialize` of `pset::Input`: every other
/// field of the tree is the default input's
fn of_input_field(base: &Tok, field: &str, v: &Tok, human: bool) -> String {
    let t = splice(base, field, v);
    Out::guard(|| match tk::from_tok::<pset::Input>(&t, human) {
        Ok(i) => format!("ok {}", input_field_enc(&i, field)),
        Err(_) => "err".into(),
    })
}
fn k_input_fields(out: &mut Out, rng: &mut R, input: &pset::Input, mutations: usize) {
    for human in [true, false] {
        let h = human as u8;
        let (Ok(rec), Ok(rec_default)) = (tk::record(input, human), tk::record(&pset::Input::default(), human)) else { continue };
        for field in INPUT_FIELDS {
            let Some(tok) = struct_field(&rec, field) else { continue };
            let enc = input_field_enc(input, field);
            out.count(&format!("serde.k.pset_in.{}", field));
            out.k(format!("serde.tokens pset_in.{} {} {}", field, h, enc), format!("ok {}", tok.show()));
            for json in [true, false] {
                if json && !human {
                    continue;
                }
                let lossy = tok.lossy(json);
                out.k(format!("serde.lossy {} pset_in.{} {} {}", if json { "json" } else { "cbor" }, field, h, enc), format!("ok {}", lossy.show()));
                let base = rec_default.lossy(json);
                let r = of_input_field(&base, field, &lossy, human);
                out.k(format!("serde.of pset_in.{} {} {}", field, h, lossy.show()), r.clone());
                out.s("tokde_roundtrip", r == format!("ok {}", enc), || format!("pset_in.{} human={} json={} value={} got={}", field, human, json, enc, r));
                for _ in 0..mutations {
                    let m = mutate_tree(rng, &lossy);
                    let r = of_input_field(&base, field, &m, human);
                    out.count(&format!("serde.of.mutated.{}", if r.starts_with("ok") { "ok" } else if r == "err" { "err" } else { "panic" }));
                    out.s("deserialize_never_panics", r != "panic", || format!("pset_in.{} human={} tree={}", field, human, m.show()));
                    out.k(format!("serde.of pset_in.{} {} {}", field, h, m.show()), r);
                }
            }
        }
    }
}
fn input_with_maps(rng: &mut R, n: usize) -> pset::Input {
    let mut i = pset::Input::default();
    for _ in 0..rng.gen_range(0..=n) { let l = rng.gen_range(0..12); let p = gen::bytes(rng, l); i.ripemd160_preimages.insert(elements::hashes::ripemd160::Hash::hash(&p), p); }
    for _ in 0..rng.gen_range(0..=n) { let l = rng.gen_range(0..12); let p = gen::bytes(rng, l); i.sha256_preimages.insert(elements::hashes::sha256::Hash::hash(&p), p); }
    for _ in 0..rng.gen_range(0..=n) { let l = rng.gen_range(0..12); let p = gen::bytes(rng, l); i.hash160_preimages.insert(elements::hashes::hash160::Hash::hash(&p), p); }
    for _ in 0..rng.gen_range(0..=n) { let l = rng.gen_range(0..12); let p = gen::bytes(rng, l); i.hash256_preimages.insert(elements::hashes::sha256d::Hash::hash(&p), p); }
    for _ in 0..rng.gen_range(0..=n) { let l = rng.gen_range(0..12); let k = raw_key(rng); i.unknown.insert(k, gen::bytes(rng, l)); }
    for _ in 0..rng.gen_range(0..=n) { let l = rng.gen_range(0..12); let k = prop_key(rng); i.proprietary.insert(k, gen::bytes(rng, l)); }
    for _ in 0..rng.gen_range(0..=n) { let k = (xonly(rng), elements::taproot::TapLeafHash::from_byte_array(gen::arr32(rng))); i.tap_script_sigs.insert(k, schnorr_sig(rng)); }
    i
}

// ------------------------------------------------------------------------------------------ S: real formats

fn json_to_tok(v: &serde_json::Value) -> Tok {
    match v {
        serde_json::Value::Null => Tok::Unit,
        serde_json::Value::Bool(b) => Tok::Bool(*b),
        serde_json::Value::Number(n) => {
            if let Some(u) = n.as_u64() {
                Tok::U(0, u)
            } else if let Some(i) = n.as_i64() {
                Tok::I(0, i)
            } else {
                Tok::F(n.as_f64().unwrap_or(0.0).to_bits())
            }
        }
        serde_json::Value::String(s) => Tok::Str(s.clone()),
        serde_json::Value::Array(a) => Tok::Seq(a.iter().map(json_to_tok).collect()),
        serde_json::Value::Object(o) => Tok::Map(o.iter().map(|(k, x)| (Tok::Str(k.clone()), json_to_tok(x))).collect()),
    }
}
fn cbor_to_tok(v: &serde_cbor::Value) -> Tok {
    use serde_cbor::ObjectKey as K;
    use serde_cbor::Value as C;
    match v {
        C::Null => Tok::Unit,
        C::Bool(b) => Tok::Bool(*b),
        C::U64(u) => Tok::U(0, *u),
        C::I64(i) => {
            if *i >= 0 {
                Tok::U(0, *i as u64)
            } else {
                Tok::I(0, *i)
            }
        }
        C::F64(f) => Tok::F(f.to_bits()),
        C::Bytes(b) => Tok::Bytes(b.clone()),
        C::String(s) => Tok::Str(s.clone()),
        C::Array(a) => Tok::Seq(a.iter().map(cbor_to_tok).collect()),
        C::Object(m) => Tok::Map(
            m.iter()
                .map(|(k, x)| {
                    let k2 = match k {
                        K::Integer(i) => {
                            if *i >= 0 {
                                Tok::U(0, *i as u64)
                            } else {
                                Tok::I(0, *i)
                            }
                        }
                        K::Bytes(b) => Tok::Bytes(b.clone()),
                        K::String(s) => Tok::Str(s.clone()),
                        K::Bool(b) => Tok::Bool(*b),
                        K::Null => Tok::Unit,
                    };
                    (k2, cbor_to_tok(x))
                })
                .collect(),
        ),
    }
}
/// maps compared as sets of entries (serde_json / serde_cbor `Value` maps are BTreeMaps)
fn canon_maps(t: &Tok) -> Tok {
    match t {
        Tok::Seq(v) => Tok::Seq(v.iter().map(canon_maps).collect()),
        Tok::Map(v) => {
            let mut c: Vec<(Tok, Tok)> = v.iter().map(|(k, x)| (canon_maps(k), canon_maps(x))).collect();
            c.sort_by_key(|(k, _)| k.show());
            Tok::Map(c)
        }
        other => other.clone(),
    }
}
/// the JSON view of a lossy tree: map keys become strings (numbers are printed), as serde_json does
fn json_keys(t: &Tok) -> Tok {
    match t {
        Tok::Seq(v) => Tok::Seq(v.iter().map(json_keys).collect()),
        Tok::Map(v) => Tok::Map(
            v.iter()
                .map(|(k, x)| {
                    let k2 = match k {
                        Tok::U(_, n) => Tok::Str(n.to_string()),
                        Tok::I(_, n) => Tok::Str(n.to_string()),
                        Tok::Bool(b) => Tok::Str(b.to_string()),
                        other => other.clone(),
                    };
                    (k2, json_keys(x))
                })
                .collect(),
        ),
        other => other.clone(),
    }
}

/// serde_json and serde_cbor round trips of one value on the real code (+ the lossy abstraction against the
/// real formats, + the real Deserialize impl through the token deserializer)
type Known<'a> = &'a dyn Fn(&str, &str) -> Option<&'static str>;
fn no_known(_: &str, _: &str) -> Option<&'static str> {
    None
}
fn verdict(out: &mut Out, check: &str, fam: &str, r: Result<(), String>, known: Known, detail: &dyn Fn() -> String) {
    match r {
        Ok(()) => out.s(check, true, || String::new()),
        Err(e) => match known(fam, &e) {
            Some(class) => out.s_known(check, class, || format!("{} {}", e, detail())),
            None => out.s(check, false, || format!("{} {}", e, detail())),
        },
    }
}
fn s_formats<T: Serialize + DeserializeOwned + PartialEq + Debug>(out: &mut Out, ty: &str, v: &T, detail: &dyn Fn() -> String) {
    s_formats_k(out, ty, v, detail, &no_known)
}
/// `known(family, error)` names the recorded finding class a failure belongs to (families: json, json_value, cbor, tokde)
fn s_formats_k<T: Serialize + DeserializeOwned + PartialEq + Debug>(out: &mut Out, ty: &str, v: &T, detail: &dyn Fn() -> String, known: Known) {
    out.count(&format!("serde.s.{}", ty));
    // JSON text
    let r = std::panic::catch_unwind(std::panic::AssertUnwindSafe(|| -> Result<(), String> {
        let j = serde_json::to_string(v).map_err(|e| format!("to_string: {}", e))?;
        let back: T = serde_json::from_str(&j).map_err(|e| format!("from_str: {} json={}", e, clip(&j)))?;
        if back != *v {
            return Err(format!("decoded value differs json={}", clip(&j)));
        }
        Ok(())
    }));
    verdict(out, &format!("json_roundtrip.{}", ty), "json", flat(r), known, detail);
    // JSON through serde_json::Value
    let r = std::panic::catch_unwind(std::panic::AssertUnwindSafe(|| -> Result<(), String> {
        let j = serde_json::to_value(v).map_err(|e| format!("to_value: {}", e))?;
        let back: T = serde_json::from_value(j).map_err(|e| format!("from_value: {}", e))?;
        if back != *v {
            return Err("decoded value differs".into());
        }
        Ok(())
    }));
    verdict(out, &format!("json_value_roundtrip.{}", ty), "json_value", flat(r), known, detail);
    // CBOR
    let r = std::panic::catch_unwind(std::panic::AssertUnwindSafe(|| -> Result<(), String> {
        let c = serde_cbor::to_vec(v).map_err(|e| format!("to_vec: {}", e))?;
        let back: T = serde_cbor::from_slice(&c).map_err(|e| format!("from_slice: {} cbor={}", e, clip(&hex(&c))))?;
        if back != *v {
            return Err(format!("decoded value differs cbor={}", clip(&hex(&c))));
        }
        Ok(())
    }));
    verdict(out, &format!("cbor_roundtrip.{}", ty), "cbor", flat(r), known, detail);
    // the lossy abstraction against the real formats
    if let (Ok(rec_h), Ok(rec_b)) = (tk::record(v, true), tk::record(v, false)) {
        if let Ok(j) = serde_json::to_string(v).and_then(|s| serde_json::from_str::<serde_json::Value>(&s)) {
            let a = canon_maps(&json_to_tok(&j));
            let b = canon_maps(&json_keys(&rec_h.lossy(true)));
            out.s("lossy_matches_json", a == b, || format!("{} format={} lossy={} {}", ty, clip(&a.show()), clip(&b.show()), detail()));
        }
        if let Ok(c) = serde_cbor::to_vec(v).and_then(|b| serde_cbor::from_slice::<serde_cbor::Value>(&b)) {
            let a = canon_maps(&cbor_to_tok(&c));
            let b = canon_maps(&rec_b.lossy(false));
            out.s("lossy_matches_cbor", a == b, || format!("{} format={} lossy={} {}", ty, clip(&a.show()), clip(&b.show()), detail()));
        }
        // real Deserialize through the token deserializer (also for the derived impls); integers are handed over as
        // serde_json does (`visit_u64`) for the JSON view and as serde_cbor does (by width) for the CBOR view
        for (human, json, rec) in [(true, true, &rec_h), (false, false, &rec_b), (true, false, &rec_h)] {
            let l = rec.lossy(json);
            let r = std::panic::catch_unwind(std::panic::AssertUnwindSafe(|| tk::from_tok_narrow::<T>(&l, human, !json)));
            let res = match &r {
                Ok(Ok(b)) if b == v => Ok(()),
                Ok(Ok(_)) => Err(format!("human={} json={}: decoded value differs", human, json)),
                Ok(Err(e)) => Err(format!("human={} json={}: {}", human, json, e)),
                Err(_) => Err(format!("human={} json={}: panic", human, json)),
            };
            verdict(out, &format!("tokde_roundtrip.{}", ty), "tokde", res, known, detail);
        }
    }
}
fn flat(r: std::thread::Result<Result<(), String>>) -> Result<(), String> {
    match r {
        Ok(x) => x,
        Err(_) => Err("panic".into()),
    }
}
fn clip(s: &str) -> String {
    if s.len() > 600 && std::env::var("C20_NOCLIP").is_err() {
        format!("{}…({} chars)", &s[..600], s.len())
    } else {
        s.to_string()
    }
}

// ------------------------------------------------------------------------------------------ K + S: text

/// `to_string().parse()` on the real code
fn s_text<T: FromStr + std::fmt::Display + PartialEq>(out: &mut Out, ty: &str, v: &T, detail: &dyn Fn() -> String) {
    let s = v.to_string();
    let r = std::panic::catch_unwind(std::panic::AssertUnwindSafe(|| T::from_str(&s)));
    out.s(&format!("text_roundtrip.{}", ty), matches!(&r, Ok(Ok(b)) if b == v), || format!("string={:?} {}", s, detail()));
}

fn k_parse<F: FnOnce(&str) -> Option<String>>(out: &mut Out, op: &str, extra: &str, s: &str, f: F) {
    let res = Out::guard(|| match f(s) {
        Some(c) => format!("ok {}", c),
        None => "err".into(),
    });
    out.count(&format!("{}.{}", op, if res.starts_with("ok") { "ok" } else { "err" }));
    out.s("parser_never_panics", res != "panic", || format!("{} {:?}", op, s));
    if extra.is_empty() {
        out.k(format!("{} {}", op, shex(s)), res);
    } else {
        out.k(format!("{} {} {}", op, extra, shex(s)), res);
    }
}

fn hash_text<T: HK + PartialEq>(out: &mut Out, rng: &mut R, v: &T, n_mut: usize)
where
    <T as FromStr>::Err: Debug,
{
    let s = v.to_string();
    out.k(format!("text.hash {} {}", T::KIND, hex(&v.raw())), format!("ok {}", s));
    s_text(out, &format!("hash.{}", T::KIND), v, &|| hex(&v.raw()));
    let p = |x: &str| T::from_str(x).ok().map(|h| hex(&h.raw()));
    k_parse(out, "parse.hash", T::KIND, &s, p);
    k_parse(out, "parse.hash", T::KIND, &s.to_uppercase(), p);
    // the other direction (a string in the wrong byte order parses to the reversed value, never to this one unless palindromic)
    let rev: String = { let b = unhex(&s); let mut b = b; b.reverse(); hex_plain(&b) };
    k_parse(out, "parse.hash", T::KIND, &rev, p);
    k_parse(out, "parse.hash", T::KIND, &s[..s.len() - 1], p);
    k_parse(out, "parse.hash", T::KIND, &format!("{}0", s), p);
    k_parse(out, "parse.hash", T::KIND, &format!("{}é", &s[..s.len() - 2]), p);
    for _ in 0..n_mut {
        let m = mut_str(rng, &s);
        k_parse(out, "parse.hash", T::KIND, &m, p);
    }
}

const INT_STRINGS: &[&str] = &[
    "0", "1", "+5", "05", "00", "+0", "-0", "-1", "4294967295", "4294967296", "04294967295", "+4294967295", "99999999999999999999",
    "", "+", "-", "++1", "+-1", " 1", "1 ", "1_000", "0x10", "１", "499999999", "500000000", "500000001", "1e3", "1.0", "٣",
    "18446744073709551615", "18446744073709551616", "000000000000000000000000000001",
];

fn text_ints(out: &mut Out, rng: &mut R, n: usize) {
    let pl = |x: &str| LockTime::from_str(x).ok().map(|v| v.to_consensus_u32().to_string());
    let ph = |x: &str| elements::locktime::Height::from_str(x).ok().map(|v| v.to_consensus_u32().to_string());
    let pt = |x: &str| elements::locktime::Time::from_str(x).ok().map(|v| v.to_consensus_u32().to_string());
    let ps = |x: &str| Sequence::from_str(x).ok().map(|v| v.0.to_string());
    for s in INT_STRINGS {
        k_parse(out, "parse.locktime", "", s, pl);
        k_parse(out, "parse.height", "", s, ph);
        k_parse(out, "parse.time", "", s, pt);
        k_parse(out, "parse.sequence", "", s, ps);
    }
    for _ in 0..n {
        let v = gen::u32_edge(rng);
        let lt = LockTime::from_consensus(v);
        out.k(format!("text.u32 {}", v), format!("ok {}", lt));
        out.s("display_is_decimal.locktime", lt.to_string() == v.to_string(), || v.to_string());
        out.k(format!("text.u32 {}", v), format!("ok {}", Sequence(v)));
        s_text(out, "locktime", &lt, &|| v.to_string());
        s_text(out, "sequence", &Sequence(v), &|| v.to_string());
        match lt {
            LockTime::Blocks(h) => {
                out.k(format!("text.u32 {}", v), format!("ok {}", h));
                s_text(out, "height", &h, &|| v.to_string());
            }
            LockTime::Seconds(t) => {
                out.k(format!("text.u32 {}", v), format!("ok {}", t));
                s_text(out, "time", &t, &|| v.to_string());
            }
        }
        let s = v.to_string();
        k_parse(out, "parse.locktime", "", &s, pl);
        k_parse(out, "parse.height", "", &s, ph);
        k_parse(out, "parse.time", "", &s, pt);
        k_parse(out, "parse.sequence", "", &s, ps);
        let m = mut_str(rng, &s);
        k_parse(out, "parse.locktime", "", &m, pl);
        k_parse(out, "parse.height", "", &m, ph);
        k_parse(out, "parse.sequence", "", &m, ps);
    }
}

fn text_outpoints(out: &mut Out, rng: &mut R, n: usize) {
    let p = |x: &str| OutPoint::from_str(x).ok().map(|o| hex(&serialize(&o)));
    let mut cases: Vec<OutPoint> = vec![OutPoint::default(), OutPoint::new(Txid::from_byte_array([0; 32]), 0), OutPoint::new(Txid::from_byte_array([0xff; 32]), u32::MAX)];
    for _ in 0..n {
        cases.push(OutPoint::new(Txid::from_byte_array(gen::arr32(rng)), gen::u32_edge(rng)));
    }
    for o in &cases {
        let s = o.to_string();
        out.k(format!("text.outpoint {}", hex(&serialize(o))), format!("ok {}", s));
        s_text(out, "outpoint", o, &|| hex(&serialize(o)));
        k_parse(out, "parse.outpoint", "", &s, p);
        let bare = s.trim_start_matches("[elements]").to_string();
        k_parse(out, "parse.outpoint", "", &bare, p);
        out.s("outpoint_prefix_optional", OutPoint::from_str(&bare).ok() == Some(*o), || s.clone());
        let (t, v) = bare.split_once(':').unwrap();
        for m in [
            format!("[elements][elements]{}", bare),
            format!("[elements]{}", &bare[..bare.len() - 1]),
            format!("{}:0{}", t, v),
            format!("{}:+{}", t, v),
            format!("{}:{}:", t, v),
            format!(":{}", v),
            format!("{}:", t),
            format!("{}{}", t, v),
            format!("{}:4294967296", t),
            format!("{}:{}", t.to_uppercase(), v),
            format!("{}:{}", &t[1..], v),
            format!("{}0:{}", t, v),
            format!("[Elements]{}", bare),
            format!(" {}", s),
            format!("{}:00", t),
            format!("{}:0", t),
            "[elements]".to_string(),
            "[element".to_string(),
        ] {
            k_parse(out, "parse.outpoint", "", &m, p);
        }
        for _ in 0..3 {
            let m = mut_str(rng, &s);
            k_parse(out, "parse.outpoint", "", &m, p);
        }
    }
}

const SIGHASH_STRINGS: &[&str] = &[
    "SIGHASH_DEFAULT", "SIGHASH_ALL", "SIGHASH_NONE", "SIGHASH_SINGLE", "SIGHASH_ALL|SIGHASH_ANYONECANPAY", "SIGHASH_NONE|SIGHASH_ANYONECANPAY",
    "SIGHASH_SINGLE|SIGHASH_ANYONECANPAY", "SIGHASH_RESERVED", "sighash_all", "SIGHASH_ALL ", " SIGHASH_ALL", "SIGHASH_ANYONECANPAY|SIGHASH_ALL",
    "SIGHASH_ALL | SIGHASH_ANYONECANPAY", "ALL", "", "0x", "0x0", "0x1", "0x01", "1", "ff", "FF", "0xff", "0xFF", "0XFF", "0x0x1f", "0x+ff", "+ff", "-1",
    "0xffffffff", "0x100000000", "ffffffff", "100000000", "0x00000000000000001", "0x 1", "0x1 ", "x1", "0x0x", "00x1", "g", "0xg", "١",
];

fn text_sighash(out: &mut Out, rng: &mut R, n: usize) {
    let pe = |x: &str| EcdsaSighashType::from_str(x).ok().map(|v| v.as_u32().to_string());
    let ps = |x: &str| SchnorrSighashType::from_str(x).ok().map(|v| (v as u8).to_string());
    let pp = |x: &str| pset::PsbtSighashType::from_str(x).ok().map(|v| v.to_u32().to_string());
    for s in SIGHASH_STRINGS {
        k_parse(out, "parse.ecdsa", "", s, pe);
        k_parse(out, "parse.schnorr", "", s, ps);
        k_parse(out, "parse.psbtsh", "", s, pp);
    }
    for v in [0x01u32, 0x02, 0x03, 0x81, 0x82, 0x83] {
        let t = EcdsaSighashType::from_standard(v).unwrap();
        out.k(format!("text.ecdsa {}", v), format!("ok {}", t));
        s_text_noeq(out, "ecdsa", &t.to_string(), EcdsaSighashType::from_str(&t.to_string()).ok() == Some(t));
    }
    for v in [0x00u8, 0x01, 0x02, 0x03, 0x81, 0x82, 0x83, 0xff] {
        let t = if v == 0xff { SchnorrSighashType::Reserved } else { SchnorrSighashType::from_u8(v).unwrap() };
        out.k(format!("text.schnorr {}", v), format!("ok {}", t));
        s_text(out, "schnorr", &t, &|| v.to_string());
    }
    let mut vals: Vec<u32> = (0..=0x100).collect();
    vals.extend([0x181, 0xffff, 0x10000, 0x7fffffff, 0x80000000, 0xfffffffe, 0xffffffff]);
    for _ in 0..n {
        vals.push(rng.gen());
        vals.push(rng.gen_range(0..0x10000));
    }
    for v in vals {
        let t = pset::PsbtSighashType::from_u32(v);
        let s = t.to_string();
        out.k(format!("text.psbtsh {}", v), format!("ok {}", s));
        s_text(out, "psbtsh", &t, &|| v.to_string());
        k_parse(out, "parse.psbtsh", "", &s, pp);
        if v > 0x100 || v % 16 == 0 {
            let m = mut_str(rng, &s);
            k_parse(out, "parse.psbtsh", "", &m, pp);
        }
    }
}
fn s_text_noeq(out: &mut Out, ty: &str, s: &str, ok: bool) {
    out.s(&format!("text_roundtrip.{}", ty), ok, || s.to_string());
}

fn text_bf(out: &mut Out, rng: &mut R, n: usize) {
    let pa = |x: &str| AssetBlindingFactor::from_str(x).ok().map(|v| hex(v.into_inner().as_ref()));
    let pv = |x: &str| ValueBlindingFactor::from_str(x).ok().map(|v| hex(v.into_inner().as_ref()));
    let order = unhex("fffffffffffffffffffffffffffffffebaaedce6af48a03bbfd25e8cd0364141");
    let mut order_m1 = order.clone();
    order_m1[31] -= 1;
    let mut cases: Vec<Vec<u8>> = vec![vec![0; 32], order_m1.clone(), { let mut o = vec![0u8; 32]; o[31] = 1; o }, { let mut o = vec![0u8; 32]; o[0] = 1; o }];
    for _ in 0..n {
        cases.push(gen::tweak(rng).as_ref().to_vec());
    }
    for b in &cases {
        let a = AssetBlindingFactor::from_slice(b).unwrap();
        let v = ValueBlindingFactor::from_slice(b).unwrap();
        out.k(format!("text.bf {}", hex(b)), format!("ok {}", a));
        out.k(format!("text.bf {}", hex(b)), format!("ok {}", v));
        s_text(out, "abf", &a, &|| hex(b));
        s_text(out, "vbf", &v, &|| hex(b));
        let s = a.to_string();
        k_parse(out, "parse.bf", "", &s, pa);
        k_parse(out, "parse.bf", "", &s, pv);
        k_parse(out, "parse.bf", "", &s.to_uppercase(), pa);
        k_parse(out, "parse.bf", "", &hex_plain(b), pv);
        for _ in 0..2 {
            let m = mut_str(rng, &s);
            k_parse(out, "parse.bf", "", &m, pa);
        }
    }
    // out-of-range scalars (the group order and above) in reversed hex
    for bad in [order.clone(), vec![0xff; 32]] {
        let mut r = bad.clone();
        r.reverse();
        k_parse(out, "parse.bf", "", &hex_plain(&r), pa);
        k_parse(out, "parse.bf", "", &hex_plain(&bad), pv);
    }
}

fn text_b64(out: &mut Out, rng: &mut R, n: usize, psets: &[Pset]) {
    use bitcoin::base64::prelude::{Engine as _, BASE64_STANDARD};
    let p = |x: &str| BASE64_STANDARD.decode(x).ok().map(|b| hex(&b));
    for s in ["", "A", "AA", "AAA", "AAAA", "AA==", "AAA=", "AQ==", "AR==", "AQI=", "AQJ=", "A===", "====", "AA=A", "AA==AAAA", "AAAA\n", " AAAA", "AA-_", "AA+/", "AAAA=", "AAAAA", "AAAAAA==", "QUJD", "QUJDRA==", "QUJDRA", "QUJDRA=", "é", "AAAé"] {
        k_parse(out, "unb64", "", s, p);
    }
    for i in 0..n {
        let len = if i < 40 { i } else { rng.gen_range(0..200) };
        let b = gen::bytes(rng, len);
        let s = BASE64_STANDARD.encode(&b);
        out.k(format!("b64 {}", hex(&b)), format!("ok {}", s));
        k_parse(out, "unb64", "", &s, p);
        out.s("base64_roundtrip", BASE64_STANDARD.decode(&s).ok().as_deref() == Some(&b[..]), || hex(&b));
        let m = mut_str(rng, &s);
        k_parse(out, "unb64", "", &m, p);
        if s.ends_with('=') {
            k_parse(out, "unb64", "", s.trim_end_matches('='), p);
        }
    }
    for ps in psets {
        let b = serialize(ps);
        let s = ps.to_string();
        if b.len() < 20_000 {
            out.k(format!("b64 {}", hex(&b)), format!("ok {}", s));
        }
        let back = std::panic::catch_unwind(std::panic::AssertUnwindSafe(|| Pset::from_str(&s)));
        // the binary round trip is C07's business (its domain: PSETs the binary format can represent); the text layer
        // must add nothing to it: `from_str(to_string(p))` is exactly `deserialize(serialize(p))`
        let bin = std::panic::catch_unwind(std::panic::AssertUnwindSafe(|| deserialize::<Pset>(&b)));
        if matches!(&bin, Ok(Ok(p2)) if p2 == ps) {
            out.count("pset.binary_roundtrips");
            out.s("text_roundtrip.pset_base64", matches!(&back, Ok(Ok(p2)) if p2 == ps), || hex(&b));
        } else {
            out.count("pset.outside_binary_domain");
        }
        let same = match (&back, &bin) {
            (Ok(Ok(a)), Ok(Ok(c))) => a == c,
            (Ok(Err(_)), Ok(Err(_))) => true,
            _ => false,
        };
        out.s("pset_from_str_is_base64_then_deserialize", same, || hex(&b));
    }
    // size ladder: the text form is ONE base64 string of the whole binary encoding, whatever its length (a
    // formatter that works in pieces must not pad in the middle). Sizes around 2^16 and 2^17, all residues mod 3.
    if let Some(base) = psets.iter().find(|p| matches!(std::panic::catch_unwind(std::panic::AssertUnwindSafe(|| deserialize::<Pset>(&serialize(*p)))), Ok(Ok(ref q)) if q == *p)) {
        let base_len = {
            let mut q = base.clone();
            q.global.proprietary.insert(pset::raw::ProprietaryKey { prefix: b"evsz".to_vec(), subtype: 0, key: vec![] }, vec![0u8; 70_000]);
            serialize(&q).len() - 70_000
        };
        for target in [49_151usize, 49_152, 65_534, 65_535, 65_536, 65_537, 65_538, 65_539, 98_304, 98_305, 131_071, 131_072, 131_073, 131_074, 196_609] {
            let mut q = base.clone();
            let mut fill_len = target - base_len;
            let mut b = vec![];
            for _ in 0..3 {
                // the length prefix of the value changes width at 2^16: adjust until the target is met
                q.global.proprietary.insert(pset::raw::ProprietaryKey { prefix: b"evsz".to_vec(), subtype: 0, key: vec![] }, gen::bytes(rng, fill_len));
                b = serialize(&q);
                if b.len() == target { break }
                fill_len = fill_len + target - b.len();
            }
            out.count(if b.len() == target { "pset.size_ladder" } else { "pset.size_ladder_off_target" });
            let s = match std::panic::catch_unwind(std::panic::AssertUnwindSafe(|| q.to_string())) { Ok(s) => s, Err(_) => { out.s("pset_display_never_panics", false, || format!("len {}", b.len())); continue } };
            out.s("pset_text_is_one_base64_string", s == BASE64_STANDARD.encode(&b), || format!("binary length {}: text differs from base64(serialize) at char {:?}", b.len(), s.chars().zip(BASE64_STANDARD.encode(&b).chars()).position(|(x, y)| x != y)));
            if b.len() <= 66_000 {
                out.k(format!("b64 {}", hex(&b)), format!("ok {}", s));
            }
            let back = std::panic::catch_unwind(std::panic::AssertUnwindSafe(|| Pset::from_str(&s)));
            out.s("text_roundtrip.pset_base64", matches!(&back, Ok(Ok(p2)) if *p2 == q), || format!("binary length {}: {:?}", b.len(), back.as_ref().map(|r| r.as_ref().map(|_| "parsed-to-different-pset").map_err(|e| e.to_string()))));
        }
    }
}

// ------------------------------------------------------------------------------------------ generators (local)

fn btc_pubkey(rng: &mut R) -> bitcoin::PublicKey {
    let pk = gen::pubkey(rng);
    bitcoin::PublicKey { compressed: rng.gen_bool(0.7), inner: bitcoin::secp256k1::PublicKey::from_slice(&pk.serialize()).unwrap() }
}
fn xonly(rng: &mut R) -> zkp::XOnlyPublicKey {
    gen::pubkey(rng).x_only_public_key().0
}
fn key_source(rng: &mut R) -> bitcoin::bip32::KeySource {
    let fp = bitcoin::bip32::Fingerprint::from(<[u8; 4]>::try_from(&gen::bytes(rng, 4)[..]).unwrap());
    let n = rng.gen_range(0..5);
    let path: Vec<bitcoin::bip32::ChildNumber> = (0..n).map(|_| bitcoin::bip32::ChildNumber::from(gen::u32_edge(rng))).collect();
    (fp, bitcoin::bip32::DerivationPath::from(path))
}
fn xpub(rng: &mut R) -> bitcoin::bip32::Xpub {
    let secp = bitcoin::secp256k1::Secp256k1::new();
    let seed = gen::bytes(rng, 32);
    let net = if rng.gen_bool(0.5) { bitcoin::NetworkKind::Main } else { bitcoin::NetworkKind::Test };
    let xprv = bitcoin::bip32::Xpriv::new_master(net, &seed).unwrap();
    let xprv = if rng.gen_bool(0.5) { xprv.derive_priv(&secp, &[bitcoin::bip32::ChildNumber::from(rng.gen::<u32>())]).unwrap() } else { xprv };
    bitcoin::bip32::Xpub::from_priv(&secp, &xprv)
}
fn schnorr_sig(rng: &mut R) -> elements::SchnorrSig {
    let mut b = gen::bytes(rng, 64);
    let tys = [0x01u8, 0x02, 0x03, 0x81, 0x82, 0x83];
    if rng.gen_bool(0.6) {
        b.push(tys[rng.gen_range(0..tys.len())]);
    }
    elements::SchnorrSig::from_slice(&b).unwrap()
}
fn leaf_version(rng: &mut R) -> elements::taproot::LeafVersion {
    if rng.gen_bool(0.7) {
        elements::taproot::LeafVersion::default()
    } else {
        loop {
            let v: u8 = rng.gen::<u8>() & 0xfe;
            if let Ok(l) = elements::taproot::LeafVersion::from_u8(v) {
                return l;
            }
        }
    }
}
fn control_block(rng: &mut R) -> elements::taproot::ControlBlock {
    loop {
        let n = rng.gen_range(0..4);
        let mut b = vec![leaf_version(rng).as_u8() | rng.gen_range(0..2u8)];
        b.extend_from_slice(&xonly(rng).serialize());
        b.extend(gen::bytes(rng, 32 * n));
        if let Ok(c) = elements::taproot::ControlBlock::from_slice(&b) {
            return c;
        }
    }
}
fn tap_tree(rng: &mut R) -> pset::TapTree {
    use elements::taproot::TaprootBuilder;
    let shape: &[usize] = match rng.gen_range(0..4) {
        0 => &[0],
        1 => &[1, 1],
        2 => &[1, 2, 2],
        _ => &[2, 2, 2, 2],
    };
    let mut b = TaprootBuilder::new();
    for d in shape {
        b = if rng.gen_bool(0.8) { b.add_leaf_with_ver(*d, gen::script(rng), leaf_version(rng)).unwrap() } else { b.add_leaf(*d, gen::script(rng)).unwrap() };
    }
    pset::TapTree::from_inner(b).unwrap()
}
fn prop_key(rng: &mut R) -> pset::raw::ProprietaryKey {
    pset::raw::ProprietaryKey { prefix: if rng.gen_bool(0.5) { b"pset".to_vec() } else { let l = rng.gen_range(0..6); gen::bytes(rng, l) }, subtype: rng.gen(), key: { let l = rng.gen_range(0..8); gen::bytes(rng, l) } }
}
fn raw_key(rng: &mut R) -> pset::raw::Key {
    pset::raw::Key { type_value: rng.gen_range(0x20..0xfb), key: { let l = rng.gen_range(0..8); gen::bytes(rng, l) } }
}
fn btc_tx(rng: &mut R) -> bitcoin::Transaction {
    use bitcoin::{absolute, transaction, Amount, ScriptBuf, TxIn as BIn, TxOut as BOut, Witness};
    let nin = rng.gen_range(1..3);
    let nout = rng.gen_range(1..3);
    bitcoin::Transaction {
        version: transaction::Version(rng.gen_range(1..3)),
        lock_time: absolute::LockTime::from_consensus(gen::u32_edge(rng)),
        input: (0..nin)
            .map(|_| BIn {
                previous_output: bitcoin::OutPoint { txid: bitcoin::Txid::from_raw_hash(<bitcoin::hashes::sha256d::Hash as bitcoin::hashes::Hash>::from_byte_array(gen::arr32(rng))), vout: rng.gen_range(0..5) },
                script_sig: ScriptBuf::from_bytes({ let l = rng.gen_range(0..30); gen::bytes(rng, l) }),
                sequence: bitcoin::Sequence(gen::u32_edge(rng)),
                witness: if rng.gen_bool(0.5) { Witness::from_slice(&gen::stack(rng)) } else { Witness::new() },
            })
            .collect(),
        output: (0..nout).map(|_| BOut { value: Amount::from_sat(rng.gen_range(0..21_000_000u64 * 100_000_000)), script_pubkey: ScriptBuf::from_bytes({ let l = rng.gen_range(0..40); gen::bytes(rng, l) }) }).collect(),
    }
}

fn fill_input(rng: &mut R, i: &mut pset::Input) {
    macro_rules! maybe {
        ($p:expr, $e:expr) => {
            if rng.gen_bool($p) {
                Some($e)
            } else {
                None
            }
        };
    }
    if rng.gen_bool(0.3) { i.non_witness_utxo = Some(gen::tx(rng)); }
    if rng.gen_bool(0.4) { i.witness_utxo = Some({ let w = rng.gen_bool(0.5); gen::txout(rng, w) }); }
    for _ in 0..rng.gen_range(0..3) { let l = rng.gen_range(0..75); i.partial_sigs.insert(btc_pubkey(rng), gen::bytes(rng, l)); }
    i.sighash_type = maybe!(0.4, pset::PsbtSighashType::from_u32(if rng.gen_bool(0.7) { [0u32, 1, 2, 3, 0x81, 0x82, 0x83][rng.gen_range(0..7)] } else { rng.gen() }));
    i.redeem_script = maybe!(0.3, gen::script(rng));
    i.witness_script = maybe!(0.3, gen::script(rng));
    for _ in 0..rng.gen_range(0..3) { i.bip32_derivation.insert(btc_pubkey(rng), key_source(rng)); }
    if rng.gen_bool(0.3) { i.final_script_sig = Some(gen::script(rng)); }
    if rng.gen_bool(0.3) { i.final_script_witness = Some(gen::stack(rng)); }
    for _ in 0..rng.gen_range(0..2) { let l = rng.gen_range(0..40); let p = gen::bytes(rng, l); i.ripemd160_preimages.insert(elements::hashes::ripemd160::Hash::hash(&p), p); }
    for _ in 0..rng.gen_range(0..2) { let l = rng.gen_range(0..40); let p = gen::bytes(rng, l); i.sha256_preimages.insert(elements::hashes::sha256::Hash::hash(&p), p); }
    for _ in 0..rng.gen_range(0..2) { let l = rng.gen_range(0..40); let p = gen::bytes(rng, l); i.hash160_preimages.insert(elements::hashes::hash160::Hash::hash(&p), p); }
    for _ in 0..rng.gen_range(0..2) { let l = rng.gen_range(0..40); let p = gen::bytes(rng, l); i.hash256_preimages.insert(elements::hashes::sha256d::Hash::hash(&p), p); }
    if rng.gen_bool(0.3) { i.required_time_locktime = elements::locktime::Time::from_consensus(rng.gen_range(500_000_000..u32::MAX)).ok(); }
    if rng.gen_bool(0.3) { i.required_height_locktime = elements::locktime::Height::from_consensus(rng.gen_range(0..500_000_000)).ok(); }
    i.tap_key_sig = maybe!(0.3, schnorr_sig(rng));
    for _ in 0..rng.gen_range(0..2) { i.tap_script_sigs.insert((xonly(rng), elements::taproot::TapLeafHash::from_byte_array(gen::arr32(rng))), schnorr_sig(rng)); }
    for _ in 0..rng.gen_range(0..2) { i.tap_scripts.insert(control_block(rng), (gen::script(rng), leaf_version(rng))); }
    for _ in 0..rng.gen_range(0..2) { let n = rng.gen_range(0..3); i.tap_key_origins.insert(xonly(rng), ((0..n).map(|_| elements::taproot::TapLeafHash::from_byte_array(gen::arr32(rng))).collect(), key_source(rng))); }
    i.tap_internal_key = maybe!(0.3, xonly(rng));
    i.tap_merkle_root = maybe!(0.3, elements::taproot::TapNodeHash::from_byte_array(gen::arr32(rng)));
    i.issuance_value_amount = maybe!(0.2, gen::u64_edge(rng));
    i.issuance_value_comm = maybe!(0.2, gen::commitment(rng));
    i.issuance_value_rangeproof = maybe!(0.2, gen::rangeproof(rng));
    i.issuance_keys_rangeproof = maybe!(0.2, gen::rangeproof(rng));
    i.pegin_tx = maybe!(0.2, btc_tx(rng));
    i.pegin_txout_proof = maybe!(0.2, { let l = rng.gen_range(0..100); gen::bytes(rng, l) });
    i.pegin_genesis_hash = maybe!(0.2, BlockHash::from_byte_array(gen::arr32(rng)));
    i.pegin_claim_script = maybe!(0.2, gen::script(rng));
    i.pegin_value = maybe!(0.2, gen::u64_edge(rng));
    i.pegin_witness = maybe!(0.2, gen::stack(rng));
    i.issuance_inflation_keys = maybe!(0.2, gen::u64_edge(rng));
    i.issuance_inflation_keys_comm = maybe!(0.2, gen::commitment(rng));
    i.issuance_blinding_nonce = maybe!(0.2, gen::tweak(rng));
    i.issuance_asset_entropy = maybe!(0.2, gen::arr32(rng));
    i.in_utxo_rangeproof = maybe!(0.2, gen::rangeproof(rng));
    i.in_issuance_blind_value_proof = maybe!(0.2, gen::rangeproof(rng));
    i.in_issuance_blind_inflation_keys_proof = maybe!(0.2, gen::rangeproof(rng));
    i.amount = maybe!(0.3, gen::u64_edge(rng));
    i.blind_value_proof = maybe!(0.2, gen::rangeproof(rng));
    i.asset = maybe!(0.3, gen::asset_id(rng));
    i.blind_asset_proof = maybe!(0.2, gen::surjproof(rng));
    i.blinded_issuance = maybe!(0.2, rng.gen());
    for _ in 0..rng.gen_range(0..2) { let l = rng.gen_range(0..20); i.proprietary.insert(prop_key(rng), gen::bytes(rng, l)); }
    for _ in 0..rng.gen_range(0..2) { let l = rng.gen_range(0..20); i.unknown.insert(raw_key(rng), gen::bytes(rng, l)); }
}
fn fill_output(rng: &mut R, o: &mut pset::Output) {
    macro_rules! maybe {
        ($p:expr, $e:expr) => {
            if rng.gen_bool($p) {
                Some($e)
            } else {
                None
            }
        };
    }
    o.redeem_script = maybe!(0.3, gen::script(rng));
    o.witness_script = maybe!(0.3, gen::script(rng));
    for _ in 0..rng.gen_range(0..3) { o.bip32_derivation.insert(btc_pubkey(rng), key_source(rng)); }
    o.tap_internal_key = maybe!(0.3, xonly(rng));
    o.tap_tree = maybe!(0.3, tap_tree(rng));
    for _ in 0..rng.gen_range(0..2) { let n = rng.gen_range(0..3); o.tap_key_origins.insert(xonly(rng), ((0..n).map(|_| elements::taproot::TapLeafHash::from_byte_array(gen::arr32(rng))).collect(), key_source(rng))); }
    if rng.gen_bool(0.3) { o.amount = Some(gen::u64_edge(rng)); }
    if rng.gen_bool(0.3) { o.amount_comm = Some(gen::commitment(rng)); }
    if rng.gen_bool(0.3) { o.asset = Some(gen::asset_id(rng)); }
    if rng.gen_bool(0.3) { o.asset_comm = Some(gen::generator(rng)); }
    o.value_rangeproof = maybe!(0.3, gen::rangeproof(rng));
    o.asset_surjection_proof = maybe!(0.3, gen::surjproof(rng));
    o.blinding_key = maybe!(0.3, btc_pubkey(rng));
    o.ecdh_pubkey = maybe!(0.3, btc_pubkey(rng));
    o.blinder_index = maybe!(0.3, gen::u32_edge(rng));
    o.blind_value_proof = maybe!(0.2, gen::rangeproof(rng));
    o.blind_asset_proof = maybe!(0.2, gen::surjproof(rng));
    for _ in 0..rng.gen_range(0..2) { let l = rng.gen_range(0..20); o.proprietary.insert(prop_key(rng), gen::bytes(rng, l)); }
    for _ in 0..rng.gen_range(0..2) { let l = rng.gen_range(0..20); o.unknown.insert(raw_key(rng), gen::bytes(rng, l)); }
}
fn fill_global(rng: &mut R, g: &mut pset::Global) {
    if rng.gen_bool(0.3) { g.tx_data.tx_modifiable = Some(rng.gen()); }
    if rng.gen_bool(0.3) { g.tx_data.fallback_locktime = if rng.gen_bool(0.5) { None } else { Some(LockTime::from_consensus(gen::u32_edge(rng))) }; }
    for _ in 0..rng.gen_range(0..2) { g.xpub.insert(xpub(rng), key_source(rng)); }
    for _ in 0..rng.gen_range(0..3) { g.scalars.push(gen::tweak(rng)); }
    if rng.gen_bool(0.3) { g.elements_tx_modifiable_flag = Some(rng.gen()); }
    for _ in 0..rng.gen_range(0..2) { let l = rng.gen_range(0..20); g.proprietary.insert(prop_key(rng), gen::bytes(rng, l)); }
    for _ in 0..rng.gen_range(0..2) { let l = rng.gen_range(0..20); g.unknown.insert(raw_key(rng), gen::bytes(rng, l)); }
}
/// richness: 0 = `from_tx` only, 1 = a few fields, 2 = everything
fn gen_pset(rng: &mut R, base: Option<&Pset>, rich: u8) -> Pset {
    let mut p = match base {
        Some(b) => b.clone(),
        None => {
            let mut t = gen::tx(rng);
            if rng.gen_bool(0.85) {
                t.version = 2; // the PSET binary format (C07) only admits tx version 2
            }
            Pset::from_tx(t)
        }
    };
    if rich == 0 {
        return p;
    }
    fill_global(rng, &mut p.global);
    for i in p.inputs_mut() {
        if rich == 2 || rng.gen_bool(0.5) {
            fill_input(rng, i);
        }
    }
    for o in p.outputs_mut() {
        if rich == 2 || rng.gen_bool(0.5) {
            fill_output(rng, o);
        }
    }
    p
}

fn address(rng: &mut R) -> Address {
    let params: &'static AddressParams = [&AddressParams::LIQUID, &AddressParams::ELEMENTS, &AddressParams::LIQUID_TESTNET][rng.gen_range(0..3)];
    let blinder = if rng.gen_bool(0.5) { Some(gen::pubkey(rng)) } else { None };
    match rng.gen_range(0..9) {
        7 | 8 => {
            // any witness program the address format admits: version 1..16 with 2..40 bytes (every padding residue of
            // the 8→5 bit regrouping), version 0 with 20 or 32
            let ver = if rng.gen_bool(0.15) { 0u8 } else { rng.gen_range(1..17) };
            let len = if ver == 0 { if rng.gen_bool(0.5) { 20 } else { 32 } } else { rng.gen_range(2..41) };
            Address { params, payload: elements::address::Payload::WitnessProgram { version: bech32::Fe32::try_from(ver).unwrap(), program: gen::bytes(rng, len) }, blinding_pubkey: blinder }
        }
        0 => Address::p2pkh(&btc_pubkey(rng), blinder, params),
        1 => Address::p2sh(&gen::script(rng), blinder, params),
        2 => { let mut pk = btc_pubkey(rng); pk.compressed = true; Address::p2wpkh(&pk, blinder, params) }
        3 => { let mut pk = btc_pubkey(rng); pk.compressed = true; Address::p2shwpkh(&pk, blinder, params) }
        4 => Address::p2wsh(&gen::script(rng), blinder, params),
        5 => Address::p2shwsh(&gen::script(rng), blinder, params),
        _ => Address::p2tr(SECP256K1, xonly(rng), if rng.gen_bool(0.5) { Some(elements::taproot::TapNodeHash::from_byte_array(gen::arr32(rng))) } else { None }, blinder, params),
    }
}

fn secrets(rng: &mut R) -> TxOutSecrets {
    TxOutSecrets::new(gen::asset_id(rng), AssetBlindingFactor::from_slice(gen::tweak(rng).as_ref()).unwrap(), gen::u64_edge(rng), ValueBlindingFactor::from_slice(gen::tweak(rng).as_ref()).unwrap())
}

// ------------------------------------------------------------------------------------------ probe (separate process)

/// `evh probe c20-short-commitment <cbor hex> <value|asset>`: the real serde_cbor on a confidential value whose
/// commitment byte string is shorter than 33 bytes (may crash: run in a process of its own)
pub fn probe_short_commitment(args: &[String]) {
    let b = unhex(&args[0]);
    if args.get(1).map(|s| s.as_str()) == Some("asset") {
        let r: Result<Asset, _> = serde_cbor::from_slice(&b);
        println!("asset: {:?}", r.map(|v| hex(&serialize(&v))).map_err(|e| e.to_string()));
    } else {
        let r: Result<Value, _> = serde_cbor::from_slice(&b);
        println!("value: {:?}", r.map(|v| hex(&serialize(&v))).map_err(|e| e.to_string()));
    }
}

// ------------------------------------------------------------------------------------------ run

fn one_st<T: ST>(out: &mut Out, rng: &mut R, v: &T, mutations: usize) {
    k_serde(out, rng, v, mutations);
    let name = T::name();
    let short = name.replace('.', "_");
    s_formats(out, &short, v, &|| format!("{} {}", name, v.args()));
}

fn hashes_block<T: HK + PartialEq>(out: &mut Out, rng: &mut R, n: usize, muts: usize)
where
    <T as FromStr>::Err: Debug,
{
    let len = T::from_raw(&vec![0u8; if T::KIND.contains("script") && !T::KIND.starts_with('w') || T::KIND.ends_with("pubkeyhash") { 20 } else { 32 }]).raw().len();
    let mut cases: Vec<Vec<u8>> = vec![vec![0; len], vec![0xff; len], (0..len as u8).collect()];
    for _ in 0..n {
        cases.push(gen::bytes(rng, len));
    }
    for b in cases {
        let v = T::from_raw(&b);
        hash_text(out, rng, &v, muts);
        { let v = v; one_st(out, rng, &v, muts); }
    }
}

pub fn run(rng: &mut R, out: &mut Out) {
    let thorough = out.tier_thorough;
    let scale: usize = if thorough { 40 } else { 1 };
    c01::cfg_line(out);

    // ---------------- text forms
    hashes_block::<Txid>(out, rng, 3 * scale, 3);
    hashes_block::<Wtxid>(out, rng, 2 * scale, 2);
    hashes_block::<BlockHash>(out, rng, 2 * scale, 2);
    hashes_block::<TxMerkleNode>(out, rng, 2 * scale, 2);
    hashes_block::<ContractHash>(out, rng, 2 * scale, 2);
    hashes_block::<AssetId>(out, rng, 3 * scale, 3);
    hashes_block::<AssetEntropy>(out, rng, 2 * scale, 2);
    hashes_block::<DynafedRoot>(out, rng, 2 * scale, 2);
    hashes_block::<ParamsRoot>(out, rng, 2 * scale, 2);
    hashes_block::<ElidedRoot>(out, rng, 2 * scale, 2);
    hashes_block::<WScriptHash>(out, rng, 2 * scale, 2);
    hashes_block::<ScriptHash>(out, rng, 2 * scale, 2);
    hashes_block::<elements::taproot::TapLeafHash>(out, rng, 2 * scale, 2);
    hashes_block::<elements::taproot::TapNodeHash>(out, rng, 2 * scale, 2);
    hashes_block::<elements::taproot::TapTweakHash>(out, rng, 2 * scale, 2);
    hashes_block::<elements::PubkeyHash>(out, rng, 1 * scale, 2);
    hashes_block::<elements::WPubkeyHash>(out, rng, 1 * scale, 2);
    text_ints(out, rng, 30 * scale);
    text_outpoints(out, rng, 12 * scale);
    text_sighash(out, rng, 20 * scale);
    text_bf(out, rng, 10 * scale);

    // ---------------- PSETs: generated and harvested from the repository's own vectors
    let mut psets: Vec<Pset> = vec![];
    let mut harvested: Vec<Pset> = vec![];
    for h in c01::harvest_hex() {
        if let Ok(Ok(p)) = std::panic::catch_unwind(|| deserialize::<Pset>(&h)) {
            harvested.push(p);
        }
    }
    out.count_n("pset.harvested", harvested.len() as u64);
    psets.extend(harvested.iter().cloned());
    for i in 0..(10 * scale) {
        psets.push(gen_pset(rng, None, (i % 3) as u8));
    }
    for i in 0..(4 * scale).min(harvested.len().max(1) * 4) {
        if !harvested.is_empty() {
            let b = &harvested[i % harvested.len()];
            psets.push(gen_pset(rng, Some(b), 1 + (i % 2) as u8));
        }
    }
    // PSETs built through the mutation API (`add_*`, `insert_*`, `remove_*` in random order): the declared counts
    // must follow, so that the printed / serialized form parses back
    if let Some(pool) = psets.iter().find(|p| p.inputs().len() >= 2 && !p.outputs().is_empty()).cloned().or_else(|| psets.last().cloned()) {
        for _ in 0..(6 * scale) {
            let mut p = Pset::new_v2();
            let steps = rng.gen_range(1..8);
            let mut script = vec![];
            for _ in 0..steps {
                let inp = pool.inputs().get(rng.gen_range(0..pool.inputs().len().max(1))).cloned().unwrap_or_default();
                let outp = pool.outputs().get(rng.gen_range(0..pool.outputs().len().max(1))).cloned();
                let op = rng.gen_range(0..7);
                let (pi, po, ri, ro) = (rng.gen_range(0..=p.inputs().len()), rng.gen_range(0..=p.outputs().len()), rng.gen_range(0..p.inputs().len().max(1)), rng.gen_range(0..p.outputs().len().max(1)));
                script.push(format!("{}@{}/{}/{}/{}", op, pi, po, ri, ro));
                // the editing functions are total: a panic (e.g. a count that no longer follows the maps) is a finding
                let r = std::panic::catch_unwind(std::panic::AssertUnwindSafe(|| {
                    let mut q = p.clone();
                    match op {
                        0 => q.add_input(inp),
                        1 | 2 => q.insert_input(inp, pi),
                        3 => { if let Some(o) = outp { q.add_output(o); } }
                        4 => { if let Some(o) = outp { q.insert_output(o, po); } }
                        5 => { if !q.inputs().is_empty() { q.remove_input(ri); } }
                        _ => { if !q.outputs().is_empty() { q.remove_output(ro); } }
                    }
                    q
                }));
                match r {
                    Ok(q) => p = q,
                    Err(_) => { out.s("pset_editing_never_panics", false, || format!("steps {:?}", script)); break; }
                }
            }
            out.count("pset.built_through_mutation_api");
            out.s("pset_counts_follow_the_maps", p.n_inputs() == p.inputs().len() && p.n_outputs() == p.outputs().len(), || format!("n_inputs={} inputs={} n_outputs={} outputs={}", p.n_inputs(), p.inputs().len(), p.n_outputs(), p.outputs().len()));
            psets.push(p);
        }
    }
    // PSETs that are well-formed BY CONSTRUCTION (from_tx of an all-explicit transaction plus one class of addition):
    // here the text round trip is demanded outright, whatever the binary decoder does — uncompressed public keys
    // as map keys / values, control blocks with 0, 1, 127 and 128 merkle nodes, maximal derivation paths
    for k in 0..(8 * scale) {
        let mut t = gen::tx_wide(rng, 2, 2);
        for i in t.input.iter_mut() { *i = gen::txin(rng, gen::InKind::Plain, false); if i.previous_output.vout == 0xffff_ffff { i.previous_output.vout = 1; } }
        for o in t.output.iter_mut() {
            let mut spk = vec![0x00, 0x14]; spk.extend(gen::bytes(rng, 20));
            *o = elements::TxOut { asset: Asset::Explicit(gen::asset_id(rng)), value: Value::Explicit(1 + gen::u64_edge(rng) % 1000), nonce: Nonce::Null, script_pubkey: Script::from(spk), witness: TxOutWitness::default() };
        }
        let mut p = Pset::from_tx(t);
        let unc = |rng: &mut R| { let mut pk = btc_pubkey(rng); pk.compressed = false; pk };
        match k % 4 {
            0 => {
                p.inputs_mut()[0].partial_sigs.insert(unc(rng), gen::bytes(rng, 71));
                p.inputs_mut()[1].bip32_derivation.insert(unc(rng), key_source(rng));
                p.outputs_mut()[0].bip32_derivation.insert(unc(rng), key_source(rng));
                out.count("pset.constructed.uncompressed_keys");
            }
            1 | 2 => {
                for n in [0usize, 1, 127, 128] {
                    let cb = elements::taproot::ControlBlock {
                        leaf_version: leaf_version(rng), output_key_parity: if rng.gen_bool(0.5) { zkp::Parity::Even } else { zkp::Parity::Odd }, internal_key: xonly(rng),
                        merkle_branch: elements::taproot::TaprootMerkleBranch::from_inner((0..n).map(|_| elements::taproot::TapNodeHash::from_byte_array(gen::arr32(rng))).collect()).expect("<= 128 nodes"),
                    };
                    p.inputs_mut()[n % 2].tap_scripts.insert(cb, (gen::script(rng), leaf_version(rng)));
                }
                out.count("pset.constructed.control_blocks_0_1_127_128");
            }
            _ => {
                let mut pk = btc_pubkey(rng); pk.compressed = true;
                p.inputs_mut()[0].partial_sigs.insert(pk, gen::bytes(rng, 72));
                out.count("pset.constructed.compressed_key_control");
            }
        }
        let b = serialize(&p);
        let s = p.to_string();
        let back = std::panic::catch_unwind(std::panic::AssertUnwindSafe(|| Pset::from_str(&s)));
        out.s("text_roundtrip.pset_base64", matches!(&back, Ok(Ok(p2)) if *p2 == p), || format!("constructed PSET (variant {}): {} -> {:?}", k % 4, hex(&b), back.as_ref().map(|r| r.as_ref().map(|_| "parsed to a different PSET").map_err(|e| e.to_string()))));
        psets.push(p);
    }
    text_b64(out, rng, 60 * scale, &psets);

    // ---------------- serde: hand-written impls (K + S)
    let m = if thorough { 6 } else { 4 };
    for v in [Value::Null, Value::Explicit(0), Value::Explicit(1), Value::Explicit(u64::MAX), Value::Explicit(1 << 53), Value::Explicit((1 << 53) + 1), Value::Explicit(0x0102030405060708)] {
        { let v = v; one_st(out, rng, &v, m); }
    }
    { let v = Asset::Null; one_st(out, rng, &v, m); }
    { let v = Nonce::Null; one_st(out, rng, &v, m); }
    { let v = Nonce::Explicit([7; 32]); one_st(out, rng, &v, m); }
    for _ in 0..10 * scale {
        { let v = gen::value(rng); one_st(out, rng, &v, m); }
        { let v = gen::asset(rng); one_st(out, rng, &v, m); }
        { let v = gen::nonce(rng); one_st(out, rng, &v, m); }
    }
    for _ in 0..6 * scale {
        let t = gen::tweak(rng);
        { let v = AssetBlindingFactor::from_slice(t.as_ref()).unwrap(); one_st(out, rng, &v, m); }
        { let v = ValueBlindingFactor::from_slice(t.as_ref()).unwrap(); one_st(out, rng, &v, m); }
        { let v = gen::script(rng); one_st(out, rng, &v, 2); }
        { let v = OutPoint::new(Txid::from_byte_array(gen::arr32(rng)), gen::u32_edge(rng)); one_st(out, rng, &v, m); }
        { let v = LockTime::from_consensus(gen::u32_edge(rng)); one_st(out, rng, &v, m); }
        { let v = Sequence(gen::u32_edge(rng)); one_st(out, rng, &v, 2); }
        { let re = rng.gen_bool(0.5); let v = gen::issuance(rng, re); one_st(out, rng, &v, m); }
        { let v = gen::txin_witness(rng, true, true); one_st(out, rng, &v, m); }
        { let v = gen::txout_witness(rng); one_st(out, rng, &v, m); }
    }
    // `secp256k1::PublicKey::from_str` (behind `Nonce::Confidential` in human-readable formats) also takes 65-byte
    // uncompressed and hybrid keys; the value is the compressed key
    for _ in 0..4 * scale {
        let pk = gen::pubkey(rng);
        let u = pk.serialize_uncompressed().to_vec();
        let parity = u[64] & 1;
        let mut cases: Vec<Vec<u8>> = vec![u.clone()];
        for pre in [6u8, 7] {
            let mut h = u.clone();
            h[0] = pre;
            cases.push(h);
        }
        let mut bad = u.clone();
        bad[64] ^= 1;
        cases.push(bad);
        let mut short = u.clone();
        short.pop();
        cases.push(short);
        let _ = parity;
        for c in cases {
            for up in [false, true] {
                let hx = if up { hex_plain(&c).to_uppercase() } else { hex_plain(&c) };
                let t = Tok::Seq(vec![Tok::U(0, 2), Tok::Str(hx)]);
                let r = of_result::<Nonce>(&t, true);
                out.count(&format!("nonce.uncompressed.{}", if r.starts_with("ok") { "ok" } else { "err" }));
                out.k(format!("serde.of nonce 1 {}", t.show()), r);
            }
        }
    }
    { let v = AssetBlindingFactor::zero(); one_st(out, rng, &v, m); }
    { let v = ValueBlindingFactor::zero(); one_st(out, rng, &v, m); }
    { let v = Script::new(); one_st(out, rng, &v, 2); }
    { let v = OutPoint::default(); one_st(out, rng, &v, m); }
    { let v = AssetIssuance::null(); one_st(out, rng, &v, m); }
    { let v = TxInWitness::empty(); one_st(out, rng, &v, m); }
    { let v = TxOutWitness::empty(); one_st(out, rng, &v, m); }
    for v in [0x01u32, 0x02, 0x03, 0x81, 0x82, 0x83] {
        { let v = EcdsaSighashType::from_standard(v).unwrap(); one_st(out, rng, &v, 2); }
    }
    for v in [0x00u8, 0x01, 0x02, 0x03, 0x81, 0x82, 0x83] {
        { let v = SchnorrSighashType::from_u8(v).unwrap(); one_st(out, rng, &v, 2); }
    }
    { let v = SchnorrSighashType::Reserved; one_st(out, rng, &v, 2); }
    for v in [0u32, 1, 0x83, 0xff, 0x100, 0x84, u32::MAX, rng.gen()] {
        { let v = pset::PsbtSighashType::from_u32(v); one_st(out, rng, &v, 2); }
    }
    { let v = Params::Null; one_st(out, rng, &v, m); }
    for _ in 0..8 * scale {
        { let v = gen::params(rng); one_st(out, rng, &v, m); }
    }
    // byte strings whose CONTENT reads as text: only hex digits (even and odd length, both cases), other ASCII,
    // multi-byte UTF-8 — a binary format must hand them back verbatim (never "decode" them), JSON prints them as hex
    {
        let texty: Vec<Vec<u8>> = vec![b"aa".to_vec(), b"cdef".to_vec(), b"0123456789abcdef".to_vec(), b"ABCDEF".to_vec(), b"abc".to_vec(), b"00".to_vec(),
            b"hello world".to_vec(), "é€😀".as_bytes().to_vec(), b"\"\\".to_vec(), b"null".to_vec(), b"[]".to_vec(), vec![0x61; 66]];
        for (i, t) in texty.iter().enumerate() {
            out.count("bytes.texty");
            let f = elements::dynafed::FullParams::new(Script::from(t.clone()), 1, elements::bitcoin::ScriptBuf::from_bytes(t.clone()), t.clone(), vec![t.clone(), texty[(i + 1) % texty.len()].clone()]);
            { let v = Params::Full(f.clone()); one_st(out, rng, &v, 1); }
            { let v = Params::Full(f.clone()).into_compact().unwrap(); one_st(out, rng, &v, 1); }
            { let v = Script::from(t.clone()); one_st(out, rng, &v, 1); }
            let mut h = gen::header(rng);
            h.ext = if i % 2 == 0 { elements::BlockExtData::Proof { challenge: Script::from(t.clone()), solution: Script::from(t.clone()) } } else { elements::BlockExtData::Dynafed { current: Params::Full(f.clone()), proposed: Params::Null, signblock_witness: vec![t.clone()] } };
            one_st(out, rng, &h, 1);
            let mut tx = gen::tx_wide(rng, 1, 1);
            tx.output[0].script_pubkey = Script::from(t.clone());
            tx.input[0].script_sig = Script::from(t.clone());
            tx.input[0].witness.script_witness = vec![t.clone(), vec![]];
            one_st(out, rng, &tx, 1);
        }
    }
    for _ in 0..6 * scale {
        { let v = gen::header(rng); one_st(out, rng, &v, m); }
    }
    for _ in 0..8 * scale {
        { let v = gen::tx(rng); one_st(out, rng, &v, m); }
    }
    { let v = gen::tx_wide(rng, 3, 0xfd); one_st(out, rng, &v, 1); }
    for _ in 0..2 * scale {
        { let v = gen::block(rng); one_st(out, rng, &v, 3); }
    }
    // the repository's own transaction / block vectors
    let mut n_tx = 0;
    for h in c01::harvest_hex() {
        if h.len() > 60_000 {
            continue;
        }
        if let Ok(Ok(t)) = std::panic::catch_unwind(|| deserialize::<Transaction>(&h)) {
            if n_tx < 6 * scale {
                { let v = t; one_st(out, rng, &v, 1); }
                n_tx += 1;
            }
        } else if let Ok(Ok(b)) = std::panic::catch_unwind(|| deserialize::<BlockHeader>(&h)) {
            { let v = b; one_st(out, rng, &v, 2); }
        }
    }

    // ---------------- serde: the serde_utils helper modules, reached through the map fields of pset::Input
    k_input_fields(out, rng, &pset::Input::default(), 2);
    for _ in 0..4 * scale {
        let i = input_with_maps(rng, 3);
        k_input_fields(out, rng, &i, m);
    }

    // ---------------- serde: types with derived impls or impls outside the model (S only)
    for _ in 0..10 * scale {
        let k = gen::in_kind(rng);
        let t = gen::txin(rng, k, true);
        s_formats(out, "txin", &t, &|| format!("txin {} witness {}", hex(&serialize(&t)), hex(&serialize(&t.witness))));
        let o = gen::txout(rng, true);
        s_formats(out, "txout", &o, &|| format!("txout {} witness {}", hex(&serialize(&o)), hex(&serialize(&o.witness))));
        let s = secrets(rng);
        s_formats(out, "txoutsecrets", &s, &|| format!("{:?}", s));
        let a = address(rng);
        s_formats(out, "address", &a, &|| a.to_string());
        s_text(out, "address", &a, &|| format!("{:?}", a));
        let e = match gen::header(rng).ext { x => x };
        s_formats(out, "extdata", &e, &|| hex(&serialize(&e)));
    }
    // every witness-program length the format admits (all padding residues), blinded and not: text and serde forms
    for ver in [1u8, 2, 16] {
        for len in 2..=40usize {
            for blinded in [false, true] {
                let params: &'static AddressParams = [&AddressParams::LIQUID, &AddressParams::ELEMENTS, &AddressParams::LIQUID_TESTNET][rng.gen_range(0..3)];
                let a = Address { params, payload: elements::address::Payload::WitnessProgram { version: bech32::Fe32::try_from(ver).unwrap(), program: gen::bytes(rng, len) }, blinding_pubkey: if blinded { Some(gen::pubkey(rng)) } else { None } };
                out.count("address.program_length_ladder");
                s_text(out, "address", &a, &|| format!("{:?}", a));
                if len % 5 == 4 || len % 7 == 0 {
                    s_formats(out, "address", &a, &|| a.to_string());
                }
            }
        }
    }
    let parity = |e: &str| e.contains("with value 0 or 1");
    for _ in 0..3 * scale {
        let t = tap_tree(rng);
        s_formats(out, "taptree", &t, &|| format!("{:?}", t));
        let c = control_block(rng);
        // finding C20-parity-json: `secp256k1::Parity` only implements `visit_u8`, serde_json hands over `visit_u64`
        s_formats_k(out, "controlblock", &c, &|| hex(&c.serialize()), &|fam, e| if fam != "cbor" && parity(e) && !e.contains("json=false") { Some("C20-parity-json") } else { None });
        let sg = schnorr_sig(rng);
        s_formats(out, "schnorrsig", &sg, &|| hex(&sg.to_vec()));
        let mut i = pset::Input::default();
        fill_input(rng, &mut i);
        let (ts, bm) = (!i.tap_scripts.is_empty(), input_has_byte_maps(&i));
        s_formats_k(out, "pset_input", &i, &|| format!("{:?}", i), &|fam, e| {
            if ts && fam != "cbor" && parity(e) && !e.contains("json=false") {
                Some("C20-parity-json")
            } else if bm && fam == "json_value" && e.contains("expected a borrowed string") {
                Some("C20-borrowed-str")
            } else {
                None
            }
        });
        let mut i2 = i.clone();
        neutral_input(&mut i2);
        s_formats(out, "pset_input_neutral", &i2, &|| format!("{:?}", i2));
        let mut o = pset::Output::default();
        fill_output(rng, &mut o);
        s_formats(out, "pset_output", &o, &|| format!("{:?}", o));
    }
    for (i, p) in psets.iter().enumerate() {
        if !thorough && i >= 24 {
            break;
        }
        let ts = p.inputs().iter().any(|i| !i.tap_scripts.is_empty());
        let bm = p.inputs().iter().any(input_has_byte_maps);
        let fl = p.global.tx_data.fallback_locktime.is_some();
        if ts { out.count("pset.has_tap_scripts"); }
        if bm { out.count("pset.has_byte_value_maps"); }
        if fl { out.count("pset.has_fallback_locktime"); }
        s_formats_k(out, "pset", p, &|| format!("pset {}", hex(&serialize(p))), &|fam, e| {
            let cbor_view = fam == "cbor" || (fam == "tokde" && e.contains("json=false"));
            if ts && !cbor_view && parity(e) {
                Some("C20-parity-json")
            } else if bm && fam == "json_value" && e.contains("expected a borrowed string") {
                Some("C20-borrowed-str")
            } else if fl && cbor_view && e.contains("invalid type: sequence, expected string or map") {
                Some("C20-cbor-flatten-enum")
            } else {
                None
            }
        });
        // the same PSET without the three triggering features: everything else must round-trip
        let mut q = p.clone();
        q.global.tx_data.fallback_locktime = None;
        for i in q.inputs_mut() {
            neutral_input(i);
        }
        s_formats(out, "pset_neutral", &q, &|| format!("pset(neutralised) {}", hex(&serialize(&q))));
    }

    // ---------------- serde: the derived impls inside the model (K)
    derive::run(rng, out, &psets);
}

fn input_has_byte_maps(i: &pset::Input) -> bool {
    !i.partial_sigs.is_empty() || !i.ripemd160_preimages.is_empty() || !i.sha256_preimages.is_empty() || !i.hash160_preimages.is_empty() || !i.hash256_preimages.is_empty()
}
fn neutral_input(i: &mut pset::Input) {
    i.tap_scripts.clear();
    i.partial_sigs.clear();
    i.ripemd160_preimages.clear();
    i.sha256_preimages.clear();
    i.hash160_preimages.clear();
    i.hash256_preimages.clear();
}
