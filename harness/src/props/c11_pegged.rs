//! C11 extension — the pegged-asset id of a network (src/issuance.rs) against EV.Model.PeggedAsset.
//! K: `pegged.consts`, `pegged`, `pegged.derive`, `assetid.show`, `assetid.text` (and more `contracthash`
//! documents: numbers in several spellings).
//! S: the crate's own vectors, "named networks return the documented constant whatever the scripts",
//! "a custom network's pegged asset is the issuance derivation over (commitment, 0) with the regtest
//! chain hash as contract hash" (oracle built from SHA-256 primitives only), "free coins are not
//! committed to", text round trips, key order / whitespace independence of contracts with floats.
use super::{comb, leaf};
use crate::{gen, hex, Out, Rng, R};
use elements::bitcoin::Network as BtcNetwork;
use elements::genesis::{commit_to_custom_network_parameters, genesis_block, NetworkParams};
use elements::hashes::{sha256, sha256d, Hash};
use elements::{confidential, AssetId, ContractHash, OutPoint, Script, Txid};
use std::str::FromStr;

fn params_str(p: &NetworkParams) -> String {
    format!("{} {} {} {}", hex(p.network_id.as_bytes()), hex(&p.fedpeg_script[..]), hex(&p.sign_block_script[..]), p.initial_free_coins)
}

fn chain32(n: BtcNetwork) -> [u8; 32] {
    let mut b = [0u8; 32];
    b.copy_from_slice(n.chain_hash().as_ref());
    b
}

fn lower_hex(b: &[u8]) -> String {
    b.iter().map(|x| format!("{:02x}", x)).collect()
}

/// the derivation from primitives only: sha256 of the hand-built commitment preimage, double SHA-256 of
/// the 36-byte outpoint, two SHA-256 compressions
fn oracle(p: &NetworkParams, parent: &[u8; 32]) -> [u8; 32] {
    let mut pre = p.network_id.as_bytes().to_vec();
    pre.extend_from_slice(lower_hex(&p.fedpeg_script[..]).as_bytes());
    pre.extend_from_slice(lower_hex(&p.sign_block_script[..]).as_bytes());
    let commit = sha256::Hash::hash(&pre).to_byte_array();
    let mut op = commit.to_vec();
    op.extend_from_slice(&0u32.to_le_bytes());
    let e = comb(&sha256d::Hash::hash(&op).to_byte_array(), parent);
    comb(&e, &leaf(0))
}

/// the public-API composition the private `pegged_asset_id_for_params_and_parent_chain_hash` consists of
fn derive_public(p: &NetworkParams, parent: [u8; 32]) -> AssetId {
    let commit = commit_to_custom_network_parameters(p);
    AssetId::new_issuance(OutPoint::new(Txid::from_byte_array(commit.to_byte_array()), 0), ContractHash::from_byte_array(parent))
}

const NAMED: &[&str] = &["liquidv1", "liquidtestnet"];
const NEAR_MISS: &[&str] = &[
    "liquidv1 ", " liquidv1", "LiquidV1", "LIQUIDV1", "liquidv1\0", "", "liquidtestnet2", "liquidtestne", "liquidv", "liquidv11",
    "liquidv2", "liquidtestnet\n", "liquidv1\u{200b}", "\u{217c}iquidv1", "liquidV1", "liquidtestnet ", "Liquidtestnet",
    "liquidv1liquidtestnet", "liquidtestnetliquidv1", "liquid", "liquidv\u{ff11}", "\u{feff}liquidv1", "liquidv1\t",
    "elementsregtest", "liquid-regtest", "liquidregtest", "regtest", "bitcoin", "testnet", "0", "a", "51", "ab51",
];

fn network_id(rng: &mut R) -> String {
    match rng.gen_range(0..12) {
        0 | 1 => NEAR_MISS[rng.gen_range(0..NEAR_MISS.len())].to_string(),
        2 => NAMED[rng.gen_range(0..2)].to_string(),
        3 => {
            // one edit away from a named id
            let mut c: Vec<char> = NAMED[rng.gen_range(0..2)].chars().collect();
            match rng.gen_range(0..4) {
                0 => { let i = rng.gen_range(0..c.len()); c.remove(i); }
                1 => { let i = rng.gen_range(0..=c.len()); c.insert(i, ['1', 'v', ' ', '\0', 'L', 't', '\u{e9}'][rng.gen_range(0..7)]); }
                2 => { let i = rng.gen_range(0..c.len()); c[i] = c[i].to_ascii_uppercase(); }
                _ => { let i = rng.gen_range(0..c.len() - 1); c.swap(i, i + 1); }
            }
            c.into_iter().collect()
        }
        4 | 5 => { let n = rng.gen_range(1..24); (0..n).map(|_| rng.gen_range(0x20u8..0x7f) as char).collect() }
        6 => { let n = rng.gen_range(1..10); (0..n).map(|_| loop { if let Some(c) = char::from_u32(rng.gen_range(0..0x11_0000)) { break c; } }).collect() }
        7 => { let n = [55usize, 56, 63, 64, 65, 119, 120, 200][rng.gen_range(0..8)]; (0..n).map(|_| b"0123456789abcdef"[rng.gen_range(0..16)] as char).collect() }
        _ => { let n = rng.gen_range(0..40); (0..n).map(|_| rng.gen_range(0x61u8..0x7b) as char).collect() }
    }
}

fn net_script(rng: &mut R) -> Script {
    match rng.gen_range(0..12) {
        0 => Script::new(),
        1 => Script::from(vec![0x51]),
        2 => Script::from(vec![rng.gen()]),
        3 => NetworkParams::liquidv1().fedpeg_script,
        4 => NetworkParams::liquidv1().sign_block_script,
        5 => NetworkParams::liquidtestnet().sign_block_script,
        6 => NetworkParams::liquidtestnet().fedpeg_script,
        7 => { let n = [55usize, 56, 64, 119, 120, 252, 253, 1000][rng.gen_range(0..8)]; Script::from(gen::bytes(rng, n)) }
        8 => Script::from((0..=255u8).collect::<Vec<u8>>()),
        _ => gen::script(rng),
    }
}

fn coins(rng: &mut R) -> u64 {
    match rng.gen_range(0..8) { 0 | 1 => 0, 2 => 1, 3 => u64::MAX, 4 => 2_100_000_000_000_000, _ => gen::u64_edge(rng) }
}

fn parent(rng: &mut R) -> [u8; 32] {
    match rng.gen_range(0..8) {
        0 => chain32(BtcNetwork::Regtest),
        1 => chain32(BtcNetwork::Bitcoin),
        2 => chain32(BtcNetwork::Testnet),
        3 => [0u8; 32],
        4 => leaf(1),
        5 => [0xff; 32],
        _ => gen::arr32(rng),
    }
}

fn one_params(rng: &mut R, out: &mut Out, p: &NetworkParams, tag: &str) {
    let ps = params_str(p);
    out.count(&format!("pegged.{}", tag));
    let mut got: Option<AssetId> = None;
    let res = Out::guard(|| {
        let a = AssetId::pegged_asset_id_for_network_params(p);
        got = Some(a);
        format!("ok {}", hex(&a.to_byte_array()))
    });
    out.k(format!("pegged {}", ps), res);
    out.s("pegged_never_panics", got.is_some(), || ps.clone());
    let a = match got { Some(a) => a, None => return };
    let named = match p.network_id.as_str() { "liquidv1" => Some(AssetId::LIQUID_BTC), "liquidtestnet" => Some(AssetId::LIQUIDTESTNET_BTC), _ => None };
    match named {
        Some(c) => {
            out.count("pegged.named");
            let real = params_str(p) == params_str(&NetworkParams::liquidv1()) || params_str(p) == params_str(&NetworkParams::liquidtestnet());
            out.count(if real { "pegged.named.real_scripts" } else { "pegged.named.altered_scripts" });
            // "The asset ID for L-BTC, Bitcoin on the Liquid network": selected by the name alone
            out.s("pegged_named_network_is_the_constant", a == c, || ps.clone());
        }
        None => {
            out.count("pegged.custom");
            if !p.network_id.is_ascii() { out.count("pegged.custom.non_ascii_id"); }
            if p.network_id.starts_with("liquid") { out.count("pegged.custom.liquid_prefix"); }
            let reg = chain32(BtcNetwork::Regtest);
            // the C11 derivation: outpoint (commitment, 0), contract-hash position = parent (regtest) chain hash
            out.s("pegged_custom_is_issuance_derivation", a.to_byte_array() == oracle(p, &reg), || ps.clone());
            out.s("pegged_custom_is_new_issuance_public_api", a == derive_public(p, reg), || ps.clone());
            out.s("pegged_custom_differs_from_constants", a != AssetId::LIQUID_BTC && a != AssetId::LIQUIDTESTNET_BTC, || ps.clone());
            // the free coins are not part of the commitment
            let mut q = p.clone();
            q.initial_free_coins = if p.initial_free_coins == 0 { 21 } else { 0 };
            out.s("pegged_ignores_free_coins", AssetId::pegged_asset_id_for_network_params(&q) == a, || ps.clone());
            // bridge to the genesis block: the asset issued there (zero contract hash) spends the same
            // outpoint and is a different asset
            if p.initial_free_coins > 0 && p.sign_block_script.len() < 2000 {
                let b = genesis_block(p);
                if let Some(t1) = b.txdata.get(1) {
                    let i = &t1.input[0];
                    let commit = commit_to_custom_network_parameters(p).to_byte_array();
                    let same_outpoint = i.previous_output == OutPoint::new(Txid::from_byte_array(commit), 0);
                    let gen_asset = i.issuance_ids().0;
                    out.s("genesis_asset_spends_pegged_outpoint", same_outpoint
                        && t1.output[0].asset == confidential::Asset::Explicit(gen_asset)
                        && gen_asset.to_byte_array() == oracle(p, &[0u8; 32]), || ps.clone());
                    out.s("genesis_asset_differs_from_pegged", gen_asset != a, || ps.clone());
                    out.count("pegged.custom.with_genesis_asset");
                }
            }
        }
    }
    // the derivation with an explicit parent (the private function, through the public functions it calls)
    let par = parent(rng);
    let res = Out::guard(|| format!("ok {}", hex(&derive_public(p, par).to_byte_array())));
    out.k(format!("pegged.derive {} {} {} {}", hex(p.network_id.as_bytes()), hex(&p.fedpeg_script[..]), hex(&p.sign_block_script[..]), hex(&par)), res);
    out.s("derive_public_is_oracle", derive_public(p, par).to_byte_array() == oracle(p, &par), || format!("{} parent={}", ps, hex(&par)));
}

fn consts(out: &mut Out) {
    let res = Out::guard(|| {
        format!("ok {} {} {} {} {} {} {}", hex(&AssetId::LIQUID_BTC.to_byte_array()), hex(&AssetId::LIQUIDTESTNET_BTC.to_byte_array()),
            hex(&chain32(BtcNetwork::Regtest)), hex(&chain32(BtcNetwork::Bitcoin)), hex(&chain32(BtcNetwork::Testnet)),
            AssetId::LIQUID_BTC, AssetId::LIQUIDTESTNET_BTC)
    });
    out.k("pegged.consts".to_string(), res);
    // src/issuance.rs tests `liquid` and `liquid_asset_ids`
    out.s("pegged_repo_vectors", AssetId::LIQUID_BTC.to_string() == "6f0279e9ed041c3d710a9f57d0c02928416460c4b722ae3457a11eec381c526d", || "LIQUID_BTC display".into());
    let v1: [u8; 32] = [0x23, 0x0f, 0x4f, 0x5d, 0x4b, 0x7c, 0x6f, 0xa8, 0x45, 0x80, 0x6e, 0xe4, 0xf6, 0x77, 0x13, 0x45, 0x9e, 0x1b, 0x69, 0xe8, 0xe6, 0x0f, 0xce, 0xe2, 0xe4, 0x94, 0x0c, 0x7a, 0x0d, 0x5d, 0xe1, 0xb2];
    let v2: [u8; 32] = [0x5c, 0xe7, 0xb9, 0x63, 0xd3, 0x7f, 0x8f, 0x2d, 0x51, 0xca, 0xfb, 0xba, 0x92, 0x8a, 0xaa, 0x9e, 0x22, 0x0b, 0x8b, 0xbc, 0x66, 0x05, 0x71, 0x49, 0x9c, 0x03, 0x62, 0x8a, 0x38, 0x51, 0xb8, 0xce];
    for (name, want) in [("elementsregtest", v1), ("liquid-regtest", v2)] {
        let p = NetworkParams::custom_network(name.to_string(), None, None, None);
        out.s("pegged_repo_vectors", AssetId::pegged_asset_id_for_network_params(&p).to_byte_array() == want, || name.to_string());
    }
    out.s("pegged_repo_vectors", derive_public(&NetworkParams::liquidv1(), chain32(BtcNetwork::Bitcoin)) == AssetId::LIQUID_BTC, || "liquidv1 / bitcoin mainnet".into());
    out.s("pegged_repo_vectors", derive_public(&NetworkParams::liquidtestnet(), [0u8; 32]) == AssetId::LIQUIDTESTNET_BTC, || "liquidtestnet / zero parent".into());
    // recorded as a fact, not demanded by any documentation: the testnet constant is NOT the derivation
    // with the bitcoin testnet chain hash
    out.count(if derive_public(&NetworkParams::liquidtestnet(), chain32(BtcNetwork::Testnet)) == AssetId::LIQUIDTESTNET_BTC { "pegged.fact.testnet_const_is_testnet3_derivation" } else { "pegged.fact.testnet_const_is_not_testnet3_derivation" });
}

// ------------------------------------------------------------------ text forms
fn show(out: &mut Out, a: AssetId) {
    let b = a.to_byte_array();
    let res = Out::guard(|| {
        let tag = a.into_tag();
        let tb: &[u8] = tag.as_ref();
        format!("ok {} {:x} {:X} {:?} {} {}", a, a, a, a, hex(tb), hex(AssetId::from_byte_array(b).as_byte_array()))
    });
    out.k(format!("assetid.show {}", hex(&b)), res);
    let mut r = b;
    r.reverse();
    out.s("assetid_display_is_reversed_lower_hex", a.to_string() == lower_hex(&r), || hex(&b));
    out.s("assetid_text_roundtrip", AssetId::from_str(&a.to_string()) == Ok(a) && AssetId::from_str(&format!("{:X}", a)) == Ok(a), || hex(&b));
    out.s("assetid_into_tag_keeps_bytes", { let t = a.into_tag(); let tb: &[u8] = t.as_ref(); tb == &b[..] }, || hex(&b));
}

fn parse(out: &mut Out, s: &str) {
    let res = Out::guard(|| match AssetId::from_str(s) {
        Ok(a) => format!("ok {} {}", hex(&a.to_byte_array()), a),
        Err(_) => "err".to_string(),
    });
    out.count(if res.starts_with("ok") { "assetid.text.ok" } else { "assetid.text.err" });
    out.s("assetid_parser_never_panics", res != "panic", || format!("{:?}", s));
    if let Ok(a) = AssetId::from_str(s) {
        // whatever parses prints back to the lower-cased input
        out.s("assetid_parse_then_display", a.to_string() == s.to_ascii_lowercase(), || format!("{:?}", s));
    }
    out.k(format!("assetid.text {}", hex(s.as_bytes())), res);
}

fn text_forms(rng: &mut R, out: &mut Out, n: usize) {
    let mut ids = vec![AssetId::LIQUID_BTC, AssetId::LIQUIDTESTNET_BTC, AssetId::default(), AssetId::from_byte_array([0xff; 32]),
        AssetId::from_byte_array(leaf(1)), AssetId::from_byte_array({ let mut l = [0u8; 32]; l[31] = 0xab; l })];
    ids.push(AssetId::from_byte_array({ let mut l = [0u8; 32]; for (i, x) in l.iter_mut().enumerate() { *x = (i as u8).wrapping_mul(8).wrapping_add(0x0a); } l }));
    for _ in 0..n { ids.push(gen::asset_id(rng)); }
    for a in ids {
        show(out, a);
        let s = a.to_string();
        let upper = s.to_uppercase();
        let mixed: String = s.chars().enumerate().map(|(i, c)| if i % 3 == 0 { c.to_ascii_uppercase() } else { c }).collect();
        let fwd = lower_hex(&a.to_byte_array());
        for t in [s.clone(), upper, mixed, fwd, s[..63].to_string(), s[1..].to_string(), format!("{}0", s), format!("0{}", s), s[..62].to_string(),
            format!("{}00", s), format!("0x{}", &s[2..]), format!("0x{}", s), format!(" {}", &s[1..]), format!("{} ", &s[..63]), format!("{}g", &s[..63]),
            format!("{}\u{e9}", &s[..62]), format!("{}\u{e9}", &s[..63]), format!("+{}", &s[1..]), s.replace('a', "\u{ff41}")] {
            parse(out, &t);
        }
    }
    for t in ["", "0", "00", "6f0279e9ed041c3d710a9f57d0c02928416460c4b722ae3457a11eec381c526d", "6F0279E9ED041C3D710A9F57D0C02928416460C4B722AE3457A11EEC381C526D",
        "6d521c38ec1ea15734ae22b7c46064412829c0d0579f0a713d1c04ede979026f", "zz", "\0"] {
        parse(out, t);
    }
    for len in [1usize, 2, 31, 32, 33, 62, 63, 64, 65, 66, 127, 128, 129] {
        let t: String = (0..len).map(|_| b"0123456789abcdefABCDEF"[rng.gen_range(0..22)] as char).collect();
        parse(out, &t);
    }
}

// ------------------------------------------------------------------ contracts with numbers in several spellings
const NUMS: &[&str] = &[
    "0", "-0", "1", "-1", "10", "1.0", "1.00", "1.5", "-1.5", "1e2", "1E2", "1e+2", "1e-2", "100.0", "0.1", "0.10", "1e0", "0e0", "0.0", "-0.0",
    "18446744073709551615", "18446744073709551616", "-9223372036854775808", "-9223372036854775809", "1e19", "1e300", "1e-300",
    "123456789012345678901234567890", "0.30000000000000004", "2.5e-7", "9007199254740993",
];
/// not numbers by the JSON grammar
const BAD_NUMS: &[&str] = &["01", "1.", ".5", "1e", "+1", "0x10", "-", "--1", "1_0", "NaN", "Infinity", "1.e2", "1e+", "-01", "00"];

fn ch(t: &str) -> Option<[u8; 32]> {
    ContractHash::from_json_contract(t).ok().map(|c| c.to_byte_array())
}

fn is_float(n: &str) -> bool {
    matches!(serde_json::from_str::<serde_json::Value>(n), Ok(serde_json::Value::Number(x)) if x.is_f64())
}

fn number_contracts(rng: &mut R, out: &mut Out) {
    for n in NUMS {
        let a = format!("{{\"amount\":{},\"b\":{{\"z\":[{}],\"a\":{}}},\"a\":\"x\"}}", n, n, n);
        let shuffled = format!("{{ \"a\" : \"x\",\n\"b\":{{\"a\":{} ,\t\"z\":[ {} ]}} , \"amount\" :{}\r\n}} ", n, n, n);
        let (ha, hs) = (ch(&a), ch(&shuffled));
        out.s("contract_numbers_accepted", ha.is_some(), || a.clone());
        out.s("contract_numbers_perm_ws", ha == hs, || format!("{} VS {}", a, shuffled));
        if is_float(n) {
            // floats are outside the Lean model of serde_json's printer (checks.json `rule`): S only
            out.count("json.number.float");
        } else {
            out.count("json.number.integer");
            super::contract_op(out, &a);
            super::contract_op(out, &shuffled);
            // an integer is printed as written
            let sorted = format!("{{\"a\":\"x\",\"amount\":{},\"b\":{{\"a\":{},\"z\":[{}]}}}}", n, n, n);
            out.s("contract_hash_is_sha256_of_canonical_text", ha == Some(sha256::Hash::hash(sorted.as_bytes()).to_byte_array()), || a.clone());
        }
    }
    for n in BAD_NUMS {
        let a = format!("{{\"amount\":{}}}", n);
        out.s("contract_bad_number_rejected", ch(&a).is_none(), || a.clone());
        super::contract_op(out, &a);
    }
    // two spellings of the same float hash alike or not: recorded, not demanded
    for (x, y) in [("1.0", "1.00"), ("1e2", "100.0"), ("100", "100.0"), ("1E2", "1e+2"), ("-0", "-0.0"), ("0", "-0")] {
        let same = ch(&format!("{{\"a\":{}}}", x)) == ch(&format!("{{\"a\":{}}}", y));
        out.count(&format!("json.number.spelling.{}_vs_{}.{}", x, y, if same { "same" } else { "different" }));
    }
    let _ = rng;
}

pub fn run(rng: &mut R, out: &mut Out) {
    let scale = if out.tier_thorough { 20 } else { 1 };
    consts(out);
    // the two built-in networks with their real scripts
    one_params(rng, out, &NetworkParams::liquidv1(), "builtin");
    one_params(rng, out, &NetworkParams::liquidtestnet(), "builtin");
    // … and with altered scripts / coins: the id is selected by the name alone
    for name in NAMED {
        for k in 0..6 {
            let base = if *name == "liquidv1" { NetworkParams::liquidv1() } else { NetworkParams::liquidtestnet() };
            let other = if *name == "liquidv1" { NetworkParams::liquidtestnet() } else { NetworkParams::liquidv1() };
            let p = match k {
                0 => NetworkParams::new(name.to_string(), Script::new(), Script::new(), 0),
                1 => NetworkParams::new(name.to_string(), other.fedpeg_script.clone(), other.sign_block_script.clone(), other.initial_free_coins),
                2 => NetworkParams::new(name.to_string(), base.sign_block_script.clone(), base.fedpeg_script.clone(), base.initial_free_coins),
                3 => NetworkParams::custom_network(name.to_string(), None, None, None),
                4 => NetworkParams::new(name.to_string(), base.fedpeg_script.clone(), base.sign_block_script.clone(), base.initial_free_coins ^ 1),
                _ => NetworkParams::new(name.to_string(), net_script(rng), net_script(rng), coins(rng)),
            };
            one_params(rng, out, &p, "named_altered");
        }
    }
    // near-miss names, with the real scripts of liquidv1 and with the custom defaults
    for name in NEAR_MISS {
        let l = NetworkParams::liquidv1();
        one_params(rng, out, &NetworkParams::new(name.to_string(), l.fedpeg_script.clone(), l.sign_block_script.clone(), l.initial_free_coins), "near_miss");
        one_params(rng, out, &NetworkParams::custom_network(name.to_string(), None, None, None), "near_miss");
    }
    // the commitment has no separators: digits can move between the id and the fedpeg script
    for (a, b) in [(("ab", vec![0x51u8], vec![0x52u8]), ("ab51", vec![], vec![0x52u8])), (("x", vec![0x51, 0x52], vec![]), ("x", vec![0x51], vec![0x52])),
                   (("liquidv", vec![0x1au8], vec![]), ("liquidv1a", vec![], vec![]))] {
        let pa = NetworkParams::new(a.0.to_string(), Script::from(a.1), Script::from(a.2), 0);
        let pb = NetworkParams::new(b.0.to_string(), Script::from(b.1), Script::from(b.2), 0);
        one_params(rng, out, &pa, "split_pair");
        one_params(rng, out, &pb, "split_pair");
        out.count(if AssetId::pegged_asset_id_for_network_params(&pa) == AssetId::pegged_asset_id_for_network_params(&pb) { "pegged.split_pair.same_asset" } else { "pegged.split_pair.different_asset" });
    }
    // generated networks
    for _ in 0..150 * scale {
        let p = match rng.gen_range(0..4) {
            0 => {
                let f = if rng.gen_bool(0.5) { Some(net_script(rng)) } else { None };
                let s = if rng.gen_bool(0.5) { Some(net_script(rng)) } else { None };
                let c = if rng.gen_bool(0.5) { Some(coins(rng)) } else { None };
                NetworkParams::custom_network(network_id(rng), f, s, c)
            }
            _ => NetworkParams::new(network_id(rng), net_script(rng), net_script(rng), coins(rng)),
        };
        one_params(rng, out, &p, "generated");
    }
    text_forms(rng, out, 12 * scale);
    number_contracts(rng, out);
}
