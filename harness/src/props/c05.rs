//! C05 — amount verification rejects every tampered or unbalanced transaction
//!
//! Real code under test: `Transaction::verify_tx_amt_proofs`, `RangeProof::blind_value_proof(_verify)`,
//! `SurjectionProof::blind_asset_proof(_verify)`.  For the correspondence op the harness evaluates the
//! EC primitives itself (RangeProof::verify, SurjectionProof::verify, verify_commitments_sum_to_equal)
//! and sends their answers with the structure of the transaction; the model's verdict (with the
//! error variant and index) must equal the real one.
use super::c04::{self, Base, Shape};
use crate::{gen, hex, Out, Rng, R};
use elements::confidential::{Asset, AssetBlindingFactor, Nonce, Value, ValueBlindingFactor};
use elements::encode::{deserialize, serialize};
use elements::secp256k1_zkp::{self as zkp, All, Generator, PedersenCommitment, RangeProof, Secp256k1, SurjectionProof};
use elements::{
    AssetId, BlindAssetProofs, BlindValueProofs, LockTime, Script, Transaction, TxOut, TxOutError, TxOutWitness,
    VerificationError,
};
use std::collections::BTreeMap;
use std::panic::{catch_unwind, AssertUnwindSafe};

fn toe(e: &TxOutError) -> &'static str {
    match e {
        TxOutError::UnExpectedNullValue => "UnExpectedNullValue",
        TxOutError::UnExpectedNullAsset => "UnExpectedNullAsset",
        TxOutError::NonUnspendableZeroValue => "NonUnspendableZeroValue",
        TxOutError::ZeroValueCommitment => "ZeroValueCommitment",
        TxOutError::IncorrectBlindingFactors => "IncorrectBlindingFactors",
    }
}
pub fn verdict(r: &std::thread::Result<Result<(), VerificationError>>) -> String {
    match r {
        Err(_) => "panic".into(),
        Ok(Ok(())) => "ok".into(),
        Ok(Err(e)) => match e {
            VerificationError::RangeProofError(i, _) => format!("err RangeProofError {}", i),
            VerificationError::RangeProofMissing(i) => format!("err RangeProofMissing {}", i),
            VerificationError::SurjectionProofError(i, _) => format!("err SurjectionProofError {}", i),
            VerificationError::SurjectionProofVerificationError(i) => format!("err SurjectionProofVerificationError {}", i),
            VerificationError::SurjectionProofMissing(i) => format!("err SurjectionProofMissing {}", i),
            VerificationError::SpentTxOutError(i, e) => format!("err SpentTxOutError {} {}", i, toe(e)),
            VerificationError::TxOutError(i, e) => format!("err TxOutError {} {}", i, toe(e)),
            VerificationError::IssuanceTransactionInput(i) => format!("err IssuanceTransactionInput {}", i),
            VerificationError::UtxoInputLenMismatch => "err UtxoInputLenMismatch".into(),
            VerificationError::BalanceCheckFailed => "err BalanceCheckFailed".into(),
        },
    }
}
pub fn real_verify(secp: &Secp256k1<All>, tx: &Transaction, utxos: &[TxOut]) -> String {
    verdict(&catch_unwind(AssertUnwindSafe(|| tx.verify_tx_amt_proofs(secp, utxos))))
}

fn shape(o: &TxOut) -> String {
    let a = match o.asset { Asset::Null => 'N', Asset::Explicit(_) => 'E', Asset::Confidential(_) => 'C' };
    let v = match o.value { Value::Null => 'N', Value::Explicit(0) => 'Z', Value::Explicit(_) => 'E', Value::Confidential(_) => 'C' };
    format!("{}{}", a, v)
}
fn vkind(v: &Value) -> String {
    match v { Value::Null => "n".into(), Value::Explicit(x) => format!("e{}", x), Value::Confidential(_) => "c".into() }
}

/// the harness's own reading of which generators / commitments enter the check
/// (None: a null field, an explicit zero where a commitment is needed)
fn commit_of(secp: &Secp256k1<All>, o: &TxOut) -> Option<PedersenCommitment> {
    match o.value {
        Value::Null => None,
        Value::Confidential(c) => Some(c),
        Value::Explicit(0) => None,
        Value::Explicit(v) => o.asset.into_asset_gen(secp).map(|g| PedersenCommitment::new_unblinded(secp, v, g)),
    }
}
fn domain_and_commits(secp: &Secp256k1<All>, tx: &Transaction, utxos: &[TxOut]) -> (Option<Vec<Generator>>, Option<Vec<PedersenCommitment>>) {
    if utxos.len() != tx.input.len() { return (None, None); }
    let mut dom = Some(vec![]);
    let mut ins = Some(vec![]);
    for (inp, u) in tx.input.iter().zip(utxos) {
        match u.asset.into_asset_gen(secp) { Some(g) => { if let Some(d) = dom.as_mut() { d.push(g) } } None => dom = None }
        match commit_of(secp, u) { Some(c) => { if let Some(d) = ins.as_mut() { d.push(c) } } None => ins = None }
        if inp.has_issuance() {
            let (aid, tid) = c04::oracle_ids(inp);
            for (amt, id) in [(inp.asset_issuance.amount, aid), (inp.asset_issuance.inflation_keys, tid)] {
                let g = Generator::new_unblinded(secp, id.into_tag());
                match amt {
                    Value::Null => {}
                    Value::Explicit(0) => { if let Some(d) = dom.as_mut() { d.push(g) } ins = None }
                    Value::Explicit(v) => { if let Some(d) = dom.as_mut() { d.push(g) } if let Some(d) = ins.as_mut() { d.push(PedersenCommitment::new_unblinded(secp, v, g)) } }
                    Value::Confidential(c) => { if let Some(d) = dom.as_mut() { d.push(g) } if let Some(d) = ins.as_mut() { d.push(c) } }
                }
            }
        }
    }
    (dom, ins)
}

thread_local! {
    static RP_CACHE: std::cell::RefCell<std::collections::HashMap<[u8; 32], bool>> = std::cell::RefCell::new(std::collections::HashMap::new());
}
/// the harness's own call of `RangeProof::verify` (memoised on a digest of all four arguments: most
/// outputs of a tampered copy are unchanged)
fn rangeproof_accepts(secp: &Secp256k1<All>, p: &RangeProof, c: PedersenCommitment, script: &[u8], g: Generator) -> bool {
    use elements::hashes::{sha256, Hash, HashEngine};
    let mut e = sha256::Hash::engine();
    let ps = p.serialize();
    e.input(&(ps.len() as u64).to_le_bytes());
    e.input(&ps);
    e.input(&c.serialize());
    e.input(&(script.len() as u64).to_le_bytes());
    e.input(script);
    e.input(&g.serialize());
    let key = sha256::Hash::from_engine(e).to_byte_array();
    if let Some(b) = RP_CACHE.with(|m| m.borrow().get(&key).copied()) {
        return b;
    }
    let r = catch_unwind(AssertUnwindSafe(|| p.verify(secp, c, script, g).is_ok()));
    let b = matches!(r, Ok(true));
    RP_CACHE.with(|m| { let mut m = m.borrow_mut(); if m.len() > 20_000 { m.clear(); } m.insert(key, b); });
    b
}

/// emit `verify.decide` for (tx, utxos); returns the real verdict
pub fn decide_case(out: &mut Out, secp: &Secp256k1<All>, tx: &Transaction, utxos: &[TxOut]) -> String {
    let real = real_verify(secp, tx, utxos);
    let (dom, ins) = domain_and_commits(secp, tx, utxos);
    let mut outs_c = Some(vec![]);
    let mut od = vec![];
    for o in &tx.output {
        match o.value {
            Value::Explicit(0) => {}
            _ => match commit_of(secp, o) { Some(c) => { if let Some(d) = outs_c.as_mut() { d.push(c) } } None => outs_c = None },
        }
        let rp = match (&o.witness.rangeproof, o.value, o.asset.into_asset_gen(secp)) {
            (None, _, _) => "m",
            (Some(p), Value::Confidential(c), Some(g)) => {
                if rangeproof_accepts(secp, p, c, o.script_pubkey.as_bytes(), g) { "t" } else { "f" }
            }
            _ => "f",
        };
        let sp = match (&o.witness.surjection_proof, o.asset, &dom) {
            (None, _, _) => "m",
            (Some(p), Asset::Confidential(g), Some(d)) => if p.verify(secp, g, d) { "t" } else { "f" },
            _ => "f",
        };
        od.push(c04::out_desc(o, Some((rp, sp))));
    }
    let sum = match (&ins, &outs_c) {
        (Some(a), Some(b)) => zkp::verify_commitments_sum_to_equal(secp, a, b),
        _ => false,
    };
    let idesc: Vec<String> = tx.input.iter().map(|i| format!("{}:{}", vkind(&i.asset_issuance.amount), vkind(&i.asset_issuance.inflation_keys))).collect();
    let ud: Vec<String> = utxos.iter().map(|u| c04::out_desc(u, None)).collect();
    out.k(format!("verify.decide {} {} {} {}", c04::join(&idesc), c04::join(&ud), c04::join(&od), if sum { "t" } else { "f" }), real.clone());
    real
}

fn det(tx: &Transaction, utxos: &[TxOut]) -> String {
    format!("tx {} utxos [{}]", hex(&serialize(tx)), utxos.iter().map(|u| hex(&serialize(u))).collect::<Vec<_>>().join(","))
}

/// one tampered copy: must be rejected with an error (`expect` = the exact verdict where the property names it)
fn tampered(out: &mut Out, secp: &Secp256k1<All>, class: &str, tx: &Transaction, utxos: &[TxOut], orig: (&Transaction, &[TxOut]), expect: Option<String>) {
    if tx == orig.0 && utxos == orig.1 {
        out.count("tamper.noop_skipped");
        return;
    }
    let real = decide_case(out, secp, tx, utxos);
    out.count(&format!("tamper.{}", class));
    out.count(&format!("tamper.verdict.{}", real.split(' ').take(2).collect::<Vec<_>>().join("_")));
    let name = format!("tamper_{}_rejected", class);
    out.s(&name, real.starts_with("err"), || format!("{} -> {}", det(tx, utxos), real));
    if let Some(e) = expect {
        // the property demands rejection; WHICH error is today's behaviour (pinned, also compared with the model by K)
        out.pin(&format!("tamper_{}_variant", class), real == e, || format!("{} -> {} (expected {})", det(tx, utxos), real, e));
    }
}

fn flip_proof_byte<T, F: Fn(&[u8]) -> Option<T>>(rng: &mut R, ser: &[u8], parse: F) -> Option<T> {
    for _ in 0..20 {
        let mut b = ser.to_vec();
        let i = rng.gen_range(0..b.len());
        b[i] ^= 1 << rng.gen_range(0..8);
        if let Some(p) = parse(&b) { return Some(p); }
    }
    None
}

/// every tamper class at every applicable position of a verifying (tx, utxos)
pub fn tamper_all(rng: &mut R, out: &mut Out, secp: &Secp256k1<All>, tx: &Transaction, utxos: &[TxOut]) {
    let orig = (tx, utxos);
    let bal = Some("err BalanceCheckFailed".to_string());
    // which shapes the tampered transaction has (asset kind, amount kind [Z = explicit 0], proofs present)
    for o in &tx.output {
        out.count(&format!("tampered.out.{}.proofs_{}{}", shape(o), if o.witness.rangeproof.is_some() { "r" } else { "-" }, if o.witness.surjection_proof.is_some() { "s" } else { "-" }));
    }
    for u in utxos {
        out.count(&format!("tampered.utxo.{}", shape(u)));
    }
    for i in &tx.input {
        out.count(&format!("tampered.issuance.{}{}", vkind(&i.asset_issuance.amount).chars().next().unwrap(), vkind(&i.asset_issuance.inflation_keys).chars().next().unwrap()));
    }
    let conf_v: Vec<usize> = (0..tx.output.len()).filter(|i| tx.output[*i].value.is_confidential()).collect();
    let conf_a: Vec<usize> = (0..tx.output.len()).filter(|i| tx.output[*i].asset.is_confidential()).collect();
    for i in 0..tx.output.len() {
        let o = &tx.output[i];
        // explicit amount / asset
        if let Value::Explicit(v) = o.value {
            if v > 0 || !c04::oracle_unspendable(&o.script_pubkey) {
                for nv in [v.wrapping_add(1), v.wrapping_sub(1), gen::u64_edge(rng)] {
                    if nv == v || nv == 0 { continue; }
                    let mut t = tx.clone();
                    t.output[i].value = Value::Explicit(nv);
                    tampered(out, secp, "explicit_amount", &t, utxos, orig, bal.clone());
                }
            }
            if v > 0 {
                // zero on a spendable script is refused as such; on an unspendable one the balance breaks
                let mut t = tx.clone();
                t.output[i].value = Value::Explicit(0);
                let e = if c04::oracle_unspendable(&o.script_pubkey) { bal.clone() } else { None };
                tampered(out, secp, "explicit_amount_to_zero", &t, utxos, orig, e);
                if let Asset::Explicit(_) = o.asset {
                    let mut t = tx.clone();
                    t.output[i].asset = Asset::Explicit(match rng.gen_range(0..2) { 0 => gen::asset_id(rng), _ => other_asset(rng, tx, i) });
                    tampered(out, secp, "explicit_asset", &t, utxos, orig, bal.clone());
                }
                let mut t = tx.clone();
                t.output[i].asset = Asset::Null;
                tampered(out, secp, "null_asset", &t, utxos, orig, None);
            }
            let mut t = tx.clone();
            t.output[i].value = Value::Null;
            tampered(out, secp, "null_value", &t, utxos, orig, None);
        }
        if let Value::Confidential(_) = o.value {
            // replace the value commitment; exchange it with another output's
            let mut t = tx.clone();
            t.output[i].value = Value::Confidential(gen::commitment(rng));
            tampered(out, secp, "replace_value_commitment", &t, utxos, orig, None);
            for j in conf_v.iter().filter(|j| **j > i) {
                let mut t = tx.clone();
                let (a, b) = (t.output[i].value, t.output[*j].value);
                t.output[i].value = b;
                t.output[*j].value = a;
                tampered(out, secp, "exchange_value_commitments", &t, utxos, orig, None);
            }
            // negated commitment (same x coordinate)
            let mut b = serialize(&o.value);
            b[0] ^= 1;
            if let Ok(v) = deserialize::<Value>(&b) {
                let mut t = tx.clone();
                t.output[i].value = v;
                tampered(out, secp, "negate_value_commitment", &t, utxos, orig, None);
            }
            // an explicit amount in place of the commitment
            // (a value no range proof admits, so it cannot be the committed one)
            let mut t = tx.clone();
            t.output[i].value = Value::Explicit(rng.gen_range((1u64 << 63)..u64::MAX));
            tampered(out, secp, "commitment_to_explicit", &t, utxos, orig, None);
            // range proof: removed, exchanged, corrupted
            let mut t = tx.clone();
            t.output[i].witness.rangeproof = None;
            tampered(out, secp, "remove_rangeproof", &t, utxos, orig, Some(format!("err RangeProofMissing {}", i)));
            for j in conf_v.iter().filter(|j| **j > i) {
                let mut t = tx.clone();
                let (a, b) = (t.output[i].witness.rangeproof.clone(), t.output[*j].witness.rangeproof.clone());
                t.output[i].witness.rangeproof = b;
                t.output[*j].witness.rangeproof = a;
                tampered(out, secp, "exchange_rangeproofs", &t, utxos, orig, Some(format!("err RangeProofError {}", i)));
            }
            if let Some(p) = &o.witness.rangeproof {
                if let Some(np) = flip_proof_byte(rng, &p.serialize(), |b| RangeProof::from_slice(b).ok()) {
                    let mut t = tx.clone();
                    t.output[i].witness.rangeproof = Some(Box::new(np));
                    tampered(out, secp, "corrupt_rangeproof", &t, utxos, orig, Some(format!("err RangeProofError {}", i)));
                }
            }
            // script of a blinded output
            let mut t = tx.clone();
            t.output[i].script_pubkey = match rng.gen_range(0..3) {
                0 => c04::addressable_script(rng),
                1 => Script::new(),
                _ => { let mut b = o.script_pubkey.to_bytes(); let k = rng.gen_range(0..b.len().max(1)); if b.is_empty() { b.push(1) } else { b[k] ^= 1 << rng.gen_range(0..8) }; Script::from(b) }
            };
            tampered(out, secp, "change_script", &t, utxos, orig, Some(format!("err RangeProofError {}", i)));
        }
        if let Asset::Confidential(_) = o.asset {
            let mut t = tx.clone();
            t.output[i].asset = Asset::Confidential(gen::generator(rng));
            tampered(out, secp, "replace_asset_commitment", &t, utxos, orig, None);
            // a well-formed commitment to an asset no input carries
            let mut t = tx.clone();
            t.output[i].asset = Asset::new_confidential(secp, gen::asset_id(rng), AssetBlindingFactor::new(rng));
            tampered(out, secp, "foreign_asset_commitment", &t, utxos, orig, None);
            // the asset made explicit (the foreign one, and any other)
            let mut t = tx.clone();
            t.output[i].asset = Asset::Explicit(gen::asset_id(rng));
            if t.output[i].value != Value::Explicit(0) {
                tampered(out, secp, "asset_commitment_to_explicit", &t, utxos, orig, None);
            }
            for j in conf_a.iter().filter(|j| **j > i) {
                let mut t = tx.clone();
                let (a, b) = (t.output[i].asset, t.output[*j].asset);
                t.output[i].asset = b;
                t.output[*j].asset = a;
                tampered(out, secp, "exchange_asset_commitments", &t, utxos, orig, None);
            }
            let mut t = tx.clone();
            t.output[i].witness.surjection_proof = None;
            tampered(out, secp, "remove_surjectionproof", &t, utxos, orig, Some(format!("err SurjectionProofMissing {}", i)));
            for j in conf_a.iter().filter(|j| **j > i) {
                let mut t = tx.clone();
                let (a, b) = (t.output[i].witness.surjection_proof.clone(), t.output[*j].witness.surjection_proof.clone());
                t.output[i].witness.surjection_proof = b;
                t.output[*j].witness.surjection_proof = a;
                tampered(out, secp, "exchange_surjectionproofs", &t, utxos, orig, None);
            }
            if let Some(p) = &o.witness.surjection_proof {
                if let Some(np) = flip_proof_byte(rng, &p.serialize(), |b| SurjectionProof::from_slice(b).ok()) {
                    let mut t = tx.clone();
                    t.output[i].witness.surjection_proof = Some(Box::new(np));
                    tampered(out, secp, "corrupt_surjectionproof", &t, utxos, orig, None);
                }
            }
        }
    }
    // issuances
    for i in 0..tx.input.len() {
        let iss = tx.input[i].asset_issuance;
        for which in 0..2 {
            let amt = if which == 0 { iss.amount } else { iss.inflation_keys };
            let set = |t: &mut Transaction, v: Value| { if which == 0 { t.input[i].asset_issuance.amount = v } else { t.input[i].asset_issuance.inflation_keys = v } };
            match amt {
                Value::Explicit(v) => {
                    for nv in [v.wrapping_add(1), v.wrapping_sub(1), gen::u64_edge(rng)] {
                        if nv == v || nv == 0 { continue; }
                        let mut t = tx.clone();
                        set(&mut t, Value::Explicit(nv));
                        tampered(out, secp, "issuance_amount", &t, utxos, orig, bal.clone());
                    }
                    let mut t = tx.clone();
                    set(&mut t, Value::Null);
                    tampered(out, secp, "issuance_removed", &t, utxos, orig, None);
                    // (once a panic inside PedersenCommitment::new; fixed in /repo 4f34601)
                    let mut t = tx.clone();
                    set(&mut t, Value::Explicit(0));
                    tampered(out, secp, "issuance_amount_zero", &t, utxos, orig, Some(format!("err IssuanceTransactionInput {}", i)));
                    let mut t = tx.clone();
                    set(&mut t, Value::Confidential(gen::commitment(rng)));
                    tampered(out, secp, "issuance_to_commitment", &t, utxos, orig, None);
                }
                Value::Confidential(_) => {
                    let mut t = tx.clone();
                    set(&mut t, Value::Confidential(gen::commitment(rng)));
                    tampered(out, secp, "issuance_commitment", &t, utxos, orig, None);
                    let mut t = tx.clone();
                    set(&mut t, Value::Null);
                    tampered(out, secp, "issuance_removed", &t, utxos, orig, None);
                }
                Value::Null => {
                    // an issuance out of thin air
                    let mut t = tx.clone();
                    set(&mut t, Value::Explicit(rng.gen_range(1..1000)));
                    tampered(out, secp, "issuance_added", &t, utxos, orig, None);
                }
            }
        }
        // entropy of an issuance: the issued asset changes
        if tx.input[i].has_issuance() {
            let mut t = tx.clone();
            t.input[i].asset_issuance.asset_entropy[rng.gen_range(0..32)] ^= 1;
            tampered(out, secp, "issuance_entropy", &t, utxos, orig, None);
        }
    }
    // different spent outputs
    for i in 0..utxos.len() {
        let u = &utxos[i];
        let mut us = utxos.to_vec();
        match u.value {
            Value::Explicit(v) => {
                us[i].value = Value::Explicit(if v == u64::MAX { v - 1 } else { v + 1 });
                tampered(out, secp, "utxo_amount", tx, &us, orig, bal.clone());
                us[i].value = Value::Explicit(0);
                tampered(out, secp, "utxo_amount_zero", tx, &us, orig, None);
            }
            _ => {
                us[i].value = Value::Confidential(gen::commitment(rng));
                tampered(out, secp, "utxo_value_commitment", tx, &us, orig, None);
            }
        }
        let mut us = utxos.to_vec();
        us[i].asset = match u.asset { Asset::Explicit(_) => Asset::Explicit(gen::asset_id(rng)), _ => Asset::Confidential(gen::generator(rng)) };
        tampered(out, secp, "utxo_asset", tx, &us, orig, None);
        let mut us = utxos.to_vec();
        us[i].value = Value::Null;
        tampered(out, secp, "utxo_null_value", tx, &us, orig, Some(format!("err SpentTxOutError {} UnExpectedNullValue", i)));
        let mut us = utxos.to_vec();
        us[i].asset = Asset::Null;
        tampered(out, secp, "utxo_null_asset", tx, &us, orig, Some(format!("err SpentTxOutError {} UnExpectedNullAsset", i)));
        for j in (i + 1)..utxos.len() {
            if (utxos[i].asset, utxos[i].value) == (utxos[j].asset, utxos[j].value) { continue; }
            let mut us = utxos.to_vec();
            us.swap(i, j);
            // swapping spent outputs keeps the sum; only the surjection domain order changes, which the
            // proofs do not bind to positions of equal-asset... so this may legitimately still verify
            let real = decide_case(out, secp, tx, &us);
            out.count(&format!("swap_utxos.{}", real.split(' ').take(2).collect::<Vec<_>>().join("_")));
        }
        let mut us = utxos.to_vec();
        us[i] = random_utxo(rng, secp);
        tampered(out, secp, "utxo_replaced", tx, &us, orig, None);
    }
    // wrong-length lists
    let lm = Some("err UtxoInputLenMismatch".to_string());
    let mut us = utxos.to_vec();
    us.pop();
    tampered(out, secp, "utxo_list_short", tx, &us, orig, lm.clone());
    let mut us = utxos.to_vec();
    us.push(utxos[utxos.len() - 1].clone());
    tampered(out, secp, "utxo_list_long", tx, &us, orig, lm.clone());
    tampered(out, secp, "utxo_list_empty", tx, &[], orig, lm.clone());
    let mut us = utxos.to_vec();
    us.insert(0, random_utxo(rng, secp));
    tampered(out, secp, "utxo_list_long", tx, &us, orig, lm);
    // an output removed / duplicated, an input (with its spent output) removed
    if tx.output.len() > 1 {
        let i = rng.gen_range(0..tx.output.len());
        if tx.output[i].value != Value::Explicit(0) {
            let mut t = tx.clone();
            t.output.remove(i);
            tampered(out, secp, "output_removed", &t, utxos, orig, None);
            let mut t = tx.clone();
            let o = t.output[i].clone();
            t.output.push(o);
            tampered(out, secp, "output_duplicated", &t, utxos, orig, None);
        }
    }
    if tx.input.len() > 1 {
        let i = rng.gen_range(0..tx.input.len());
        let mut t = tx.clone();
        t.input.remove(i);
        let mut us = utxos.to_vec();
        us.remove(i);
        tampered(out, secp, "input_removed", &t, &us, orig, None);
    }
}

fn other_asset(rng: &mut R, tx: &Transaction, i: usize) -> AssetId {
    let mine = tx.output[i].asset.explicit();
    for o in &tx.output {
        if let Some(a) = o.asset.explicit() {
            if Some(a) != mine { return a; }
        }
    }
    gen::asset_id(rng)
}
fn random_utxo(rng: &mut R, secp: &Secp256k1<All>) -> TxOut {
    let a = gen::asset_id(rng);
    let v = rng.gen_range(1..1_000_000u64);
    if rng.gen_bool(0.5) {
        TxOut { asset: Asset::Explicit(a), value: Value::Explicit(v), nonce: Nonce::Null, script_pubkey: c04::addressable_script(rng), witness: TxOutWitness::default() }
    } else {
        let abf = AssetBlindingFactor::new(rng);
        TxOut { asset: Asset::new_confidential(secp, a, abf), value: Value::new_confidential_from_assetid(secp, v, a, ValueBlindingFactor::new(rng), abf), nonce: Nonce::Null, script_pubkey: c04::addressable_script(rng), witness: TxOutWitness::default() }
    }
}

// ------------------------------------------------------------------------------------------------
// explicit-only transactions: verifies iff balanced per asset

fn explicit_case(rng: &mut R, out: &mut Out, secp: &Secp256k1<All>) {
    explicit_case_with(rng, out, secp, None)
}

/// scripts on both sides of every clause of `is_provably_unspendable`: length 9 999 / 10 000 / 10 001 with
/// and without a leading OP_RETURN, the empty script, a bare OP_RETURN, OP_RETURN's neighbours
pub fn boundary_scripts() -> Vec<Script> {
    let mut v = vec![Script::new(), Script::from(vec![0x6a]), Script::from(vec![0x69, 0x01, 0x00]), Script::from(vec![0x6b, 0x01, 0x00]), Script::from(vec![0x00, 0x6a])];
    for len in [9_999usize, 10_000, 10_001] {
        for first in [0x6au8, 0x51] {
            let mut b = vec![0x51u8; len];
            b[0] = first;
            v.push(Script::from(b));
        }
    }
    v
}

/// `zero_script`: instead of a random perturbation, a zero-value output on that script is added to the
/// (otherwise balanced) transaction
fn explicit_case_with(rng: &mut R, out: &mut Out, secp: &Secp256k1<All>, zero_script: Option<Script>) {
    let sh = Shape { n_in: rng.gen_range(1..=6), n_assets: rng.gen_range(1..=3), issuance: rng.gen_bool(0.4), max_outs: 3, zero_opreturn: rng.gen_bool(0.4), utxo_mode: 0, conf_issuance: false, seq: 0 };
    let mut base: Base = c04::base_tx(rng, secp, &sh);
    // all spent outputs explicit
    // (`spent` lists inputs and pseudo-inputs in the verifier's order)
    let mut si = 0;
    for (k, inp) in base.tx.input.iter().enumerate() {
        let s = base.spent[si];
        base.utxos[k] = TxOut { asset: Asset::Explicit(s.asset), value: Value::Explicit(s.value), nonce: Nonce::Null, script_pubkey: base.utxos[k].script_pubkey.clone(), witness: TxOutWitness::default() };
        si += 1;
        if !inp.asset_issuance.amount.is_null() { si += 1; }
        if !inp.asset_issuance.inflation_keys.is_null() { si += 1; }
    }
    let mut tx = base.tx.clone();
    let mut utxos = base.utxos.clone();
    if let Some(zs) = &zero_script {
        out.count(&format!("explicit.zero_output_script.len_{}_first_{}", zs.len(), zs.as_bytes().first().map(|b| format!("{:02x}", b)).unwrap_or("none".into())));
        let pos = rng.gen_range(0..=tx.output.len());
        let a = tx.output[0].asset;
        tx.output.insert(pos, TxOut { asset: a, value: Value::Explicit(0), nonce: Nonce::Null, script_pubkey: zs.clone(), witness: TxOutWitness::default() });
    }
    // perturbations that may or may not keep the balance
    match if zero_script.is_some() { 9 } else { rng.gen_range(0..10) } {
        0 => { let i = rng.gen_range(0..tx.output.len()); if let Value::Explicit(v) = tx.output[i].value { tx.output[i].value = Value::Explicit(v ^ (1 << rng.gen_range(0..64))); } }
        1 => { let i = rng.gen_range(0..tx.output.len()); tx.output[i].asset = Asset::Explicit(gen::asset_id(rng)); }
        2 => { let i = rng.gen_range(0..utxos.len()); if let Value::Explicit(v) = utxos[i].value { utxos[i].value = Value::Explicit(v ^ (1 << rng.gen_range(0..64))); } }
        3 => { // move one unit between two outputs of the same asset: stays balanced
            let n = tx.output.len();
            let (i, j) = (rng.gen_range(0..n), rng.gen_range(0..n));
            if i != j && tx.output[i].asset == tx.output[j].asset {
                if let (Value::Explicit(a), Value::Explicit(b)) = (tx.output[i].value, tx.output[j].value) {
                    if a > 1 && b > 0 && b < u64::MAX { tx.output[i].value = Value::Explicit(a - 1); tx.output[j].value = Value::Explicit(b + 1); }
                }
            }
        }
        4 => { // a zero-value output: admissible only on a provably unspendable script
            let s = if rng.gen_bool(0.5) { c04::odd_script(rng) } else { c04::addressable_script(rng) };
            let pos = rng.gen_range(0..=tx.output.len());
            tx.output.insert(pos, TxOut { asset: Asset::Explicit(gen::asset_id(rng)), value: Value::Explicit(0), nonce: Nonce::Null, script_pubkey: s, witness: TxOutWitness::default() });
        }
        5 => { // amounts that overflow u64 when added but balance mod 2^64 must not verify
            let a = gen::asset_id(rng);
            tx.output.push(TxOut { asset: Asset::Explicit(a), value: Value::Explicit(1 << 63), nonce: Nonce::Null, script_pubkey: c04::addressable_script(rng), witness: TxOutWitness::default() });
            tx.output.push(TxOut { asset: Asset::Explicit(a), value: Value::Explicit(1 << 63), nonce: Nonce::Null, script_pubkey: c04::addressable_script(rng), witness: TxOutWitness::default() });
        }
        _ => {}
    }
    let real = decide_case(out, secp, &tx, &utxos);
    // independent oracle
    let mut sums: BTreeMap<AssetId, i128> = BTreeMap::new();
    let mut admissible = utxos.len() == tx.input.len();
    for (inp, u) in tx.input.iter().zip(&utxos) {
        match (u.asset, u.value) {
            (Asset::Explicit(a), Value::Explicit(v)) if v > 0 => *sums.entry(a).or_insert(0) += v as i128,
            _ => admissible = false,
        }
        if inp.has_issuance() {
            let (aid, tid) = c04::oracle_ids(inp);
            for (amt, id) in [(inp.asset_issuance.amount, aid), (inp.asset_issuance.inflation_keys, tid)] {
                match amt { Value::Null => {}, Value::Explicit(v) if v > 0 => *sums.entry(id).or_insert(0) += v as i128, _ => admissible = false }
            }
        }
    }
    for o in &tx.output {
        match (o.asset, o.value) {
            (_, Value::Explicit(0)) => { if !c04::oracle_unspendable(&o.script_pubkey) { admissible = false } }
            (Asset::Explicit(a), Value::Explicit(v)) => *sums.entry(a).or_insert(0) -= v as i128,
            _ => admissible = false,
        }
    }
    let balanced = admissible && sums.values().all(|v| *v == 0);
    out.count(if balanced { "explicit.balanced" } else { "explicit.unbalanced" });
    out.s("explicit_tx_verifies_iff_balanced", (real == "ok") == balanced, || format!("{} -> {} (balanced per asset: {})", det(&tx, &utxos), real, balanced));
    out.s("explicit_tx_never_panics", real != "panic", || det(&tx, &utxos));
}

// ------------------------------------------------------------------------------------------------
// exact-value / exact-asset proofs

fn exact_proofs(rng: &mut R, out: &mut Out, secp: &Secp256k1<All>) {
    let id = gen::asset_id(rng);
    let abf = AssetBlindingFactor::new(rng);
    let vbf = ValueBlindingFactor::new(rng);
    let gen_ = match Asset::new_confidential(secp, id, abf) { Asset::Confidential(g) => g, _ => unreachable!() };
    let v = match rng.gen_range(0..5) { 0 => 1, 1 => u64::MAX - 1, 2 => (1 << 52) + 1, _ => rng.gen_range(1..u64::MAX - 1) };
    let comm = Value::new_confidential(secp, v, gen_, vbf).commitment().unwrap();
    let mut prng = R::clone(rng);
    match RangeProof::blind_value_proof(&mut prng, secp, v, comm, gen_, vbf) {
        Ok(p) => {
            out.count("bvp.made");
            let d = || format!("v={} asset={} abf={} vbf={}", v, id, c04::abf_hex(&abf), c04::vbf_hex(&vbf));
            out.s("blind_value_proof_accepts_value", p.blind_value_proof_verify(secp, v, gen_, comm), &d);
            out.s("blind_value_proof_rejects_other_value", !p.blind_value_proof_verify(secp, v + 1, gen_, comm) && !p.blind_value_proof_verify(secp, v - 1, gen_, comm), &d);
            let og = gen::generator(rng);
            out.s("blind_value_proof_rejects_other_generator", !p.blind_value_proof_verify(secp, v, og, comm), &d);
            out.s("blind_value_proof_rejects_other_commitment", !p.blind_value_proof_verify(secp, v, gen_, gen::commitment(rng)), &d);
            // decision logic of the verifier against the range the primitive reports
            for ev in [v, v + 1, v - 1] {
                let r = catch_unwind(AssertUnwindSafe(|| p.verify(secp, comm, &[], gen_)));
                let rs = match &r { Ok(Ok(rg)) => format!("{}:{}", rg.start, rg.end), _ => "e".to_string() };
                let real = Out::guard(|| format!("ok {}", if p.blind_value_proof_verify(secp, ev, gen_, comm) { "t" } else { "f" }));
                out.k(format!("bvp.verify {} {}", rs, ev), real);
            }
            let real = Out::guard(|| format!("ok {}", if p.blind_value_proof_verify(secp, v, og, comm) { "t" } else { "f" }));
            out.k(format!("bvp.verify e {}", v), real);
        }
        Err(_) => out.count("bvp.failed"),
    }
    match SurjectionProof::blind_asset_proof(&mut prng, secp, id, abf) {
        Ok(p) => {
            out.count("bap.made");
            let d = || format!("asset={} abf={}", id, c04::abf_hex(&abf));
            out.s("blind_asset_proof_accepts_asset", p.blind_asset_proof_verify(secp, id, gen_), &d);
            out.s("blind_asset_proof_rejects_other_asset", !p.blind_asset_proof_verify(secp, gen::asset_id(rng), gen_), &d);
            out.s("blind_asset_proof_rejects_other_commitment", !p.blind_asset_proof_verify(secp, id, gen::generator(rng)), &d);
        }
        Err(_) => out.count("bap.failed"),
    }
}


/// not a check, a recorded observation: a consensus-valid range proof over the full 64-bit range
/// makes secp256k1-zkp's `RangeProof::verify` compute `max_value + 1` (a dependency, not /repo);
/// with overflow checks on that is a panic inside verify_tx_amt_proofs, without them it wraps
fn probe_rangeproof64(rng: &mut R, out: &mut Out, secp: &Secp256k1<All>) {
    let a = gen::asset_id(rng);
    let v = 1000u64;
    let abf = AssetBlindingFactor::new(rng);
    let utxo = TxOut { asset: Asset::Explicit(a), value: Value::Explicit(v), nonce: Nonce::Null, script_pubkey: c04::addressable_script(rng), witness: TxOutWitness::default() };
    let vbf = ValueBlindingFactor::last(secp, v, abf, &[(v, AssetBlindingFactor::zero(), ValueBlindingFactor::zero())], &[]);
    let gen_ = match Asset::new_confidential(secp, a, abf) { Asset::Confidential(g) => g, _ => unreachable!() };
    let comm = Value::new_confidential(secp, v, gen_, vbf).commitment().unwrap();
    let spk = c04::addressable_script(rng);
    let sk = gen::seckey(rng);
    let rp = RangeProof::new(secp, 0, comm, v, vbf.into_inner(), &[0u8; 64], spk.as_bytes(), sk, 0, 64, gen_);
    let mut prng = R::clone(rng);
    let in_gen = zkp::Generator::new_unblinded(secp, a.into_tag());
    let sp = SurjectionProof::new(secp, &mut prng, a.into_tag(), abf.into_inner(), &[(in_gen, a.into_tag(), zkp::ZERO_TWEAK)]);
    if let (Ok(rp), Ok(sp)) = (rp, sp) {
        let tx = Transaction {
            version: 2, lock_time: LockTime::ZERO, input: vec![elements::TxIn::default()],
            output: vec![TxOut { asset: Asset::Confidential(gen_), value: Value::Confidential(comm), nonce: Nonce::Null, script_pubkey: spk,
                witness: TxOutWitness { surjection_proof: Some(Box::new(sp)), rangeproof: Some(Box::new(rp)) } }],
        };
        let r = real_verify(secp, &tx, &[utxo]);
        out.count(&format!("probe.rangeproof_64bit.verify_{}", r.split(' ').next().unwrap_or("")));
    } else {
        out.count("probe.rangeproof_64bit.not_made");
    }
}

// ------------------------------------------------------------------------------------------------
// an output whose asset commitment EQUALS a generator of the surjection domain

#[derive(Clone, Copy, PartialEq, Debug)]
enum EqIn { ConfInput, TwoConfInputs, TwoConfInputsCopySecond, ExplicitInput, ExplicitIssuance, ExplicitReissuance }
#[derive(Clone, Copy, PartialEq, Debug)]
enum EqProof { NoProof, Foreign, Own, ControlFreshAbf }

/// An otherwise balanced transaction with a target output whose asset commitment is byte-identical to a
/// domain generator: it re-uses the asset blinding factor of a confidential input of the same asset, or
/// states the asset of an explicit input / explicit issuance as a commitment with ZERO blinding factor.
/// Without a surjection proof, or with another output's proof, it is a confidential asset without a
/// valid proof: must be rejected, naming that output.  libsecp refuses to MAKE a surjection proof when any
/// input generator equals the output generator (`surjectionproof_generate` returns 0: the ring key would
/// be zero), so no correct proof exists for these outputs (`Own`: counted as own_proof_cannot_be_made; if a
/// library version ever makes one, only the K comparison applies).  The control is the same transaction
/// with a FRESH asset blinding factor on the target and the proof the library makes for it: must verify.
fn equal_generator_case(rng: &mut R, out: &mut Out, secp: &Secp256k1<All>, kind: EqIn, committed_value: bool, proof: EqProof) {
    use elements::secp256k1_zkp::{PublicKey, ZERO_TWEAK};
    use elements::{AssetIssuance, OutPoint, RangeProofMessage, Sequence, TxIn, TxInWitness, TxOutSecrets, Txid};
    let name = format!("{:?}.{}.{:?}", kind, if committed_value { "committed_value" } else { "explicit_value" }, proof);
    let zero_abf = AssetBlindingFactor::zero();
    let zero_vbf = ValueBlindingFactor::zero();
    let plain_in = |rng: &mut R| TxIn {
        previous_output: OutPoint::new(Txid::from_byte_array(gen::arr32(rng)), rng.gen_range(0..5)), is_pegin: false, script_sig: Script::new(),
        sequence: Sequence::MAX, asset_issuance: AssetIssuance::null(), witness: TxInWitness::empty(),
    };
    let explicit_utxo = |rng: &mut R, a: AssetId, v: u64| TxOut { asset: Asset::Explicit(a), value: Value::Explicit(v), nonce: Nonce::Null, script_pubkey: c04::addressable_script(rng), witness: TxOutWitness::default() };
    let conf_utxo = |rng: &mut R, a: AssetId, v: u64, abf: AssetBlindingFactor, vbf: ValueBlindingFactor| TxOut {
        asset: Asset::new_confidential(secp, a, abf), value: Value::new_confidential_from_assetid(secp, v, a, vbf, abf), nonce: Nonce::Null, script_pubkey: c04::addressable_script(rng), witness: TxOutWitness::default() };
    let a = gen::asset_id(rng);
    let total = rng.gen_range(1000..1_000_000u64);
    let mut inputs = vec![];
    let mut utxos = vec![];
    let mut spent: Vec<TxOutSecrets> = vec![];
    // (asset, abf) of the domain entry the target copies, and what is left over in other assets
    let mut other_outs: Vec<(AssetId, u64)> = vec![];
    let (t_asset, t_abf) = match kind {
        EqIn::ConfInput | EqIn::TwoConfInputs | EqIn::TwoConfInputsCopySecond => {
            // (libsecp proves through the FIRST input carrying the asset and refuses a zero blinding
            // difference: a proof for the copied generator can be made only when the copy is of a later input)
            let n = if kind == EqIn::ConfInput { 1 } else { 2 };
            let mut first = None;
            let parts = [total / 2, total - total / 2];
            for k in 0..n {
                let (abf, vbf) = (AssetBlindingFactor::new(rng), ValueBlindingFactor::new(rng));
                let v = if n == 1 { total } else { parts[k] };
                utxos.push(conf_utxo(rng, a, v, abf, vbf));
                spent.push(TxOutSecrets::new(a, abf, v, vbf));
                inputs.push(plain_in(rng));
                if first.is_none() || kind == EqIn::TwoConfInputsCopySecond { first = Some(abf); }
            }
            (a, first.unwrap())
        }
        EqIn::ExplicitInput => {
            utxos.push(explicit_utxo(rng, a, total));
            spent.push(TxOutSecrets::new(a, zero_abf, total, zero_vbf));
            inputs.push(plain_in(rng));
            (a, zero_abf)
        }
        EqIn::ExplicitIssuance | EqIn::ExplicitReissuance => {
            let b = gen::asset_id(rng);
            let bv = rng.gen_range(10..1000u64);
            utxos.push(explicit_utxo(rng, b, bv));
            spent.push(TxOutSecrets::new(b, zero_abf, bv, zero_vbf));
            other_outs.push((b, bv));
            let mut inp = plain_in(rng);
            inp.asset_issuance = AssetIssuance {
                asset_blinding_nonce: if kind == EqIn::ExplicitReissuance { gen::tweak(rng) } else { ZERO_TWEAK },
                asset_entropy: gen::arr32(rng), amount: Value::Explicit(total), inflation_keys: Value::Null,
            };
            let (x, _) = c04::oracle_ids(&inp);
            spent.push(TxOutSecrets::new(x, zero_abf, total, zero_vbf));
            inputs.push(inp);
            (x, zero_abf)
        }
    };
    let fee = rng.gen_range(1..100u64);
    let v_t = rng.gen_range(1..(total - fee - 1));
    let v_s = total - fee - v_t;
    let t_vbf = if committed_value { ValueBlindingFactor::new(rng) } else { zero_vbf };
    let t_abf = if proof == EqProof::ControlFreshAbf { AssetBlindingFactor::new(rng) } else { t_abf };
    let t_sec = TxOutSecrets::new(t_asset, t_abf, v_t, t_vbf);
    // the solver: an ordinary fully blinded output of the same asset with correct proofs
    let s_abf = AssetBlindingFactor::new(rng);
    let mut others = vec![t_sec, TxOutSecrets::new(t_asset, zero_abf, fee, zero_vbf)];
    for (b, bv) in &other_outs { others.push(TxOutSecrets::new(*b, zero_abf, *bv, zero_vbf)); }
    let s_vbf = ValueBlindingFactor::last(secp, v_s, s_abf, &spent.iter().map(|x| x.value_blind_inputs()).collect::<Vec<_>>(), &others.iter().map(|x| x.value_blind_inputs()).collect::<Vec<_>>());
    let rsk = gen::seckey(rng);
    let mut prng = R::clone(rng);
    let solver = match catch_unwind(AssertUnwindSafe(|| TxOut::with_txout_secrets(&mut prng, secp, c04::addressable_script(rng), PublicKey::from_secret_key(secp, &rsk), gen::seckey(rng), TxOutSecrets::new(t_asset, s_abf, v_s, s_vbf), &spent))) {
        Ok(Ok(o)) => o,
        _ => { out.count(&format!("equal_generator.{}.solver_not_built", name)); return; }
    };
    // the target
    let spk = c04::addressable_script(rng);
    let t_gen_asset = Asset::new_confidential(secp, t_asset, t_abf);
    let (t_value, t_rp) = if committed_value {
        match Value::Explicit(v_t).blind_with_shared_secret(secp, t_vbf, gen::seckey(rng), &spk, &RangeProofMessage::new(t_asset, t_abf)) {
            Ok((v, rp)) => (v, Some(Box::new(rp))),
            Err(_) => { out.count(&format!("equal_generator.{}.rangeproof_not_built", name)); return; }
        }
    } else {
        (Value::Explicit(v_t), None)
    };
    let t_sp = match proof {
        EqProof::NoProof => None,
        EqProof::Foreign => solver.witness.surjection_proof.clone(),
        EqProof::Own | EqProof::ControlFreshAbf => {
            let dom: Vec<_> = spent.iter().map(|x| x.surjection_inputs(secp)).collect();
            let mut made = None;
            for _ in 0..8 {
                let mut prng = R::clone(rng);
                let _: u64 = rng.gen();
                if let Ok(Ok(p)) = catch_unwind(AssertUnwindSafe(|| SurjectionProof::new(secp, &mut prng, t_asset.into_tag(), t_abf.into_inner(), &dom))) { made = Some(Box::new(p)); break; }
            }
            if made.is_none() { out.count(&format!("equal_generator.{}.own_proof_cannot_be_made", name)); return; }
            made
        }
    };
    let target = TxOut { asset: t_gen_asset, value: t_value, nonce: Nonce::Null, script_pubkey: spk, witness: TxOutWitness { surjection_proof: t_sp, rangeproof: t_rp } };
    let mut output = vec![solver, TxOut { asset: Asset::Explicit(t_asset), value: Value::Explicit(fee), nonce: Nonce::Null, script_pubkey: Script::new(), witness: TxOutWitness::default() }];
    for (b, bv) in &other_outs { output.push(explicit_utxo(rng, *b, *bv)); }
    let t = rng.gen_range(0..=output.len());
    output.insert(t, target);
    let tx = Transaction { version: 2, lock_time: LockTime::ZERO, input: inputs, output };
    // the shape is what it claims to be: the target's generator is in the domain the harness derives
    let (dom, _) = domain_and_commits(secp, &tx, &utxos);
    let in_domain = match (&dom, tx.output[t].asset) { (Some(d), Asset::Confidential(g)) => d.contains(&g), _ => false };
    out.s("equal_generator_shape_built", in_domain == (proof != EqProof::ControlFreshAbf), || format!("{} {}", name, det(&tx, &utxos)));
    let real = decide_case(out, secp, &tx, &utxos);
    out.count(&format!("equal_generator.{}", name));
    out.count(&format!("equal_generator.verdict.{:?}.{}", proof, real.split(' ').take(2).collect::<Vec<_>>().join("_")));
    let d = || format!("{} target output {} {} -> {}", name, t, det(&tx, &utxos), real);
    match proof {
        EqProof::NoProof => {
            out.s("equal_generator_without_proof_never_passes", real.starts_with("err"), &d);
            out.s("equal_generator_without_proof_names_the_output", real == format!("err SurjectionProofMissing {}", t), &d);
        }
        EqProof::Foreign => {
            out.s("equal_generator_with_foreign_proof_never_passes", real.starts_with("err"), &d);
            out.s("equal_generator_with_foreign_proof_names_the_output", real == format!("err SurjectionProofVerificationError {}", t), &d);
        }
        EqProof::Own => {
            // (not reached with the pinned libsecp: it refuses to make such a proof; K comparison only)
            out.count("equal_generator.own_proof_was_made");
        }
        EqProof::ControlFreshAbf => {
            out.s("equal_generator_control_fresh_abf_verifies", real == "ok", &d);
        }
    }
}

fn equal_generator_cases(rng: &mut R, out: &mut Out, secp: &Secp256k1<All>, rounds: usize) {
    for _ in 0..rounds {
        for kind in [EqIn::ConfInput, EqIn::TwoConfInputs, EqIn::TwoConfInputsCopySecond, EqIn::ExplicitInput, EqIn::ExplicitIssuance, EqIn::ExplicitReissuance] {
            for committed in [true, false] {
                for proof in [EqProof::NoProof, EqProof::Foreign, EqProof::Own, EqProof::ControlFreshAbf] {
                    equal_generator_case(rng, out, secp, kind, committed, proof);
                }
            }
        }
    }
}

// ------------------------------------------------------------------------------------------------
// peg-in inputs: asset and amount of EVERY input come from `spent_utxos[i]`, never from the input's own
// peg-in witness

/// turn input `p` into a peg-in input with a well-formed 6-element witness stating (value, asset)
fn make_pegin(rng: &mut R, tx: &mut Transaction, p: usize, value: u64, asset: AssetId) {
    tx.input[p].is_pegin = true;
    let (l1, l2) = (rng.gen_range(60..200), rng.gen_range(80..200));
    tx.input[p].witness.pegin_witness = vec![
        value.to_le_bytes().to_vec(),
        serialize(&asset),
        gen::bytes(rng, 32),
        c04::addressable_script(rng).into_bytes(),
        gen::bytes(rng, l1),
        gen::bytes(rng, l2),
    ];
}

fn pegin_case(rng: &mut R, out: &mut Out, secp: &Secp256k1<All>, seq: usize) {
    let blinded = seq % 3 == 2;
    let sh = Shape { n_in: 1 + seq % 3, n_assets: 1 + seq % 2, issuance: seq % 4 == 3, max_outs: 2, zero_opreturn: false, utxo_mode: if blinded { 1 } else { 0 }, conf_issuance: false, seq };
    let base = c04::base_tx(rng, secp, &sh);
    let (mut tx, utxos) = if blinded {
        match c04::lattice_tx(rng, out, secp, &base, seq) { Some(l) => (l.tx, base.utxos.clone()), None => { out.count("pegin.not_built"); return; } }
    } else {
        (base.tx.clone(), base.utxos.clone())
    };
    let p = seq % tx.input.len();
    // what the spent output says (explicit ones), and what the witness says
    let (ua, uv) = (utxos[p].asset.explicit(), utxos[p].value.explicit());
    let variant = ["agree", "amount_differs", "asset_differs", "both_differ"][(seq / 3) % 4];
    let base_v = uv.unwrap_or(1000);
    let base_a = ua.unwrap_or_else(|| gen::asset_id(rng));
    let other_a = tx.output.iter().filter_map(|o| o.asset.explicit()).find(|a| *a != base_a).unwrap_or_else(|| gen::asset_id(rng));
    let (wv, wa) = match variant {
        "agree" => (base_v, base_a),
        "amount_differs" => (if seq % 2 == 0 { base_v.wrapping_add(1 + seq as u64) } else { base_v / 2 }, base_a),
        "asset_differs" => (base_v, other_a),
        _ => (base_v.wrapping_mul(3) | 1, other_a),
    };
    make_pegin(rng, &mut tx, p, wv, wa);
    let parsed = catch_unwind(AssertUnwindSafe(|| tx.input[p].pegin_data().map(|d| (d.value, d.asset))));
    out.s("pegin_witness_parses", matches!(parsed, Ok(Some(x)) if x == (wv, wa)), || det(&tx, &utxos));
    let kind = format!("{}.{}.utxo_{}", if blinded { "partially_blinded" } else { "explicit" }, variant, shape(&utxos[p]));
    out.count(&format!("pegin.{}", kind));
    // (a) / (c): balanced against the spent outputs: verifies, whatever the witness states
    let real = decide_case(out, secp, &tx, &utxos);
    out.s("pegin_tx_balanced_against_spent_outputs_verifies", real == "ok", || format!("{} {} -> {}", kind, det(&tx, &utxos), real));
    if real != "ok" { return; }
    // (b): different spent outputs presented at the peg-in position
    let orig = (&tx, &utxos[..]);
    let bal = Some("err BalanceCheckFailed".to_string());
    let mut us = utxos.clone();
    match utxos[p].value {
        Value::Explicit(v) => {
            us[p].value = Value::Explicit(if v == u64::MAX { v - 1 } else { v + 1 });
            tampered(out, secp, "pegin_utxo_amount", &tx, &us, orig, bal.clone());
            // the amount the witness states, when it is another one
            if wv != v && wv != 0 {
                us[p].value = Value::Explicit(wv);
                tampered(out, secp, "pegin_utxo_amount_from_witness", &tx, &us, orig, bal.clone());
            }
        }
        _ => {
            us[p].value = Value::Confidential(gen::commitment(rng));
            tampered(out, secp, "pegin_utxo_value_commitment", &tx, &us, orig, None);
        }
    }
    let mut us = utxos.clone();
    us[p].asset = match utxos[p].asset { Asset::Explicit(a) => Asset::Explicit(if wa != a { wa } else { gen::asset_id(rng) }), _ => Asset::Confidential(gen::generator(rng)) };
    tampered(out, secp, "pegin_utxo_asset", &tx, &us, orig, None);
    if let (Some(a), Some(v)) = (ua, uv) {
        if (wa, wv) != (a, v) && wv != 0 {
            // exactly what the witness states, as the spent output
            let mut us = utxos.clone();
            us[p].asset = Asset::Explicit(wa);
            us[p].value = Value::Explicit(wv);
            tampered(out, secp, "pegin_utxo_as_the_witness_states", &tx, &us, orig, None);
        }
    }
}

// ------------------------------------------------------------------------------------------------
// the repository's vectors

fn between<'a>(s: &'a str, after: &str, open: &str, close: char) -> Option<&'a str> {
    let i = s.find(after)?;
    let r = &s[i..];
    let j = r.find(open)? + open.len();
    let r = &r[j..];
    let k = r.find(close)?;
    Some(&r[..k])
}
fn utxo_from(asset: &str, value: &str, spk: &str) -> TxOut {
    TxOut {
        asset: deserialize(&crate::unhex(asset)).unwrap(),
        value: deserialize(&crate::unhex(value)).unwrap(),
        nonce: Nonce::Null,
        script_pubkey: deserialize(&crate::unhex(spk)).unwrap(),
        witness: TxOutWitness::default(),
    }
}
pub fn repo_vectors(out: &mut Out) -> Vec<(String, Transaction, Vec<TxOut>)> {
    let mut v = vec![];
    // blind::tests::test_partially_blinded_tx
    if let Ok(h) = std::fs::read_to_string("/repo/tests/data/issue_tx.hex") {
        if let Ok(tx) = deserialize::<Transaction>(&crate::unhex(h.trim())) {
            let mut utxos = vec![TxOut::default(), TxOut::default(), TxOut::default(), TxOut::default()];
            utxos[0].asset = Asset::from_commitment(&crate::unhex("0ae7a52e8e4b07e00548bab151a83e5c9ab2f9a910e10dcee930a1a152a939f99e")).unwrap();
            utxos[0].value = Value::Explicit(1);
            utxos[1].asset = Asset::from_commitment(&crate::unhex("0bc226167e9ee0bb5a86c8f1478ee7d7becb7bfd4d97c26a041e628c5486a8c67a")).unwrap();
            utxos[1].value = Value::Explicit(1);
            utxos[2].asset = Asset::from_commitment(&crate::unhex("0b495dbfc356993c5ac157c3d04fadf6f198a7e35a873df482ad9e4e95daa8aa7e")).unwrap();
            utxos[2].value = Value::from_commitment(&crate::unhex("08e0ac2ab5f3c173d5e0652a2ec209a9a370a4e510178e73c2f22f9e132341abf4")).unwrap();
            utxos[3].asset = Asset::from_commitment(&crate::unhex("0aa0956d60687982d5e73d52f8c5902478754e5f0e2e5ceff5ae53fa9681c12ae1")).unwrap();
            utxos[3].value = Value::from_commitment(&crate::unhex("094b35f1e86b097ccf0b3a826570c089c724ed9cf22620937500b14acdd169e7bf")).unwrap();
            v.push(("issue_tx".to_string(), tx, utxos));
        }
    }
    // transaction::tests::verify_ct (also the doc example of verify_tx_amt_proofs)
    if let Ok(src) = std::fs::read_to_string("/repo/src/transaction.rs") {
        if let Some(h) = between(&src, "fn verify_ct()", "hex_deserialize!(\n            \"", '"') {
            if let Ok(tx) = deserialize::<Transaction>(&crate::unhex(h)) {
                v.push(("verify_ct".to_string(), tx, vec![utxo_from("0b37d4818b8ce1df5d3d0b88d140c6848029d6d85fb0f6ee270865caf53d0b82d4", "094e2cceeb8005ac14b611821c37fca757b47426afb0bb4eabe41c275d3997c046", "16001475f578ed4f7a0103182a6e92942c66350dd949dc")]));
            }
        }
    }
    // examples/tx.rs
    if let Ok(src) = std::fs::read_to_string("/repo/examples/tx.rs") {
        if let Some(h) = between(&src, "let tx: Transaction", "hex::hex!(\"", '"') {
            if let Ok(tx) = deserialize::<Transaction>(&crate::unhex(h)) {
                let u = TxOut {
                    asset: Asset::Explicit("b2e15d0d7a0c94e4e2ce0fe6e8691b9e451377f6e46e8045a86f7c4b5d4f0f23".parse().unwrap()),
                    value: Value::Explicit(21_000_000 * 100_000_000),
                    nonce: Nonce::Null,
                    script_pubkey: elements::script::Builder::new().push_int(1).into_script(),
                    witness: TxOutWitness::default(),
                };
                v.push(("examples_tx".to_string(), tx, vec![u]));
            }
        }
    }
    out.pin("repo_vectors_found", v.len() == 3, || format!("found {:?}", v.iter().map(|x| x.0.clone()).collect::<Vec<_>>()));
    v
}

pub fn run(rng: &mut R, out: &mut Out) {
    if std::env::var("EVH_DEBUG_PANIC").is_ok() { std::panic::set_hook(Box::new(|i| eprintln!("PANIC {}", i))); }
    let secp = Secp256k1::new();
    let thorough = out.tier_thorough;
    // hand-picked: the empty transaction, the length check before anything else
    let empty = Transaction { version: 2, lock_time: LockTime::ZERO, input: vec![], output: vec![] };
    let r = decide_case(out, &secp, &empty, &[]);
    out.s("empty_tx_verifies", r == "ok", || "empty".into());
    let r = decide_case(out, &secp, &empty, &[TxOut::default()]);
    out.s("length_check_first", r == "err UtxoInputLenMismatch", || "empty tx, one utxo".into());
    let t0 = std::time::Instant::now();
    // the repository's vectors verify, and every tamper of them is rejected
    for (name, tx, utxos) in repo_vectors(out) {
        let r = decide_case(out, &secp, &tx, &utxos);
        out.s("repo_vector_verifies", r == "ok", || format!("{} -> {}", name, r));
        out.count(&format!("vector.{}", name));
        if r == "ok" {
            tamper_all(rng, out, &secp, &tx, &utxos);
        }
    }
    eprintln!("c05: vectors {:?} ({} ops)", t0.elapsed(), out.k.len());
    for rep in 0..(if thorough { 6 } else { 2 }) {
        let _ = rep;
        for zs in boundary_scripts() {
            explicit_case_with(rng, out, &secp, Some(zs));
        }
    }
    for _ in 0..(if thorough { 4000 } else { 300 }) {
        explicit_case(rng, out, &secp);
    }
    eprintln!("c05: explicit {:?} ({} ops)", t0.elapsed(), out.k.len());
    for _ in 0..(if thorough { 300 } else { 30 }) {
        exact_proofs(rng, out, &secp);
    }
    eprintln!("c05: exact proofs {:?} ({} ops)", t0.elapsed(), out.k.len());
    probe_rangeproof64(rng, out, &secp);
    for seq in 0..(if thorough { 240 } else { 24 }) {
        pegin_case(rng, out, &secp, seq);
    }
    eprintln!("c05: pegin {:?} ({} ops)", t0.elapsed(), out.k.len());
    equal_generator_cases(rng, out, &secp, if thorough { 20 } else { 2 });
    eprintln!("c05: equal generator {:?} ({} ops)", t0.elapsed(), out.k.len());
    // verifying transactions with partially blinded inputs and outputs over the whole lattice (amount-only,
    // asset-only, zero-value OP_RETURN with a blinded asset, confidential issuances), each tampered
    let n_lat = if thorough { 150 } else { 6 };
    for seq in 0..n_lat {
        let sh = Shape {
            n_in: 1 + seq % 4, n_assets: 1 + seq % 2, issuance: seq % 2 == 1, max_outs: 2, zero_opreturn: seq % 3 == 0,
            utxo_mode: 1, conf_issuance: true, seq,
        };
        let base = c04::base_tx(rng, &secp, &sh);
        c04::base_record(out, &base);
        let l = match c04::lattice_tx(rng, out, &secp, &base, seq) { Some(l) => l, None => { out.count("lattice.not_built"); continue; } };
        let r = decide_case(out, &secp, &l.tx, &base.utxos);
        out.s("lattice_tx_verifies", r == "ok", || format!("kinds {:?} {} -> {}", l.kinds, det(&l.tx, &base.utxos), r));
        if r != "ok" { continue; }
        out.count("verifying_tx.lattice");
        tamper_all(rng, out, &secp, &l.tx, &base.utxos);
    }
    eprintln!("c05: lattice+tampered {:?} ({} ops)", t0.elapsed(), out.k.len());
    // verifying transactions produced as in C04, each tampered in every class at every position
    let n_tx = if thorough { 250 } else { 6 };
    let mut done = 0;
    let mut round = 0;
    // (quick tier: also bounded by the number of ops, big transactions have hundreds of tamper positions)
    let stage_start = out.k.len();
    while done < n_tx && (thorough || done < 3 || out.k.len() - stage_start < 650) {
        round += 1;
        let sh = Shape {
            n_in: if round <= 6 { round } else { rng.gen_range(1..=6) },
            n_assets: rng.gen_range(1..=3),
            issuance: rng.gen_bool(0.5),
            max_outs: 2,
            zero_opreturn: rng.gen_bool(0.25),
            utxo_mode: match round % 6 { 0 => 0, 5 => 2, _ => 1 },
            conf_issuance: true,
            seq: round,
        };
        let base = c04::base_tx(rng, &secp, &sh);
        c04::base_record(out, &base);
        let mk = c04::markable(&base.tx);
        if mk.is_empty() { continue; }
        let which: Vec<usize> = match rng.gen_range(0..3) {
            0 => mk.clone(),
            1 => vec![mk[rng.gen_range(0..mk.len())]],
            _ => { let s: Vec<usize> = mk.iter().copied().filter(|_| rng.gen_bool(0.6)).collect(); if s.is_empty() { mk.clone() } else { s } }
        };
        let m = c04::mark(rng, &secp, &base, &which);
        let oc = c04::run_blind_quiet(rng, &secp, &m.tx, &base.spent);
        let mut tx = match oc { Some(t) => t, None => { out.count("blind_failed"); continue; } };
        // every other one also gets a zero-value OP_RETURN output with a blinded asset and its surjection proof
        if round % 2 == 0 {
            if c04::append_zero_conf_asset(rng, &secp, &mut tx, &base.spent).is_some() { out.count("lattice.out.CZ_appended"); }
        }
        let r = decide_case(out, &secp, &tx, &base.utxos);
        out.s("blinded_tx_verifies", r == "ok", || format!("{} -> {}", det(&tx, &base.utxos), r));
        if r != "ok" { continue; }
        out.count("verifying_tx");
        out.count(&format!("verifying_tx.blinded_outputs.{}", which.len().min(4)));
        if base.n_issuances > 0 { out.count("verifying_tx.with_issuance"); }
        tamper_all(rng, out, &secp, &tx, &base.utxos);
        done += 1;
    }
    eprintln!("c05: blinded+tampered {:?} ({} ops)", t0.elapsed(), out.k.len());
}
