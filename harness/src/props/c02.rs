//! C02 — transaction and block ids are the consensus hashes and ignore witness data
use crate::{gen, hex, Out, Rng, R};
use crate::props::c01;
use elements::encode::{deserialize, serialize};
use elements::hashes::{sha256d, Hash};
use elements::{BlockExtData, BlockHeader, Transaction, TxInWitness, TxOutWitness};

/// genesis blocks and chain hashes (src/genesis.rs) — runs after everything else so that the random
/// stream of the checks above is unchanged
#[path = "c02_genesis.rs"]
pub mod genesis;

fn strip(t: &Transaction) -> Transaction {
    let mut s = t.clone();
    for i in s.input.iter_mut() { i.witness = TxInWitness::empty(); }
    for o in s.output.iter_mut() { o.witness = TxOutWitness::empty(); }
    s
}

/// single-field modifications, classified as witness-only (true) or non-witness (false).
/// Returns None when not applicable to this transaction.
fn modify(rng: &mut R, t: &Transaction, which: usize) -> Option<(Transaction, bool, &'static str)> {
    let mut m = t.clone();
    let ni = m.input.len();
    let no = m.output.len();
    let r = match which {
        0 => { m.version = m.version.wrapping_add(1); (false, "version") }
        1 => { m.lock_time = elements::LockTime::from_consensus(m.lock_time.to_consensus_u32() ^ 1); (false, "lock_time") }
        2 if ni > 0 => { let i = rng.gen_range(0..ni); if m.input[i].is_coinbase() || m.input[i].previous_output.vout == 0xffff_ffff { return None; } m.input[i].previous_output.vout ^= 1; if m.input[i].previous_output.vout == (1 << 30) - 1 { return None; } (false, "prevout.vout") }
        3 if ni > 0 => { let i = rng.gen_range(0..ni); let mut b = m.input[i].previous_output.txid.to_byte_array(); b[rng.gen_range(0..32)] ^= 0x10; m.input[i].previous_output.txid = elements::Txid::from_byte_array(b); (false, "prevout.txid") }
        4 if ni > 0 => { let i = rng.gen_range(0..ni); let mut b = m.input[i].script_sig.to_bytes(); b.push(0x51); m.input[i].script_sig = b.into(); (false, "script_sig") }
        5 if ni > 0 => { let i = rng.gen_range(0..ni); m.input[i].sequence = elements::Sequence(m.input[i].sequence.0 ^ 0x80); (false, "sequence") }
        6 if ni > 0 => { let i = rng.gen_range(0..ni); if m.input[i].is_coinbase() || m.input[i].previous_output.vout == (1 << 30) - 1 || m.input[i].previous_output.vout == 0xffff_ffff { return None; } m.input[i].is_pegin = !m.input[i].is_pegin; (false, "is_pegin flag") }
        7 if ni > 0 => { let i = rng.gen_range(0..ni); if !m.input[i].has_issuance() { return None; } m.input[i].asset_issuance.asset_entropy[3] ^= 1; (false, "issuance.entropy") }
        8 if ni > 0 => { let i = rng.gen_range(0..ni); if !m.input[i].has_issuance() { return None; } m.input[i].asset_issuance.amount = match m.input[i].asset_issuance.amount { elements::confidential::Value::Explicit(x) => elements::confidential::Value::Explicit(x ^ 1), _ => elements::confidential::Value::Explicit(77) }; (false, "issuance.amount") }
        9 if ni > 0 => { let i = rng.gen_range(0..ni); if !m.input[i].has_issuance() { return None; } m.input[i].asset_issuance.asset_blinding_nonce = gen::tweak(rng); (false, "issuance.nonce") }
        10 if ni > 0 => { let i = rng.gen_range(0..ni); if m.input[i].has_issuance() || m.input[i].is_coinbase() || m.input[i].previous_output.vout == 0xffff_ffff || (m.input[i].previous_output.vout == (1 << 30) - 1 && m.input[i].is_pegin) { return None; } m.input[i].asset_issuance = gen::issuance(rng, false); (false, "issuance added") }
        11 if no > 0 => { let i = rng.gen_range(0..no); let old = m.output[i].asset; loop { m.output[i].asset = gen::asset(rng); if m.output[i].asset != old { break; } } (false, "output.asset") }
        12 if no > 0 => { let i = rng.gen_range(0..no); let old = m.output[i].value; loop { m.output[i].value = gen::value(rng); if m.output[i].value != old { break; } } (false, "output.value") }
        13 if no > 0 => { let i = rng.gen_range(0..no); let old = m.output[i].nonce; loop { m.output[i].nonce = gen::nonce(rng); if m.output[i].nonce != old { break; } } (false, "output.nonce") }
        14 if no > 0 => { let i = rng.gen_range(0..no); let mut b = m.output[i].script_pubkey.to_bytes(); b.push(0x6a); m.output[i].script_pubkey = b.into(); (false, "script_pubkey") }
        15 if no > 0 => { m.output.pop(); (false, "output removed") }
        16 if ni > 1 => { m.input.swap(0, 1); if m.input[0] == m.input[1] { return None; } if strip_in_eq(&m, t) { return None; } (false, "inputs swapped") }
        // witness-only
        17 if ni > 0 => { let i = rng.gen_range(0..ni); m.input[i].witness.script_witness.push(gen::bytes(rng, 3)); (true, "script_witness") }
        18 if ni > 0 => { let i = rng.gen_range(0..ni); m.input[i].witness.pegin_witness.push(gen::bytes(rng, 5)); (true, "pegin_witness") }
        19 if ni > 0 => { let i = rng.gen_range(0..ni); m.input[i].witness.amount_rangeproof = match m.input[i].witness.amount_rangeproof { Some(_) => None, None => Some(gen::rangeproof(rng)) }; (true, "amount_rangeproof") }
        20 if ni > 0 => { let i = rng.gen_range(0..ni); m.input[i].witness.inflation_keys_rangeproof = Some(gen::rangeproof(rng)); (true, "inflation_keys_rangeproof") }
        21 if no > 0 => { let i = rng.gen_range(0..no); m.output[i].witness.rangeproof = match m.output[i].witness.rangeproof { Some(_) => None, None => Some(gen::rangeproof(rng)) }; (true, "output rangeproof") }
        22 if no > 0 => { let i = rng.gen_range(0..no); m.output[i].witness.surjection_proof = Some(gen::surjproof(rng)); (true, "output surjection proof") }
        23 => { m = strip(&m); (true, "all witnesses removed") }
        _ => return None,
    };
    if m == *t { return None; }
    Some((m, r.0, r.1))
}
fn strip_in_eq(a: &Transaction, b: &Transaction) -> bool { strip(a) == strip(b) }

fn one_tx(out: &mut Out, rng: &mut R, t: &Transaction) {
    let b = serialize(t);
    let res = Out::guard(|| format!("ok {} {}", hex(&t.txid().to_byte_array()), hex(&t.wtxid().to_byte_array())));
    out.k(format!("txid {}", hex(&b)), res);
    // definitions, against an independent hash of the real serializations
    let stripped = serialize(&strip(t));
    out.s("txid_is_hash_of_stripped", t.txid().to_byte_array() == sha256d::Hash::hash(&stripped).to_byte_array(), || hex(&b));
    out.s("wtxid_is_hash_of_full", t.wtxid().to_byte_array() == sha256d::Hash::hash(&b).to_byte_array(), || hex(&b));
    out.s("wtxid_eq_txid_iff_no_witness", (t.wtxid().to_byte_array() == t.txid().to_byte_array()) == !t.has_witness(), || hex(&b));
    out.count(if t.has_witness() { "tx.with_witness" } else { "tx.without_witness" });
    for which in 0..24 {
        if let Some((m, wit_only, name)) = modify(rng, t, which) {
            out.count(&format!("mod.{}", name.replace(' ', "_")));
            if wit_only {
                out.s("witness_change_keeps_txid", m.txid() == t.txid(), || format!("{} tx={} mod={}", name, hex(&b), hex(&serialize(&m))));
                out.s("witness_change_changes_wtxid", m.wtxid() != t.wtxid(), || format!("{} tx={} mod={}", name, hex(&b), hex(&serialize(&m))));
            } else {
                out.s("nonwitness_change_changes_txid", m.txid() != t.txid(), || format!("{} tx={} mod={}", name, hex(&b), hex(&serialize(&m))));
                out.s("nonwitness_change_changes_wtxid", m.wtxid() != t.wtxid(), || format!("{} tx={} mod={}", name, hex(&b), hex(&serialize(&m))));
            }
        }
    }
}

fn one_header(out: &mut Out, rng: &mut R, h: &BlockHeader) {
    let b = serialize(h);
    let res = Out::guard(|| { let mut c = h.clone(); c.clear_witness(); format!("ok {} {}", hex(&h.block_hash().to_byte_array()), hex(&serialize(&c))) });
    out.k(format!("blockhash {}", hex(&b)), res);
    // definition: hash of the serialization without solution / signblock witness
    let mut c = h.clone();
    c.clear_witness();
    let cb = serialize(&c);
    // cleared serialization ends with the empty solution (1 byte 0) or empty witness vector (1 byte 0)
    let pre = &cb[..cb.len() - 1];
    out.s("block_hash_is_hash_of_header_without_witness", h.block_hash().to_byte_array() == sha256d::Hash::hash(pre).to_byte_array(), || hex(&b));
    out.s("dynafed_marker_bit_in_preimage", (pre[3] & 0x80 != 0) == h.is_dynafed(), || hex(&b));
    out.s("clear_witness_keeps_hash", c.block_hash() == h.block_hash(), || hex(&b));
    out.count(if h.is_dynafed() { "header.dynafed" } else { "header.legacy" });
    // witness-only modifications
    let mut w = h.clone();
    match &mut w.ext {
        BlockExtData::Proof { solution, .. } => { let mut s = solution.to_bytes(); s.push(1); *solution = s.into(); }
        BlockExtData::Dynafed { signblock_witness, .. } => signblock_witness.push(gen::bytes(rng, 4)),
    }
    out.s("witness_change_keeps_block_hash", w.block_hash() == h.block_hash(), || hex(&b));
    // non-witness modifications
    for which in 0..8 {
        let mut m = h.clone();
        let name = match which {
            0 => { m.version ^= 1; "version" }
            1 => { let mut x = m.prev_blockhash.to_byte_array(); x[5] ^= 1; m.prev_blockhash = elements::BlockHash::from_byte_array(x); "prev" }
            2 => { let mut x = m.merkle_root.to_byte_array(); x[31] ^= 0x80; m.merkle_root = elements::TxMerkleNode::from_byte_array(x); "merkle_root" }
            3 => { m.time ^= 0x100; "time" }
            4 => { m.height = m.height.wrapping_add(1); "height" }
            5 => match &mut m.ext {
                BlockExtData::Proof { challenge, .. } => { let mut s = challenge.to_bytes(); s.push(0x51); *challenge = s.into(); "challenge" }
                BlockExtData::Dynafed { current, .. } => { let old = current.clone(); loop { *current = gen::params(rng); if *current != old { break; } } "current params" }
            },
            6 => match &mut m.ext {
                BlockExtData::Dynafed { proposed, .. } => { let old = proposed.clone(); loop { *proposed = gen::params(rng); if *proposed != old { break; } } "proposed params" }
                _ => continue,
            },
            _ => {
                // switch the header kind keeping everything else: the marker bit must separate them
                m.ext = match &m.ext {
                    BlockExtData::Proof { .. } => BlockExtData::Dynafed { current: elements::dynafed::Params::Null, proposed: elements::dynafed::Params::Null, signblock_witness: vec![] },
                    BlockExtData::Dynafed { .. } => BlockExtData::Proof { challenge: vec![].into(), solution: vec![].into() },
                };
                "header kind"
            }
        };
        out.count(&format!("hmod.{}", name.replace(' ', "_")));
        out.s("nonwitness_change_changes_block_hash", m.block_hash() != h.block_hash(), || format!("{} header={} mod={}", name, hex(&b), hex(&serialize(&m))));
    }
}

/// the driver's executable SHA-256 against the real one, every length across three blocks
pub fn sha_selftest(out: &mut Out, rng: &mut R) {
    use elements::hashes::sha256;
    for n in (0..200).chain([255, 256, 257, 1000, 4096]) {
        let b = gen::bytes(rng, n);
        out.k(format!("sha {}", hex(&b)), format!("ok {} {}", hex(&sha256::Hash::hash(&b).to_byte_array()), hex(&sha256d::Hash::hash(&b).to_byte_array())));
    }
}

pub fn run(rng: &mut R, out: &mut Out) {
    c01::cfg_line(out);
    sha_selftest(out, rng);
    let scale = if out.tier_thorough { 15 } else { 1 };
    for _ in 0..150 * scale {
        let t = gen::tx(rng);
        one_tx(out, rng, &t);
    }
    for (a, b) in [(0xfc, 1), (0xfd, 2), (2, 0xfd)] {
        { let t = gen::tx_wide(rng, a, b); one_tx(out, rng, &t); }
    }
    for v in c01::harvest_hex() {
        if let Ok(t) = deserialize::<Transaction>(&v) { one_tx(out, rng, &t); out.count("repo_vector_tx"); }
        if let Ok(bk) = deserialize::<elements::Block>(&v) {
            out.count("repo_vector_block");
            one_header(out, rng, &bk.header);
            out.s("block_hash_eq_header_hash", bk.block_hash() == bk.header.block_hash(), || hex(&v));
        }
    }
    // edge cases first: dynafed headers with null/null, null/compact, compact/null parameters, legacy with empty scripts
    {
        use elements::dynafed::Params;
        let mk = |c: Params, p: Params, rng: &mut R| { let mut h = gen::header(rng); h.ext = BlockExtData::Dynafed { current: c, proposed: p, signblock_witness: vec![] }; h };
        let compact = loop { let p = gen::params(rng); if p.is_compact() { break p; } };
        let full = loop { let p = gen::params(rng); if p.is_full() { break p; } };
        for (c, p) in [(Params::Null, Params::Null), (Params::Null, compact.clone()), (compact.clone(), Params::Null), (full.clone(), Params::Null), (Params::Null, full.clone())] {
            let h = mk(c, p, rng);
            one_header(out, rng, &h);
        }
        let mut h = gen::header(rng);
        h.ext = BlockExtData::Proof { challenge: vec![].into(), solution: vec![].into() };
        one_header(out, rng, &h);
        let mut h = gen::header(rng);
        h.ext = BlockExtData::default();
        one_header(out, rng, &h);
    }
    for _ in 0..150 * scale {
        let h = gen::header(rng);
        one_header(out, rng, &h);
    }
    // every length / count prefix hashed into an id on both sides of each compact-size boundary: the ids are the
    // hashes of the CONSENSUS serialization (the model writes minimal prefixes), not of whatever the encoder writes
    for l in [0xfcusize, 0xfd, 0xfe, 0xffff, 0x10000] {
        // (the model's SHA-256 runs at ~30 kB/s in the driver: the two large sizes are used once per kind of prefix)
        out.count("boundary.compact_size");
        let big = l > 0xfe;
        let mut t = gen::tx_wide(rng, 1, 1);
        t.input[0].script_sig = elements::Script::from(gen::bytes(rng, l));
        one_tx(out, rng, &t);
        if l == 0x10000 { continue; }
        if !big {
            let mut t = gen::tx_wide(rng, 1, 1);
            t.output[0].script_pubkey = elements::Script::from(gen::bytes(rng, l));
            one_tx(out, rng, &t);
        }
        let mut t = gen::tx_wide(rng, 1, 1);
        t.input[0].witness.script_witness = vec![gen::bytes(rng, l)];
        one_tx(out, rng, &t);
        let mut h = gen::header(rng);
        h.ext = BlockExtData::Proof { challenge: gen::bytes(rng, l).into(), solution: gen::bytes(rng, 3).into() };
        one_header(out, rng, &h);
        if !big {
            let mut h = gen::header(rng);
            h.ext = BlockExtData::Proof { challenge: gen::bytes(rng, 3).into(), solution: gen::bytes(rng, l).into() };
            one_header(out, rng, &h);
        }
        let f = elements::dynafed::FullParams::new(gen::bytes(rng, 5).into(), 3, elements::bitcoin::ScriptBuf::from_bytes(gen::bytes(rng, 22)), gen::bytes(rng, if big { 7 } else { l }), (0..l).map(|i| vec![i as u8; (i % 3 == 0) as usize]).collect());
        let mut h = gen::header(rng);
        h.ext = BlockExtData::Dynafed { current: elements::dynafed::Params::Full(f), proposed: elements::dynafed::Params::Null, signblock_witness: vec![gen::bytes(rng, if big { 9 } else { l })] };
        one_header(out, rng, &h);
    }
    genesis::run(rng, out);
}
